#!/bin/bash
# usage: check.sh <property-id> [quick|thorough] [extra vcheck run flags]
# Rebuilds the simulator from /repo's current working tree (hooks on: -tags verif) and runs
# one property's check. Exit 0 = held, 1 = VIOLATION line printed, 2 = build/harness trouble.
set -u
PROP="${1:?property id}"
TIER="${2:-${VERIF_TIER:-quick}}"
shift; [ $# -gt 0 ] && shift
export GOFLAGS=-mod=mod GOPROXY=off GOSUMDB=off GOTOOLCHAIN=local CGO_ENABLED=1
VERIF_DIR="$(cd "$(dirname "$0")" && pwd)"
export VERIF_DIR
GO=go1.26.8
command -v $GO >/dev/null 2>&1 || GO=/opt/veriftools/go1.26.8/bin/go
mkdir -p "$VERIF_DIR/bin" "$VERIF_DIR/evidence" "$VERIF_DIR/replays"
(
  flock 9
  cd "$VERIF_DIR/sim" || exit 2
  cmp -s /repo/go.sum go.sum.repo 2>/dev/null || { cp /repo/go.sum go.sum.repo; cat go.sum.repo go.sum 2>/dev/null | sort -u > go.sum.new && mv go.sum.new go.sum; }
  $GO test -c -vet=off -tags verif -o "$VERIF_DIR/bin/vcheck.new" ./cmd/vcheck || exit 2
  # bin/vcheck (what MANIFEST's replay_cmd_template runs) is always the binary of the LAST build,
  # i.e. built from the same /repo tree as the check that wrote the replay file
  cp -f "$VERIF_DIR/bin/vcheck.new" "$VERIF_DIR/bin/vcheck.tmp.$$" && mv -f "$VERIF_DIR/bin/vcheck.tmp.$$" "$VERIF_DIR/bin/vcheck"
  mv -f "$VERIF_DIR/bin/vcheck.new" "$VERIF_DIR/bin/vcheck.$PROP"
) 9>"$VERIF_DIR/bin/.build.lock"
rc=$?
if [ $rc -ne 0 ]; then
  echo "HARNESS-ERROR property=$PROP: build failed (see above)"
  exit 2
fi
cd "$VERIF_DIR" || exit 2
exec "$VERIF_DIR/bin/vcheck.$PROP" run -prop "$PROP" -tier "$TIER" "$@"
