#!/usr/bin/env python3
"""Rewrites the block between <!-- FINDINGS-BEGIN --> and <!-- FINDINGS-END --> in DESIGN.md from known-findings.json."""
import json,re
d=json.load(open('/verif/known-findings.json'))['findings']
rows=[]
seen=set()
for f in sorted(d,key=lambda x:(x['property'],x['status']!='fixed',x.get('commit',''),x['class'])):
    key=(f['property'],f['status'],f.get('commit',''),f['what'][:80])
    same=[g['class'] for g in d if (g['property'],g['status'],g.get('commit',''),g['what'][:80])==key]
    if key in seen: continue
    seen.add(key)
    status = "fixed `%s`"%f['commit'] if f['status']=='fixed' else "**known**"
    what=f['what'].replace('|','/')
    rows.append("| %s | %s | %s | %s |"%(f['property'],'<br>'.join('`%s`'%c for c in same),what,status))
block="<!-- FINDINGS-BEGIN -->\n| prop | class(es) | what fails | status |\n|---|---|---|---|\n"+"\n".join(rows)+"\n<!-- FINDINGS-END -->"
s=open('/verif/DESIGN.md').read()
if '<!-- FINDINGS-BEGIN -->' in s:
    s=re.sub(r'<!-- FINDINGS-BEGIN -->.*?<!-- FINDINGS-END -->',lambda m:block,s,flags=re.S)
else:
    # replace the hand-written table of 9.2
    a=s.index('| prop | class | what fails | status |')
    b=s.index('\n\nDiagnostics that are **not** claimed')
    s=s[:a]+block+s[b:]
open('/verif/DESIGN.md','w').write(s)
print(len(rows),"rows;",sum(1 for f in d if f['status']=='fixed'),"fixed entries,",sum(1 for f in d if f['status']=='known'),"known entries")
