#!/bin/bash
# usage: mutant.sh <patch.diff|-> <property-id> [tier] [extra vcheck run flags]
# Applies a patch to a scratch copy of /repo's working tree (outside /repo and /verif), builds
# the simulator against that copy and runs one property's check with a private VERIF_DIR, so
# that neither /repo nor /verif/evidence is touched. Prints the check's output and exit code,
# then removes the scratch copy. Used for sensitivity tests (does the check catch this change?).
set -u
PATCH="${1:?patch file or - for none}"; PROP="${2:?property}"; TIER="${3:-quick}"
shift; shift; [ $# -gt 0 ] && shift
export GOFLAGS=-mod=mod GOPROXY=off GOSUMDB=off GOTOOLCHAIN=local CGO_ENABLED=1
GO=go1.26.8; command -v $GO >/dev/null 2>&1 || GO=/opt/veriftools/go1.26.8/bin/go
SCR=$(mktemp -d /tmp/mutant.XXXXXX)
trap 'rm -rf "$SCR"' EXIT
mkdir -p "$SCR/repo" "$SCR/verif/bin"
# copy the working tree (tracked + untracked sources), not .git
rsync -a --exclude .git --exclude 'core/statestate_test' /repo/ "$SCR/repo/"
if [ "$PATCH" != "-" ]; then
  (cd "$SCR/repo" && patch -p1 --no-backup-if-mismatch < "$PATCH") || { echo "MUTANT: patch does not apply"; exit 3; }
fi
cp /verif/known-findings.json "$SCR/verif/" 2>/dev/null
sed "s#=> /repo#=> $SCR/repo#; s#=> ./third_party/quicstub#=> /verif/sim/third_party/quicstub#" /verif/sim/go.mod > "$SCR/go.mod"
cp /verif/sim/go.sum "$SCR/go.sum"
(cd /verif/sim && $GO test -c -vet=off -modfile="$SCR/go.mod" -tags verif -o "$SCR/verif/bin/vcheck" ${MUTANT_PKG:-./cmd/vcheck}) || { echo "MUTANT: build failed"; exit 2; }
cd "$SCR/verif"
VERIF_DIR="$SCR/verif" ./bin/vcheck run -prop "$PROP" -tier "$TIER" "$@"
rc=$?
echo "MUTANT-RESULT property=$PROP exit=$rc"
if [ -n "${MUTANT_KEEP_REPLAYS:-}" ] && [ -d "$SCR/verif/replays" ]; then mkdir -p "$MUTANT_KEEP_REPLAYS" && cp "$SCR/verif/replays/"* "$MUTANT_KEEP_REPLAYS/" 2>/dev/null; fi
exit $rc
