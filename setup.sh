#!/bin/bash
# Builds the simulator once (warms the Go build cache); every check rebuilds anyway.
set -u
export GOFLAGS=-mod=mod GOPROXY=off GOSUMDB=off GOTOOLCHAIN=local CGO_ENABLED=1
VERIF_DIR="$(cd "$(dirname "$0")" && pwd)"
GO=go1.26.8
command -v $GO >/dev/null 2>&1 || GO=/opt/veriftools/go1.26.8/bin/go
mkdir -p "$VERIF_DIR/bin" "$VERIF_DIR/evidence" "$VERIF_DIR/replays"
cd "$VERIF_DIR/sim" || exit 2
$GO test -c -vet=off -tags verif -o "$VERIF_DIR/bin/vcheck" ./cmd/vcheck
