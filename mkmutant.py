#!/usr/bin/env python3
"""usage: mkmutant.py <out.diff> <repo-relative-file> <old> <new>  — writes a unified diff replacing old by new (exactly one occurrence) in /repo/<file>"""
import sys, difflib
out, rel, old, new = sys.argv[1:5]
s = open('/repo/' + rel).read()
assert s.count(old) == 1, "old text occurs %d times" % s.count(old)
t = s.replace(old, new)
d = difflib.unified_diff(s.splitlines(True), t.splitlines(True), 'a/' + rel, 'b/' + rel)
open(out, 'a').write(''.join(d))
print("wrote", out)
