#!/bin/bash
# usage: seed_eval.sh <seeded-id> <property> <worktree> <demo-path-in-repo> <go-test-pkg> <go-test-run-regex> [tier] [extra vcheck flags]
# Confirms a seeded change produced by an independent sub-agent and runs our check against it:
#  1. copies patch.diff, the demo and notes.md from <worktree>-scratch into /verif/seeded/<id>/
#  2. in a fresh scratch copy of /repo: demo must PASS without the patch and FAIL with it; the touched package's
#     existing tests must pass with the patch (demo excluded)
#  3. runs /verif/mutant.sh with the patch for <property>; records everything in meta.json
set -u
ID="$1"; PROP="$2"; WT="$3"; DEMO="$4"; PKG="$5"; RUN="$6"; TIER="${7:-quick}"; shift 6; [ $# -gt 0 ] && shift
export GOFLAGS="-mod=mod ${SEED_GOFLAGS_EXTRA:-}" GOPROXY=off GOSUMDB=off
D=/verif/seeded/$ID; mkdir -p "$D"
cp "$WT-scratch/patch.diff" "$D/patch.diff" || exit 2
cp "$WT-scratch/notes.md" "$D/notes.md" 2>/dev/null
cp "$WT/$DEMO" "$D/$(basename $DEMO)" || exit 2
SCR=$(mktemp -d /tmp/seedeval.XXXXXX); trap 'rm -rf "$SCR"' EXIT
rsync -a --exclude .git --exclude core/statestate_test /repo/ "$SCR/repo/"
cp "$D/$(basename $DEMO)" "$SCR/repo/$DEMO"
cd "$SCR/repo"
go test -count=1 -run "$RUN" "$PKG" > "$SCR/clean.log" 2>&1; clean_rc=$?
patch -p1 --no-backup-if-mismatch < "$D/patch.diff" > "$SCR/patch.log" 2>&1 || { echo "patch does not apply to /repo HEAD"; cat "$SCR/patch.log"; exit 3; }
go test -count=1 -run "$RUN" "$PKG" > "$SCR/patched.log" 2>&1; patched_rc=$?
rm -f "$SCR/repo/$DEMO"
go build ./... > "$SCR/build.log" 2>&1; build_rc=$?
timeout 900 go test -count=1 "$PKG" > "$SCR/suite.log" 2>&1; suite_rc=$?
cd /verif
start=$(date +%s)
out=$(/verif/mutant.sh "$D/patch.diff" "$PROP" "$TIER" "$@" 2>&1)
echo "$out" | grep -v "^\s" | cut -c1-400 | tail -40 > "$D/check-output.txt"
rc=$(echo "$out" | grep -o 'MUTANT-RESULT.*exit=[0-9]*' | grep -o '[0-9]*$')
classes=$(echo "$out" | grep -o 'class=[^ ]* runs=[0-9]*' | tr '\n' ' ')
wall=$(( $(date +%s)-start ))
python3 - "$D" "$ID" "$PROP" "$clean_rc" "$patched_rc" "$build_rc" "$suite_rc" "${rc:-?}" "$classes" "$wall" "$TIER" "$PKG" "$RUN" "$DEMO" <<'PY'
import json,sys,os
d,id_,prop,clean,patched,build,suite,rc,classes,wall,tier,pkg,run,demo=sys.argv[1:15]
notes=open(os.path.join(d,'notes.md')).read() if os.path.exists(os.path.join(d,'notes.md')) else ''
meta={"id":id_,"breaks_property":prop,
 "source":"independent sub-agent that saw only the property text and a scratch worktree of /repo (nothing from /verif)",
 "confirmed":{"demo":demo,"demo_cmd":"go test -count=1 -run '%s' %s"%(run,pkg),
   "demo_on_unchanged_tree":"pass" if clean=="0" else "FAIL(rc=%s)"%clean,
   "demo_with_change":"fail" if patched!="0" else "PASSES(!)",
   "builds_with_change":build=="0","existing_tests_of_touched_package_with_change":"pass" if suite=="0" else "rc=%s"%suite},
 "our_check":{"cmd":"./mutant.sh seeded/%s/patch.diff %s %s"%(id_,prop,tier),"exit":rc,"caught":rc=="1","classes":classes.strip(),"wall_s":int(wall)},
 "needs_to_manifest":"see notes.md"}
json.dump(meta,open(os.path.join(d,'meta.json'),'w'),indent=1)
print(json.dumps(meta["confirmed"]), json.dumps(meta["our_check"]))
PY
