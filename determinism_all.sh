#!/bin/bash
# usage: determinism_all.sh [n]  — determinism self-test of every part of every claimed property: n runs (default 16),
# each executed in 5 OS processes with GOMAXPROCS 1/4/16/2/8; full-trace digests must be identical.
N="${1:-16}"
cd "$(dirname "$0")" || exit 2
export GOFLAGS=-mod=mod GOPROXY=off GOSUMDB=off GOTOOLCHAIN=local CGO_ENABLED=1
GO=go1.26.8; command -v $GO >/dev/null 2>&1 || GO=/opt/veriftools/go1.26.8/bin/go
mkdir -p bin
(cd sim && $GO test -c -vet=off -tags verif -o ../bin/vcheck.det ./cmd/vcheck) || exit 2
rc=0
for p in $(python3 -c "import json;print(' '.join(c['property_id'] for c in json.load(open('MANIFEST.json'))['checks']))"); do
  out=$(VERIF_DIR=$PWD ./bin/vcheck.det determinism -prop $p -n $N 2>&1 | grep "^determinism")
  echo "$out"
  echo "$out" | grep -qv " 0 mismatches" && rc=1
done
exit $rc
