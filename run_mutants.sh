#!/bin/bash
# usage: run_mutants.sh <glob-pattern> [extra vcheck flags]   — runs mutant.sh for every matching /verif/mutants/*.diff
# with the property taken from the file name prefix; appends one line per mutant to /verif/mutants/RESULTS.txt
PAT="${1:?pattern}"; shift
for f in /verif/mutants/$PAT; do
  prop=$(basename "$f" | cut -d- -f1)
  start=$(date +%s)
  out=$(/verif/mutant.sh "$f" "$prop" quick "$@" 2>&1)
  rc=$(echo "$out" | grep -o 'MUTANT-RESULT.*exit=[0-9]*' | grep -o '[0-9]*$')
  classes=$(echo "$out" | grep -o 'class=[^ ]* runs=[0-9]*' | tr '\n' ' ')
  echo "$(date -u +%FT%TZ) $(basename $f) exit=${rc:-?} wall=$(( $(date +%s)-start ))s $classes" | tee -a /verif/mutants/RESULTS.txt
done
