#!/usr/bin/env python3
"""Generates /verif/MANIFEST.json from the table below (kept in one place so that the
manifest stays valid and consistent with what is registered in the simulator)."""
import json, subprocess, os

HERE = os.path.dirname(os.path.abspath(__file__))

# property -> (level category, engine/world, technique, level text, level note)
CHECKS = {
 "C06": ("exploration", "CHAIN",
   "deterministic simulation of real builder and importer nodes: seeded histories of 20-45 blocks (thorough 30-70) built by the real miner.worker/TxPool/staking over the forge engine, imported by 2-4 real verifying nodes with different histories (one by one, seeded batches, restart from disk every 1-4 blocks, TrieDB cap, competing fork first and the main chain as a side chain), 6-16 scratch re-executions of every block on fresh state objects plus repeated whole imports; full raw-state, receipt and log comparison against the builder",
   "Every built block (main chain and forks) must be accepted unchanged by every importer; canonical block, raw dump of the three tries (storage, code, delegation blobs) and stored receipts must equal the builder's. Map-order dependence is probed by repetition inside one process (fresh objects, Go's per-map random iteration seed); a dependence that shows in fewer than about 1 of 16 executions is likely missed within a run. Sampling, not proof.",
   "Trusts: the forge (honest quorums). Protocol parameters of YouV5 are scaled per run (period 4-8 blocks etc.). Not decided: certificate blocks, versions below 5, blocks produced by real consensus rounds (NET), crashes inside an import (C11)."),
 "C07": ("exploration", "CHAIN",
   "deterministic simulation as C06 with the generator biased towards value movement (transfers, contract calls, validator create/deposit/withdraw/status/settle, delegation add/sub/settle, evidences, inactivity) over many scaled staking periods; after every block a full raw enumeration of the head state against the conservation identity with a simulator-owned escrow ledger, plus per-block subsidy, fee, penalty, withdraw-record and settlement clauses, repeated on a node reopened from disk",
   "Identity: sum(balances) + sum(validator tokens) + sum(unfinished withdrawals) + sum(RewardsDistributable) + role pools + global residue + escrow == genesis total, after every block; losses are classified by independent signatures so that a known cause is told from a new one. Sampling, not proof.",
   "Known findings: gas-refund minting (same root cause as the C17 finding; needs a version-gated consensus change) and LU-level settlement residue lost when an emptied validator is deleted. Escrow comes from the simulator's own ledger (receipt status + the payload it signed)."),
 "C11": ("fault_enumeration", "CHAIN",
   "seeded block-tree and offer-schedule generation (in order, out of order, duplicated, batched, interleaved forks, 11 invalid variants, future blocks) against the real InsertChain, combined with crash-point enumeration over the simulated disk's write log (restart of Prefix(k) through the real constructors) and differential non-wedging against the never-crashed node",
   "A crash point follows every logical database write of the enumerated offers (all points unless a cap of 24/60 forces a stratified sample). On the live node and on every restarted image: canonical index parent-linked from genesis to head, head state opens with the header's roots, tx lookups point into canonical blocks, every canonical block byte-identical to a valid generated block; after re-offering the interrupted offer plus one further valid block the image must reach the live node's head and state. Trees and schedules are sampled.",
   "Crash model: process death; completed puts/batches durable. Known findings: the head switch is not one atomic write (8 class@window entries, repair is a restructuring). Not decided: fast-sync/light paths, SetHead, concurrent InsertChain callers."),
 "C01": ("exploration", "CHAIN+FORGE",
   "deterministic simulation with a Byzantine block forger: seeded validator sets, protocol tables and real chains (look-back state from the real block-building path); by-construction labelled forgeries (legitimate weight below quorum, compensated with exactly one class of illegitimate material) and positive controls offered to five real verifier paths; independent quorum oracle",
   "Every forgery must be rejected on VerifyHeader, VerifySeal, VerifySideChainHeader and both InsertChain paths (a verifier crash counts as not rejected); every control (honest block, boundary-at-quorum, super-quorum) accepted. 36 forgery kinds. Honest statement of fit: the acceptance function has no schedule in it; the simulation contributes the Byzantine party and real look-back state. Sampling over validator sets, tables and chain lengths.",
   "Quorum = floor(T*685/1000) with T from the protocol table in force, never from the header or OverThreshold. Two known findings (zero-seat proposer: repair blocked by an existing test; rogue BLS key: needs proof of possession). Certificate sections of certificate rounds not reached (ACoCHTFrequency constant)."),
 "C17": ("exploration", "CHAIN",
   "seeded deterministic simulation of real builder, importer and rival nodes (synctest bubble, forge consensus) with history-level fault injection on transactions and blocks (resubmission before/after inclusion/reorg/restart, wrong-network and high-s twins, single-field mutations, byte corruption, Byzantine proposers force-including refused transactions); registry-based history oracle that re-derives every sender independently",
   "Authenticity, at-most-once, nonce sequence and exact charge are evaluated on every node's canonical chain after every event against a registry of everything the simulator signed; senders are re-derived with plain secp256k1 recovery over a preimage computed by the harness. Sampling, not proof.",
   "The 'any field change alters the sender' clause is only sampled (9 single-field mutations + byte corruption). One known finding: SSTORE-refund transactions are charged post-refund while receipts/header carry pre-refund gas (needs a version-gated consensus change)."),
 "C20": ("exploration", "POOL",
   "seeded simulation of the real core.TxPool in a synctest bubble with a schedule gate (hook H4) on its background reorg worker, so that every foreground/background interleaving is a seeded choice; invariant oracles over the exported views at every quiescent point",
   "Seeded search over operation sequences (local/remote adds of valid/underpriced/replacing/gapped/unaffordable/duplicate transactions, head changes incl. reorg-shaped resets that re-inject dropped transactions, clock jumps, SetGasPrice) and runReorg/foreground interleavings. Views must agree with each other, pending must be gap-free/affordable from the head state's nonce, queued above, limits as documented in the TxPoolConfig comments (locals exempt). Sampling, not proof.",
   "Not decided: the data-race clause (no -race part was built), the journal (needs the file system; disabled), sequences continuing after a global-queue truncation (its outcome depends on Go map order; runs end there). Three low-severity limit findings are recorded as known."),
 "C05": ("exploration", "NET+CHAIN",
   "deterministic simulation in three parts: (1) history oracle — every signature honest engines emit in the NET simulation (seeded schedules, message faults, crash/restart) is recorded, every evidence assemblable from one validator's own signatures is replayed into the real slashing code (builder and validator path) on scratch head states; (2) Byzantine fault — a validator really equivocates on a chain grown by the real block-building path, with evidence duplication/replay/late/forged variants; (3) staking histories — evidences against validators with delegations of every size and unfinished withdraw records of validators and delegators (generator of C07/chain), per-validator loss judged block by block against the block's slashing record and the fraction bound",
   "Part 1 decides 'an honest validator is never slashable' over recorded histories of real engines; part 2 decides acceptance by builder and validator alike and exactly-once for real equivocation; part 3 decides 'never more than the configured fraction of its stake and pending withdrawals' on states only real histories produce. Sampling, not proof. One genuine, unrepairable-without-protocol-change defect is recorded as known findings (classes honest-validator-slashable:different-hashes:<kinds>): the signed vote payload carries no vote kind.",
   "Trusts: the forge for growing chains (genuine credentials/quorums); NET stand-ins as in C02. Every other evidence accepted against an honest validator (e.g. two prevotes, which would also be a C02 violation) is still reported."),
 "C08": ("exploration", "STATE+CHAIN",
   "seeded operation plans over the real StateDB with abort (revert), restart, cap-flush and copy-switch faults and a recomputation oracle after every operation and after reload (STATE part); the same clauses evaluated after every block of seeded chain histories produced by the real staking handlers, on the builder and on a node reopened from disk (CHAIN part)",
   "Statistics per role/kind, the address index, delegator/validator links and per-validator sums are recomputed from the records after every operation and on reopened/restarted states. The per-validator sum clauses are decided here only for StateDB's preservation of caller-maintained values; the real staking handlers' arithmetic is decided in the CHAIN part. Sampling, not proof.",
   "Callers are operation patterns annotated with the production site they imitate; RemoveValidator (no production caller) is not driven; staleness of the GetValidators() per-object cache is counted as a diagnostic, not a violation."),
 "C10": ("fault_enumeration", "STATE",
   "recorded seeded plans with exhaustive crash-point enumeration over every commit window (simdisk Prefix(k) + recovery by re-import), restart/reopen reload oracles (getters and raw trie dump), copy equality/independence/commit, and regroup/permute rebuilds that must give identical roots",
   "Within each run every disk-write index of every commit window is opened as a crash point: the previous triple must read identically and each new root is absent or complete. Plans, copy points, Cap limits, regroupings and permutations are sampled.",
   "Crash model: process death, completed puts/batches durable. Each root is judged individually here; the three roots as a triple belong to C11."),
 "C16": ("fault_enumeration", "EVM",
   "abort-point enumeration: a seeded multi-contract program is recorded once under vm.Tracer and re-run once per reachable step with out-of-gas placed there (transaction gas or patched inner gas operand) plus generated natural failures (REVERT, INVALID, static violation, depth, balance, collision, code size); whole-state observations through vm.StateDB getters around every failed and every static frame",
   "Traces with <= 96 placements are fully enumerated (about 45% of programs), the rest get an evenly spaced seeded sample; placement is verified after the fact. Multi-transaction programs on one StateDB create the snapshot-after-Finalise situation of C09. No scheduler: plain seeded loops.",
   "The oracle uses only the Tracer and state getters, never RevertToSnapshot; exemptions are those of the EVM specification (gas, creator nonce). Address 0x03 excluded (deliberate RIPEMD touch exception)."),
 "C13": ("exploration", "TRIE",
   "deterministic seeded model-based simulation with fault injection (restart on durable data after every database commit, garbage collection of other roots, cache flush, proof corruption as a network fault) against a map model and an independent Merkle-Patricia root calculator",
   "Seeded operation/GC/Cap/restart schedules over trie.Trie/SecureTrie on trie.Database over the simulated disk. Inside each run the durable image is re-read cold after every Database.Commit (all crash points of the batch-atomic disk model). The root oracle is a second MPT implementation pinned to published vectors; proofs are tampered byte by byte. Sampling of schedules, not proof.",
   "Honest fit: the node-database half (commit/reference/dereference/cap/restart) is a real simulation target; the pure-map half rides along in the same loop. Reference/Dereference/Cap are driven by go-ethereum's GC contract (Dereference/Cap have no production caller here)."),
 "C19": ("exploration", "TRIE",
   "deterministic seeded simulation of requester and responder around the real trie/state sync scheduler, responses entering through the downloader's real processNodeData and commit (hook H5b), with response faults (late, twice, never, corrupted, unrequested, regrouped, reordered) and interruption/restart (crash, crash between two puts of a commit, graceful cancel, pivot move)",
   "Seeded search over source shapes (raw/secure tries, whole states with shared storage/code, validators, delegation blobs, staking records), response schedules and interruption points. The closure invariant (a stored node has all its children/code/blobs stored) is evaluated at every durable write and every put prefix, so a partially filled trie can never be presented as complete; on completion the destination equals the source. Sampling, not proof.",
   "Stubbed: trieSync.loop/assignTasks/fillTasks (map-ordered), peers and timeouts. The downloader's hash-and-match code and commit are real."),
 "C18": ("exploration", "DLQ",
   "seeded deterministic simulation of the real download queue and peer bookkeeping inside a synctest bubble: the simulator plays header processor, fetcher, remote peers (complete/partial/empty/wrong/reordered/duplicate/unsolicited/stalled), expirer, dropper, importer and clock one call at a time; history oracle on Results plus pool census after every call; bounded-liveness quiet phase",
   "Seeded search over interleavings and peer fault sequences on the real queue (full and fast sync). Results must be gap-free, repeat-free, in order from the origin, each with a body matching the header's tx root, and nothing is released for a block never honestly delivered; after faults stop and one honest peer keeps answering, the range completes within a generous step bound. Sampling, not proof.",
   "Not driven: Downloader.Synchronise goroutine machinery, the real PeerSet (map-order), you/fetcher, header skeleton, light sync. Revoke/Cancel are driven per their doc comments (no production caller in this tree)."),
 "C03": ("exploration", "VOTER+NET",
   "deterministic simulation: real consensus engines under seeded schedules and faults; shadow tally of every delivered vote frame per node as reference model; every announced commit re-verified by the other nodes' real import path",
   "Seeded search over schedules/fault sequences of the whole engine. The simulator knows exactly which vote frames it delivered to which node and keeps a shadow tally (sender -> verified weight per (round, index, kind, block)); a precommit signed without a delivered prevote quorum for exactly that block, a commit the node's own chain or another honest node rejects, or two commits at one height are violations. Sampling, not proof.",
   "Trusts: the weight carried in a vote frame that the real engine accepted (sortition proofs are verified by the engine itself before the frame counts; the VOTER part re-verifies them independently); quorum = floor(0.685*committee size) computed from the protocol table, not from OverThreshold."),
 "C12": ("exploration", "VERSION",
   "deterministic multi-party simulation: seeded proposer sequences (honest parties with heterogeneous locally-known version tables, Byzantine proposers mutating the five version fields) over the real builder/verifier, checked against a small reference state machine of the upgrade protocol",
   "Seeded search over header histories with adversarial field choices restricted to what every honest verifier accepts, for scaled-down parameter tables. The reference model is written from the property text; a violation must hold under both readings of the voting window boundary. Sampling, not proof.",
   "Trusts: nothing of the implementation in the oracle. Honest statement of fit: the two functions are pure; the adversity is Byzantine choice and node heterogeneity, no clock/disk/scheduler exists to simulate (DESIGN.md C12). MinUpgradeWaitRounds=0 (outside production ranges) is excluded; see DESIGN.md."),
 "C14": ("exploration", "NET+CHAIN+SYNC seams",
   "seam monitors and corruption faults on three deterministic simulations: (net-seams) decode/re-encode identity of every consensus frame and typed record honest NET nodes emit, corrupted frames into the real consensus message path; (chain-seams) every record and chain object that real staking histories write to the simulated disk (headers, bodies, receipts, tx lookups, transactions with staking payloads, slash data and evidences, consensus data and vote containers, account/validator/statistics/index/withdraw-queue/staking-record leaves, delegation blobs) decoded and re-encoded with the real codecs, and their corrupted versions offered to the real typed decoders, to the staking handlers (scratch state and real blocks) and to slash-data replay; (sync-seams) a real ProtocolManager (fetcher, downloader, handlers) over a real chain served to simulated hostile peers over p2p.MsgPipe (hook H8): every message code valid, corrupted and semantically hostile, with an honest probe peer",
   "Corruptions: bit flips, truncation, extension, size-field attacks (incl. chains of decreasing huge sizes), non-canonical encodings and canonical encodings of the wrong shape. Oracles: emitted bytes are canonical and round-trip; an accepted byte string re-encodes to exactly those bytes; no panic (a panic on a goroutine of the node is a process-crash class), bounded allocation, the node stays responsive to an honest peer and its head does not move on rejected input. Values are those the simulated systems produce plus seeded mutations of them: a simulator cannot explore a codec's input space (DESIGN.md C14).",
   "Not decided: value shapes no history produces (legacy evidences, inactivity evidences, VoteDB records on the chain disk); fast/light sync paths; more than one downloader-registered peer (the fetcher/downloader pick peers with unseeded randomness or map order). Panics of state readers on a locally corrupted database are counted as diagnostics, not violations (outside the statement)."),
 "C02": ("exploration", "NET+VOTEDB",
   "deterministic simulation: real consensus engines on simulated disks/network/clock in one synctest bubble with seeded schedules, message faults, partitions and crash/restart (also at the k-th disk write); history oracle over every signed vote; plus exhaustive-ish seeded API histories of the vote database with restarts against a reference model of grants",
   "Seeded search over schedules and fault sequences of 4-5 real ucon engines (NET) and over context/vote/restart histories of the real VoteDB (VOTEDB). Every vote that leaves an honest node enters a per-validator history that survives restarts; conflicting votes or excess next-index votes in one (round, index) are violations, minimised and replayed in a fresh process. Sampling, not proof.",
   "Trusts: the simulator's network/miner stand-ins (documented in evidence as stubs); crash model = process death with completed puts/batches durable; certificate rounds only in VOTEDB (ACoCHTFrequency is a constant). Byzantine peers are exercised in the VOTER world, not here."),
 "C09": ("fault_enumeration", "STATE",
   "deterministic simulation: seeded operation histories with injected aborts (RevertToSnapshot at seeded points/depths/transactions), full-observation oracle, choice-log shrinking and fresh-process replay",
   "Seeded search over block/transaction/operation histories on the real StateDB (simulated disk underneath) with the abort fault injected at seeded operation indices and nesting depths, after earlier finalised transactions and after commit+reopen. Every revert is compared against a full observation taken at Snapshot. Sampling, not proof: evidence states runs, distinct histories and reach probes.",
   "Trusts: StateDB.Copy + Commit on the copy to observe roots without disturbing the object (Copy is checked on its own by C10); operation patterns are restricted to what production call sites issue (annotated in worlds/stateworld/ops.go); address 0x03 exempt (deliberate RIPEMD touch hack)."),
}

NOT_APPLICABLE = [
 {"property_id": "C04", "reason": "sortition quantile, credential verification and priority are pure functions of (VRF output, stake, committee/total, key, message): no schedule, clock, I/O, fault, crash or second party for a simulator to own; generating inputs would be fuzzing in simulator vocabulary (DESIGN.md C04)"},
 {"property_id": "C15", "reason": "each computational opcode is a pure function of its operands; straight-line stack/gas discipline has no schedule, time, fault or interleaving (DESIGN.md C15)"},
]

# properties whose checks are not built yet are listed here with a reason until their check lands
PENDING = {}

def hooks_commits():
    try:
        out = subprocess.check_output(["git", "-C", "/repo", "log", "--format=%h %s"], text=True)
    except Exception:
        return []
    return [l.split()[0] for l in out.splitlines() if l.split(" ", 1)[1].startswith("verif-hook")]

def main():
    props = [json.loads(l)["id"] for l in open(os.path.join(HERE, "properties.jsonl"))]
    checks = []
    for pid in props:
        if pid not in CHECKS:
            continue
        cat, world, tech, text, note = CHECKS[pid]
        checks.append({
            "property_id": pid,
            "quick_cmd": "./check.sh %s quick" % pid,
            "thorough_cmd": "./check.sh %s thorough" % pid,
            "evidence_file": "/verif/evidence/%s.json" % pid,
            "replay_cmd_template": "./bin/vcheck replay {path} -v",
            "engine": world,
            "level_claimed": {"category": cat, "text": text, "design_ref": "DESIGN.md §4 " + pid},
            "level_note": note,
            "technique": tech,
        })
    na = list(NOT_APPLICABLE)
    for pid in props:
        if pid not in CHECKS and pid not in [x["property_id"] for x in na]:
            na.append({"property_id": pid, "reason": PENDING.get(pid, "check not built yet in this session (planned, see DESIGN.md §8); not claimed until it runs")})
    m = {
        "version": 1,
        "setup_cmd": "./setup.sh",
        "hooks": {
            "guard": "verif (Go build tag)",
            "enable": "go1.26.8 build -tags verif (done by check.sh; harness module /verif/sim replaces github.com/youchainhq/go-youchain => /repo)",
            "baseline_off_cmd": "cd /repo && go test -mod=mod -vet=off -count=1 -timeout 25m ./...",
            "source_commits": hooks_commits(),
            "add_only": True,
        },
        "engines": [
            {"name": "vcheck", "path": "/verif/sim", "serves_properties": sorted(CHECKS.keys()),
             "kind_free_text": "hand-written deterministic simulator in Go (seeded chooser, simulated disk/clock/network, fault injection, choice-log shrinking, fresh-process replay); worlds per DESIGN.md §2.6"},
        ],
        "checks": checks,
        "not_applicable": na,
        "notes": "exit 0 = held on everything explored; exit 1 + 'VIOLATION property=<id> replay=<path>'; exit 2 = build/harness trouble (never a violation). KNOWN-FINDING lines come from /verif/known-findings.json (status 'known'); 'fixed' entries suppress nothing.",
    }
    json.dump(m, open(os.path.join(HERE, "MANIFEST.json"), "w"), indent=1)
    print("wrote MANIFEST.json with", len(checks), "checks,", len(na), "not claimed")

main()
