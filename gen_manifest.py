#!/usr/bin/env python3
"""Generates /verif/MANIFEST.json from the table below (kept in one place so that the
manifest stays valid and consistent with what is registered in the simulator)."""
import json, subprocess, os

HERE = os.path.dirname(os.path.abspath(__file__))

# property -> (level category, engine/world, technique, level text, level note)
CHECKS = {
 "C02": ("exploration", "NET+VOTEDB",
   "deterministic simulation: real consensus engines on simulated disks/network/clock in one synctest bubble with seeded schedules, message faults, partitions and crash/restart (also at the k-th disk write); history oracle over every signed vote; plus exhaustive-ish seeded API histories of the vote database with restarts against a reference model of grants",
   "Seeded search over schedules and fault sequences of 4-5 real ucon engines (NET) and over context/vote/restart histories of the real VoteDB (VOTEDB). Every vote that leaves an honest node enters a per-validator history that survives restarts; conflicting votes or excess next-index votes in one (round, index) are violations, minimised and replayed in a fresh process. Sampling, not proof.",
   "Trusts: the simulator's network/miner stand-ins (documented in evidence as stubs); crash model = process death with completed puts/batches durable; certificate rounds only in VOTEDB (ACoCHTFrequency is a constant). Byzantine peers are exercised in the VOTER world, not here."),
 "C09": ("fault_enumeration", "STATE",
   "deterministic simulation: seeded operation histories with injected aborts (RevertToSnapshot at seeded points/depths/transactions), full-observation oracle, choice-log shrinking and fresh-process replay",
   "Seeded search over block/transaction/operation histories on the real StateDB (simulated disk underneath) with the abort fault injected at seeded operation indices and nesting depths, after earlier finalised transactions and after commit+reopen. Every revert is compared against a full observation taken at Snapshot. Sampling, not proof: evidence states runs, distinct histories and reach probes.",
   "Trusts: StateDB.Copy + Commit on the copy to observe roots without disturbing the object (Copy is checked on its own by C10); operation patterns are restricted to what production call sites issue (annotated in worlds/stateworld/ops.go); address 0x03 exempt (deliberate RIPEMD touch hack)."),
}

NOT_APPLICABLE = [
 {"property_id": "C04", "reason": "sortition quantile, credential verification and priority are pure functions of (VRF output, stake, committee/total, key, message): no schedule, clock, I/O, fault, crash or second party for a simulator to own; generating inputs would be fuzzing in simulator vocabulary (DESIGN.md C04)"},
 {"property_id": "C15", "reason": "each computational opcode is a pure function of its operands; straight-line stack/gas discipline has no schedule, time, fault or interleaving (DESIGN.md C15)"},
]

# properties whose checks are not built yet are listed here with a reason until their check lands
PENDING = {}

def hooks_commits():
    try:
        out = subprocess.check_output(["git", "-C", "/repo", "log", "--format=%h %s"], text=True)
    except Exception:
        return []
    return [l.split()[0] for l in out.splitlines() if l.split(" ", 1)[1].startswith("verif-hook")]

def main():
    props = [json.loads(l)["id"] for l in open(os.path.join(HERE, "properties.jsonl"))]
    checks = []
    for pid in props:
        if pid not in CHECKS:
            continue
        cat, world, tech, text, note = CHECKS[pid]
        checks.append({
            "property_id": pid,
            "quick_cmd": "./check.sh %s quick" % pid,
            "thorough_cmd": "./check.sh %s thorough" % pid,
            "evidence_file": "/verif/evidence/%s.json" % pid,
            "replay_cmd_template": "./bin/vcheck replay {path} -v",
            "engine": world,
            "level_claimed": {"category": cat, "text": text, "design_ref": "DESIGN.md §4 " + pid},
            "level_note": note,
            "technique": tech,
        })
    na = list(NOT_APPLICABLE)
    for pid in props:
        if pid not in CHECKS and pid not in [x["property_id"] for x in na]:
            na.append({"property_id": pid, "reason": PENDING.get(pid, "check not built yet in this session (planned, see DESIGN.md §8); not claimed until it runs")})
    m = {
        "version": 1,
        "setup_cmd": "./setup.sh",
        "hooks": {
            "guard": "verif (Go build tag)",
            "enable": "go1.26.8 build -tags verif (done by check.sh; harness module /verif/sim replaces github.com/youchainhq/go-youchain => /repo)",
            "baseline_off_cmd": "cd /repo && go test -mod=mod -vet=off -count=1 -timeout 25m ./...",
            "source_commits": hooks_commits(),
            "add_only": True,
        },
        "engines": [
            {"name": "vcheck", "path": "/verif/sim", "serves_properties": sorted(CHECKS.keys()),
             "kind_free_text": "hand-written deterministic simulator in Go (seeded chooser, simulated disk/clock/network, fault injection, choice-log shrinking, fresh-process replay); worlds per DESIGN.md §2.6"},
        ],
        "checks": checks,
        "not_applicable": na,
        "notes": "exit 0 = held on everything explored; exit 1 + 'VIOLATION property=<id> replay=<path>'; exit 2 = build/harness trouble (never a violation). KNOWN-FINDING lines come from /verif/known-findings.json (status 'known'); 'fixed' entries suppress nothing.",
    }
    json.dump(m, open(os.path.join(HERE, "MANIFEST.json"), "w"), indent=1)
    print("wrote MANIFEST.json with", len(checks), "checks,", len(na), "not claimed")

main()
