#!/usr/bin/env python3
"""usage: addfinding.py <property> <fixed|known> <class> <commit-subject-substring|-> <what> [detail_regex]
Appends an entry to /verif/known-findings.json (done by hand at authoring time, never by a check)."""
import json, subprocess, sys, os
prop, status, cls, sub, what = sys.argv[1:6]
rx = sys.argv[6] if len(sys.argv) > 6 else ""
p = os.path.join(os.path.dirname(os.path.abspath(__file__)), "known-findings.json")
d = json.load(open(p))
e = {"property": prop, "status": status, "class": cls, "what": what}
if status == "fixed":
    log = subprocess.check_output(["git", "-C", "/repo", "log", "--format=%h %s"], text=True).splitlines()
    c = [l.split()[0] for l in log if sub in l]
    assert len(c) == 1, (sub, c)
    e["commit"] = c[0]
    e["line"] = "fixed: property=%s %s %s" % (prop, c[0], what)
else:
    if rx:
        e["detail_regex"] = rx
    e["line"] = "known: property=%s %s" % (prop, what)
d["findings"] = [x for x in d["findings"] if not (x["property"] == prop and x["class"] == cls and x["status"] == status and x.get("commit") == e.get("commit"))]
d["findings"].append(e)
json.dump(d, open(p, "w"), indent=1)
print("ok", len(d["findings"]))
