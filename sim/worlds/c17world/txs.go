package c17world

import (
	"crypto/ecdsa"
	"fmt"
	"math/big"

	"verifsim/worlds/chainkit"

	"github.com/youchainhq/go-youchain/common"
	"github.com/youchainhq/go-youchain/core/types"
	"github.com/youchainhq/go-youchain/crypto"
	"github.com/youchainhq/go-youchain/params"
	"github.com/youchainhq/go-youchain/rlp"
	"github.com/youchainhq/go-youchain/staking"
)

// ---- the simulator's own view of a signed transaction -----------------------------------------
//
// The simulator is the wallet: it computes the signing hash itself (from the documented
// preimage: rlp([nonce, price, limit, to, value, data, networkId, 0, 0])), signs with plain
// secp256k1 and packs V = 35 + 2*networkId + parity. It never calls types.SignTx / types.Sender:
// if the node's signer disagreed with this derivation, honest transactions would be
// misattributed and the history oracle would see it.

// txFields mirrors the wire format of a transaction (core/types/transaction.go txdata).
type txFields struct {
	Nonce uint64
	Price *big.Int
	Gas   uint64
	To    *common.Address `rlp:"nil"`
	Value *big.Int
	Data  []byte
	V     *big.Int
	R     *big.Int
	S     *big.Int
}

func (f *txFields) copy() *txFields {
	g := *f
	g.Price = new(big.Int).Set(f.Price)
	g.Value = new(big.Int).Set(f.Value)
	g.V = new(big.Int).Set(f.V)
	g.R = new(big.Int).Set(f.R)
	g.S = new(big.Int).Set(f.S)
	g.Data = append([]byte{}, f.Data...)
	if f.To != nil {
		to := *f.To
		g.To = &to
	}
	return &g
}

var (
	curveN     = crypto.S256().Params().N
	curveHalfN = new(big.Int).Rsh(crypto.S256().Params().N, 1)
)

// sigHash is the hash a wallet of network netID signs for these fields.
func sigHash(f *txFields, netID uint64) common.Hash {
	to := []byte{}
	if f.To != nil {
		to = f.To.Bytes()
	}
	enc, err := rlp.EncodeToBytes([]interface{}{f.Nonce, f.Price, f.Gas, to, f.Value, f.Data, netID, uint(0), uint(0)})
	if err != nil {
		panic(err)
	}
	return crypto.Keccak256Hash(enc)
}

// sign fills V, R, S for network netID.
func (f *txFields) sign(key *ecdsa.PrivateKey, netID uint64) {
	h := sigHash(f, netID)
	sig, err := crypto.Sign(h[:], key)
	if err != nil {
		panic(err)
	}
	f.R = new(big.Int).SetBytes(sig[:32])
	f.S = new(big.Int).SetBytes(sig[32:64])
	f.V = new(big.Int).SetUint64(35 + 2*netID + uint64(sig[64]))
}

// encode returns the wire bytes.
func (f *txFields) encode() []byte {
	b, err := rlp.EncodeToBytes(f)
	if err != nil {
		panic(err)
	}
	return b
}

// decodeTx decodes wire bytes the way a receiving node does (a fresh object: no cached sender).
func decodeTx(raw []byte) (*types.Transaction, error) {
	tx := new(types.Transaction)
	if err := rlp.DecodeBytes(raw, tx); err != nil {
		return nil, err
	}
	return tx, nil
}

// fieldsOf reads the fields back out of a transaction object (plain getters only).
func fieldsOf(tx *types.Transaction) *txFields {
	v, r, s := tx.RawSignatureValues()
	return &txFields{Nonce: tx.Nonce(), Price: tx.GasPrice(), Gas: tx.Gas(), To: tx.To(), Value: tx.Value(), Data: tx.Data(),
		V: new(big.Int).Set(v), R: new(big.Int).Set(r), S: new(big.Int).Set(s)}
}

// recovered is the harness's own judgement of a transaction's signature for network netID.
type recovered struct {
	ok     bool           // V encodes this network, r/s in range, recovery succeeded
	highS  bool           // s > n/2
	from   common.Address // recovered address (also set for high-s)
	reason string
}

// recoverOwn derives the sender with plain secp256k1 recovery over the harness's own signing
// hash. It does not use types.Sender, types.Signer or any cache.
func recoverOwn(f *txFields, netID uint64) recovered {
	base := new(big.Int).SetUint64(35 + 2*netID)
	par := new(big.Int).Sub(f.V, base)
	if par.Sign() < 0 || par.Cmp(big.NewInt(1)) > 0 {
		return recovered{reason: fmt.Sprintf("V=%v does not encode network %d", f.V, netID)}
	}
	if f.R.Sign() <= 0 || f.S.Sign() <= 0 || f.R.Cmp(curveN) >= 0 || f.S.Cmp(curveN) >= 0 {
		return recovered{reason: "r/s out of range"}
	}
	sig := make([]byte, 65)
	rb, sb := f.R.Bytes(), f.S.Bytes()
	copy(sig[32-len(rb):32], rb)
	copy(sig[64-len(sb):64], sb)
	sig[64] = byte(par.Uint64())
	h := sigHash(f, netID)
	pub, err := crypto.Ecrecover(h[:], sig)
	if err != nil || len(pub) != 65 || pub[0] != 4 {
		return recovered{reason: fmt.Sprintf("recovery failed: %v", err)}
	}
	var a common.Address
	copy(a[:], crypto.Keccak256(pub[1:])[12:])
	return recovered{ok: true, highS: f.S.Cmp(curveHalfN) > 0, from: a}
}

// intrinsicGas is the protocol's up-front gas of a transaction: 21000 (53000 for a creation,
// 100000 for the staking module) plus 4 per zero and 16 per non-zero payload byte (Istanbul).
func intrinsicGas(to *common.Address, data []byte) uint64 {
	g := uint64(21000)
	switch {
	case to == nil:
		g = 53000
	case *to == params.StakingModuleAddress:
		g = 100000
	}
	for _, b := range data {
		if b == 0 {
			g += 4
		} else {
			g += 16
		}
	}
	return g
}

// ---- accounts ---------------------------------------------------------------------------------

type acct struct {
	idx  int
	name string
	key  *ecdsa.PrivateKey
	addr common.Address
	next uint64 // next nonce the wallet will use
	poor bool
	// stakeTouched: the account appears in a staking payload that may make the end-of-period
	// hook pay or refund it (operator, coinbase, delegator, withdraw recipient).
	stakeTouched bool
	holes        []uint64 // nonces skipped on purpose (gap fault), to be filled later
}

const nPoor = 4

// a plain transfer costs 21000*price = 189000..252000 for these accounts (price = index+1 = 9..12)
var poorBalances = [nPoor]int64{500_000, 1_200_000, 15_000_000, 300_000}

func poorKey(i int) *ecdsa.PrivateKey {
	d := make([]byte, 32)
	d[0] = 0x44
	d[31] = byte(i + 1)
	k, err := crypto.ToECDSA(d)
	if err != nil {
		panic(err)
	}
	return k
}

func makeAccounts() []*acct {
	var as []*acct
	for i := 0; i < chainkit.NClients; i++ {
		k := chainkit.ClientKey(i)
		as = append(as, &acct{idx: i, name: fmt.Sprintf("C%d", i), key: k, addr: crypto.PubkeyToAddress(k.PublicKey)})
	}
	for i := 0; i < nPoor; i++ {
		k := poorKey(i)
		as = append(as, &acct{idx: chainkit.NClients + i, name: fmt.Sprintf("P%d", i), key: k, addr: crypto.PubkeyToAddress(k.PublicKey), poor: true})
	}
	return as
}

// ---- contracts (hand-assembled) ----------------------------------------------------------------

type ctype int

const (
	cWriter    ctype = iota // SSTORE(calldata[0:32], calldata[32:64]); keeps any value sent
	cReverter               // always REVERT
	cForwarder              // CALL(gas, calldata[0:32], callvalue); REVERT if the call failed
	cBurner                 // infinite loop: runs out of gas
	cBadInit                // init code reverts: creation fails
	nCtypes
)

func (c ctype) String() string {
	return [...]string{"writer", "reverter", "forwarder", "burner", "badinit"}[c]
}

var runtimeCode = map[ctype][]byte{
	// PUSH1 32 CALLDATALOAD PUSH1 0 CALLDATALOAD SSTORE STOP
	cWriter: {0x60, 0x20, 0x35, 0x60, 0x00, 0x35, 0x55, 0x00},
	// PUSH1 0 PUSH1 0 REVERT
	cReverter: {0x60, 0x00, 0x60, 0x00, 0xfd},
	// PUSH1 0 (x4) CALLVALUE PUSH1 0 CALLDATALOAD GAS CALL PUSH1 22 JUMPI PUSH1 0 PUSH1 0 REVERT JUMPDEST STOP
	cForwarder: {0x60, 0x00, 0x60, 0x00, 0x60, 0x00, 0x60, 0x00, 0x34, 0x60, 0x00, 0x35, 0x5a, 0xf1, 0x60, 0x16, 0x57, 0x60, 0x00, 0x60, 0x00, 0xfd, 0x5b, 0x00},
	// JUMPDEST PUSH1 0 JUMP
	cBurner: {0x5b, 0x60, 0x00, 0x56},
}

// initCode wraps runtime code: PUSH1 len DUP1 PUSH1 11 PUSH1 0 CODECOPY PUSH1 0 RETURN <runtime>.
func initCode(c ctype) []byte {
	if c == cBadInit {
		return []byte{0x60, 0x00, 0x60, 0x00, 0xfd}
	}
	rt := runtimeCode[c]
	return append([]byte{0x60, byte(len(rt)), 0x80, 0x60, 0x0b, 0x60, 0x00, 0x39, 0x60, 0x00, 0xf3}, rt...)
}

type contract struct {
	name string
	typ  ctype
	addr common.Address
}

// sink receives what forwarders forward; it is nobody's account.
var sink = common.HexToAddress("0x00000000000000000000000000000000000c17f0")

// ---- registry ----------------------------------------------------------------------------------

type txKind int

const (
	kTransfer txKind = iota
	kCreate
	kCall
	kStake
)

func (k txKind) String() string { return [...]string{"transfer", "create", "call", "stake"}[k] }

// entry is one transaction the simulator signed for THIS network.
type entry struct {
	id     int
	name   string // t<id>
	hash   common.Hash
	raw    []byte
	f      *txFields
	a      *acct
	kind   txKind
	what   string   // human description (contract type, staking action, ...)
	staked *big.Int // tokens detained by the staking handler if the transaction succeeds
	intr   uint64   // intrinsic gas (harness's own computation)
	// garbage: staking payload that cannot be decoded: must be included as failed with all gas used
	garbage   bool
	submitted bool // handed to the builder's pool at least once
}

func short(h common.Hash) string { return fmt.Sprintf("%x", h[:4]) }

type nonceKey struct {
	a *acct
	n uint64
}

// register signs f for this network with a's key and records it.
func (s *sim) register(a *acct, f *txFields, kind txKind, what string, staked *big.Int) *entry {
	f.sign(a.key, s.netID)
	raw := f.encode()
	tx, err := decodeTx(raw)
	if err != nil {
		panic("c17world: own transaction does not decode: " + err.Error())
	}
	e := &entry{id: len(s.regList), hash: tx.Hash(), raw: raw, f: f, a: a, kind: kind, what: what, staked: staked,
		intr: intrinsicGas(f.To, f.Data)}
	e.name = fmt.Sprintf("t%d", e.id)
	if crypto.Keccak256Hash(raw) != e.hash {
		panic("c17world: transaction hash is not the hash of its wire bytes")
	}
	s.reg[e.hash] = e
	s.regList = append(s.regList, e)
	k := nonceKey{a, f.Nonce}
	s.byNonce[k] = append(s.byNonce[k], e)
	to := "create"
	if f.To != nil {
		to = s.addrName(*f.To)
	}
	s.r.Logf("sign %s %s: %s nonce=%d to=%s value=%v gas=%d(intr %d) price=%v %s", e.name, short(e.hash), a.name, f.Nonce, to, f.Value, f.Gas, e.intr, f.Price, what)
	return e
}

func (s *sim) addrName(a common.Address) string {
	if ac := s.acctByAddr[a]; ac != nil {
		return ac.name
	}
	for _, c := range s.contracts {
		if c.addr == a {
			return c.name
		}
	}
	switch a {
	case params.StakingModuleAddress:
		return "STAKING"
	case sink:
		return "SINK"
	}
	for _, k := range chainkit.Keys() {
		if k.Addr == a {
			return k.Name()
		}
		if k.Coinbase == a {
			return k.Name() + ".cb"
		}
	}
	return fmt.Sprintf("%x", a[:4])
}

func word(b []byte) []byte { return common.LeftPadBytes(b, 32) }

// genTx signs one new transaction chosen by the chooser. Choice 0 everywhere = a plain small
// transfer from C0 to C1 with adequate gas at price 1.
func (s *sim) genTx() *entry {
	c := s.c
	var a *acct
	if c.Chance("poor-sender", 1, 6) {
		a = s.accts[chainkit.NClients+c.Intn("poor", nPoor)]
	} else {
		a = s.accts[c.Intn("from", chainkit.NClients)]
	}
	// prices never tie between accounts: the worker orders pending transactions by price and
	// breaks ties in map-iteration order (types.NewTransactionsByPriceAndNonce), which would make
	// one seed more than one execution
	f := &txFields{Price: big.NewInt(int64(16*c.Intn("price", 4) + a.idx + 1)), Value: new(big.Int)}
	kind := kTransfer
	what := ""
	var staked *big.Int
	garbage := false
	deploy := ctype(-1)
	k := c.Weighted("kind", []int{8, 3, 6, 5})
	if a.poor && k != 0 {
		k = 0 // poor accounts only make transfers (their point is affordability)
	}
	switch k {
	case 0: // transfer
		to := s.accts[(a.idx+1+c.Intn("to", len(s.accts)-1))%len(s.accts)].addr
		if c.Chance("to-fresh", 1, 8) {
			to = common.BytesToAddress(append([]byte{0xee}, c.Bytes("fresh", 2)...))
		}
		f.To = &to
		if a.poor {
			// amounts in the range of the balance, so that one transfer fits and two may not
			f.Value = big.NewInt(poorBalances[a.idx-chainkit.NClients] * int64(c.Intn("poor-amt", 4)) / 4)
			f.Price = big.NewInt(int64(a.idx + 1))
		} else {
			f.Value = big.NewInt(int64(1 + c.Intn("amt", 1000)))
			if c.Chance("big-amt", 1, 10) {
				f.Value.Mul(f.Value, params.StakeUint)
			}
		}
		if c.Chance("with-data", 1, 6) {
			f.Data = c.Bytes("data", 1+c.Intn("dlen", 6))
		}
		f.Gas = intrinsicGas(f.To, f.Data)
		if c.Chance("transfer-gas-slack", 1, 3) {
			// a limit above the intrinsic cost: gas is bought for the whole limit and the unused
			// part handed back (also when the transfer itself is refused for lack of value)
			f.Gas += uint64(1+c.Intn("slack", 30)) * 1000
		}
	case 1: // contract creation
		kind = kCreate
		ct := ctype(c.Intn("ctype", int(nCtypes)))
		deploy = ct
		f.Data = initCode(ct)
		f.Gas = 200_000
		if c.Chance("create-value", 1, 3) {
			f.Value = big.NewInt(int64(1 + c.Intn("cval", 500)))
		}
		if c.Chance("create-tight-gas", 1, 6) {
			f.Gas = intrinsicGas(nil, f.Data) + uint64(c.Intn("create-slack", 3))*500 // enough to start, not to store the code
		}
		what = ct.String()
	case 2: // call
		kind = kCall
		if len(s.contracts) == 0 {
			// nothing deployed yet: fall back to a creation of a writer
			kind = kCreate
			deploy = cWriter
			f.Data = initCode(cWriter)
			f.Gas = 200_000
			what = cWriter.String()
			break
		}
		ct := s.contracts[c.Intn("callee", len(s.contracts))]
		to := ct.addr
		f.To = &to
		what = "call " + ct.name
		f.Gas = 100_000
		switch ct.typ {
		case cWriter:
			slot := byte(c.Intn("slot", 3))
			val := byte(c.Intn("sval", 3)) // 0 clears the slot (refund counter)
			f.Data = append(word([]byte{slot}), word([]byte{val})...)
			what += fmt.Sprintf(" slot%d=%d", slot, val)
		case cForwarder:
			f.Data = word(sink.Bytes())
			f.Gas = 150_000
		case cBurner:
			f.Gas = uint64(60_000 + 40_000*c.Intn("burn", 4))
			if c.Chance("burn-huge", 1, 3) {
				f.Gas = uint64(2_000_000 + 500_000*c.Intn("burn-m", 3))
			}
		}
		if c.Chance("call-value", 1, 2) {
			f.Value = big.NewInt(int64(1 + c.Intn("callval", 500)))
		}
	case 3: // staking
		kind = kStake
		to := params.StakingModuleAddress
		f.To = &to
		f.Gas = 300_000
		f.Data, what, staked, garbage = s.genStakingPayload(a, f)
		if c.Chance("stake-amount-field", 1, 8) {
			// the transaction's own value field is not what a staking transaction stakes
			f.Value = big.NewInt(int64(1 + c.Intn("stake-amt", 100)))
			what += " +txvalue"
		}
	}
	// gas-limit faults (the defaults above are adequate). A transaction that can never be valid
	// (limit below intrinsic or above the block limit) does not use up the wallet's nonce.
	neverValid := false
	switch c.Weighted("gas-fault", []int{14, 1, 1}) {
	case 1: // exactly the intrinsic gas
		f.Gas = intrinsicGas(f.To, f.Data)
		what += " gas=intrinsic"
	case 2: // below the intrinsic gas: never valid (the pool refuses it; a proposer may try)
		ig := intrinsicGas(f.To, f.Data)
		f.Gas = ig - 1 - uint64(c.Intn("below", 3))*uint64(c.Intn("below-by", 5000))
		what += " gas<intrinsic"
		neverValid = true
	}
	if !a.poor && c.Chance("over-block-gas", 1, 25) {
		f.Gas = genesisGasLimit + 4_000_000
		what += " gas>block"
		neverValid = true
	}
	// nonce: the wallet's next one; faults: fill a hole, leave a hole, replace a previous one
	f.Nonce = a.next
	switch {
	case neverValid:
	case len(a.holes) > 0 && c.Chance("fill-hole", 1, 2):
		f.Nonce = a.holes[0]
		a.holes = a.holes[1:]
		what += " fills-hole"
	default:
		switch c.Weighted("nonce-fault", []int{16, 1, 1}) {
		case 0:
			a.next++
		case 1: // leave a hole
			a.holes = append(a.holes, a.next)
			f.Nonce = a.next + 1
			a.next += 2
			what += " after-hole"
		case 2: // same nonce as the previous transaction of this account, higher price (replacement)
			if a.next > 0 {
				f.Nonce = a.next - 1
				f.Price = big.NewInt(int64(16*(6+c.Intn("bump", 4)) + a.idx + 1))
				what += " replacement"
			} else {
				a.next++
			}
		}
	}
	if !a.poor && c.Chance("price-magnitude", 1, 6) {
		// prices of every magnitude (the funded clients hold 10^27): multiples of 1000^k keep
		// prices distinct between accounts (bases are < 1000 and distinct), and a boundary
		// price puts limit*price just above 2^64 (rounded up to a multiple of 1024, plus the
		// account's distinct base)
		if c.Chance("price-at-2^64", 1, 3) && f.Gas > 0 {
			q := new(big.Int).Div(new(big.Int).Lsh(big.NewInt(1), 64), new(big.Int).SetUint64(f.Gas))
			q.Add(q, big.NewInt(1024))
			q.And(q, new(big.Int).Not(big.NewInt(1023)))
			f.Price = q.Add(q, f.Price)
			what += " price-at-2^64/limit"
		} else {
			m := new(big.Int).Exp(big.NewInt(1000), big.NewInt(int64(1+c.Intn("price-exp", 6))), nil)
			f.Price = new(big.Int).Mul(f.Price, m)
			what += " price*" + m.String()
		}
	}
	if kind == kStake {
		a.stakeTouched = true
	}
	e := s.register(a, f, kind, what, staked)
	e.garbage = garbage
	if kind == kCreate && deploy >= 0 && deploy != cBadInit {
		cn := &contract{name: fmt.Sprintf("K%d.%s", len(s.contracts), deploy), typ: deploy, addr: crypto.CreateAddress(a.addr, f.Nonce)}
		s.contracts = append(s.contracts, cn)
	}
	return e
}

// genStakingPayload builds the payload of a staking transaction (staking/types.go). The
// chooser's 0 is a delegation to the first genesis validator (which does not accept
// delegations: the transaction is included as failed).
func (s *sim) genStakingPayload(a *acct, f *txFields) (data []byte, what string, staked *big.Int, garbage bool) {
	c := s.c
	enc := func(action staking.ActionType, payload interface{}) []byte {
		bs, err := rlp.EncodeToBytes(payload)
		if err != nil {
			panic(err)
		}
		out, err := rlp.EncodeToBytes(&staking.Message{Action: action, Payload: bs})
		if err != nil {
			panic(err)
		}
		return out
	}
	tokens := func(n int64) *big.Int { return new(big.Int).Mul(big.NewInt(n), params.StakeUint) }
	// validators that may be targeted: genesis validators and the ones clients tried to create
	targets := []common.Address{}
	for _, k := range s.vkeys {
		targets = append(targets, k.Addr)
	}
	for _, cv := range s.clientVals {
		targets = append(targets, cv.key.Addr)
	}
	switch c.Weighted("stake-kind", []int{4, 4, 3, 2, 2, 2, 1}) {
	case 0: // delegation add
		// prefer a validator created by a client (those accept delegations)
		v := targets[c.Intn("dval", len(targets))]
		if len(s.clientVals) > 0 && c.Chance("dval-client", 2, 3) {
			v = s.clientVals[c.Intn("dval-c", len(s.clientVals))].key.Addr
		}
		amt := tokens(int64(10 + c.Intn("damt", 90)))
		if c.Chance("damt-low", 1, 8) {
			amt = tokens(1) // below MinDelegationTokens
		} else if c.Chance("damt-huge", 1, 8) {
			amt = tokens(int64(1_100_000 + c.Intn("damt-over", 1000))) // affordable, above every role's maximum stake
		}
		return enc(staking.DelegationAdd, &staking.TxDelegation{Validator: v, Value: amt}), fmt.Sprintf("delegation-add %s %v", s.addrName(v), amt), amt, false
	case 1: // validator create from this client account
		if s.nextValKey >= len(chainkit.Keys()) {
			return enc(staking.DelegationSettle, &staking.TxDelegationSettle{Validator: targets[0]}), "delegation-settle", nil, false
		}
		vk := chainkit.Keys()[s.nextValKey]
		s.nextValKey++
		amt := tokens(int64(500 + c.Intn("vstake", 500)))
		if c.Chance("vstake-low", 1, 8) {
			amt = tokens(100) // below MinSelfStakes
		} else if c.Chance("vstake-over-max", 1, 8) {
			amt = tokens(int64(180_001 + c.Intn("vstake-over", 1000))) // affordable, above the role's maximum stake: refused by the handler
		}
		coinbase := a.addr
		tx := &staking.TxCreateValidator{Name: "cv" + vk.Name(), OperatorAddress: a.addr, Coinbase: coinbase,
			MainPubKey: vk.MainPub, BlsPubKey: vk.BlsPub, Value: amt, Nonce: f.Nonce,
			CommissionRate: 100, RiskObligation: 0, AcceptDelegation: 1, Role: params.RoleSenator}
		if c.Chance("create-wrong-operator", 1, 8) {
			tx.OperatorAddress = s.accts[(a.idx+1)%chainkit.NClients].addr
		}
		s.clientVals = append(s.clientVals, &clientVal{key: vk, op: a})
		f.Gas = 1_200_000
		if c.Chance("create-short-gas", 1, 6) {
			f.Gas = 400_000 // covers the intrinsic gas, not the validator-creation surcharge
		}
		return enc(staking.ValidatorCreate, tx), fmt.Sprintf("validator-create %s %v", vk.Name(), amt), amt, false
	case 2: // deposit to a validator this client operates (or claims to)
		if gk := s.genesisOp[a.addr]; gk != nil && (len(s.clientVals) == 0 || c.Chance("dep-genesis-val", 1, 2)) {
			// this client operates a genesis Senator: the validator exists from the first block on
			amt := tokens(int64(1 + c.Intn("gdep", 50)))
			if c.Chance("gdep-over-max", 1, 3) {
				// affordable, but the validator would exceed its role's maximum stake: refused by
				// the handler after its balance check (a failed transaction stakes nothing)
				amt = tokens(int64(180_000 + c.Intn("gdep-over", 1000)))
			}
			if c.Chance("gdep-as-withdraw", 1, 5) {
				w := tokens(int64(1 + c.Intn("gwd", 2000)))
				return enc(staking.ValidatorWithDraw, &staking.TxValidatorWithdraw{MainAddress: gk.Addr, Recipient: a.addr, Value: w, Nonce: f.Nonce}), fmt.Sprintf("validator-withdraw %s %v", gk.Name(), w), nil, false
			}
			return enc(staking.ValidatorDeposit, &staking.TxValidatorDeposit{MainAddress: gk.Addr, Value: amt, Nonce: f.Nonce}), fmt.Sprintf("validator-deposit %s %v", gk.Name(), amt), amt, false
		}
		if len(s.clientVals) == 0 {
			v := targets[0]
			amt := tokens(10)
			return enc(staking.ValidatorDeposit, &staking.TxValidatorDeposit{MainAddress: v, Value: amt, Nonce: f.Nonce}), "validator-deposit (not operator)", amt, false
		}
		cv := s.clientVals[c.Intn("dep-val", len(s.clientVals))]
		amt := tokens(int64(1 + c.Intn("dep", 50)))
		if c.Chance("dep-over-max", 1, 4) {
			// the operator can afford it, but the validator would exceed its role's maximum stake:
			// the handler refuses after its balance check (a failed transaction stakes nothing)
			amt = tokens(int64(180_000 + c.Intn("dep-over", 1000)))
		}
		if c.Chance("dep-as-withdraw", 1, 6) {
			w := tokens(int64(1 + c.Intn("wd", 2000)))
			return enc(staking.ValidatorWithDraw, &staking.TxValidatorWithdraw{MainAddress: cv.key.Addr, Recipient: a.addr, Value: w, Nonce: f.Nonce}), fmt.Sprintf("validator-withdraw %s %v", cv.key.Name(), w), nil, false
		}
		return enc(staking.ValidatorDeposit, &staking.TxValidatorDeposit{MainAddress: cv.key.Addr, Value: amt, Nonce: f.Nonce}), fmt.Sprintf("validator-deposit %s %v", cv.key.Name(), amt), amt, false
	case 3: // delegation sub
		v := targets[c.Intn("sval", len(targets))]
		if len(s.clientVals) > 0 {
			v = s.clientVals[c.Intn("sval-c", len(s.clientVals))].key.Addr
		}
		amt := tokens(int64(5 + c.Intn("samt", 20)))
		return enc(staking.DelegationSub, &staking.TxDelegation{Validator: v, Value: amt}), fmt.Sprintf("delegation-sub %s %v", s.addrName(v), amt), nil, false
	case 4: // undecodable payload (judged with the wire format's own decoder)
		g := c.Bytes("garbage", 1+c.Intn("glen", 12))
		var m staking.Message
		return g, "garbage-payload", nil, rlp.DecodeBytes(g, &m) != nil
	case 5: // unknown action
		return enc(staking.ActionType(0x40+c.Intn("act", 8)), &staking.TxDelegationSettle{Validator: targets[0]}), "unknown-action", nil, false
	default: // well-formed envelope, garbage inside
		out, _ := rlp.EncodeToBytes(&staking.Message{Action: staking.DelegationAdd, Payload: c.Bytes("inner", 3)})
		return out, "delegation-add garbage-inner", nil, false
	}
}

type clientVal struct {
	key *chainkit.ValKey
	op  *acct
}
