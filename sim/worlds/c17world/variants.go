package c17world

import (
	"fmt"
	"math/big"

	"github.com/youchainhq/go-youchain/common"
	"github.com/youchainhq/go-youchain/core/types"
)

// variant is a transaction the simulator fabricated but did NOT sign for this network with the
// sender's key: a twin for another network, a high-s twin, a single-field mutation or corrupted
// wire bytes of a registered transaction. None of them may ever be applied (unless it happens to
// be a transaction validly signed by an address nobody knows that can pay for itself).
type variant struct {
	id    int
	name  string
	hash  common.Hash
	raw   []byte
	tx    *types.Transaction // decoded from raw (fresh object)
	kind  string
	of    *entry // registered original, if any
	about string
}

func (s *sim) addVariant(raw []byte, kind string, of *entry, about string) *variant {
	tx, err := decodeTx(raw)
	if err != nil {
		s.r.Logf("variant %s of %s does not decode (%v): dropped by the wire decoder", kind, nameOf(of), err)
		s.r.Fault("variant-undecodable")
		return nil
	}
	h := tx.Hash()
	if _, ok := s.reg[h]; ok {
		return nil // identical to a registered transaction (mutation was a no-op)
	}
	if v, ok := s.variants[h]; ok {
		return v
	}
	v := &variant{id: len(s.varList), hash: h, raw: raw, tx: tx, kind: kind, of: of, about: about}
	v.name = fmt.Sprintf("x%d", v.id)
	s.variants[h] = v
	s.varList = append(s.varList, v)
	s.r.Logf("fabricate %s %s: %s of %s %s", v.name, short(h), kind, nameOf(of), about)
	return v
}

func nameOf(e *entry) string {
	if e == nil {
		return "-"
	}
	return e.name
}

const otherNetID = 7

// wrongNetTwin: the same fields signed by the same key for ANOTHER network (what a user
// broadcasts on that other network; replaying it here must not work).
func (s *sim) wrongNetTwin(e *entry) *variant {
	f := e.f.copy()
	f.sign(e.a.key, otherNetID)
	return s.addVariant(f.encode(), "wrong-network", e, fmt.Sprintf("signed for network %d", otherNetID))
}

// wrongNetFresh: a transaction with the account's NEXT nonce that the user signed only for the
// other network (never for this one).
func (s *sim) wrongNetFresh(a *acct, stateNonce uint64) *variant {
	to := s.accts[(a.idx+1)%len(s.accts)].addr
	f := &txFields{Nonce: stateNonce, Price: big.NewInt(int64(200 + a.idx)), Gas: 21000, To: &to, Value: big.NewInt(777), Data: nil}
	f.sign(a.key, otherNetID)
	return s.addVariant(f.encode(), "wrong-network-fresh", nil, fmt.Sprintf("%s nonce %d signed only for network %d", a.name, stateNonce, otherNetID))
}

// wrongNetRewrittenV: the other-network twin with V rewritten to this network's encoding.
func (s *sim) wrongNetRewrittenV(e *entry) *variant {
	f := e.f.copy()
	f.sign(e.a.key, otherNetID)
	par := new(big.Int).Sub(f.V, new(big.Int).SetUint64(35+2*otherNetID))
	f.V = new(big.Int).Add(new(big.Int).SetUint64(35+2*s.netID), par)
	return s.addVariant(f.encode(), "wrong-network-v-rewritten", e, "signature of another network under this network's V")
}

// highSTwin: s' = n - s with the parity flipped: the same signer under plain ECDSA.
func (s *sim) highSTwin(e *entry) *variant {
	f := e.f.copy()
	f.S = new(big.Int).Sub(curveN, f.S)
	base := new(big.Int).SetUint64(35 + 2*s.netID)
	par := new(big.Int).Sub(f.V, base).Uint64()
	f.V = new(big.Int).Add(base, new(big.Int).SetUint64(1-par))
	// sanity: plain recovery still yields the signer (otherwise the twin is not a twin)
	if rec := recoverOwn(f, s.netID); !rec.ok || rec.from != e.a.addr || !rec.highS {
		panic("c17world: high-s twin does not recover to the signer")
	}
	return s.addVariant(f.encode(), "high-s", e, "s'=n-s, parity flipped")
}

var fieldNames = []string{"nonce", "price", "limit", "to", "value", "payload", "v", "r", "s"}

// mutateField changes exactly one field of the signed transaction without re-signing.
func (s *sim) mutateField(e *entry) *variant {
	c := s.c
	f := e.f.copy()
	fi := c.Intn("mut-field", len(fieldNames))
	about := ""
	switch fi {
	case 0:
		d := uint64(1 + c.Intn("mut-nonce", 3))
		if c.Chance("mut-nonce-down", 1, 2) && f.Nonce >= d {
			f.Nonce -= d
		} else {
			f.Nonce += d
		}
		about = fmt.Sprintf("nonce %d->%d", e.f.Nonce, f.Nonce)
	case 1:
		f.Price = new(big.Int).Add(f.Price, big.NewInt(int64(1+c.Intn("mut-price", 5)))) // stays >= 1
		about = fmt.Sprintf("price %v->%v", e.f.Price, f.Price)
	case 2:
		f.Gas += uint64(1 + c.Intn("mut-gas", 50_000))
		about = fmt.Sprintf("limit %d->%d", e.f.Gas, f.Gas)
	case 3:
		switch {
		case f.To == nil:
			to := s.accts[c.Intn("mut-to", len(s.accts))].addr
			f.To = &to
			about = "to create->" + s.addrName(to)
		case c.Chance("mut-to-create", 1, 4):
			f.To = nil
			about = "to ->create"
		default:
			to := s.accts[c.Intn("mut-to", len(s.accts))].addr
			if to == *f.To {
				to[19] ^= 1
			}
			f.To = &to
			about = "to ->" + s.addrName(to)
		}
	case 4:
		f.Value = new(big.Int).Add(f.Value, big.NewInt(int64(1+c.Intn("mut-value", 1000))))
		if c.Chance("mut-value-zero", 1, 4) && e.f.Value.Sign() != 0 {
			f.Value = new(big.Int)
		}
		about = fmt.Sprintf("value %v->%v", e.f.Value, f.Value)
	case 5:
		switch {
		case len(f.Data) == 0:
			f.Data = []byte{byte(1 + c.Intn("mut-data", 255))}
		case c.Chance("mut-data-trunc", 1, 3):
			f.Data = f.Data[:len(f.Data)-1]
		default:
			f.Data[c.Intn("mut-data-at", len(f.Data))] ^= byte(1 << uint(c.Intn("mut-data-bit", 8)))
		}
		about = "payload"
	case 6:
		// flip the parity (another valid V of this network) or move V to another network's range
		base := new(big.Int).SetUint64(35 + 2*s.netID)
		par := new(big.Int).Sub(f.V, base).Uint64()
		if c.Chance("mut-v-net", 1, 3) {
			f.V = new(big.Int).Add(f.V, big.NewInt(int64(2*(1+c.Intn("mut-v-by", 3)))))
		} else {
			f.V = new(big.Int).Add(base, new(big.Int).SetUint64(1-par))
		}
		about = fmt.Sprintf("v %v->%v", e.f.V, f.V)
	case 7:
		f.R = new(big.Int).Xor(f.R, new(big.Int).Lsh(big.NewInt(1), uint(c.Intn("mut-r-bit", 250))))
		about = "r bit"
	case 8:
		f.S = new(big.Int).Xor(f.S, new(big.Int).Lsh(big.NewInt(1), uint(c.Intn("mut-s-bit", 250))))
		about = "s bit"
	}
	return s.addVariant(f.encode(), "mutated-"+fieldNames[fi], e, about)
}

// corruptBytes damages the signed wire bytes in transit (bit flips, byte replacement,
// truncation, extension).
func (s *sim) corruptBytes(e *entry) *variant {
	c := s.c
	raw := append([]byte{}, e.raw...)
	about := ""
	switch c.Intn("corrupt-kind", 4) {
	case 0:
		n := 1 + c.Intn("flips", 3)
		for i := 0; i < n; i++ {
			at := c.Intn("flip-at", len(raw))
			raw[at] ^= byte(1 << uint(c.Intn("flip-bit", 8)))
			about += fmt.Sprintf("bit@%d ", at)
		}
	case 1:
		at := c.Intn("repl-at", len(raw))
		raw[at] = byte(c.Intn("repl", 256))
		about = fmt.Sprintf("byte@%d", at)
	case 2:
		raw = raw[:len(raw)-1-c.Intn("trunc", 4)]
		about = "truncated"
	case 3:
		raw = append(raw, byte(c.Intn("ext", 256)))
		about = "extended"
	}
	return s.addVariant(raw, "corrupted", e, about)
}

// describeUnknown explains an applied transaction that is not in the registry.
func (s *sim) describeUnknown(h common.Hash) string {
	if v, ok := s.variants[h]; ok {
		return fmt.Sprintf("fabricated variant %s (%s of %s: %s)", v.name, v.kind, nameOf(v.of), v.about)
	}
	return "a transaction the simulator never made"
}
