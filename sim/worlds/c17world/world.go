// Package c17world decides C17 (transactions are authentic, applied at most once, charged
// exactly) on real chains: one builder node (real miner.worker over real TxPool, BlockChain and
// staking, forge engine), verifying importer nodes, and a rival node that grows competing forks,
// inside one synctest bubble. The simulator is the wallet of 8 funded client accounts and 4
// nearly empty ones, keeps a registry of everything it signed, fabricates everything it did not
// (other-network twins, high-s twins, field mutations, corrupted bytes), plays a validator that
// proposes blocks without the pool's admission filter (and a Byzantine one that force-includes
// refused transactions), and judges every node's canonical chain after every event.
package c17world

import (
	crand "crypto/rand"
	"fmt"
	"math/big"
	"sync"
	"time"

	"verifsim/kit"
	"verifsim/simdisk"
	"verifsim/worlds/chainkit"

	"github.com/youchainhq/go-youchain/common"
	"github.com/youchainhq/go-youchain/core"
	"github.com/youchainhq/go-youchain/core/types"
	"github.com/youchainhq/go-youchain/logging"
	"github.com/youchainhq/go-youchain/params"
)

const genesisGasLimit = 6_000_000

func init() {
	logging.Root().SetHandler(logging.DiscardHandler())
	kit.Register(&kit.Check{
		Prop: "C17", Name: "chain", World: "CHAIN", Level: "exploration",
		Rule: "one run = 8-36 block events on a builder node (real miner.worker + TxPool + BlockChain + staking over the forge engine), 1-2 verifying importers and, when a fork is drawn, a rival node. " +
			"The simulator is the wallet: it signs (own signing hash, plain secp256k1) transfers, creations and calls of five hand-assembled contracts (storage writer incl. slot clearing, reverter, value forwarder, gas burner, failing init), " +
			"staking transactions (delegation add/sub, validator create/deposit from client accounts, undecodable/unknown/ill-formed payloads) from 8 funded and 4 nearly empty accounts, with gas limits at/below/above intrinsic and above the block limit, " +
			"nonce holes, fills and same-nonce replacements, and records each in a registry. Faults: re-submission of any registered transaction (pending, included, dropped by a reorg, withheld) to the pool; fabricated variants " +
			"(same key for another network id, with and without rewritten V or a sender cache primed by the other network's signer; high-s twins; single-field mutations of nonce/price/limit/to/value/payload/v/r/s without re-signing; bit/byte/length corruption of the wire bytes) " +
			"submitted to the pool or offered to a proposer; a validator proposing blocks through the node's real StateProcessor WITHOUT the pool filter (replays, in-block duplicates, nonce gaps, unaffordable, over-block-gas, below-intrinsic and fabricated transactions), " +
			"a Byzantine proposer force-including what the processor refused; competing forks 1-2 deep grown on a rival node and delivered as a batch (reorg, pool re-injection); importer lag, batching and restarts; blocks travel as RLP bytes. " +
			"Oracle after every event on every node's canonical chain: every applied transaction is registered and its sender, re-derived by plain recovery over the harness's own preimage, is the signing account; V encodes this network; s is low; no hash twice; " +
			"per account applied nonces are 0,1,2,..; running balance >= limit*price+value before each transaction; intrinsic <= gasUsed <= limit; limits fit the block gas; header.GasUsed/GasRewards add up; per block and account " +
			"balance delta == -sum(gasUsed*price + value moved or staked on success) + incoming transfers and nonce delta == applied count (accounts in staking payloads are skipped at staking-period ends only); undecodable staking payloads are failed with all gas; " +
			"blocks containing a processor-refused transaction are rejected by every node; at every refusal inside the proposer state roots, gas pool and header gas counters are compared before/after. " +
			"A run is non-trivial when at least one fault fired.",
		Real: []string{"core.StateProcessor (ApplyTransaction, ApplyMessageEntry, Process, EndBlock)", "core.MessageContext (preCheck, buyGas, refundGas)", "core.StateTransition + core/vm EVM (Istanbul)",
			"staking.TxConverter and handlers, staking EndBlock/take-effect", "core.GasPool", "types.YouSigner / types.Sender incl. sender cache", "crypto secp256k1 (cgo)", "core.TxPool (validateTx, promote/demote, reset with re-injection)",
			"miner.Miner/worker (commitNewWork, commitTransactions, commitTransaction)", "core.BlockChain (InsertChain, insertSidechain, reorg, WriteBlockWithState)", "core.BlockValidator", "ucon.Server as verifier (un-started)", "rlp wire encoding of transactions and blocks", "core/state StateDB"},
		Stub: []string{"consensus rounds: forge (proposer credential, precommit quorum from validator keys the simulator holds)", "p2p / ProtocolManager / downloader: blocks and transactions are handed over as RLP bytes by the simulator",
			"wallets, the pool-bypassing and the Byzantine proposer (a copy of miner/worker.go's block-building sequence calling the node's real Processor)", "quic-go (API stub, never executed)", "clock (synctest)"},
		FaultsNotInjected: []string{
			"crash in the middle of an import (C11's subject); importers are restarted at quiescent points only",
			"concurrent submission while the worker builds (the simulator serialises stimuli)",
			"protocol versions before YouV5 (V3 gas rule for failed staking transactions)",
			"transaction journal, local (AddLocal) submissions",
			"Byzantine blocks with self-consistent roots for a wrong execution (would need a second, wrong executor); force-included blocks carry the roots of the execution that skipped the refused transaction"},
		Assumptions: []string{
			"end-of-block hooks touch client balances only at staking-period ends ((n+1) % StakingTrieFrequency == 0): rewards, withdraw releases, refunds of failed deposits; accounts named in staking payloads are exempt from the exact-charge clause in those blocks only",
			"the tokens a staking transaction stakes are the amount in its payload, detained on success; the transaction's own value field is not moved by the staking module",
			"receipts read from a node's database are the ones committed by the header's receipt root (gasUsed is taken from cumulative differences and compared with the stored per-receipt value)",
			"a fabricated variant that plain recovery attributes to an address nobody knows is legitimate if that address can pay (it never can with price >= 1)"},
		QuickBudget: 45 * time.Second, ThoroughBudget: 15 * time.Minute,
		MinRuns:    16,
		Exec:       runC17,
		PanicClass: kit.PanicInRepo("panic-in-repo"),
		// reach probes every batch is expected to hit (listed in the evidence as probes_never_hit otherwise)
		ExpectedProbes: []string{"applied.all-gas-used", "applied.create-with-value", "applied.failed-call", "applied.failed-create", "applied.failed-stake", "applied.failed-stake-with-amount", "applied.garbage-staking-payload", "applied.ok-call", "applied.ok-create", "applied.ok-stake", "applied.ok-transfer", "applied.slot-clearing-call", "applied.tokens-staked", "reapplied-after-reorg-drop", "refused.block-gas", "refused.gas-funds", "refused.intrinsic-gas", "refused.nonce-high", "refused.nonce-low", "refused.signature", "refused.value-funds", "reorg-dropped-txs", "reorg-on-builder", "worker-left-out-pending", "worker-refused.gas-funds", "worker-refused.nonce-high", "worker-refused.nonce-low", "worker-refused.value-funds"},
	})
}

type imp struct {
	name  string
	stuck bool // rejected the builder's chain for a reason outside this property: no longer fed
	disk  *simdisk.Disk
	im    *chainkit.Importer
	gen   int
}

type sim struct {
	r       *kit.Run
	c       *kit.Chooser
	genesis *core.Genesis
	netID   uint64
	vkeys   []*chainkit.ValKey
	B       *chainkit.Builder
	ims     []*imp
	rival   *imp // grows competing forks; nil until needed, or after it was left on a dead fork

	accts      []*acct
	acctByAddr map[common.Address]*acct
	contracts  []*contract
	clientVals []*clientVal
	// genesisOp: client account -> the genesis validator it operates (Senators V1..V3 are
	// operated by C1..C3, so that deposits and withdrawals reach an existing validator from the
	// first block on)
	genesisOp  map[common.Address]*chainkit.ValKey
	nextValKey int

	reg      map[common.Hash]*entry
	regList  []*entry
	byNonce  map[nonceKey][]*entry
	variants map[common.Hash]*variant
	varList  []*variant
	withheld []*entry

	takeWorkerRefusals func() []workerRefusal

	droppedByReorg map[common.Hash]bool
	droppedList    []common.Hash
	invalidBlocks  map[common.Hash]string
	facts          map[common.Hash]*blockFacts
	mining         bool
}

type critExit struct{}

type workerRefusal struct {
	hash common.Hash
	err  error
}

func runC17(r *kit.Run) {
	oldRand := crand.Reader
	crand.Reader = kit.NewStream(r.Seed, r.Index)
	var refMu sync.Mutex
	var workerRefusals []workerRefusal
	// the worker reports a refused transaction only in its log (miner/worker.go:417)
	logging.Root().SetHandler(logging.FuncHandler(func(rec *logging.Record) error {
		if rec.Msg != "commitTransaction: apply transition failed" {
			return nil
		}
		var wr workerRefusal
		for i := 0; i+1 < len(rec.Ctx); i += 2 {
			switch rec.Ctx[i] {
			case "err":
				if e, ok := rec.Ctx[i+1].(error); ok {
					wr.err = e
				}
			case "tx":
				if h, ok := rec.Ctx[i+1].(string); ok {
					wr.hash = common.HexToHash(h)
				}
			}
		}
		refMu.Lock()
		workerRefusals = append(workerRefusals, wr)
		refMu.Unlock()
		return nil
	}))
	defer func() {
		crand.Reader = oldRand
		logging.SimCrit = nil
		logging.Root().SetHandler(logging.DiscardHandler())
	}()
	err := kit.Bubble(func() {
		s := &sim{r: r, c: r.C, acctByAddr: map[common.Address]*acct{}, reg: map[common.Hash]*entry{}, byNonce: map[nonceKey][]*entry{},
			variants: map[common.Hash]*variant{}, droppedByReorg: map[common.Hash]bool{}, invalidBlocks: map[common.Hash]string{}, facts: map[common.Hash]*blockFacts{}}
		s.takeWorkerRefusals = func() []workerRefusal {
			refMu.Lock()
			defer refMu.Unlock()
			out := workerRefusals
			workerRefusals = nil
			return out
		}
		logging.SimCrit = func(msg string, ctx []interface{}) {
			r.Report("logging-crit", "the code under test called logging.Crit (process exit): %s %v", msg, ctx)
			panic(critExit{})
		}
		// validator set: 4 online chamber validators (the subject is transactions, not sortition)
		keys := chainkit.Keys()
		nv := 4
		var vals []chainkit.GenVal
		for i := 0; i < nv; i++ {
			role := params.RoleSenator
			if i == 0 {
				role = params.RoleChancellor
			}
			vals = append(vals, chainkit.GenVal{Key: keys[i], Stake: uint64(50000 + 10000*r.C.Intn("stake", 4)), Role: role, Status: params.ValidatorOnline})
			s.vkeys = append(s.vkeys, keys[i])
		}
		s.nextValKey = nv
		s.genesis = chainkit.MakeGenesis(vals, params.YouV5)
		s.genesis.GasLimit = genesisGasLimit
		s.netID = s.genesis.NetworkId
		s.accts = makeAccounts()
		// the zero address holds funds, as burn addresses do on real chains
		s.genesis.Alloc[common.Address{}] = core.GenesisAccount{Balance: new(big.Int).Mul(big.NewInt(1_000_000), params.StakeUint)}
		s.genesisOp = map[common.Address]*chainkit.ValKey{}
		for i := 1; i < nv; i++ {
			gv := s.genesis.Validators[keys[i].Addr]
			gv.OperatorAddress = s.accts[i].addr
			s.genesis.Validators[keys[i].Addr] = gv
			s.genesisOp[s.accts[i].addr] = keys[i]
		}
		for i, a := range s.accts {
			s.acctByAddr[a.addr] = a
			if a.poor {
				s.genesis.Alloc[a.addr] = core.GenesisAccount{Balance: big.NewInt(poorBalances[i-chainkit.NClients])}
			}
		}
		b, err := chainkit.NewBuilder(simdisk.NewNoLog(), s.genesis, s.vkeys, core.DefaultTxPoolConfig)
		if err != nil {
			panic("c17world: builder: " + err.Error())
		}
		s.B = b
		kit.Wait()
		defer func() {
			for _, im := range s.ims {
				im.im.Stop(kit.Wait)
			}
			if s.rival != nil {
				s.rival.im.Stop(kit.Wait)
			}
			b.Stop(kit.Wait)
			time.Sleep(10 * time.Second) // let tickers observe their quit channels
			kit.Wait()
		}()
		s.run()
	})
	if err != nil {
		panic(fmt.Sprintf("c17world: %v", err))
	}
}

func (s *sim) newImporter(name string) *imp {
	d := simdisk.NewNoLog()
	im, err := chainkit.NewImporter(d, s.genesis, kit.Wait)
	if err != nil {
		panic("c17world: importer: " + err.Error())
	}
	return &imp{name: name, disk: d, im: im}
}

func (s *sim) run() {
	r, c := s.r, s.c
	nIm := 1 + c.Intn("importers", 2)
	for i := 0; i < nIm; i++ {
		s.ims = append(s.ims, s.newImporter(fmt.Sprintf("I%d", i+1)))
	}
	steps := 8 + c.Intn("steps", 29)
	if r.Tier == "thorough" {
		steps = 8 + c.Intn("steps", 33)
	}
	r.Logf("run: %d importers, %d steps, network %d", nIm, steps, s.netID)
	for step := 0; step < steps; step++ {
		r.Steps++
		// 1. the wallets sign and (mostly) broadcast new transactions
		for i, n := 0, c.Weighted("new-txs", []int{2, 4, 4, 3, 2, 1}); i < n; i++ {
			e := s.genTx()
			if c.Chance("withhold", 1, 6) {
				s.withheld = append(s.withheld, e)
				r.Logf("  %s withheld from the pool", e.name)
				continue
			}
			s.submitEntry(e, "new")
		}
		// 2. transaction-level faults against the builder's pool
		for i, n := 0, c.Weighted("tx-faults", []int{4, 3, 2, 1}); i < n; i++ {
			s.txFault()
		}
		// 3. one block event
		time.Sleep(time.Second + time.Duration(c.Intn("block-gap-ms", 3000))*time.Millisecond)
		r.SimTime += time.Second
		switch c.Weighted("block-mode", []int{6, 4, 1}) {
		case 0:
			s.workerBlock()
		case 1:
			s.proposerBlock()
		case 2:
			if !s.forkEvent() {
				s.workerBlock()
			}
		}
		// 4. importers: lag, batches, restarts
		for _, im := range s.ims {
			if im.stuck {
				continue
			}
			if c.Chance("importer-lags", 1, 5) {
				r.Fault("importer-lag")
				continue
			}
			s.syncTo(im, s.B.Chain.CurrentBlock().NumberU64())
			if c.Chance("importer-restart", 1, 12) {
				s.restart(im)
			}
		}
		// 5. the history oracle on every node
		s.checkAll()
		if len(r.Violations) > 0 && r.HasClass("logging-crit") {
			return
		}
	}
	// final: everybody catches up, last judgement
	for _, im := range s.ims {
		if !im.stuck {
			s.syncTo(im, s.B.Chain.CurrentBlock().NumberU64())
		}
	}
	s.checkAll()
	applied := 0
	head := s.B.Chain.CurrentBlock().NumberU64()
	for n := uint64(1); n <= head; n++ {
		applied += len(s.B.Chain.GetBlockByNumber(n).Transactions())
	}
	for _, e := range s.regList {
		if s.droppedByReorg[e.hash] && s.appliedOn(s.B.Chain, e.hash) {
			r.Probe("reapplied-after-reorg-drop")
		}
	}
	r.Logf("end: head=%d applied=%d registered=%d fabricated=%d", head, applied, len(s.regList), len(s.varList))
	r.Count("registered-txs", int64(len(s.regList)))
	r.Count("fabricated-variants", int64(len(s.varList)))
	r.Count("applied-on-builder-chain", int64(applied))
}

func (s *sim) checkAll() {
	s.checkNode("B", s.B.Chain)
	for _, im := range s.ims {
		s.checkNode(im.name, im.im.Chain)
	}
	if s.rival != nil {
		s.checkNode(s.rival.name, s.rival.im.Chain)
	}
}

// ---- pool submissions ---------------------------------------------------------------------------

// submitRaw hands wire bytes to the builder's pool the way the protocol handler does
// (you/handler.go TxMsg: decode, then txpool.AddRemotes). prime, if set, is applied to the
// decoded object first.
func (s *sim) submitRaw(raw []byte, label string, prime func(*types.Transaction)) error {
	tx, err := decodeTx(raw)
	if err != nil {
		s.r.Logf("  submit %s: wire decoder refused it: %v", label, err)
		return err
	}
	if prime != nil {
		prime(tx)
	}
	errs := s.B.Pool.AddRemotesSync([]*types.Transaction{tx})
	s.B.Settle(kit.Wait)
	s.r.Logf("  submit %s -> %s", label, errClass(errs[0]))
	s.r.FP("submit", errClass(errs[0]))
	return errs[0]
}

func errClass(err error) string {
	if err == nil {
		return "accepted"
	}
	m := err.Error()
	if len(m) > 16 && m[:16] == "know transaction" {
		return "known"
	}
	return m
}

func (s *sim) submitEntry(e *entry, why string) {
	e.submitted = true
	s.submitRaw(e.raw, fmt.Sprintf("%s(%s)", e.name, why), nil)
}

// appliedOn reports whether hash h is on chain's canonical chain (through the judged facts).
func (s *sim) appliedOn(chain *core.BlockChain, h common.Hash) bool {
	head := chain.CurrentBlock().NumberU64()
	for n := uint64(1); n <= head; n++ {
		for _, tx := range chain.GetBlockByNumber(n).Transactions() {
			if tx.Hash() == h {
				return true
			}
		}
	}
	return false
}

// pickEntry picks a registered transaction; with preferUnapplied the choice is among those whose
// nonce is not yet used up on the builder's chain (if any).
func (s *sim) pickEntry(preferUnapplied bool) *entry {
	if len(s.regList) == 0 {
		return nil
	}
	if preferUnapplied {
		st, err := s.B.Chain.State()
		if err != nil {
			panic(err)
		}
		var open []*entry
		for _, e := range s.regList {
			if e.f.Nonce >= st.GetNonce(e.a.addr) {
				open = append(open, e)
			}
		}
		if len(open) > 0 {
			return open[s.c.Intn("pick-open", len(open))]
		}
	}
	return s.regList[s.c.Intn("pick-any", len(s.regList))]
}

// fabricate makes one variant of a registered transaction (or a fresh other-network one).
func (s *sim) fabricate(preferUnapplied bool) (*variant, func(*types.Transaction)) {
	c := s.c
	e := s.pickEntry(preferUnapplied)
	if e == nil {
		return nil, nil
	}
	var prime func(*types.Transaction)
	var v *variant
	switch c.Weighted("variant", []int{3, 3, 2, 2, 4, 3}) {
	case 0:
		v = s.highSTwin(e)
	case 1:
		v = s.wrongNetTwin(e)
	case 2:
		st, err := s.B.Chain.State()
		if err != nil {
			panic(err)
		}
		a := s.accts[c.Intn("wn-acct", chainkit.NClients)]
		v = s.wrongNetFresh(a, st.GetNonce(a.addr))
	case 3:
		v = s.wrongNetRewrittenV(e)
	case 4:
		v = s.mutateField(e)
	case 5:
		v = s.corruptBytes(e)
	}
	if v != nil && (v.kind == "wrong-network" || v.kind == "wrong-network-fresh") && c.Chance("prime-sender-cache", 1, 2) {
		// a process that serves both networks has already derived the sender with the OTHER
		// network's signer on this very object (types.Sender caches per object, keyed by signer)
		prime = func(tx *types.Transaction) {
			if _, err := types.Sender(types.NewYouSigner(otherNetID), tx); err != nil {
				panic("c17world: other-network twin is not valid on the other network: " + err.Error())
			}
		}
	}
	return v, prime
}

func (s *sim) txFault() {
	c, r := s.c, s.r
	switch c.Weighted("tx-fault", []int{4, 2, 5}) {
	case 0: // duplicate: the same signed bytes again (pending, included, dropped, whatever)
		e := s.pickEntry(false)
		if len(s.droppedList) > 0 && c.Chance("resubmit-dropped", 1, 3) {
			e = s.reg[s.droppedList[c.Intn("dropped", len(s.droppedList))]]
		}
		if e == nil {
			return
		}
		r.Fault("resubmit")
		if s.appliedOn(s.B.Chain, e.hash) {
			r.Fault("resubmit-after-inclusion")
		} else if s.droppedByReorg[e.hash] {
			r.Fault("resubmit-after-reorg-drop")
		}
		n := 1 + c.Intn("resubmit-times", 3)
		for i := 0; i < n; i++ {
			s.submitEntry(e, "again")
		}
	case 1: // a withheld transaction reaches the pool late
		if len(s.withheld) == 0 {
			return
		}
		i := c.Intn("release", len(s.withheld))
		e := s.withheld[i]
		s.withheld = append(s.withheld[:i:i], s.withheld[i+1:]...)
		r.Fault("late-submission")
		s.submitEntry(e, "late")
	case 2: // a fabricated variant is broadcast
		v, prime := s.fabricate(c.Chance("variant-of-open", 2, 3))
		if v == nil {
			return
		}
		r.Fault("variant-to-pool." + v.kind)
		if prime != nil {
			r.Fault("variant-with-primed-sender-cache")
		}
		if err := s.submitRaw(v.raw, fmt.Sprintf("%s(%s)", v.name, v.kind), prime); err == nil {
			r.Probe("pool-accepted-variant")
		}
	}
}

// ---- block events ---------------------------------------------------------------------------------

// workerBlock: the builder's real worker builds from its pool.
func (s *sim) workerBlock() {
	r := s.r
	// what the pool offers the worker (Pending() is a map: sorted before use)
	parent := s.B.Chain.CurrentBlock()
	pend, _ := s.B.Pool.Pending()
	var offered []*types.Transaction
	for _, a := range s.accts {
		offered = append(offered, pend[a.addr]...)
	}
	var blk *types.Block
	var err error
	if !s.mining {
		blk, err = s.B.Start(kit.Wait)
		s.mining = true
	} else {
		blk, err = s.B.Build(kit.Wait)
	}
	if err != nil {
		r.Fail("build-failed", "the worker did not produce a block on head %d: %v", s.B.Chain.CurrentBlock().NumberU64(), err)
	}
	r.Logf("worker block %d %s txs=%d gasUsed=%d/%d: %s", blk.NumberU64(), short(blk.Hash()), len(blk.Transactions()), blk.GasUsed(), blk.GasLimit(), s.txNames(blk))
	r.FP("worker", fmt.Sprint(len(blk.Transactions())))
	for _, wr := range s.takeWorkerRefusals() {
		cls := "unknown"
		if wr.err != nil {
			cls = refusalClass(wr.err)
		}
		r.Logf("  worker refused %s: %v", s.label(wr.hash), wr.err)
		r.Probe("worker-refused." + cls)
		r.FP("worker-refused", cls)
		r.Nontrivial()
	}
	if blk.ParentHash() != parent.Hash() {
		return
	}
	// transactions the pool offered and the worker left out: refused (or not reached)
	in := map[common.Hash]bool{}
	for _, tx := range blk.Transactions() {
		in[tx.Hash()] = true
	}
	left := ""
	for _, tx := range offered {
		if !in[tx.Hash()] {
			left += s.label(tx.Hash()) + " "
		}
	}
	if left != "" {
		r.Logf("  worker left out pending: %s", left)
		r.Probe("worker-left-out-pending")
		r.Nontrivial()
	}
}

func (s *sim) txNames(b *types.Block) string {
	out := ""
	for _, tx := range b.Transactions() {
		out += s.label(tx.Hash()) + " "
	}
	return out
}

// candidatesFor draws what a proposer offers on top of parent (state read from chain).
func (s *sim) candidatesFor(chain *core.BlockChain, parent *types.Block, byzantine bool) []candidate {
	c := s.c
	st, err := chain.StateAt(parent.Root(), parent.ValRoot(), parent.StakingRoot())
	if err != nil {
		panic(err)
	}
	fresh := func(raw []byte) *types.Transaction {
		tx, err := decodeTx(raw)
		if err != nil {
			panic(err)
		}
		return tx
	}
	// ready transactions: for each account the registered ones with the next nonce(s)
	var cands []candidate
	var readyEntries []*entry
	for _, a := range s.accts {
		n := st.GetNonce(a.addr)
		for k := 0; k < 2; k++ {
			es := s.byNonce[nonceKey{a, n + uint64(k)}]
			if len(es) == 0 {
				break
			}
			readyEntries = append(readyEntries, es[c.Intn("which-of-nonce", len(es))])
		}
	}
	if len(readyEntries) > 0 {
		// a window of the ready list (rotation keeps per-account nonce order)
		start := c.Intn("ready-from", len(readyEntries))
		m := 1 + c.Intn("ready-n", 5)
		for i := start; i < len(readyEntries) && i < start+m; i++ {
			e := readyEntries[i]
			cands = append(cands, candidate{fresh(e.raw), e.name})
		}
	}
	if !byzantine {
		return cands
	}
	// faults: 1-2 transactions no honest block may contain
	for k, n := 0, 1+c.Intn("byz-n", 2); k < n; k++ {
		var cd *candidate
		kind := ""
		switch c.Weighted("byz-kind", []int{3, 3, 3, 2, 2, 2, 5, 2}) {
		case 0: // replay of a transaction already applied on this chain
			var old []*entry
			for _, e := range s.regList {
				if e.f.Nonce < st.GetNonce(e.a.addr) {
					old = append(old, e)
				}
			}
			if len(old) > 0 {
				e := old[c.Intn("replay", len(old))]
				cd, kind = &candidate{fresh(e.raw), e.name + "!replay"}, "replay"
			}
		case 1: // the same transaction twice in this block
			if len(cands) > 0 {
				o := cands[c.Intn("dup", len(cands))]
				if e := s.reg[o.tx.Hash()]; e != nil {
					cd, kind = &candidate{fresh(e.raw), e.name + "!dup"}, "dup-in-block"
				}
			}
		case 2: // a nonce beyond the next one
			var gap []*entry
			for _, e := range s.regList {
				if e.f.Nonce > st.GetNonce(e.a.addr) {
					gap = append(gap, e)
				}
			}
			if len(gap) > 0 {
				e := gap[c.Intn("gap", len(gap))]
				cd, kind = &candidate{fresh(e.raw), e.name + "!gap"}, "nonce-gap"
			}
		case 3: // whatever a poor account signed (unaffordable more often than not)
			var poor []*entry
			for _, e := range s.regList {
				if e.a.poor && e.f.Nonce >= st.GetNonce(e.a.addr) {
					poor = append(poor, e)
				}
			}
			if len(poor) > 0 {
				e := poor[c.Intn("poor-tx", len(poor))]
				cd, kind = &candidate{fresh(e.raw), e.name + "!poor"}, "poor-sender"
			}
		case 4: // gas limit beyond the block / below intrinsic
			var odd []*entry
			for _, e := range s.regList {
				if (e.f.Gas < e.intr || e.f.Gas > genesisGasLimit) && e.f.Nonce >= st.GetNonce(e.a.addr) {
					odd = append(odd, e)
				}
			}
			if len(odd) > 0 {
				e := odd[c.Intn("odd-gas", len(odd))]
				cd, kind = &candidate{fresh(e.raw), e.name + "!gas"}, "odd-gas-limit"
			}
		case 5: // a withheld transaction (perfectly valid, just never broadcast)
			if len(s.withheld) > 0 {
				e := s.withheld[c.Intn("withheld", len(s.withheld))]
				cd, kind = &candidate{fresh(e.raw), e.name + "!withheld"}, "withheld"
			}
		case 7: // a high-s twin of a transaction that carries the ZERO ADDRESS's next nonce: whoever
			// mistakes a refused signature for "sender = zero address" finds nonce and funds in order
			a := s.accts[c.Intn("zero-twin-signer", chainkit.NClients)]
			to := s.accts[(a.idx+1)%chainkit.NClients].addr
			f := &txFields{Nonce: st.GetNonce(common.Address{}), Price: big.NewInt(int64(300 + a.idx)), Gas: 21000 + uint64(c.Intn("zero-twin-slack", 3))*1000, To: &to, Value: big.NewInt(int64(1 + c.Intn("zero-twin-amt", 1000)))}
			e := s.register(a, f, kTransfer, "zero-address-nonce", nil)
			if v := s.highSTwin(e); v != nil {
				cd, kind = &candidate{fresh(v.raw), v.name + "!" + v.kind}, "variant.high-s-with-zero-address-nonce"
			}
		case 6: // a fabricated variant
			v, prime := s.fabricate(true)
			if v != nil {
				tx := fresh(v.raw)
				if prime != nil {
					prime(tx)
					s.r.Fault("variant-with-primed-sender-cache")
				}
				cd, kind = &candidate{tx, v.name + "!" + v.kind}, "variant."+v.kind
			}
		}
		if cd == nil {
			continue
		}
		s.r.Fault("proposer-offers." + kind)
		at := c.Intn("byz-at", len(cands)+1)
		cands = append(cands[:at:at], append([]candidate{*cd}, cands[at:]...)...)
	}
	return cands
}

// proposerBlock: a validator proposes on the builder's head without the pool filter; the block
// is built on the builder node's database and then handed to the builder node's chain as bytes
// (InsertChain), like a block received from the network.
func (s *sim) proposerBlock() {
	r, c := s.r, s.c
	parent := s.B.Chain.CurrentBlock()
	byz := c.Chance("proposer-byzantine", 2, 3)
	cands := s.candidatesFor(s.B.Chain, parent, byz)
	force := byz && c.Chance("force-include", 1, 2)
	r.Logf("proposer block on %d (%d candidates, byzantine=%v force=%v)", parent.NumberU64(), len(cands), byz, force)
	p, err := s.propose(s.B.Chain, s.B.Engine.Server, parent, cands, force)
	if err != nil {
		panic("c17world: proposer: " + err.Error())
	}
	blk := p.block
	r.FP("proposer", fmt.Sprint(p.included), fmt.Sprint(len(p.refused)), fmt.Sprint(p.invalid != ""))
	if p.invalid != "" {
		r.Fault("byzantine-block-forced")
		s.invalidBlocks[blk.Hash()] = p.invalid
		r.Logf("byzantine block %d %s txs=%d: %s (must be rejected: %s)", blk.NumberU64(), short(blk.Hash()), len(blk.Transactions()), s.txNames(blk), p.invalid)
		s.offerInvalid("B", s.B.Chain, blk)
		s.B.Settle(kit.Wait)
		for _, im := range s.ims {
			if im.im.Chain.CurrentBlock().Hash() == blk.ParentHash() {
				s.offerInvalid(im.name, im.im.Chain, blk)
			}
		}
		return
	}
	r.Logf("proposer block %d %s txs=%d gasUsed=%d/%d: %s", blk.NumberU64(), short(blk.Hash()), len(blk.Transactions()), blk.GasUsed(), blk.GasLimit(), s.txNames(blk))
	err = s.B.Chain.InsertChain(types.Blocks{wire(blk)})
	s.B.Settle(kit.Wait)
	if err != nil || s.B.Chain.CurrentBlock().Hash() != blk.Hash() {
		r.Fail("node-rejects-processor-built-block", "block %d built through the node's own state processor is rejected by the same node's InsertChain: err=%v head=%d", blk.NumberU64(), err, s.B.Chain.CurrentBlock().NumberU64())
	}
	if len(p.refused) > 0 {
		r.Nontrivial()
	}
}

// offerInvalid delivers a block that contains a processor-refused transaction.
func (s *sim) offerInvalid(name string, chain *core.BlockChain, blk *types.Block) {
	before := chain.CurrentBlock().Hash()
	err := chain.InsertChain(types.Blocks{wire(blk)})
	kit.Wait()
	s.r.Logf("  %s: byzantine block %s -> err=%v", name, short(blk.Hash()), err != nil)
	if chain.CurrentBlock().Hash() == blk.Hash() || chain.CurrentBlock().Hash() != before {
		s.r.Report("invalid-block-accepted", "%s: head moved to/after block %d %s although %s (InsertChain err=%v)", name, blk.NumberU64(), short(blk.Hash()), s.invalidBlocks[blk.Hash()], err)
	} else if err == nil {
		s.r.Report("invalid-block-not-refused", "%s: InsertChain returned nil for block %d %s although %s", name, blk.NumberU64(), short(blk.Hash()), s.invalidBlocks[blk.Hash()])
	}
}

// forkEvent: the rival node, which followed the builder's chain only up to head-d, grows d+1
// blocks of its own (honest, through its real processor, from registered transactions in a
// different selection) and the batch is delivered to the builder node: reorg.
func (s *sim) forkEvent() bool {
	r, c := s.r, s.c
	head := s.B.Chain.CurrentBlock().NumberU64()
	d := uint64(1 + c.Intn("fork-depth", 2))
	if head < d+1 {
		return false
	}
	if s.rival != nil && s.rival.stuck {
		s.rival.im.Stop(kit.Wait)
		s.rival = nil
	}
	if s.rival == nil {
		s.rival = s.newImporter("R")
	}
	rv := s.rival
	rh := rv.im.Chain.CurrentBlock()
	// the rival must be on the builder's canonical chain, at or below the fork point
	if cb := s.B.Chain.GetBlockByNumber(rh.NumberU64()); cb == nil || cb.Hash() != rh.Hash() || rh.NumberU64() > head-d {
		if cb != nil && cb.Hash() == rh.Hash() && rh.NumberU64() < head {
			d = head - rh.NumberU64() // fork from where the rival stands
			if d > 3 {
				return false
			}
		} else {
			return false
		}
	}
	forkPoint := head - d
	s.syncTo(rv, forkPoint)
	if rv.im.Chain.CurrentBlock().NumberU64() != forkPoint {
		return false
	}
	r.Fault("fork")
	r.Logf("fork: rival builds %d blocks on %d (builder head %d)", d+1, forkPoint, head)
	var blocks types.Blocks
	for j := uint64(0); j <= d; j++ {
		if j > 0 {
			time.Sleep(time.Second)
		}
		parent := rv.im.Chain.CurrentBlock()
		cands := s.candidatesFor(rv.im.Chain, parent, false)
		p, err := s.propose(rv.im.Chain, rv.im.Engine, parent, cands, false)
		if err != nil {
			panic("c17world: rival proposer: " + err.Error())
		}
		blk := p.block
		r.Logf("rival block %d %s txs=%d: %s", blk.NumberU64(), short(blk.Hash()), len(blk.Transactions()), s.txNames(blk))
		err = rv.im.Chain.InsertChain(types.Blocks{wire(blk)})
		kit.Wait()
		if err != nil || rv.im.Chain.CurrentBlock().Hash() != blk.Hash() {
			r.Fail("node-rejects-processor-built-block", "rival: block %d built through the node's own state processor is rejected by its InsertChain: %v", blk.NumberU64(), err)
		}
		blocks = append(blocks, blk)
	}
	// Delivery: the fork's blocks reach the builder node as they are gossiped, each time as
	// the batch "missing ancestors + new block" (prefixes f1, f1..f2, ...). A single batch of two
	// or more unknown side blocks crashes the importing node on the unchanged tree (nil
	// dereference in staking.checkAndUpgradeValidatorsToYouV5, endblock.go:126, reached from
	// verifyAllSideChainBlocks before the first side block's header is written) - that is C11's
	// subject and is avoided here.
	oldHead := s.B.Chain.CurrentBlock()
	var err error
	for j := 1; j <= len(blocks) && err == nil; j++ {
		var wired types.Blocks
		for _, b := range blocks[:j] {
			wired = append(wired, wire(b))
		}
		err = s.B.Chain.InsertChain(wired)
		s.B.Settle(kit.Wait)
	}
	nh := s.B.Chain.CurrentBlock()
	r.Logf("fork delivered to B: err=%v head %d %s -> %d %s", err, oldHead.NumberU64(), short(oldHead.Hash()), nh.NumberU64(), short(nh.Hash()))
	if nh.Hash() == blocks[len(blocks)-1].Hash() {
		r.Probe("reorg-on-builder")
		// transactions of the abandoned branch that the new branch does not contain
		onNew := map[common.Hash]bool{}
		for _, b := range blocks {
			for _, tx := range b.Transactions() {
				onNew[tx.Hash()] = true
			}
		}
		dropped := 0
		for ob := oldHead; ob != nil && ob.NumberU64() > forkPoint; ob = s.B.Chain.GetBlock(ob.ParentHash(), ob.NumberU64()-1) {
			for _, tx := range ob.Transactions() {
				if !onNew[tx.Hash()] {
					if !s.droppedByReorg[tx.Hash()] && s.reg[tx.Hash()] != nil {
						s.droppedList = append(s.droppedList, tx.Hash())
					}
					s.droppedByReorg[tx.Hash()] = true
					dropped++
				}
			}
		}
		if dropped > 0 {
			r.Probe("reorg-dropped-txs")
			r.Logf("  reorg dropped %d applied transactions", dropped)
		}
		r.FP("reorg", fmt.Sprint(d))
	} else {
		// the longer chain was not adopted: not this property's subject (C11); the rival is
		// left on a dead fork and a new one is created when needed
		r.Probe("fork-not-adopted")
		s.rival.im.Stop(kit.Wait)
		s.rival = nil
	}
	return true
}

// ---- importers --------------------------------------------------------------------------------------

// syncTo brings node im to the builder's canonical chain up to block `upto`.
func (s *sim) syncTo(im *imp, upto uint64) {
	r, c := s.r, s.c
	ch := im.im.Chain
	// highest common canonical block
	base := ch.CurrentBlock().NumberU64()
	if base > upto {
		base = upto
	}
	for base > 0 {
		mine, theirs := ch.GetBlockByNumber(base), s.B.Chain.GetBlockByNumber(base)
		if mine != nil && theirs != nil && mine.Hash() == theirs.Hash() {
			break
		}
		base--
	}
	if ch.CurrentBlock().NumberU64() >= upto && base == upto {
		return
	}
	if base == upto {
		// the node is ahead on another branch of equal or greater length: nothing to deliver
		return
	}
	var blocks types.Blocks
	for n := base + 1; n <= upto; n++ {
		blocks = append(blocks, wire(s.B.Chain.GetBlockByNumber(n)))
	}
	if ch.CurrentBlock().NumberU64() > base {
		r.Fault("importer-reorg")
	}
	// one batch or one by one; a node that is on another branch gets the new branch as growing
	// prefixes (see forkEvent)
	var err error
	switch {
	case ch.CurrentBlock().NumberU64() > base:
		for j := 1; j <= len(blocks) && err == nil; j++ {
			var pre types.Blocks
			for _, b := range blocks[:j] {
				pre = append(pre, wire(b))
			}
			err = ch.InsertChain(pre)
			kit.Wait()
		}
	case len(blocks) > 1 && c.Chance("one-by-one", 1, 2):
		for _, b := range blocks {
			if err = ch.InsertChain(types.Blocks{b}); err != nil {
				break
			}
			kit.Wait()
		}
	default:
		err = ch.InsertChain(blocks)
	}
	kit.Wait()
	want := s.B.Chain.GetBlockByNumber(upto).Hash()
	got := ch.CurrentBlock()
	r.Logf("  %s: import %d..%d -> err=%v head=%d %s", im.name, base+1, upto, err, got.NumberU64(), short(got.Hash()))
	if err != nil {
		if cls := refusalClass(err); cls != "other" {
			// the builder's canonical chain holds a transaction that this node's processor refuses
			r.Report("importer-refuses-applied-transaction", "%s rejects blocks %d..%d of the builder's canonical chain: %v", im.name, base+1, upto, err)
		} else {
			// any other disagreement (roots after end-of-block hooks, fork handling) is not this
			// property's subject (C06/C11): counted, and the node is left where it is
			r.Probe("importer-rejects-builder-chain")
		}
		im.stuck = true
		return
	}
	if got.Hash() != want {
		if got.NumberU64() >= upto {
			r.Probe("importer-keeps-own-branch")
			return
		}
		r.Probe("importer-does-not-follow")
		im.stuck = true
	}
}

func (s *sim) restart(im *imp) {
	im.im.Stop(kit.Wait)
	im.disk = im.disk.Restart()
	n, err := chainkit.NewImporter(im.disk, s.genesis, kit.Wait)
	if err != nil {
		panic("c17world: importer restart: " + err.Error())
	}
	im.im = n
	im.gen++
	s.r.Fault("importer-restart")
	s.r.Logf("  %s restarted: head=%d", im.name, n.Chain.CurrentBlock().NumberU64())
}
