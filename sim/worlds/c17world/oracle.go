package c17world

import (
	"fmt"
	"math/big"
	"strings"

	"github.com/youchainhq/go-youchain/common"
	"github.com/youchainhq/go-youchain/core"
	"github.com/youchainhq/go-youchain/core/types"
	"github.com/youchainhq/go-youchain/params"
)

// The history oracle. Everything is judged from what a node's database holds for its canonical
// chain (blocks, receipts, state at the committed roots) and from the simulator's registry;
// the sender of every applied transaction is re-derived by the harness (recoverOwn).

type problem struct{ class, detail string }

type appliedTx struct {
	hash    common.Hash
	e       *entry
	from    common.Address
	fromOK  bool
	nonce   uint64
	gasUsed uint64
	status  uint64
}

// blockFacts is the (node-independent, root-committed) judgement of one block.
type blockFacts struct {
	num      uint64
	txs      []appliedTx
	problems []problem
}

func (bf *blockFacts) add(class, format string, a ...interface{}) {
	bf.problems = append(bf.problems, problem{class, fmt.Sprintf(format, a...)})
}

func (s *sim) label(h common.Hash) string {
	if e := s.reg[h]; e != nil {
		return e.name
	}
	if v := s.variants[h]; v != nil {
		return v.name
	}
	return short(h)
}

// judgeBlock evaluates the per-block clauses of C17 for block b using chain's database.
func (s *sim) judgeBlock(chain *core.BlockChain, b *types.Block) *blockFacts {
	if bf := s.facts[b.Hash()]; bf != nil {
		return bf
	}
	bf := &blockFacts{num: b.NumberU64()}
	s.facts[b.Hash()] = bf
	h := b.Header()
	parent := chain.GetBlock(b.ParentHash(), b.NumberU64()-1)
	if parent == nil {
		panic(fmt.Sprintf("c17world: canonical block %d without parent in the database", b.NumberU64()))
	}
	pre, err := chain.StateAt(parent.Root(), parent.ValRoot(), parent.StakingRoot())
	if err != nil {
		panic(fmt.Sprintf("c17world: no state for canonical block %d: %v", parent.NumberU64(), err))
	}
	post, err := chain.StateAt(b.Root(), b.ValRoot(), b.StakingRoot())
	if err != nil {
		panic(fmt.Sprintf("c17world: no state for canonical block %d: %v", b.NumberU64(), err))
	}
	receipts := chain.GetReceiptsByHash(b.Hash())
	txs := b.Transactions()
	if len(receipts) < len(txs) {
		panic(fmt.Sprintf("c17world: block %d has %d transactions but %d receipts", b.NumberU64(), len(txs), len(receipts)))
	}
	yp, err := chain.VersionForRound(b.NumberU64())
	if err != nil {
		panic(err)
	}
	boundary := (b.NumberU64()+1)%yp.StakingTrieFrequency == 0

	// tracked accounts: every account of the simulator plus every other recovered sender
	type track struct {
		name      string
		a         *acct
		run       *big.Int // running balance
		nonce     uint64   // running nonce
		n         int      // applied transactions of this account in the block
		unmodeled bool     // a transaction whose value movement the harness cannot model
		terms     []string
		clears    []*big.Int // for successful slot-clearing calls: min(gasUsed/2, 15000)*price

	}
	tracked := map[common.Address]*track{}
	var order []common.Address
	get := func(a common.Address) *track {
		if t := tracked[a]; t != nil {
			return t
		}
		t := &track{name: s.addrName(a), a: s.acctByAddr[a], run: pre.GetBalance(a), nonce: pre.GetNonce(a)}
		t.run = new(big.Int).Set(t.run)
		tracked[a] = t
		order = append(order, a)
		return t
	}
	for _, a := range s.accts {
		get(a.addr)
	}

	var cum uint64
	rewards := new(big.Int)
	for i, tx := range txs {
		f := fieldsOf(tx)
		hash := tx.Hash()
		rc := receipts[i]
		gasUsed := rc.CumulativeGasUsed - cum
		at := appliedTx{hash: hash, e: s.reg[hash], nonce: f.Nonce, gasUsed: gasUsed, status: rc.Status}
		lbl := fmt.Sprintf("block %d tx %d (%s %s)", b.NumberU64(), i, s.label(hash), short(hash))

		rec := recoverOwn(f, s.netID)
		at.from, at.fromOK = rec.from, rec.ok
		switch {
		case !rec.ok:
			bf.add("applied-invalid-signature", "%s: %s; it is %s", lbl, rec.reason, s.describeUnknown(hash))
		case rec.highS:
			bf.add("applied-high-s", "%s: s > n/2 (malleable twin); plain recovery gives %s; it is %s", lbl, s.addrName(rec.from), s.describeUnknown(hash))
		}
		if at.e != nil && rec.ok && rec.from != at.e.a.addr {
			bf.add("sender-mismatch", "%s: registered as signed by %s but plain recovery over the fields gives %x", lbl, at.e.a.name, rec.from)
		}
		if at.e == nil && rec.ok && s.acctByAddr[rec.from] != nil && !rec.highS {
			bf.add("applied-forged-tx", "%s: attributed to %s whose key holder never signed it; it is %s", lbl, s.addrName(rec.from), s.describeUnknown(hash))
		}
		// gas accounting
		intr := intrinsicGas(f.To, f.Data)
		if gasUsed < intr || gasUsed > f.Gas {
			cls := "gas-used-out-of-bounds"
			if gasUsed <= f.Gas && 2*gasUsed >= intr && s.mayClearSlot(f) {
				// only possible if the node reports gas AFTER the storage refund (capped at half)
				cls = "gas-used-below-intrinsic-after-sstore-refund"
			}
			bf.add(cls, "%s: gasUsed=%d, intrinsic=%d, limit=%d", lbl, gasUsed, intr, f.Gas)
		}
		if rc.GasUsed != gasUsed {
			bf.add("receipt-gas-inconsistent", "%s: receipt.GasUsed=%d but cumulative difference=%d", lbl, rc.GasUsed, gasUsed)
		}
		if cum+f.Gas > h.GasLimit {
			bf.add("applied-beyond-block-gas", "%s: gas limit %d does not fit: %d of the block's %d already used", lbl, f.Gas, cum, h.GasLimit)
		}
		if at.e != nil && at.e.garbage && (rc.Status != 0 || gasUsed != f.Gas) {
			bf.add("staking-garbage-payload-gas", "%s: undecodable staking payload must be included as failed with all gas used: status=%d gasUsed=%d limit=%d", lbl, rc.Status, gasUsed, f.Gas)
		}
		cum = rc.CumulativeGasUsed
		fee := new(big.Int).Mul(new(big.Int).SetUint64(gasUsed), f.Price)
		rewards.Add(rewards, fee)

		if rec.ok {
			t := get(rec.from)
			// next nonce
			if f.Nonce != t.nonce {
				bf.add("applied-wrong-nonce", "%s: nonce %d applied while %s's next nonce is %d", lbl, f.Nonce, t.name, t.nonce)
			}
			t.nonce++
			t.n++
			// sufficient funds: gas limit * price up front, then the value
			need := new(big.Int).Mul(new(big.Int).SetUint64(f.Gas), f.Price)
			isStake := f.To != nil && *f.To == params.StakingModuleAddress
			if !isStake {
				need.Add(need, f.Value)
			}
			if t.run.Cmp(need) < 0 {
				bf.add("applied-without-funds", "%s: %s has %v before it but it needs limit*price+value = %v", lbl, t.name, t.run, need)
			}
			moved := new(big.Int)
			if rc.Status == 1 {
				switch {
				case isStake && at.e != nil:
					if at.e.staked != nil {
						moved.Set(at.e.staked)
					}
				case isStake:
					t.unmodeled = true
				default:
					moved.Set(f.Value)
				}
			}
			if s.mayClearSlot(f) && rc.Status == 1 {
				rf := gasUsed / 2
				if rf > 15000 {
					rf = 15000
				}
				t.clears = append(t.clears, new(big.Int).Mul(new(big.Int).SetUint64(rf), f.Price))
				s.r.Probe("applied.slot-clearing-call")
			}
			s.probeApplied(at, rc.Status, moved)
			t.run.Sub(t.run, fee)
			t.run.Sub(t.run, moved)
			t.terms = append(t.terms, fmt.Sprintf("%s: -%d*%v -%v(status %d)", s.label(hash), gasUsed, f.Price, moved, rc.Status))
			if !isStake && f.To != nil && moved.Sign() > 0 {
				if rt := tracked[*f.To]; rt != nil {
					rt.run.Add(rt.run, moved)
					rt.terms = append(rt.terms, fmt.Sprintf("%s: +%v", s.label(hash), moved))
				}
			}
		}
		bf.txs = append(bf.txs, at)
	}
	if cum != h.GasUsed {
		bf.add("header-gas-used-mismatch", "block %d: header.GasUsed=%d but the receipts add up to %d", b.NumberU64(), h.GasUsed, cum)
	}
	if h.GasUsed > h.GasLimit {
		bf.add("applied-beyond-block-gas", "block %d: header.GasUsed=%d > GasLimit=%d", b.NumberU64(), h.GasUsed, h.GasLimit)
	}
	if h.GasRewards == nil || h.GasRewards.Cmp(rewards) != 0 {
		bf.add("header-gas-rewards-mismatch", "block %d: header.GasRewards=%v but sum(gasUsed*price)=%v", b.NumberU64(), h.GasRewards, rewards)
	}
	// exact charge and nonce delta, per tracked account
	for _, addr := range order {
		t := tracked[addr]
		if got := post.GetNonce(addr); got != t.nonce {
			bf.add("nonce-delta-mismatch", "block %d: %s nonce %d -> %d but %d of its transactions were applied", b.NumberU64(), t.name, pre.GetNonce(addr), got, t.n)
		}
		if t.unmodeled {
			continue
		}
		if boundary && (t.a == nil || t.a.stakeTouched) {
			s.r.Count("charge-check-skipped-at-period-end", 1)
			continue
		}
		if got := post.GetBalance(addr); got.Cmp(t.run) != 0 {
			diff := new(big.Int).Sub(got, t.run)
			cls := "balance-delta-mismatch"
			if t.n == 0 && len(t.terms) == 0 {
				cls = "untouched-account-changed"
			} else if explainedBySstoreRefund(diff, t.clears) {
				// the sender was charged (gasUsed - refund)*price although the receipt (and
				// header.GasRewards) say gasUsed: its own class, so that this one cause can be
				// looked past without hiding other charge errors
				cls = "charged-less-than-receipt-gas-by-sstore-refund"
			}
			bf.add(cls, "block %d: %s balance %v -> %v, expected %v (off by %v); terms: %s", b.NumberU64(), t.name, pre.GetBalance(addr), got, t.run, diff, strings.Join(t.terms, "; "))
		}
	}
	s.r.Count("blocks-judged", 1)
	s.r.Count("applied-txs-judged", int64(len(txs)))
	return bf
}

// checkNode evaluates the history clauses on one node's canonical chain.
func (s *sim) checkNode(name string, chain *core.BlockChain) {
	head := chain.CurrentBlock().NumberU64()
	seen := map[common.Hash]uint64{}
	next := map[common.Address]uint64{}
	for n := uint64(1); n <= head; n++ {
		b := chain.GetBlockByNumber(n)
		if b == nil {
			panic(fmt.Sprintf("c17world: %s has no canonical block %d (head %d)", name, n, head))
		}
		if why, bad := s.invalidBlocks[b.Hash()]; bad {
			s.r.Report("invalid-block-accepted", "%s: block %d %s is on the canonical chain although %s", name, n, short(b.Hash()), why)
		}
		bf := s.judgeBlock(chain, b)
		for _, p := range bf.problems {
			s.r.Report(p.class, "%s: %s", name, p.detail)
		}
		for i, at := range bf.txs {
			if at2, dup := seen[at.hash]; dup {
				s.r.Report("tx-applied-twice", "%s: %s %s is applied in block %d and again in block %d (index %d)", name, s.label(at.hash), short(at.hash), at2, n, i)
			}
			seen[at.hash] = n
			if at.fromOK {
				if at.nonce != next[at.from] {
					s.r.Report("nonce-sequence-broken", "%s: %s applied nonce %d in block %d (%s) but its applied nonces so far are 0..%d", name, s.addrName(at.from), at.nonce, n, s.label(at.hash), int64(next[at.from])-1)
				}
				next[at.from]++
			}
		}
	}
}

// explainedBySstoreRefund: diff (actual - expected balance) equals the refund value of a
// non-empty subset of the account's slot-clearing calls in the block.
func explainedBySstoreRefund(diff *big.Int, clears []*big.Int) bool {
	if diff.Sign() <= 0 || len(clears) == 0 || len(clears) > 10 {
		return false
	}
	for mask := 1; mask < 1<<uint(len(clears)); mask++ {
		sum := new(big.Int)
		for i, c := range clears {
			if mask&(1<<uint(i)) != 0 {
				sum.Add(sum, c)
			}
		}
		if sum.Cmp(diff) == 0 {
			return true
		}
	}
	return false
}

func (s *sim) probeApplied(at appliedTx, status uint64, moved *big.Int) {
	r := s.r
	if at.e == nil {
		r.Probe("applied.unregistered")
		return
	}
	if status == 0 {
		r.Probe("applied.failed-" + at.e.kind.String())
		if at.e.kind == kStake && at.e.staked != nil && at.e.staked.Sign() > 0 {
			r.Probe("applied.failed-stake-with-amount") // refused by the handler: nothing may be detained
		}
	} else {
		r.Probe("applied.ok-" + at.e.kind.String())
		if at.e.kind == kStake && moved.Sign() > 0 {
			r.Probe("applied.tokens-staked")
		}
		if at.e.kind == kCreate && moved.Sign() > 0 {
			r.Probe("applied.create-with-value")
		}
	}
	if at.e.garbage {
		r.Probe("applied.garbage-staking-payload")
	}
	if at.gasUsed == at.e.f.Gas && at.e.kind != kTransfer {
		r.Probe("applied.all-gas-used")
	}
}

// mayClearSlot: the transaction calls an address at which a storage writer may live (creations
// with the same sender and nonce compete for one address) with a zero value word.
func (s *sim) mayClearSlot(f *txFields) bool {
	if f.To == nil {
		return false
	}
	w := false
	for _, c := range s.contracts {
		if c.addr == *f.To && c.typ == cWriter {
			w = true
		}
	}
	if !w {
		return false
	}
	for i := 32; i < 64 && i < len(f.Data); i++ {
		if f.Data[i] != 0 {
			return false
		}
	}
	return true
}
