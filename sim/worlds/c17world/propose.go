package c17world

import (
	"fmt"
	"math/big"
	"time"

	"verifsim/worlds/chainkit"

	"github.com/youchainhq/go-youchain/common"
	"github.com/youchainhq/go-youchain/consensus/ucon"
	"github.com/youchainhq/go-youchain/core"
	"github.com/youchainhq/go-youchain/core/types"
	"github.com/youchainhq/go-youchain/local"
	"github.com/youchainhq/go-youchain/params"
	"github.com/youchainhq/go-youchain/rlp"
)

// The direct proposer: a validator whose keys the simulator holds builds a block WITHOUT the
// transaction pool's admission filter, feeding whatever transactions it likes to the node's
// real state processor, exactly the way miner/worker.go does (commitNewWork:268-342,
// commitTransactions:344-411, commitTransaction:413-424, commit:426-453):
//
//	header{ParentHash, Number, Time, Coinbase, GasLimit=CalcGasLimit(parent)} ->
//	ProcessYouVersionState -> consensus data (forge) -> StateAt(parent) -> IntermediateRoot ->
//	for each tx: Prepare, Snapshot, Processor().ApplyTransaction(.., gasPool, ..), on error
//	RevertToSnapshot -> Processor().EndBlock(isSeal=true) -> FinalizeAndAssemble -> seal (forge).
//
// It serves three purposes: (1) the pool is not consensus, so the rules of C17 (next nonce,
// funds, block gas, authenticity) must hold in ApplyTransaction itself: the proposer offers
// replays, nonce gaps, unaffordable, oversized, below-intrinsic and fabricated transactions;
// if the real processor accepts one of them the block is self-consistent, every node imports
// it and the history oracle reports it; (2) "refused means untouched" is observed at the
// ApplyTransaction boundary (state roots, gas pool, header gas counters before and after a
// refusal); (3) a Byzantine proposer force-includes what the processor refused (roots as if
// skipped): such a block must be rejected by every importer.

type candidate struct {
	tx    *types.Transaction
	label string // trace name: registry or variant name plus the fault it represents
}

type refusal struct {
	label string
	err   error
}

type proposal struct {
	block    *types.Block
	invalid  string // non-empty: why every honest node must reject this block
	refused  []refusal
	included int
}

// planProposer imitates chainkit.ForgeEngine.plan for an arbitrary parent.
func (s *sim) planProposer(chain *core.BlockChain, number uint64) (*chainkit.Ctx, *chainkit.ValKey, *ucon.BlockConsensusData, error) {
	for idx := uint32(1); idx < 50; idx++ {
		ctx, err := chainkit.NewCtx(chain, number, idx)
		if err != nil {
			return nil, nil, nil, err
		}
		for _, k := range s.vkeys {
			v := chainkit.StakeOf(ctx, k)
			if v == nil || v.Status != params.ValidatorOnline || v.Kind() != params.KindChamber {
				continue
			}
			cd, ok, err := chainkit.ProposerCredential(ctx, k, v.Stake, ctx.YP.ProposerThreshold, ctx.YP.ValidatorThreshold, ctx.YP.CertValThreshold)
			if err != nil {
				return nil, nil, nil, err
			}
			if ok {
				return ctx, k, cd, nil
			}
		}
	}
	return nil, nil, nil, fmt.Errorf("no proposer for block %d", number)
}

// propose builds one block on parent from cands through chain's real processor. With force,
// refused transactions are included anyway at their position (Byzantine proposer).
func (s *sim) propose(chain *core.BlockChain, engine *ucon.Server, parent *types.Block, cands []candidate, force bool) (*proposal, error) {
	r := s.r
	number := parent.NumberU64() + 1
	ctx, proposer, cred, err := s.planProposer(chain, number)
	if err != nil {
		return nil, err
	}
	coinbase := proposer.Addr
	timestamp := uint64(time.Now().Unix())
	if timestamp <= parent.Time() {
		timestamp = parent.Time() + 1
	}
	header := &types.Header{
		ParentHash: parent.Hash(),
		Number:     new(big.Int).SetUint64(number),
		Time:       timestamp,
		Coinbase:   coinbase,
		GasLimit:   core.CalcGasLimit(parent),
		GasRewards: big.NewInt(0),
		Subsidy:    big.NewInt(0),
	}
	if err := core.ProcessYouVersionState(parent.Header(), header); err != nil {
		return nil, err
	}
	cb, err := ucon.PrepareConsensusData(header, cred)
	if err != nil {
		return nil, err
	}
	header.Consensus = cb
	header.MixDigest = types.UConMixHash

	yp, err := chain.VersionForRound(number)
	if err != nil {
		return nil, err
	}
	statedb, err := chain.StateAt(parent.Root(), parent.ValRoot(), core.StakingRootForNewBlock(yp.StakingTrieFrequency, parent.Header()))
	if err != nil {
		return nil, err
	}
	statedb.IntermediateRoot(true)
	gp := new(core.GasPool).AddGas(header.GasLimit)
	vmCfg, err := core.PrepareVMConfig(chain, number, *chain.GetVMConfig())
	if err != nil {
		return nil, err
	}
	signer := types.MakeSigner(header.Number)
	processor := chain.Processor()

	p := &proposal{}
	var txs []*types.Transaction
	var receipts []*types.Receipt
	tcount := 0
	for _, cd := range cands {
		// observation point of "refused means untouched" (properties.jsonl C17 observe_at)
		r0, v0, s0 := statedb.IntermediateRoot(true)
		gas0, used0, rew0 := gp.Gas(), header.GasUsed, new(big.Int).Set(header.GasRewards)

		// miner/worker.go:382 (commitTransactions) derives the sender of every candidate first and
		// ignores the error; ApplyTransaction derives it again on the same object
		_, _ = types.Sender(signer, cd.tx)
		statedb.Prepare(cd.tx.Hash(), common.Hash{}, tcount)
		snap := statedb.Snapshot()
		receipt, _, aerr := processor.ApplyTransaction(cd.tx, signer, statedb, chain, header, &coinbase, &header.GasUsed, header.GasRewards, gp, vmCfg, local.FakeRecorder())
		if aerr != nil {
			statedb.RevertToSnapshot(snap)
			p.refused = append(p.refused, refusal{cd.label, aerr})
			r.Logf("  proposer: %s refused: %v", cd.label, aerr)
			r.FP("refused", refusalClass(aerr))
			r.Probe("refused." + refusalClass(aerr))
			r1, v1, s1 := statedb.IntermediateRoot(true)
			if r1 != r0 || v1 != v0 || s1 != s0 {
				r.Report("refused-tx-changed-state", "block %d: %s was refused (%v) and the state was reverted as miner/worker.go does, but the state roots moved: account %x->%x validators %x->%x staking %x->%x",
					number, cd.label, aerr, r0[:4], r1[:4], v0[:4], v1[:4], s0[:4], s1[:4])
			}
			if header.GasUsed != used0 || header.GasRewards.Cmp(rew0) != 0 {
				r.Report("refused-tx-changed-header-gas", "block %d: %s was refused (%v) but header.GasUsed %d->%d GasRewards %v->%v",
					number, cd.label, aerr, used0, header.GasUsed, rew0, header.GasRewards)
			}
			if gp.Gas() != gas0 {
				r.Report("refused-tx-changed-gas-pool."+refusalClass(aerr), "block %d: %s (gas limit %d, intrinsic %d) was refused (%v) but the block gas pool went %d -> %d (lost %d)",
					number, cd.label, cd.tx.Gas(), intrinsicGas(cd.tx.To(), cd.tx.Data()), aerr, gas0, gp.Gas(), int64(gas0)-int64(gp.Gas()))
				// keep going with the pool as the code left it (what a worker would do)
			}
			if force {
				txs = append(txs, cd.tx)
				if p.invalid == "" {
					p.invalid = fmt.Sprintf("transaction %d (%s) is refused by the state processor: %v", len(txs)-1, cd.label, aerr)
				}
			}
			continue
		}
		r.Logf("  proposer: %s applied gasUsed=%d status=%d", cd.label, receipt.GasUsed, receipt.Status)
		txs = append(txs, cd.tx)
		receipts = append(receipts, receipt)
		tcount++
		p.included++
	}
	res, _, _ := processor.EndBlock(chain, header, txs, statedb, true, local.FakeRecorder())
	for _, rc := range res {
		if rc != nil {
			receipts = append(receipts, rc)
		}
	}
	block, err := engine.FinalizeAndAssemble(chain, header, statedb, txs, receipts)
	if err != nil {
		return nil, err
	}
	sealed, _, err := chainkit.SealHonest(ctx, block, proposer, s.vkeys)
	if err != nil {
		return nil, err
	}
	p.block = sealed
	return p, nil
}

func refusalClass(err error) string {
	switch err {
	case core.ErrNonceTooLow:
		return "nonce-low"
	case core.ErrNonceTooHigh:
		return "nonce-high"
	case core.ErrGasLimitReached:
		return "block-gas"
	case types.ErrInvalidSig, types.ErrInvalidNetworkId, types.ErrNotProtected:
		return "signature"
	}
	switch err.Error() {
	case "insufficient balance to pay for gas":
		return "gas-funds"
	case "insufficient balance for transfer":
		return "value-funds"
	case "out of gas":
		return "intrinsic-gas"
	case "recovery failed", "invalid public key":
		return "signature"
	}
	return "other"
}

// wire re-encodes a block and decodes it again: what another node receives over the network is
// bytes, so no cached sender (or any other in-memory cache) travels with it.
func wire(b *types.Block) *types.Block {
	enc, err := rlp.EncodeToBytes(b)
	if err != nil {
		panic(err)
	}
	out := new(types.Block)
	if err := rlp.DecodeBytes(enc, out); err != nil {
		panic("c17world: a block does not survive its own wire encoding: " + err.Error())
	}
	if out.Hash() != b.Hash() {
		panic("c17world: block hash changed on the wire")
	}
	return out
}
