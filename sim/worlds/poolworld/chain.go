package poolworld

import (
	"fmt"
	"math/big"
	"sync"

	"github.com/youchainhq/go-youchain/common"
	"github.com/youchainhq/go-youchain/core"
	"github.com/youchainhq/go-youchain/core/state"
	"github.com/youchainhq/go-youchain/core/types"
	"github.com/youchainhq/go-youchain/event"
	"github.com/youchainhq/go-youchain/youdb"
)

// blk is one generated block of the simulator's block tree together with what the real
// StateDB says about the run's accounts at that block (read back after Commit, so the oracle
// compares the pool against real state, not against the generator's arithmetic).
type blk struct {
	name   string
	b      *types.Block
	parent *blk
	num    uint64
	nonce  []uint64   // per account index
	bal    []*big.Int // per account index
	txs    []*txrec
}

func (b *blk) gasLimit() uint64 { return b.b.GasLimit() }

// simChain implements core's unexported blockChain interface (tx_pool.go:97) for the pool:
// CurrentBlock, GetBlock, StateAt, Processor, SubscribeChainHeadEvent. States are real
// StateDBs committed into one state.Database (exactly what BlockChain.StateAt does,
// blockchain.go:1173); the processor is the real StateProcessor (only its converter routing
// and IntrinsicGas are used by the pool); the head feed is the real event.Feed.
type simChain struct {
	mu     sync.Mutex
	db     state.Database
	byHash map[common.Hash]*blk
	head   *blk
	feed   event.Feed
	proc   core.Processor
	nblk   int
	accts  []common.Address
}

func newSimChain(accts []common.Address) *simChain {
	return &simChain{
		db:     state.NewDatabase(youdb.NewMemDatabase()),
		byHash: map[common.Hash]*blk{},
		proc:   core.NewStateProcessor(nil, nil),
		accts:  accts,
	}
}

func (c *simChain) CurrentBlock() *types.Block {
	c.mu.Lock()
	defer c.mu.Unlock()
	return c.head.b
}

func (c *simChain) GetBlock(hash common.Hash, number uint64) *types.Block {
	c.mu.Lock()
	defer c.mu.Unlock()
	if b := c.byHash[hash]; b != nil && b.num == number {
		return b.b
	}
	return nil
}

func (c *simChain) StateAt(root, valRoot, stakingRoot common.Hash) (*state.StateDB, error) {
	return state.New(root, valRoot, stakingRoot, c.db)
}

func (c *simChain) Processor() core.Processor { return c.proc }

func (c *simChain) SubscribeChainHeadEvent(ch chan<- core.ChainHeadEvent) event.Subscription {
	return c.feed.Subscribe(ch)
}

// credit is an incoming transfer to one of the run's accounts inside a block (from an
// address the pool never sees).
type credit struct {
	acct   int
	amount *big.Int
}

// chargeGas is the gas a plain transfer actually uses; the block charges value + price*chargeGas
// and refunds the rest of the gas limit, as the real state transition does for transfers.
const chargeGas = 21000

// txValidAt reports whether tx can be included in a block on top of st (the checks of
// StateTransition.preCheck/buyGas that matter here: exact nonce, balance covers the full
// up-front cost, and gas fits into what is left of the block).
func txValidAt(st *state.StateDB, from common.Address, t *txrec, gasLeft uint64) bool {
	if t.acct < 0 || !t.wellFormed {
		return false
	}
	if st.GetNonce(from) != t.nonce {
		return false
	}
	if t.gas > gasLeft {
		return false
	}
	return st.GetBalance(from).Cmp(t.cost) >= 0
}

// build creates a child block of parent containing txs (already checked valid in order by the
// caller through txValidAt on the evolving state st) — the caller passes the evolved state.
func (c *simChain) seal(parent *blk, st *state.StateDB, txs []*txrec, gasLimit uint64) *blk {
	root, vroot, sroot, err := st.Commit(true)
	if err != nil {
		panic(fmt.Sprintf("poolworld: state commit: %v", err))
	}
	c.mu.Lock()
	defer c.mu.Unlock()
	name := fmt.Sprintf("B%d", c.nblk)
	c.nblk++
	h := &types.Header{
		Root: root, ValRoot: vroot, StakingRoot: sroot,
		Number: new(big.Int), GasLimit: gasLimit, Extra: []byte(name),
		Subsidy: new(big.Int), GasRewards: new(big.Int),
	}
	var num uint64
	if parent != nil {
		num = parent.num + 1
		h.ParentHash = parent.b.Hash()
		h.Time = parent.b.Time() + 1
	}
	h.Number.SetUint64(num)
	var ttxs []*types.Transaction
	for _, t := range txs {
		ttxs = append(ttxs, t.tx)
	}
	b := &blk{name: name, b: types.NewBlock(h, ttxs, nil), parent: parent, num: num, txs: txs}
	// read the accounts back from a fresh StateDB opened at the committed roots
	rd, err := state.New(root, vroot, sroot, c.db)
	if err != nil {
		panic(fmt.Sprintf("poolworld: reopen state: %v", err))
	}
	for _, a := range c.accts {
		b.nonce = append(b.nonce, rd.GetNonce(a))
		b.bal = append(b.bal, new(big.Int).Set(rd.GetBalance(a)))
	}
	c.byHash[b.b.Hash()] = b
	return b
}

func (c *simChain) stateOf(b *blk) *state.StateDB {
	st, err := state.New(b.b.Root(), b.b.ValRoot(), b.b.StakingRoot(), c.db)
	if err != nil {
		panic(fmt.Sprintf("poolworld: state of %s: %v", b.name, err))
	}
	return st
}

func (c *simChain) setHead(b *blk) {
	c.mu.Lock()
	c.head = b
	c.mu.Unlock()
}

// applyTx mutates st the way a successful plain transfer does: nonce+1, sender pays
// value + price*gasUsed; the recipient (a sink the pool never looks at) gets the value.
func applyTx(st *state.StateDB, from common.Address, t *txrec) {
	st.SetNonce(from, t.nonce+1)
	fee := new(big.Int).Mul(new(big.Int).SetUint64(t.price), big.NewInt(chargeGas))
	st.SubBalance(from, fee)
	st.SubBalance(from, t.value)
	st.AddBalance(sink, t.value)
}

var sink = common.HexToAddress("0x00000000000000000000000000000000000051c4")

// commonAncestorDepth is used only for trace/probe purposes.
func forkPoint(a, b *blk) *blk {
	for a.num > b.num {
		a = a.parent
	}
	for b.num > a.num {
		b = b.parent
	}
	for a != b {
		a, b = a.parent, b.parent
	}
	return a
}
