package poolworld

import (
	"fmt"
	"strings"

	"github.com/youchainhq/go-youchain/common"
	"github.com/youchainhq/go-youchain/core"
	"github.com/youchainhq/go-youchain/core/types"
)

// observe is called at every quiescent point. It reads the pool through its exported views
// only and checks C20:
//
//	always (relative to the head the pool has adopted, w.poolHead):
//	  - Pending() == pending half of Content(); Stats()/TransactionsNumber() count exactly them
//	  - every pooled hash sits in exactly one list, under its sender, once; Get/Status agree
//	    with that for every transaction the simulator ever generated
//	  - per account pending nonces are state nonce, +1, +2, ... and every pending transaction
//	    is affordable at the head state and within the head's gas limit
//	  - queued nonces are strictly above the pending range
//	  - Nonce(addr) == state nonce + number of pending transactions
//	only when no reorg request is outstanding (drained):
//	  - no queued nonce below the state nonce
//	  - a non-local account holds at most AccountQueue queued transactions
//	  - total queued <= GlobalQueue unless every account with queued transactions is local
//	  - total pending <= GlobalSlots or no non-local account holds more than AccountSlots
func (w *world) observe(tag string) {
	if w.tainted {
		return // the run is being wound down after a possibly order-dependent queue truncation
	}
	r := w.r
	pool := w.pool
	head := w.poolHead
	drained := w.parked == nil

	pend, err := pool.Pending()
	if err != nil {
		r.Report("pending-error", "Pending() returned %v", err)
	}
	cp, cq := pool.Content()
	sp, sq := pool.Stats()
	tp, tq := pool.TransactionsNumber()
	localSet := map[common.Address]bool{}
	for _, a := range pool.Locals() {
		localSet[a] = true
	}

	// --- views agree
	if d := diffTxMaps(pend, cp); d != "" {
		r.Report("pending-vs-content", "Pending() differs from the pending half of Content() (%s): %s", tag, d)
	}
	np, nq := 0, 0
	for _, l := range cp {
		np += len(l)
	}
	for _, l := range cq {
		nq += len(l)
	}
	// A reorg that leaves the queue at (or, with locals, above) GlobalQueue may have run
	// truncateQueue. Which non-local account loses its transactions there is decided by an
	// unstable sort over a slice built by ranging a map, keyed by heartbeats that tie whenever
	// accounts were promoted in the same reorg or never (tx_pool.go:1170-1176): from here on
	// the pool's content is not a function of the seed any more (DESIGN 2.10). Everything that
	// does not depend on whose queued transactions were dropped is still checked at this point;
	// then the run ends.
	taintNow := tag == "reorg" && uint64(nq) >= w.cfg.GlobalQueue
	if sp != np || sq != nq || tp != np || tq != nq {
		r.Report("stats-mismatch", "Stats()=(%d,%d) TransactionsNumber()=(%d,%d) but Content() holds %d pending and %d queued (%s)", sp, sq, tp, tq, np, nq, tag)
	}

	// --- exactly one place per hash, right bucket, ordered
	where := map[common.Hash]string{}
	checkLists := func(m map[common.Address]types.Transactions, what string) {
		for _, a := range sortedAddrs(m) {
			var last uint64
			for i, tx := range m[a] {
				h := tx.Hash()
				rec := w.gen.byHash[h]
				if rec == nil {
					r.Report("unknown-transaction", "%s list of %s holds a transaction nobody submitted (nonce %d)", what, w.an(a), tx.Nonce())
					continue
				}
				if rec.acct < 0 || addrs[rec.acct] != a {
					r.Report("wrong-sender-bucket", "%s is filed under %s in %s", rec.name, w.an(a), what)
				}
				if prev, dup := where[h]; dup {
					r.Report("hash-in-two-places", "%s is in %s and in %s (%s)", rec.name, prev, what, tag)
				}
				where[h] = what
				if i > 0 && tx.Nonce() <= last {
					r.Report("list-not-sorted", "%s list of %s is not strictly increasing by nonce at %s", what, w.an(a), rec.name)
				}
				last = tx.Nonce()
			}
		}
	}
	checkLists(cp, "pending")
	checkLists(cq, "queued")

	// --- lookup agrees (Get, Status) for everything we ever generated
	hashes := make([]common.Hash, len(w.gen.all))
	for i, t := range w.gen.all {
		hashes[i] = t.tx.Hash()
	}
	status := pool.Status(hashes)
	for i, t := range w.gen.all {
		place := where[hashes[i]]
		got := pool.Get(hashes[i])
		if (got != nil) != (place != "") {
			r.Report("lookup-mismatch", "%s: Get() says present=%v but Content() has it in %q (%s)", t.name, got != nil, place, tag)
		} else if got != nil && got.Hash() != hashes[i] {
			r.Report("lookup-mismatch", "%s: Get() returned a different transaction", t.name)
		}
		want := core.TxStatusUnknown
		switch place {
		case "pending":
			want = core.TxStatusPending
		case "queued":
			want = core.TxStatusQueued
		}
		if status[i] != want {
			r.Report("status-mismatch", "%s: Status()=%d but Content() has it in %q (%s)", t.name, status[i], place, tag)
		}
	}

	// --- per account: pending contiguous from the state nonce, affordable; queued above
	for i := 0; i < w.nAcc; i++ {
		a := addrs[i]
		stNonce, bal := head.nonce[i], head.bal[i]
		pl, ql := cp[a], cq[a]
		qshow := nonceList(ql)
		if taintNow {
			qshow = "(not traced)"
		}
		gapped := false
		for j, tx := range pl {
			rec := w.gen.byHash[tx.Hash()]
			nm := fmt.Sprintf("nonce %d", tx.Nonce())
			if rec != nil {
				nm = rec.name
			}
			if want := stNonce + uint64(j); tx.Nonce() != want {
				gapped = true
				if w.gapPrev[i] {
					break // the same broken list as at the previous observation
				}
				cls := "pending-gap"
				if j == 0 {
					cls = "pending-not-at-state-nonce"
				} else if tag == "reorg" && w.lowered[i] {
					// the reorg that just ran reset the pool onto a head where this account's
					// nonce is lower than before (re-injection below the old pending range)
					cls = "pending-gap-after-nonce-lowering-reset"
				}
				r.Report(cls, "A%d at %s has state nonce %d but pending nonces %s and queued nonces %s; Nonce()=%d (position %d is %s, want nonce %d) (%s)", i, head.name, stNonce, nonceList(pl), qshow, pool.Nonce(a), j, nm, want, tag)
				break
			}
		}
		for _, tx := range pl {
			rec := w.gen.byHash[tx.Hash()]
			nm := fmt.Sprintf("nonce %d", tx.Nonce())
			if rec != nil {
				nm = rec.name
			}
			if tx.Cost().Cmp(bal) > 0 {
				r.Report("pending-unaffordable", "A%d at %s has balance %s but pending %s costs %s (%s)", i, head.name, bal, nm, tx.Cost(), tag)
			}
			if tx.Gas() > head.gasLimit() {
				r.Report("pending-over-gaslimit", "pending %s asks for more gas than the block gas limit %d of %s (%s)", nm, head.gasLimit(), head.name, tag)
			}
		}
		w.gapPrev[i] = gapped
		if gapped {
			w.gapSeen[i] = true
		}
		if w.gapSeen[i] {
			// what follows (queue position, Nonce view) is judged relative to a contiguous
			// pending range; with a gap already reported it would only restate it. The virtual
			// nonce stays derived from the gapped list until the next reset rebuilds it.
			continue
		}
		if taintNow {
			ql = nil // whose queued transactions survived truncateQueue is not a function of the seed
		}
		if len(ql) > 0 {
			lo := ql[0].Nonce()
			if len(pl) > 0 && lo <= pl[len(pl)-1].Nonce() {
				r.Report("queued-not-above-pending", "A%d: pending nonces %s, queued nonces %s (%s)", i, nonceList(pl), nonceList(ql), tag)
			}
			if drained && lo < stNonce {
				r.Report("queued-stale", "A%d at %s has state nonce %d but queued nonces %s with nothing outstanding (%s)", i, head.name, stNonce, nonceList(ql), tag)
			}
			if drained && lo == stNonce+uint64(len(pl)) {
				r.Probe("executable-left-in-queue-when-drained")
			}
		}
		if got, want := pool.Nonce(a), stNonce+uint64(len(pl)); got != want {
			cls := "nonce-view-mismatch"
			if got < stNonce {
				cls = "nonce-view-below-state-nonce"
			}
			r.Report(cls, "Nonce(A%d)=%d but state nonce at %s is %d and %d transactions are pending: pending %s queued %s (%s)", i, got, head.name, stNonce, len(pl), nonceList(pl), qshow, tag)
		}
	}

	// --- limits, in the form the TxPoolConfig comments document
	if drained {
		// "after-reorg": the background worker has just enforced the limits; "after-setgasprice":
		// a foreground removal demoted transactions and requested no reorg. A condition that
		// merely persists from the previous drained observation is not reported again under the
		// name of a later stimulus.
		phase := "-after-" + tag
		cur := map[string]bool{}
		fresh := func(key string) bool {
			cur[key] = true
			return !w.limitPrev[key]
		}
		overSlots := ""
		nonLocalQueued := false
		for _, a := range sortedAddrs(cq) {
			if localSet[a] {
				continue
			}
			nonLocalQueued = true
			if uint64(len(cq[a])) > w.cfg.AccountQueue && !taintNow && fresh("aq"+w.an(a)) {
				r.Report("account-queue-limit"+phase, "non-local %s holds %d queued transactions %s (pending %s), AccountQueue=%d, nothing outstanding", w.an(a), len(cq[a]), nonceList(cq[a]), nonceList(cp[a]), w.cfg.AccountQueue)
			}
		}
		if uint64(nq) > w.cfg.GlobalQueue && nonLocalQueued && fresh("gq") {
			r.Report("global-queue-limit"+phase, "%d queued transactions, GlobalQueue=%d, and non-local accounts still hold queued transactions: %s", nq, w.cfg.GlobalQueue, w.summary(cp, cq))
		}
		if uint64(nq) > w.cfg.GlobalQueue {
			r.Probe("global-queue-exceeded-by-locals")
		}
		for _, a := range sortedAddrs(cp) {
			if !localSet[a] && uint64(len(cp[a])) > w.cfg.AccountSlots {
				overSlots = fmt.Sprintf("%s holds %d", w.an(a), len(cp[a]))
			}
		}
		if uint64(np) > w.cfg.GlobalSlots {
			if overSlots != "" && fresh("gs") {
				r.Report("global-slots-limit"+phase, "%d pending transactions, GlobalSlots=%d, yet non-local %s > AccountSlots=%d: %s", np, w.cfg.GlobalSlots, overSlots, w.cfg.AccountSlots, w.summary(cp, cq))
			}
			r.Probe("global-slots-exceeded-within-guarantee")
		}
		if uint64(np) == w.cfg.GlobalSlots {
			r.Probe("pending-at-global-slots")
		}
		w.limitPrev = cur
	} else {
		w.limitPrev = nil
	}

	// --- trace: pool content (a function of the seed up to and excluding a tainting reorg)
	if taintNow {
		w.tainted = true
		r.Probe("run-ended-at-possible-queue-truncation")
		r.Logf("-- queue at GlobalQueue (%d/%d) after a reorg: truncateQueue may have broken heartbeat ties in map order; run ends here", nq, w.cfg.GlobalQueue)
		r.FP("taint")
		return
	}
	s := w.summary(cp, cq)
	if s != w.lastSummary {
		r.Logf("   pool[%s@%s]: %s", tag, head.name, s)
		w.lastSummary = s
	}
	r.FP(fmt.Sprintf("%d/%d", np, nq))
	if np > 0 && nq > 0 {
		r.Probe("pending-and-queued-nonempty")
	}
	w.prevQueued = nq
	r.Count("obs", 1)
	if drained {
		r.Count("obs.drained", 1)
	}
}

func nonceList(l types.Transactions) string {
	var s []string
	for _, tx := range l {
		s = append(s, fmt.Sprint(tx.Nonce()))
	}
	return "[" + strings.Join(s, ",") + "]"
}

func (w *world) summary(cp, cq map[common.Address]types.Transactions) string {
	var parts []string
	for i := 0; i < maxAccounts; i++ {
		a := addrs[i]
		if len(cp[a]) == 0 && len(cq[a]) == 0 {
			continue
		}
		parts = append(parts, fmt.Sprintf("A%d p%s q%s", i, w.txNames(cp[a]), w.txNames(cq[a])))
	}
	if len(parts) == 0 {
		return "empty"
	}
	return strings.Join(parts, "; ")
}

func (w *world) txNames(l types.Transactions) string {
	var s []string
	for _, tx := range l {
		if rec := w.gen.byHash[tx.Hash()]; rec != nil {
			s = append(s, fmt.Sprintf("%d:%s", tx.Nonce(), rec.name[:strings.Index(rec.name, "(")]))
		} else {
			s = append(s, fmt.Sprintf("%d:?", tx.Nonce()))
		}
	}
	return "[" + strings.Join(s, " ") + "]"
}

func diffTxMaps(a, b map[common.Address]types.Transactions) string {
	for _, ad := range sortedAddrs(a) {
		if len(a[ad]) != len(b[ad]) {
			return fmt.Sprintf("account %x: %d vs %d transactions", ad[:4], len(a[ad]), len(b[ad]))
		}
		for i := range a[ad] {
			if a[ad][i].Hash() != b[ad][i].Hash() {
				return fmt.Sprintf("account %x position %d differs", ad[:4], i)
			}
		}
	}
	for _, ad := range sortedAddrs(b) {
		if _, ok := a[ad]; !ok && len(b[ad]) > 0 {
			return fmt.Sprintf("account %x only in Content()", ad[:4])
		}
	}
	return ""
}
