// Package poolworld is the POOL world: the real core.TxPool (tx_pool.go, tx_list.go,
// tx_noncer.go) with scaled-down limits over real StateDBs, driven through its exported API
// only. The simulator plays the chain (the pool's 5-method blockChain interface over a
// generated block tree), the submitting clients (RPC: AddLocal/AddLocals, p2p: AddRemotes),
// the miner's SetGasPrice, the clock (testing/synctest bubble) and — through hook H4, a gate
// at the top of (*TxPool).runReorg — the scheduler of the pool's one background worker.
// It decides C20.
package poolworld

import (
	"fmt"
	"math/big"
	"runtime/debug"
	"sort"
	"strings"
	"sync"
	"time"

	"verifsim/kit"

	"github.com/youchainhq/go-youchain/common"
	"github.com/youchainhq/go-youchain/core"
	"github.com/youchainhq/go-youchain/core/types"
	"github.com/youchainhq/go-youchain/logging"
	"github.com/youchainhq/go-youchain/params"
)

func init() {
	logging.Root().SetHandler(logging.DiscardHandler())
	kit.Register(&kit.Check{
		Prop: "C20", Name: "pool", World: "POOL", Level: "exploration",
		Rule: "one run = one real core.TxPool with per-run scaled-down limits (AccountSlots 1-4, GlobalSlots 2-12, AccountQueue 1-5, GlobalQueue 2-12 or accounts*AccountQueue+1, Lifetime 90s-3h, " +
			"PriceLimit, PriceBump, NoLocals, preset Locals) over real StateDBs of a generated block tree, inside a synctest bubble, driven by 1-120 (thorough: 1-300) seeded operations: local/remote, " +
			"single/batched, sync/async submissions (AddRemotes, AddLocal, AddLocals, AddRemotesSync, AddRemote) of next-nonce, replacing (sufficient and insufficient bump), " +
			"gapped, duplicate, stale, unaffordable, over-gas-limit, cheap, low-gas, wrong-network, bad-signature, oversized and heavy transactions; head changes (extension by 1-3 " +
			"blocks, forks 1-3 deep onto a longer, equally high or lower branch) whose blocks contain pool and foreign transactions, credits and gas-limit changes, so nonces and balances rise and fall " +
			"and dropped transactions are re-injected; SetGasPrice; clock advances up to beyond Lifetime. Schedule fault: the background runReorg goroutine parks at gate H4 and " +
			"the chooser decides after every foreground operation whether it runs now or stays parked while further operations (and sync callers) pile up behind it. After every stimulus the " +
			"bubble is brought to quiescence and the exported views (Pending, Content, Stats, TransactionsNumber, Nonce, Get, Status, Locals) are checked against the real head state: structural " +
			"invariants always (relative to the head the pool has adopted), limits whenever no reorg request is outstanding. A run ends early at the first reorg that leaves the queue at " +
			"GlobalQueue (truncateQueue may then have broken heartbeat ties in map order). A run is non-trivial when a reorg was held across an operation, requests were batched, a fork " +
			"happened or the clock jumped by a minute or more.",
		Real: []string{"core.TxPool (tx_pool.go: add, enqueueTx, promoteExecutables, demoteUnexecutables, reset, truncatePending, truncateQueue, scheduleReorgLoop, runReorg, loop/eviction)",
			"core txList/txSortedMap/txPricedList (tx_list.go)", "core txNoncer (tx_noncer.go)", "core/state StateDB over state.Database+MemDatabase", "core.StateProcessor converter routing + IntrinsicGas",
			"event.Feed (chain head feed)", "types.YouSigner / secp256k1 signatures", "core senderCacher goroutines"},
		Stub: []string{"blockChain interface (CurrentBlock, GetBlock, StateAt, Processor, SubscribeChainHeadEvent) over a simulator-generated block tree; block execution is a plain-transfer model (nonce+1, balance-fee-value)",
			"submitting clients, miner gas-price setter, clock (synctest), Go scheduler for runReorg (gate H4)"},
		FaultsNotInjected: []string{
			"transaction journal (tx_journal.go): needs the real file system (os.OpenFile/Rename); kept disabled (Journal=\"\"), so journal load/rotate is not exercised",
			"StateAt failure / missing blocks (pruned state, setHead): the simulated chain keeps every block and state",
			"reorgs onto a shorter or equally long branch: under ucon the canonical chain only moves to a longer one (blockchain.go insertChain); only longer branches are generated",
			"reorgs deeper than 64 blocks (reset skips re-injection by design)",
			"truly concurrent callers (data-race clause): all stimuli are serialised; only the order of runReorg relative to foreground operations is explored",
			"NewTxsEvent subscribers (txFeed has no subscriber, so Send returns at once)",
			"operation sequences continuing after a global-queue truncation: which account loses queued transactions there depends on Go map iteration order (tx_pool.go:1170-1176), so the run is checked at that point (everything except per-account queue content) and ended"},
		Assumptions: []string{"limits are the ones the TxPoolConfig comments document: AccountQueue per non-local account, GlobalQueue unless only locals are left, GlobalSlots unless no non-local account exceeds its guaranteed AccountSlots",
			"the pool's view may lag the chain head while a reset request is outstanding; structural invariants are then judged against the last head the pool adopted",
			"gas prices are generated as level*8+account so that no two pooled transactions of different accounts tie on price (ties would make txPricedList.Discard depend on heap layout and map order)",
			"promotion liveness (an executable transaction left in the queue) and completeness of re-injection are not part of C20 and are only counted as reach probes"},
		QuickBudget: 40 * time.Second, ThoroughBudget: 12 * time.Minute,
		MinRuns:    50,
		Exec:       runC20,
		PanicClass: kit.PanicInRepo("pool-panic"),
		// reach probes every batch is expected to hit (listed in the evidence as probes_never_hit otherwise)
		ExpectedProbes: []string{"executable-left-in-queue-when-drained", "fork-drops-mined-transactions", "fork-to-same-height", "fork-to-lower-height", "global-queue-exceeded-by-locals", "global-slots-exceeded-within-guarantee", "head-lowers-balance", "head-lowers-gaslimit", "head-lowers-nonce", "lifetime-eviction", "pending-and-queued-nonempty", "pending-at-global-slots", "replacement-accepted", "replacement-rejected", "reset-batched-with-other-requests", "run-ended-at-possible-queue-truncation", "sync-caller-blocked-behind-gate"},
	})
}

// ---- gate H4 -------------------------------------------------------------------------------

type gate struct {
	mu       sync.Mutex
	ch       chan struct{}
	arrived  int
	released int
	open     bool
}

var (
	curGateMu sync.Mutex
	curGate   *gate
)

func gateFn(name string) {
	if name != "txpool.runReorg" {
		return
	}
	curGateMu.Lock()
	g := curGate
	curGateMu.Unlock()
	if g == nil {
		return
	}
	g.mu.Lock()
	g.arrived++
	if g.open {
		g.released++
		g.mu.Unlock()
		return
	}
	g.mu.Unlock()
	<-g.ch
}

func (g *gate) parked() int {
	g.mu.Lock()
	defer g.mu.Unlock()
	return g.arrived - g.released
}

// ---- world ---------------------------------------------------------------------------------

type reorgRun struct {
	reset   *blk // newest head requested (nil = promotion only)
	nReq    int
	heldOps int
}

type fgOp struct {
	id       int
	desc     string
	txs      []*txrec
	errs     []error
	done     bool
	panicked interface{}
	stack    string
	run      *reorgRun
	sync     bool
}

type world struct {
	r     *kit.Run
	c     *kit.Chooser
	cfg   core.TxPoolConfig
	nAcc  int
	chain *simChain
	pool  *core.TxPool
	gen   *txgen
	gate  *gate

	poolHead *blk // head whose state the pool has adopted (newHead of the last executed reset)
	evHead   *blk // last head announced to the pool

	parked      *reorgRun // the runReorg goroutine waiting at the gate, if any
	pendReset   *blk      // newest head announced since the last launch
	pendReq     int       // requests filed since the last launch
	waiting     []*fgOp   // sync callers whose run has not been launched yet
	ops         []*fgOp   // sync callers still blocked
	opSerial    int
	maxHold     int
	tainted     bool
	dead        bool
	floor       uint64 // last SetGasPrice value / PriceLimit
	lastSummary string
	prevQueued  int
	limitPrev   map[string]bool   // limit conditions present at the previous observation, if that one was drained
	gapPrev     [maxAccounts]bool // account's pending list was gapped at the previous observation
	lowered     [maxAccounts]bool // the reorg that just ran lowered this account's state nonce
	allAccts    []int
	rpcAccts    []int             // accounts whose owner uses this node's RPC (AddLocal/AddLocals)
	gapSeen     [maxAccounts]bool // a gap was reported for the account since the last executed reset
}

func runC20(r *kit.Run) {
	var w *world
	err := kit.Bubble(func() {
		w = newWorld(r)
		defer w.shutdown()
		w.run()
	})
	if err != nil && !(w != nil && w.dead) {
		panic("poolworld: " + err.Error())
	}
}

var lifetimes = []time.Duration{3 * time.Hour, 90 * time.Second, 5 * time.Minute, 30 * time.Minute}
var bumps = []uint64{10, 1, 25, 100}
var priceLimits = []uint64{1, 40, 96}

func newWorld(r *kit.Run) *world {
	// types.MakeSigner panics without a network id; the id the repo's own tests (and the other
	// worlds) use. Idempotent.
	params.InitNetworkId(params.NetworkIdForTestCase)
	c := r.C
	w := &world{r: r, c: c}
	w.nAcc = c.Range("accounts", 2, maxAccounts)
	w.cfg = core.TxPoolConfig{
		Journal:      "",
		Rejournal:    time.Hour,
		PriceLimit:   priceLimits[c.Weighted("price-limit", []int{6, 2, 1})],
		PriceBump:    bumps[c.Weighted("price-bump", []int{6, 1, 2, 1})],
		AccountSlots: uint64(c.Range("account-slots", 1, 4)),
		GlobalSlots:  uint64(c.Range("global-slots", 2, 12)),
		AccountQueue: uint64(c.Range("account-queue", 1, 5)),
		Lifetime:     lifetimes[c.Weighted("lifetime", []int{4, 3, 2, 1})],
		NoLocals:     c.Chance("nolocals", 1, 8),
	}
	// two thirds of the runs have a global queue that non-local accounts alone can never overflow
	// (a run ends at the first reorg that may have truncated the queue, see oracle.go)
	if c.Chance("small-global-queue", 1, 3) {
		w.cfg.GlobalQueue = uint64(c.Range("global-queue", 2, 12))
	} else {
		w.cfg.GlobalQueue = uint64(w.nAcc)*w.cfg.AccountQueue + 1
	}
	if c.Chance("preset-local", 1, 6) {
		w.cfg.Locals = []common.Address{addrs[c.Intn("preset-local-acct", w.nAcc)]}
	}
	for i := 0; i < w.nAcc; i++ {
		w.allAccts = append(w.allAccts, i)
		if c.Chance("rpc-account", 1, 3) {
			w.rpcAccts = append(w.rpcAccts, i)
		}
	}
	w.floor = w.cfg.PriceLimit
	w.maxHold = c.Range("max-hold", 1, 5)
	w.gen = &txgen{w: w, recs: make([][]*txrec, maxAccounts), byHash: map[common.Hash]*txrec{}}

	// genesis: balances and nonces per account
	w.chain = newSimChain(addrs[:w.nAcc])
	st, err := w.chain.StateAt(common.Hash{}, common.Hash{}, common.Hash{})
	if err != nil {
		panic(err)
	}
	balChoices := []int64{1000000000, 30000000, 8000000, 2000000, 0}
	var desc []string
	for i := 0; i < w.nAcc; i++ {
		b := balChoices[c.Weighted("genesis-balance", []int{6, 3, 2, 1, 1})]
		n := uint64(c.Weighted("genesis-nonce", []int{5, 2, 1, 1}))
		st.SetBalance(addrs[i], big.NewInt(b))
		st.SetNonce(addrs[i], n)
		desc = append(desc, fmt.Sprintf("A%d(n%d b%d)", i, n, b))
	}
	gen := w.chain.seal(nil, st, nil, 150000)
	w.chain.setHead(gen)
	w.poolHead, w.evHead = gen, gen

	w.gate = &gate{ch: make(chan struct{})}
	curGateMu.Lock()
	curGate = w.gate
	curGateMu.Unlock()
	core.SimGate = gateFn

	var locs []string
	for _, a := range w.cfg.Locals {
		locs = append(locs, w.an(a))
	}
	r.Logf("config accounts=%d AccountSlots=%d GlobalSlots=%d AccountQueue=%d GlobalQueue=%d Lifetime=%v PriceLimit=%d PriceBump=%d NoLocals=%v Locals=%v rpcAccounts=%v maxHold=%d",
		w.nAcc, w.cfg.AccountSlots, w.cfg.GlobalSlots, w.cfg.AccountQueue, w.cfg.GlobalQueue, w.cfg.Lifetime, w.cfg.PriceLimit, w.cfg.PriceBump, w.cfg.NoLocals, locs, w.rpcAccts, w.maxHold)
	r.Logf("genesis %s gasLimit=150000: %s", gen.name, strings.Join(desc, " "))

	w.pool = core.NewTxPool(w.cfg, w.chain) // tx_pool.go:210, as you/backend.go does
	kit.Wait()
	w.observe("start")
	return w
}

// an names an address.
func (w *world) an(a common.Address) string {
	for i, x := range addrs {
		if x == a {
			return fmt.Sprintf("A%d", i)
		}
	}
	return "X" + a.Hex()[2:8]
}

func (w *world) shutdown() {
	defer func() {
		curGateMu.Lock()
		curGate = nil
		curGateMu.Unlock()
	}()
	if w.dead {
		// a foreground call panicked inside the pool (possibly with pool.mu held): nothing can
		// be stopped cleanly; open the gate and leave.
		w.gate.mu.Lock()
		w.gate.open = true
		w.gate.mu.Unlock()
		if w.gate.parked() > 0 {
			w.gate.mu.Lock()
			w.gate.released++
			w.gate.mu.Unlock()
			w.gate.ch <- struct{}{}
		}
		return
	}
	// drain: let every outstanding reorg run, then stop the pool
	for w.parked != nil {
		w.release("shutdown")
	}
	w.gate.mu.Lock()
	w.gate.open = true
	w.gate.mu.Unlock()
	w.pool.Stop()
	kit.Wait()
}

func (w *world) run() {
	c := w.c
	maxSteps := 120
	if w.r.Tier == "thorough" {
		maxSteps = 300
	}
	steps := c.Range("steps", 1, maxSteps)
	held := 0
	for i := 0; i < steps && !w.dead; i++ {
		w.r.Steps++
		// a little time passes between any two stimuli (distinct heartbeats, tx_pool.go:802)
		time.Sleep(time.Millisecond)
		w.r.SimTime += time.Millisecond
		switch c.Weighted("op", []int{50, 14, 8, 4}) {
		case 0:
			w.opAdd()
		case 1:
			w.opHead()
		case 2:
			w.opTime()
		case 3:
			w.opSetGasPrice()
		}
		if w.dead {
			return
		}
		if w.tainted {
			break
		}
		// schedule decision: does the parked reorg run before the next foreground operation?
		for w.parked != nil {
			if held < w.maxHold && c.Chance("hold-reorg", 1, 3) {
				held++
				w.parked.heldOps++
				w.r.FP("hold")
				break
			}
			held = 0
			w.release("")
			if w.tainted {
				break
			}
		}
		if w.tainted {
			break
		}
		if w.parked == nil {
			held = 0
		}
	}
	for w.parked != nil {
		w.release("end")
	}
	if len(w.ops) != 0 {
		panic("poolworld: foreground operations still blocked after the last reorg")
	}
}

// noteRequest records that the stimulus just injected asks scheduleReorgLoop (tx_pool.go:948)
// for a reorg: every addTxs asks for a promotion, every head event for a reset. The request
// joins the next run to be launched; launches themselves are observed at the gate (settle), so
// the simulator does not depend on which other calls may also file requests.
func (w *world) noteRequest(reset *blk) {
	w.pendReq++
	if reset != nil {
		w.pendReset = reset
	}
}

// settle brings the bubble to quiescence and reads the gate: a goroutine newly parked there is
// a freshly launched runReorg, which carries every request filed since the previous launch.
func (w *world) settle() {
	kit.Wait()
	n := w.gate.parked()
	switch {
	case n > 1:
		panic(fmt.Sprintf("poolworld: %d runReorg goroutines at the gate (scheduleReorgLoop runs one at a time)", n))
	case n == 1 && w.parked == nil:
		w.parked = &reorgRun{reset: w.pendReset, nReq: w.pendReq}
		w.pendReset, w.pendReq = nil, 0
		for _, op := range w.waiting {
			op.run = w.parked
		}
		w.waiting = nil
	case n == 0 && w.parked != nil:
		panic("poolworld: the parked runReorg left the gate without being released")
	}
	if w.parked == nil && (w.pendReset != nil || w.pendReq > 0 || len(w.waiting) > 0) {
		panic("poolworld: a reorg request was filed but no runReorg was launched")
	}
}

// release lets the parked runReorg run to completion.
func (w *world) release(why string) {
	run := w.parked
	if run == nil {
		panic("poolworld: release without a parked reorg")
	}
	w.gate.mu.Lock()
	w.gate.released++
	w.gate.mu.Unlock()
	w.gate.ch <- struct{}{}
	w.lowered = [maxAccounts]bool{}
	if run.reset != nil {
		w.gapSeen = [maxAccounts]bool{}
		for i := 0; i < w.nAcc; i++ {
			w.lowered[i] = run.reset.nonce[i] < w.poolHead.nonce[i]
		}
		w.poolHead = run.reset
	}
	w.parked = nil
	w.settle()
	if run.heldOps > 0 {
		w.r.Fault("reorg-held-across-ops")
	}
	if run.nReq > 1 {
		w.r.Fault("requests-batched")
		if run.reset != nil {
			w.r.Probe("reset-batched-with-other-requests")
		}
	}
	resetName := "-"
	if run.reset != nil {
		resetName = run.reset.name
	}
	w.r.Logf("runReorg executes (requests=%d reset->%s held=%d)%s", run.nReq, resetName, run.heldOps, why)
	w.r.FP(fmt.Sprintf("reorg(%d,%v,%d)", run.nReq, run.reset != nil, run.heldOps))
	// sync callers waiting for this run return now
	var rest []*fgOp
	for _, op := range w.ops {
		if op.run == run {
			if !op.done {
				panic("poolworld: sync operation did not return after its reorg ran: " + op.desc)
			}
			w.finishOp(op)
		} else {
			rest = append(rest, op)
		}
	}
	w.ops = rest
	w.observe("reorg")
}

// ---- operations ----------------------------------------------------------------------------

func (w *world) opAdd() {
	c := w.c
	// 0 AddRemotes (you/handler.go:356) 1 AddLocal (internal/youapi/you_api.go:217)
	// 2 AddLocals (internal/youapi/dev_api.go:118) 3 AddRemotesSync 4 AddRemote (exported, tests)
	api := c.Weighted("api", []int{10, 5, 3, 3, 2})
	if len(w.ops) >= 3 && (api == 1 || api == 2 || api == 3) {
		api = 0
	}
	// RPC users submit for their own accounts only: the local APIs are used for a per-run
	// subset of the accounts, so that the other accounts stay non-local for the whole run
	// and the limits (which exempt locals) keep being checked on them.
	from := w.allAccts
	if api == 1 || api == 2 {
		if len(w.rpcAccts) == 0 {
			api = 0
		} else {
			from = w.rpcAccts
		}
	}
	n := 1
	if api == 0 || api == 2 || api == 3 {
		n = 1 + c.Weighted("batch", []int{6, 3, 2, 1, 1})
	}
	var txs []*txrec
	for i := 0; i < n; i++ {
		txs = append(txs, w.gen.gen(from))
	}
	apiName := []string{"AddRemotes", "AddLocal", "AddLocals", "AddRemotesSync", "AddRemote"}[api]
	w.opSerial++
	op := &fgOp{id: w.opSerial, txs: txs, sync: api == 1 || api == 2 || api == 3}
	var names, kinds []string
	var ttxs []*types.Transaction
	for _, t := range txs {
		names = append(names, t.name)
		kinds = append(kinds, t.kind)
		ttxs = append(ttxs, t.tx)
	}
	op.desc = fmt.Sprintf("op%d %s %s", op.id, apiName, strings.Join(names, " "))
	w.r.Logf("%s", op.desc)
	w.r.FP(apiName, strings.Join(kinds, ","))
	pool := w.pool
	go func() {
		defer func() {
			if v := recover(); v != nil {
				op.panicked = v
				op.stack = string(debug.Stack())
			}
			op.done = true
		}()
		switch api {
		case 0:
			op.errs = pool.AddRemotes(ttxs)
		case 1:
			op.errs = []error{pool.AddLocal(ttxs[0])}
		case 2:
			op.errs = pool.AddLocals(ttxs)
		case 3:
			op.errs = pool.AddRemotesSync(ttxs)
		case 4:
			op.errs = []error{pool.AddRemote(ttxs[0])}
		}
	}()
	kit.Wait()
	if op.panicked != nil {
		w.dead = true
		w.r.Report("pool-panic", "%s panicked: %v | %s", apiName, op.panicked, firstRepoFrames(op.stack))
		return
	}
	w.noteRequest(nil)
	if op.sync {
		w.waiting = append(w.waiting, op)
	}
	w.settle()
	if op.sync {
		if op.done {
			panic("poolworld: sync operation returned before its reorg ran: " + op.desc)
		}
		w.ops = append(w.ops, op)
		w.r.Probe("sync-caller-blocked-behind-gate")
	} else {
		if !op.done {
			panic("poolworld: async operation did not return: " + op.desc)
		}
		w.finishOp(op)
	}
	w.observe("add")
}

func errClass(err error) string {
	switch {
	case err == nil:
		return "ok"
	case err == core.ErrInvalidSender, err == core.ErrNonceTooLow, err == core.ErrUnderpriced, err == core.ErrReplaceUnderpriced,
		err == core.ErrInsufficientFunds, err == core.ErrIntrinsicGas, err == core.ErrGasLimit, err == core.ErrNegativeValue, err == core.ErrOversizedData:
		return err.Error()
	case strings.HasPrefix(err.Error(), "know transaction"):
		return "known"
	}
	return "other:" + err.Error()
}

func (w *world) finishOp(op *fgOp) {
	if len(op.errs) != len(op.txs) {
		w.r.Report("api-result-shape", "%s returned %d errors for %d transactions", op.desc, len(op.errs), len(op.txs))
		return
	}
	var out []string
	for i, e := range op.errs {
		cl := errClass(e)
		out = append(out, cl)
		w.r.Count("add."+cl, 1)
		t := op.txs[i]
		// rejections that do not depend on pool content must be exactly right
		switch {
		case t.kind == "wrongnet" && e != core.ErrInvalidSender:
			w.r.Report("admission-wrong", "%s: wrong-network transaction got %q, want invalid sender", t.name, cl)
		case t.kind == "oversized" && e != core.ErrOversizedData:
			w.r.Report("admission-wrong", "%s: oversized transaction got %q", t.name, cl)
		case t.kind == "badsig" && e == nil:
			w.r.Report("admission-wrong", "%s: transaction with a garbage signature was accepted", t.name)
		case t.kind == "lowgas" && e == nil:
			w.r.Report("admission-wrong", "%s: transaction below intrinsic gas was accepted", t.name)
		}
		if e == nil && t.kind == "replace" {
			w.r.Probe("replacement-accepted")
		}
		if e == core.ErrReplaceUnderpriced {
			w.r.Probe("replacement-rejected")
		}
	}
	if !w.tainted {
		w.r.Logf("op%d -> %s", op.id, strings.Join(out, " | "))
		w.r.FP(strings.Join(out, ","))
	}
}

var gasLimits = []uint64{150000, 90000, 60000, 40000}

func (w *world) opHead() {
	c := w.c
	head := w.chain.head
	base := head
	nNew := 1 + c.Weighted("extend-blocks", []int{8, 2, 1})
	fork := false
	if head.num > 0 && c.Chance("fork", 2, 7) {
		d := 1 + c.Intn("fork-depth", int(min(head.num, 3)))
		for i := 0; i < d; i++ {
			base = base.parent
		}
		// The engine switches to any valid block whose parent is not the head (WriteBlockWithState
		// reorgs whenever block.ParentHash != head), so the new branch may also end at the SAME
		// height as the old head or one below it; choice 0 is the longer branch.
		nNew = d + 1 + c.Intn("fork-extra", 2)
		switch c.Weighted("fork-height", []int{5, 2, 1}) {
		case 1:
			nNew = d // a sibling at the old head's height
			w.r.Probe("fork-to-same-height")
		case 2:
			if d > 1 {
				nNew = d - 1 // the new head is lower than the old one
				w.r.Probe("fork-to-lower-height")
			}
		}
		fork = true
	}
	tip := base
	var names []string
	for i := 0; i < nNew; i++ {
		tip = w.buildBlock(tip)
		names = append(names, tip.name)
	}
	w.chain.setHead(tip)
	if fork {
		w.r.Fault("head-fork")
		// transactions only on the dropped branch are what reset must re-inject (tx_pool.go:476)
		inNew := map[*txrec]bool{}
		for b := tip; b != base; b = b.parent {
			for _, t := range b.txs {
				inNew[t] = true
			}
		}
		dropped := 0
		for b := head; b != base; b = b.parent {
			for _, t := range b.txs {
				if !inNew[t] {
					dropped++
				}
			}
		}
		if dropped > 0 {
			w.r.Probe("fork-drops-mined-transactions")
		}
		w.r.Logf("head: fork at %s (depth %d), new branch %s, %d mined transactions dropped", base.name, head.num-base.num, strings.Join(names, ","), dropped)
		w.r.FP("fork", fmt.Sprint(head.num-base.num, nNew))
	} else {
		w.r.Logf("head: extend %s with %s", head.name, strings.Join(names, ","))
		w.r.FP("extend", fmt.Sprint(nNew))
	}
	for i := 0; i < w.nAcc; i++ {
		if tip.nonce[i] < head.nonce[i] {
			w.r.Probe("head-lowers-nonce")
		}
		if tip.bal[i].Cmp(head.bal[i]) < 0 {
			w.r.Probe("head-lowers-balance")
		}
	}
	if tip.gasLimit() < head.gasLimit() {
		w.r.Probe("head-lowers-gaslimit")
	}
	// blockchain.go:418/426: one ChainHeadEvent for the last canonical block of the import
	w.chain.feed.Send(core.ChainHeadEvent{Block: tip.b})
	kit.Wait()
	w.evHead = tip
	w.noteRequest(tip)
	w.settle()
	w.observe("head")
}

// buildBlock creates one child of parent: per account 0-3 transactions with consecutive
// nonces that are valid on the evolving state (generated earlier for the pool, or foreign),
// optional credits, a gas limit.
func (w *world) buildBlock(parent *blk) *blk {
	c := w.c
	st := w.chain.stateOf(parent)
	gasLimit := gasLimits[c.Weighted("block-gaslimit", []int{7, 1, 1, 1})]
	gasLeft := gasLimit
	var txs []*txrec
	for a := 0; a < w.nAcc; a++ {
		k := c.Weighted("block-txs-of-account", []int{5, 3, 2, 1})
		for j := 0; j < k; j++ {
			n := st.GetNonce(addrs[a])
			t := w.gen.forBlock(a, n, func(t *txrec) bool { return txValidAt(st, addrs[a], t, gasLeft) })
			if t == nil {
				break
			}
			applyTx(st, addrs[a], t)
			gasLeft -= chargeGas
			txs = append(txs, t)
		}
	}
	var cr []string
	if c.Chance("block-credit", 1, 3) {
		a := c.Intn("credit-account", w.nAcc)
		amt := []int64{5000000, 50000000}[c.Intn("credit-amount", 2)]
		st.AddBalance(addrs[a], big.NewInt(amt))
		cr = append(cr, fmt.Sprintf("A%d+%d", a, amt))
	}
	b := w.chain.seal(parent, st, txs, gasLimit)
	var tn []string
	for _, t := range txs {
		tn = append(tn, t.name)
	}
	var sd []string
	for i := 0; i < w.nAcc; i++ {
		sd = append(sd, fmt.Sprintf("A%d(n%d b%s)", i, b.nonce[i], b.bal[i]))
	}
	w.r.Logf("block %s on %s #%d gasLimit=%d txs=[%s] credits=%v state: %s", b.name, parent.name, b.num, gasLimit, strings.Join(tn, " "), cr, strings.Join(sd, " "))
	return b
}

func (w *world) opTime() {
	c := w.c
	ds := []time.Duration{time.Second, 9 * time.Second, 61 * time.Second, 10 * time.Minute, w.cfg.Lifetime + 61*time.Second}
	d := ds[c.Weighted("sleep", []int{4, 3, 3, 2, 2})]
	w.r.Logf("time: +%v", d)
	w.r.FP("sleep", d.String())
	before := w.prevQueued
	time.Sleep(d)
	w.r.SimTime += d
	if d >= time.Minute {
		w.r.Fault("clock-jump")
	}
	w.settle()
	w.observe("time")
	if w.prevQueued < before {
		w.r.Probe("lifetime-eviction")
	}
}

func (w *world) opSetGasPrice() {
	c := w.c
	lv := []uint64{1, 40, 96, 160, 280}
	p := lv[c.Weighted("gasprice", []int{3, 3, 2, 2, 1})]
	w.r.Logf("SetGasPrice %d", p)
	w.r.FP("setgasprice", fmt.Sprint(p))
	w.floor = p
	done := false
	go func() {
		w.pool.SetGasPrice(new(big.Int).SetUint64(p)) // you/miner_api.go:58
		done = true
	}()
	w.settle()
	if !done {
		panic("poolworld: SetGasPrice did not return")
	}
	w.observe("setgasprice")
}

func firstRepoFrames(stack string) string {
	var out []string
	for _, ln := range strings.Split(stack, "\n") {
		ln = strings.TrimSpace(ln)
		if strings.HasPrefix(ln, "/repo/") || strings.Contains(ln, "/go-youchain/") && strings.HasPrefix(ln, "/") {
			if i := strings.Index(ln, " +0x"); i > 0 {
				ln = ln[:i]
			}
			out = append(out, ln)
			if len(out) >= 5 {
				break
			}
		}
	}
	return strings.Join(out, " < ")
}

func sortedAddrs(m map[common.Address]types.Transactions) []common.Address {
	var as []common.Address
	for a := range m {
		as = append(as, a)
	}
	sort.Slice(as, func(i, j int) bool { return strings.Compare(string(as[i][:]), string(as[j][:])) < 0 })
	return as
}
