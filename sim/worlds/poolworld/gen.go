package poolworld

import (
	"crypto/ecdsa"
	"crypto/sha256"
	"fmt"
	"math/big"

	"github.com/youchainhq/go-youchain/common"
	"github.com/youchainhq/go-youchain/core/types"
	"github.com/youchainhq/go-youchain/crypto"
	"github.com/youchainhq/go-youchain/params"
)

const maxAccounts = 8

var (
	keys  []*ecdsa.PrivateKey
	addrs []common.Address
)

func init() {
	for i := 0; i < maxAccounts; i++ {
		d := make([]byte, 32)
		d[0], d[31] = 0x20, byte(i+1)
		k, err := crypto.ToECDSA(d)
		if err != nil {
			panic(err)
		}
		keys = append(keys, k)
		addrs = append(addrs, crypto.PubkeyToAddress(k.PublicKey))
	}
}

// txrec is everything the simulator knows about a transaction it generated. The generator
// works from these records and from the chain it built itself, never from the pool's content
// (the pool may legitimately differ between executions of one seed once a map-order tie has
// decided whose transactions were dropped; see DESIGN 2.10).
type txrec struct {
	tx         *types.Transaction
	name       string
	acct       int // index of the signing account; -1 = not one of ours (garbage signature / wrong network)
	nonce      uint64
	price, gas uint64
	value      *big.Int
	cost       *big.Int
	kind       string
	wellFormed bool // signed by one of our accounts for the right network, gas >= intrinsic, small enough
}

// price encoding: price = level*8 + account index. Two live transactions of different
// accounts therefore never have the same price and txPricedList's heap order
// (tx_list.go:372: price, then nonce) is total over everything that can be in the pool at
// once: Discard/Underpriced results do not depend on heap layout or map order.
func priceOf(level uint64, acct int) uint64 { return level*8 + uint64(acct) }

type txgen struct {
	w      *world
	serial int
	recs   [][]*txrec // per account, in generation order
	byHash map[common.Hash]*txrec
	all    []*txrec
}

func (g *txgen) mk(acct int, nonce, price, gas uint64, value *big.Int, data []byte, kind string) *txrec {
	g.serial++
	raw := types.NewTransaction(nonce, sink, value, gas, new(big.Int).SetUint64(price), data)
	signer := types.MakeSigner(nil)
	tx, err := types.SignTx(raw, signer, keys[acct])
	if err != nil {
		panic(fmt.Sprintf("poolworld: sign: %v", err))
	}
	t := &txrec{tx: tx, acct: acct, nonce: nonce, price: price, gas: gas, value: value, kind: kind,
		name:       fmt.Sprintf("t%d(A%d n%d p%d g%d v%s %s)", g.serial, acct, nonce, price, gas, value, kind),
		wellFormed: gas >= intrinsic(data) && len(data) < 30000}
	t.cost = new(big.Int).Add(value, new(big.Int).Mul(new(big.Int).SetUint64(price), new(big.Int).SetUint64(gas)))
	return g.register(t)
}

func intrinsic(data []byte) uint64 {
	g := uint64(params.TxGas)
	for _, b := range data {
		if b != 0 {
			g += params.TxDataNonZeroGas
		} else {
			g += params.TxDataZeroGas
		}
	}
	return g
}

// register files a new record; generating the very same transaction again (same account,
// nonce, price, gas, value) yields the existing record, i.e. a duplicate submission.
func (g *txgen) register(t *txrec) *txrec {
	h := t.tx.Hash()
	if old := g.byHash[h]; old != nil {
		return old
	}
	g.byHash[h] = t
	g.all = append(g.all, t)
	if t.acct >= 0 {
		g.recs[t.acct] = append(g.recs[t.acct], t)
	}
	return t
}

// mkForeign builds transactions that are not validly signed by one of our accounts.
func (g *txgen) mkWrongNetwork(acct int, nonce, price uint64) *txrec {
	g.serial++
	value := big.NewInt(int64(g.serial))
	raw := types.NewTransaction(nonce, sink, value, 21000, new(big.Int).SetUint64(price), nil)
	tx, err := types.SignTx(raw, types.NewYouSigner(params.NetworkId()+1), keys[acct])
	if err != nil {
		panic(err)
	}
	t := &txrec{tx: tx, acct: -1, nonce: nonce, price: price, gas: 21000, value: value, kind: "wrongnet",
		name: fmt.Sprintf("t%d(A%d-wrongnet n%d p%d)", g.serial, acct, nonce, price)}
	t.cost = tx.Cost()
	return g.register(t)
}

func (g *txgen) mkBadSig(nonce, price uint64) *txrec {
	g.serial++
	value := big.NewInt(int64(g.serial)) // > 0: whoever the signature recovers to has no funds
	raw := types.NewTransaction(nonce, sink, value, 21000, new(big.Int).SetUint64(price), nil)
	sig := make([]byte, 65)
	h1 := sha256.Sum256([]byte(fmt.Sprintf("poolworld-r-%d", g.serial)))
	h2 := sha256.Sum256([]byte(fmt.Sprintf("poolworld-s-%d", g.serial)))
	copy(sig[:32], h1[:])
	copy(sig[32:64], h2[:])
	sig[32] &= 0x3f // keep s in the lower half so that some of them pass ValidateSignatureValues
	sig[64] = byte(g.serial & 1)
	tx, err := raw.WithSignature(types.MakeSigner(nil), sig)
	if err != nil {
		panic(err)
	}
	t := &txrec{tx: tx, acct: -1, nonce: nonce, price: price, gas: 21000, value: value, kind: "badsig",
		name: fmt.Sprintf("t%d(badsig n%d p%d)", g.serial, nonce, price)}
	t.cost = tx.Cost()
	return g.register(t)
}

// firstFree is the lowest nonce >= from for which no plausible (well-formed, not deliberately
// broken) transaction of the account has been generated yet.
func (g *txgen) firstFree(acct int, from uint64) uint64 {
	used := map[uint64]bool{}
	for _, t := range g.recs[acct] {
		if t.wellFormed && plausibleKind(t.kind) {
			used[t.nonce] = true
		}
	}
	n := from
	for used[n] {
		n++
	}
	return n
}

func plausibleKind(k string) bool {
	switch k {
	case "next", "heavy", "gap", "replace", "replace-low", "fill", "block":
		return true
	}
	return false
}

// liveRecs returns the account's well-formed records with nonce >= from (candidates for
// replacement / duplicates), newest first.
func (g *txgen) liveRecs(acct int, from uint64) []*txrec {
	var out []*txrec
	rs := g.recs[acct]
	for i := len(rs) - 1; i >= 0; i-- {
		if rs[i].wellFormed && rs[i].nonce >= from {
			out = append(out, rs[i])
		}
	}
	return out
}

// gen draws one transaction for a submission. Kind 0 is the boring one: the next nonce of a
// funded account at a normal price.
func (g *txgen) gen(from []int) *txrec {
	w := g.w
	c := w.r.C
	acct := from[c.Intn("tx-account", len(from))]
	head := w.chain.head
	stNonce := head.nonce[acct]
	bal := head.bal[acct]
	level := uint64(10 + c.Intn("tx-price-level", 30))
	price := priceOf(level, acct)
	value := big.NewInt(int64(g.serial + 1)) // value = serial keeps hashes distinct
	kind := c.Weighted("tx-kind", []int{30, 8, 5, 10, 6, 4, 5, 4, 5, 2, 2, 2, 1, 6})
	switch kind {
	case 0: // next executable (or next after what we already sent)
		return g.mk(acct, g.firstFree(acct, stNonce), price, 21000, value, nil, "next")
	case 1, 2: // replacement with / without a sufficient bump
		live := g.liveRecs(acct, stNonce)
		if len(live) == 0 {
			return g.mk(acct, g.firstFree(acct, stNonce), price, 21000, value, nil, "next")
		}
		old := live[c.Intn("replace-which", len(live))]
		if kind == 1 {
			// smallest price >= old*(100+bump)/100 (rounded up) that keeps the account's residue
			thr := (old.price*(100+w.cfg.PriceBump) + 99) / 100
			if thr <= old.price {
				thr = old.price + 1
			}
			np := thr
			for np%8 != uint64(acct) {
				np++
			}
			return g.mk(acct, old.nonce, np, old.gas, value, nil, "replace")
		}
		// insufficient: same price, or +8 when that is still below the bump threshold
		np := old.price
		if (old.price+8)*100 < old.price*(100+w.cfg.PriceBump) && c.Chance("replace-low-plus", 1, 2) {
			np = old.price + 8
		}
		return g.mk(acct, old.nonce, np, old.gas, value, nil, "replace-low")
	case 3: // gapped
		n := g.firstFree(acct, stNonce) + 1 + uint64(c.Intn("gap", 3))
		return g.mk(acct, n, price, 21000, value, nil, "gap")
	case 4: // duplicate of something sent before (possibly long gone, mined or stale)
		if len(g.all) == 0 {
			return g.mk(acct, g.firstFree(acct, stNonce), price, 21000, value, nil, "next")
		}
		// 0 = the most recent one
		return g.all[len(g.all)-1-c.Intn("dup-which", min(len(g.all), 12))]
	case 5: // stale nonce
		if stNonce == 0 {
			return g.mk(acct, g.firstFree(acct, stNonce), price, 21000, value, nil, "next")
		}
		return g.mk(acct, stNonce-1-uint64(c.Intn("stale-by", int(min(stNonce, 2)))), price, 21000, value, nil, "stale")
	case 6: // unaffordable at the head state
		v := new(big.Int).Add(bal, big.NewInt(1))
		return g.mk(acct, g.firstFree(acct, stNonce), price, 21000, v, nil, "unaffordable")
	case 7: // gas above the head's block gas limit
		return g.mk(acct, g.firstFree(acct, stNonce), price, head.gasLimit()+1+uint64(c.Intn("overgas", 3))*50000, value, nil, "overgas")
	case 8: // cheap: below (or at the bottom of) what the pool currently asks from remotes
		lvl := uint64(c.Intn("cheap-level", 10))
		return g.mk(acct, g.firstFree(acct, stNonce), priceOf(lvl, acct), 21000, value, nil, "cheap")
	case 9: // less gas than the intrinsic gas
		return g.mk(acct, g.firstFree(acct, stNonce), price, 20000, value, nil, "lowgas")
	case 10:
		return g.mkWrongNetwork(acct, stNonce, price)
	case 11:
		return g.mkBadSig(stNonce, price)
	case 12: // over the 32 KB DoS limit (tx_pool.go:540)
		data := make([]byte, 33*1024)
		return g.mk(acct, g.firstFree(acct, stNonce), price, 21000+4*33*1024, value, data, "oversized")
	default: // 13: heavy: affordable now, but takes a large part of the balance / of the block gas
		gasChoices := []uint64{50000, 80000, 100000, 140000}
		gas := gasChoices[c.Intn("heavy-gas", len(gasChoices))]
		v := new(big.Int).Set(value)
		if c.Chance("heavy-value", 1, 2) {
			v = new(big.Int).Rsh(bal, 1)
		}
		return g.mk(acct, g.firstFree(acct, stNonce), price, gas, v, nil, "heavy")
	}
}

// forBlock picks the transaction a block on top of state nonce n of acct includes: one of
// the transactions generated for that nonce (0 = the newest) or, with no candidate or by
// choice, a fresh one the pool has never seen (mined by somebody else).
func (g *txgen) forBlock(acct int, n uint64, ok func(*txrec) bool) *txrec {
	c := g.w.r.C
	var cands []*txrec
	rs := g.recs[acct]
	for i := len(rs) - 1; i >= 0; i-- {
		if rs[i].nonce == n && ok(rs[i]) {
			cands = append(cands, rs[i])
		}
	}
	if len(cands) > 0 && !c.Chance("block-foreign-tx", 1, 6) {
		return cands[c.Intn("block-which-tx", len(cands))]
	}
	level := uint64(10 + c.Intn("block-price-level", 30))
	value := big.NewInt(int64(g.serial + 1))
	t := g.mk(acct, n, priceOf(level, acct), 21000, value, nil, "block")
	if !ok(t) {
		return nil
	}
	return t
}
