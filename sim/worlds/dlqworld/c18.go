package dlqworld

import (
	"fmt"
	"runtime/debug"
	"strings"
	"time"

	"verifsim/kit"

	"github.com/youchainhq/go-youchain/logging"
	dl "github.com/youchainhq/go-youchain/you/downloader"
)

func init() {
	logging.Root().SetHandler(logging.DiscardHandler())
	kit.Register(&kit.Check{
		Prop: "C18", Name: "dlq", World: "DLQ", Level: "exploration",
		Rule: "one run = one seeded download of a hash-linked header chain (50-2000 headers, seeded pattern of empty / non-empty / same-body blocks, origin 1 .. 2^33) " +
			"through the REAL downloader.queue (full sync, or fast sync with receipts) and REAL peerConnection bookkeeping inside a synctest bubble (fake clock). " +
			"The simulator plays Downloader's goroutines one call at a time, chosen by the seed: header processor (Schedule in chunks; faults: numbering gap, foreign parent, repeated chunk, " +
			"optionally followed by the session abort production performs), body/receipt fetcher for 1-6 peers (throttle check, Reserve with production or seeded count, FetchBodies, " +
			"Deliver when the remote answer arrives, Expire(ttl) with the production reaction idle/drop), remote peers (answer complete, partial prefix, empty, one wrong body, wrong order, " +
			"twice, oversize, never; delay 50 ms .. 2*ttl; deliveries nobody asked for), dropper (Revoke with and without unregistering, unregister without Revoke, reconnect, Cancel of a registered request), " +
			"importer (Results(false) polling, or a goroutine blocked in Results(true)), clock (100 ms ticks, jumps beyond ttl), session restart (Close, drain, Reset, Prepare at local head+1). " +
			"Per-run knobs: blockCacheItems 1..8192, blockCacheMemory 600 B..64 MiB, maxResultsProcess 1..2048, ttl 6..60 s. " +
			"Oracle on the history of Results: numbers are origin, origin+1, ... without gap or repeat; each header is the scheduled one; DeriveSha(transactions) (and receipts in fast sync), recomputed by the harness, " +
			"equals the header's root; no block is released whose body no delivery ever carried; Schedule inserts exactly the prefix that continues the chain; Reserve/Deliver never answer errInvalidChain on a valid chain; " +
			"after every queue call no wanted header is outside all pools (task queue, in flight, done). Bounded liveness: after the fault phase every connected peer answers completely within 50 ms, peer p0 has been honest " +
			"throughout, the importer keeps importing; the range must complete within 64+6*blocks+20*peers+4*ttl/100ms production-shaped rounds after the last residual packet of the fault phase. " +
			"A run is non-trivial when at least one fault fired or a packet was delivered out of arrival order.",
		Real: []string{"you/downloader.queue (Prepare, Schedule, ReserveBodies/Receipts, DeliverBodies/Receipts, ExpireBodies/Receipts, CancelBodies/Receipts, Revoke, Results(false) and Results(true), ShouldThrottle*, Pending*, Reset, Close)",
			"you/downloader.peerConnection (FetchBodies/Receipts idle flags, SetBodiesIdle/SetReceiptsIdle throughput, BlockCapacity/ReceiptCapacity, MarkLacking/Lacks, Reset)",
			"core/types (Header.Hash, DeriveSha, Transaction, Receipt)", "common/prque"},
		Stub: []string{"Downloader.fetchParts / processHeaders / processFullSyncContent / spawnSync goroutines (the simulator issues their queue calls one at a time, each annotated with the line it imitates)",
			"PeerSet (peer order is a seeded choice; the real one iterates a map)", "remote peers and the p2p layer (downloader.Peer with empty Request* methods; answers are simulator events)",
			"header download (fetchHeaders/fillHeaderSkeleton): the header stream is generated"},
		FaultsNotInjected: []string{"in-flight byte corruption of a body: bodies reach the queue as decoded transaction lists; a corrupted list is the 'wrong body' fault",
			"crash/restart of the node: the queue is memory only, a restart is a new session (injected as session restart)",
			"more than 4096 lacking hashes per peer (MarkLacking evicts in map order, peer.go:257): chains are at most 2000 blocks",
			"calling CancelBodies with a request that is no longer registered: no production caller does (fetchParts never calls its cancel callback in this tree)"},
		Assumptions: []string{"Revoke and CancelBodies/CancelReceipts have no production caller in this tree (UnregisterPeer lacks upstream's queue.Revoke call); they are driven according to their doc comments",
			"after a request expired the honest peer p0 is always set idle again (production drops a peer whose expired request held <= 2 headers); dropping is a Downloader decision outside the queue",
			"the header skeleton / header-fill half of the queue (ScheduleSkeleton, ReserveHeaders, DeliverHeaders) and light sync (ScheduleSingle) are not driven"},
		QuickBudget: 40 * time.Second, ThoroughBudget: 12 * time.Minute,
		MinRuns:    50,
		Exec:       runC18,
		PanicClass: kit.PanicInRepo("queue-panic"),
		// reach probes every batch is expected to hit (listed in the evidence as probes_never_hit otherwise)
		ExpectedProbes: []string{"delivery after cancel", "delivery after expiry", "delivery after revoke", "delivery from the previous session", "empty blocks completed without a fetch", "importer woken from Results(true)", "late delivery matched against a newer request", "partial then completed by other peer", "range completed during the fault phase", "request cancelled while in flight", "request expired while in flight", "request revoked while in flight", "reservation skipped: peer lacks the hashes", "result batch capped at maxResultsProcess", "throttled"},
	})
}

func runC18(r *kit.Run) {
	cf := drawConfig(r.C)
	// package-level tuning variables of the result cache (hook H5); restored after the run
	oi, om, or := dl.SimQueueLimits(cf.items, cf.mem, cf.maxRes)
	defer dl.SimQueueLimits(oi, om, or)
	chain := buildChain(cf.spec)
	err := kit.Bubble(func() {
		var w *world
		defer func() {
			v := recover()
			if w != nil {
				w.shutdown()
			}
			if v == nil {
				return
			}
			// A panic raised inside /repo code is a finding; kit.Bubble re-panics on another
			// stack, so it has to be classified here where the original stack is still visible.
			stack := string(debug.Stack())
			// skip the frames of this deferred function: the origin follows the panic( frame
			if i := strings.LastIndex(stack, "\npanic("); i >= 0 {
				stack = stack[i:]
			}
			if cls := kit.PanicInRepo("queue-panic")(v, stack); cls != "" {
				r.Report(cls, "panic: %v | %s", v, repoFrames(stack))
				return
			}
			if fmt.Sprintf("%T", v) != "kit.abortRun" {
				// harness trouble: keep the original stack, kit.Bubble re-panics on another one
				panic(fmt.Sprintf("%v\noriginal stack:\n%s", v, stack))
			}
			panic(v)
		}()
		w = newWorld(r, cf, chain)
		w.run()
	})
	if err != nil {
		panic("harness: " + err.Error())
	}
}

func repoFrames(stack string) string {
	var out []string
	for _, ln := range strings.Split(stack, "\n") {
		ln = strings.TrimSpace(ln)
		if strings.HasPrefix(ln, "/repo/") {
			if i := strings.Index(ln, " +0x"); i > 0 {
				ln = ln[:i]
			}
			out = append(out, strings.TrimPrefix(ln, "/repo/"))
			if len(out) >= 6 {
				break
			}
		}
	}
	return strings.Join(out, " < ")
}
