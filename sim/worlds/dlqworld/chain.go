// Package dlqworld is the DLQ world of the deterministic simulator: the real download queue
// (you/downloader/queue.go) and the real per-peer bookkeeping (peer.go), with the simulator
// playing the goroutines of Downloader (header processor, body/receipt fetchers, importer) and
// all remote peers. It decides property C18.
package dlqworld

import (
	"math/big"
	"math/rand/v2"
	"sync"

	"github.com/youchainhq/go-youchain/common"
	"github.com/youchainhq/go-youchain/core/types"
)

// body is one transaction list (plus the matching receipts) with its independently computed
// roots. Several blocks may share one body (same root), which the queue cannot and need not
// distinguish.
type body struct {
	txs    []*types.Transaction
	rcs    []*types.Receipt
	txRoot common.Hash
	rcRoot common.Hash
}

// blk is one block of the source chain the honest peers serve.
type blk struct {
	num    uint64
	header *types.Header
	hash   common.Hash
	body   *body // nil for an empty block
}

func (b *blk) empty() bool { return b.body == nil }

// txCache holds transaction k of the world's universe; transaction k is a pure function of k,
// so sharing the objects between runs of one process cannot influence a run.
var (
	txCache   []*types.Transaction
	txCacheMu sync.Mutex
)

func txK(k int) *types.Transaction {
	txCacheMu.Lock()
	defer txCacheMu.Unlock()
	for len(txCache) <= k {
		i := len(txCache)
		to := common.BigToAddress(big.NewInt(int64(0x1000 + i%97)))
		var data []byte
		if i%5 == 0 {
			data = []byte{byte(i), byte(i >> 8), 0xfe}
		}
		txCache = append(txCache, types.NewTransaction(uint64(i), to, big.NewInt(int64(1+i%1000)), 21000+uint64(i%7), big.NewInt(int64(1+i%13)), data))
	}
	return txCache[k]
}

// txExtra returns a transaction outside the universe the chains are built from (transaction i
// of a second universe, again a pure function of i); used for forged bodies.
var txExtraCache [1000]*types.Transaction

func txExtra(i int) *types.Transaction {
	i %= len(txExtraCache)
	txCacheMu.Lock()
	defer txCacheMu.Unlock()
	if txExtraCache[i] == nil {
		txExtraCache[i] = types.NewTransaction(1<<40+uint64(i), common.BigToAddress(big.NewInt(0xbad)), big.NewInt(int64(7+i)), 21000, big.NewInt(3), nil)
	}
	return txExtraCache[i]
}

func mkBody(txIdx []int) *body {
	b := &body{}
	cum := uint64(0)
	for _, k := range txIdx {
		tx := txK(k)
		b.txs = append(b.txs, tx)
		cum += tx.Gas()
		b.rcs = append(b.rcs, types.NewReceipt(nil, k%11 == 0, cum))
	}
	b.txRoot = types.DeriveSha(types.Transactions(b.txs))
	b.rcRoot = types.DeriveSha(types.Receipts(b.rcs))
	return b
}

// chainSpec is what the chooser decides about the source chain.
type chainSpec struct {
	n       int
	origin  uint64
	pattern int    // 0 all blocks carry one transaction; 1 seeded mix; 2 mostly empty; 3 mix with repeated bodies
	density int    // 1..7: eighths of blocks that are empty in the mixed patterns
	seed    uint64 // seeds the per-block pattern (one chooser value instead of one per block)
}

// buildChain builds a hash-linked header chain origin, origin+1, ... with TxHash and
// ReceiptHash derived from the bodies with types.DeriveSha (what DeliverBodies /
// DeliverReceipts recompute, queue.go:823,839); empty blocks carry types.EmptyRootHash.
func buildChain(sp chainSpec) []*blk {
	rng := rand.New(rand.NewPCG(sp.seed, sp.seed^0x5bd1e995c0ffee))
	chain := make([]*blk, sp.n)
	parent := common.BigToHash(new(big.Int).SetUint64(sp.origin - 1)) // stands for the common ancestor
	var bodies []*body
	nextTx := 0
	for i := 0; i < sp.n; i++ {
		num := sp.origin + uint64(i)
		var bd *body
		switch sp.pattern {
		case 0:
			bd = mkBody([]int{nextTx})
			nextTx++
		case 2:
			if rng.IntN(9) == 0 {
				bd = mkBody([]int{nextTx, nextTx + 1})
				nextTx += 2
			}
		default:
			if rng.IntN(8) >= sp.density {
				if sp.pattern == 3 && len(bodies) > 0 && rng.IntN(4) == 0 {
					bd = bodies[rng.IntN(len(bodies))] // same transactions as an earlier block
				} else {
					k := 1 + rng.IntN(3)
					idx := make([]int, k)
					for j := range idx {
						idx[j] = nextTx
						nextTx++
					}
					bd = mkBody(idx)
				}
			}
		}
		h := &types.Header{
			ParentHash:  parent,
			Root:        common.BigToHash(new(big.Int).SetUint64(num * 7919)),
			TxHash:      types.EmptyRootHash,
			ReceiptHash: types.EmptyRootHash,
			Number:      new(big.Int).SetUint64(num),
			Subsidy:     big.NewInt(0),
			GasRewards:  big.NewInt(0),
			GasLimit:    8000000,
			Time:        1600000000 + num,
			Extra:       []byte{byte(i), byte(i >> 8)},
		}
		if bd != nil {
			h.TxHash, h.ReceiptHash = bd.txRoot, bd.rcRoot
			bodies = append(bodies, bd)
		}
		b := &blk{num: num, header: h, hash: h.Hash(), body: bd}
		chain[i] = b
		parent = b.hash
	}
	return chain
}

// forgeHeader returns a copy of h whose parent link points elsewhere (a sibling-chain header
// with the right number).
func forgeHeader(h *types.Header, salt uint64) *types.Header {
	c := *h
	c.Number = new(big.Int).Set(h.Number)
	c.Subsidy, c.GasRewards = big.NewInt(0), big.NewInt(0)
	c.ParentHash = common.BigToHash(new(big.Int).SetUint64(0xbad0000000 + salt))
	return &c
}
