package dlqworld

import (
	"fmt"
	"math/big"
	"os"
	"sort"
	"strings"
	"time"

	"verifsim/kit"

	"github.com/youchainhq/go-youchain/common"
	"github.com/youchainhq/go-youchain/core/types"
	dl "github.com/youchainhq/go-youchain/you/downloader"
)

const (
	kBody = 0
	kRcpt = 1

	quantum = 100 * time.Millisecond // the ticker of fetchParts (downloader.go:1014)
)

// blackBoxOnly switches the white-box pool census off (VERIF_DLQ_BLACKBOX=1), leaving only the
// oracles over the calls' results. It exists for sensitivity experiments ("would the history of
// Results alone have caught this mutant?") and is never set by check.sh.
var blackBoxOnly = os.Getenv("VERIF_DLQ_BLACKBOX") == "1"

var kindTag = [2]string{"b", "r"}
var kindWord = [2]string{"bodies", "receipts"}

// config is everything the chooser decides before the run starts.
type config struct {
	spec       chainSpec
	fast       bool
	items      int // blockCacheItems
	mem        int // blockCacheMemory
	maxRes     int // maxResultsProcess
	nPeers     int
	ttl        time.Duration
	blocking   bool // importer = goroutine blocked in Results(true) instead of polling Results(false)
	faultSteps int
	revokeW    int
	cancelW    int
	restartW   int
	unsolW     int
}

func drawConfig(c *kit.Chooser) config {
	var cf config
	switch c.Weighted("size-class", []int{6, 3, 1}) {
	case 0:
		cf.spec.n = 50 + c.Intn("blocks", 100)
	case 1:
		cf.spec.n = 150 + c.Intn("blocks", 350)
	default:
		cf.spec.n = 500 + c.Intn("blocks", 1501)
	}
	switch c.Weighted("origin-class", []int{4, 4, 1}) {
	case 0:
		cf.spec.origin = 1
	case 1:
		cf.spec.origin = 2 + uint64(c.Intn("origin", 100000))
	default:
		cf.spec.origin = 1<<33 + uint64(c.Intn("origin", 1<<16))
	}
	cf.spec.pattern = c.Weighted("pattern", []int{3, 5, 2, 3})
	if cf.spec.pattern == 1 || cf.spec.pattern == 3 {
		cf.spec.density = 1 + c.Intn("empty-eighths", 7)
		cf.spec.seed = c.Uint64("pattern-seed")
	} else if cf.spec.pattern == 2 {
		cf.spec.seed = c.Uint64("pattern-seed")
	}
	cf.fast = c.Chance("fast-sync", 1, 4)
	switch c.Weighted("cache-items", []int{4, 3, 3, 1}) {
	case 0:
		cf.items = 8192 // shipped value (queue.go:36)
	case 1:
		cf.items = 1 + c.Intn("items", 8)
	case 2:
		cf.items = 9 + c.Intn("items", 56)
	default:
		cf.items = 65 + c.Intn("items", 448)
	}
	if c.Chance("small-cache-memory", 1, 4) {
		cf.mem = 600 + c.Intn("memory", 6000)
	} else {
		cf.mem = 64 * 1024 * 1024 // shipped value (queue.go:37)
	}
	if c.Chance("small-result-batch", 1, 3) {
		cf.maxRes = 1 + c.Intn("max-results", 16)
	} else {
		cf.maxRes = 2048 // shipped value (downloader.go:46)
	}
	cf.nPeers = 1 + c.Intn("peers", 6)
	// requestTTL() lies in [3*rttMinEstimate, ttlLimit] = [6s, 60s] (downloader.go:1883)
	cf.ttl = []time.Duration{6 * time.Second, 9937 * time.Millisecond, 21400 * time.Millisecond, 60 * time.Second}[c.Intn("ttl", 4)]
	cf.blocking = c.Chance("blocking-importer", 1, 3)
	maxSteps := 40 + 5*cf.spec.n
	if maxSteps > 5000 {
		maxSteps = 5000
	}
	cf.faultSteps = c.Intn("fault-steps", maxSteps+1)
	cf.revokeW = []int{0, 1, 4}[c.Intn("revoke-rate", 3)]
	cf.cancelW = []int{0, 1, 4}[c.Intn("cancel-rate", 3)]
	cf.restartW = []int{0, 0, 0, 1}[c.Intn("restart-rate", 4)]
	cf.unsolW = []int{0, 1, 4}[c.Intn("unsolicited-rate", 3)]
	return cf
}

// simPeer is the remote side of downloader.Peer. FetchBodies / FetchReceipts call
// `go p.peer.RequestBodies(hashes)`; the simulator already holds the request, so the network
// call itself is empty. The answers are simulator events.
type simPeer struct{}

func (simPeer) Head() (common.Hash, *big.Int) { return common.Hash{}, new(big.Int) }
func (simPeer) Origin() *big.Int              { return new(big.Int) }
func (simPeer) RequestHeadersByHash(common.Hash, int, int, bool, bool) error {
	return nil
}
func (simPeer) RequestHeadersByNumber(uint64, int, int, bool, bool) error { return nil }
func (simPeer) RequestBodies([]common.Hash) error                         { return nil }
func (simPeer) RequestReceipts([]common.Hash) error                       { return nil }
func (simPeer) RequestNodeData(types.TrieKind, []common.Hash) error       { return nil }

type peerSt struct {
	idx     int
	id      string
	conn    *dl.SimPeerConn
	present bool
	honest  bool
	live    [2]*reqSt // the request the simulator believes is registered in the pending pool
	seq     int
}

type reqSt struct {
	p      *peerSt
	k      int
	name   string
	req    *dl.SimFetchRequest
	blocks []*blk
	fate   string // "" while registered; expired / revoked / cancelled / answered / reset
	events int    // answers of the remote peer still travelling
}

type event struct {
	due      time.Duration
	ord      int
	p        *peerSt
	k        int
	rq       *reqSt // nil: a delivery nobody asked for
	label    string
	payload  []*body
	residual bool // planned during the fault phase
}

type world struct {
	r     *kit.Run
	c     *kit.Chooser
	cf    config
	q     *dl.SimQueue
	mode  dl.SyncMode
	kinds int

	chain []*blk
	peers []*peerSt
	byID  map[string]*peerSt
	rtt   time.Duration
	now   time.Duration

	events []*event
	evOrd  int
	quiet  bool

	resCh         chan []*dl.SimFetchResult
	consumerAlive bool
	consumerPanic interface{}

	// header processor
	nextSched      int
	sessionStart   int
	schedInSession int
	prevChunk      []*types.Header
	prevFrom       uint64
	forgeSalt      uint64
	restarts       int

	// importer / oracle
	nextExpected      int
	returnedInSession int
	delivered         [2]map[common.Hash]bool
	last              [2][]string
	leftover          [2][]int8
	residualDelivered bool
	anomalyLogged     bool

	// trace compaction: identical consecutive rounds are logged once with a repeat count
	inRound   bool
	roundBuf  []string
	prevRound []string
	repeats   int
}

func newWorld(r *kit.Run, cf config, chain []*blk) *world {
	w := &world{r: r, c: r.C, cf: cf, chain: chain, byID: map[string]*peerSt{}, mode: dl.FullSync, kinds: 1}
	if cf.fast {
		w.mode, w.kinds = dl.FastSync, 2
	}
	// requestRTT() = 0.9*rttEstimate and requestTTL() = 3*rttEstimate/confidence (downloader.go:1883,2076)
	w.rtt = cf.ttl * 3 / 10
	for k := 0; k < 2; k++ {
		w.delivered[k] = map[common.Hash]bool{}
		w.last[k] = make([]string, len(chain))
		w.leftover[k] = make([]int8, len(chain))
	}
	w.q = dl.NewSimQueue()
	for i := 0; i < cf.nPeers; i++ {
		p := &peerSt{idx: i, id: fmt.Sprintf("p%d", i), present: true, honest: i == 0}
		p.conn = dl.NewSimPeerConn(p.id, simPeer{}) // RegisterPeer, downloader.go:1990
		w.peers = append(w.peers, p)
		w.byID[p.id] = p
	}
	// syncWithPeer, downloader.go:442
	w.q.Prepare(chain[0].num, w.mode)
	w.logf("config blocks=%d origin=%d pattern=%d mode=%s cache-items=%d cache-mem=%d max-results=%d peers=%d ttl=%v importer=%s fault-steps=%d",
		len(chain), chain[0].num, cf.spec.pattern, w.mode, cf.items, cf.mem, cf.maxRes, cf.nPeers, cf.ttl, map[bool]string{false: "poll", true: "blocking"}[cf.blocking], cf.faultSteps)
	r.FP(fmt.Sprintf("cfg:%v:%d:%v", cf.fast, cf.nPeers, cf.blocking))
	if cf.blocking {
		w.startConsumer()
	}
	return w
}

// ---------------------------------------------------------------- importer (consumer)

// startConsumer runs the loop of processFullSyncContent (downloader.go:1399): block in
// Results(true), hand the batch to the importer, stop on an empty batch. The hand-over is an
// unbuffered channel, so the goroutine is durably blocked (in sync.Cond.Wait or in the send)
// whenever the simulator goroutine runs.
func (w *world) startConsumer() {
	ch := make(chan []*dl.SimFetchResult)
	w.resCh = ch
	w.consumerAlive = true
	q := w.q
	go func() {
		defer func() {
			if v := recover(); v != nil {
				w.consumerPanic = v
				close(ch)
			}
		}()
		for {
			res := q.Results(true)
			ch <- res
			if len(res) == 0 {
				return
			}
		}
	}()
	kit.Wait()
}

func (w *world) consume() {
	w.r.Steps++
	if !w.cf.blocking {
		res := w.q.Results(false) // non-blocking form of downloader.go:1401
		w.checkResults(res, "Results(false)")
		w.conserve("Results")
		return
	}
	if !w.consumerAlive {
		return
	}
	select {
	case res, ok := <-w.resCh:
		kit.Wait()
		if !ok {
			w.consumerAlive = false
			w.fail("queue-panic", "Results(true) panicked on the importer goroutine: %v", w.consumerPanic)
		}
		w.r.Probe("importer woken from Results(true)")
		if len(res) == 0 {
			w.consumerAlive = false
		}
		w.checkResults(res, "Results(true)")
		w.conserve("Results")
	default:
		w.logf("importer: still blocked in Results(true)")
		w.r.FP("consume", "blocked")
	}
}

// checkResults is the oracle over the history of Results.
func (w *world) checkResults(res []*dl.SimFetchResult, how string) {
	r := w.r
	if len(res) == 0 {
		w.logf("importer: %s -> nothing", how)
		r.FP("consume", "0")
		return
	}
	first := w.nextExpected
	for _, x := range res {
		if x == nil || x.Header == nil {
			w.fail("result-nil", "%s returned a nil result/header at position %d", how, w.nextExpected-first)
		}
		num := x.Header.Number.Uint64()
		if w.nextExpected >= len(w.chain) {
			w.fail("result-repeated", "%s returned #%d after the whole range [#%d..#%d] had been handed over", how, num, w.chain[0].num, w.chain[len(w.chain)-1].num)
		}
		b := w.chain[w.nextExpected]
		if num < b.num {
			w.fail("result-repeated", "%s returned #%d but #%d was expected next (already handed over or below origin)", how, num, b.num)
		}
		if num > b.num {
			w.fail("result-gap", "%s returned #%d but #%d was expected next; %s", how, num, b.num, w.where(w.nextExpected))
		}
		if x.Header != b.header && x.Header.Hash() != b.hash {
			w.fail("result-wrong-header", "%s returned a header for #%d that is not the scheduled one", how, num)
		}
		if w.nextExpected >= w.sessionStart+w.schedInSession {
			w.fail("result-never-scheduled", "%s returned #%d which Schedule never accepted in this session", how, num)
		}
		if got := types.DeriveSha(types.Transactions(x.Transactions)); got != b.header.TxHash {
			w.report("body-mismatch", "%s returned #%d with %d transactions hashing to %s, header.TxHash is %s (block has %d transactions); last: %s",
				how, num, len(x.Transactions), short(got), short(b.header.TxHash), b.ntx(), w.last[kBody][w.nextExpected])
		} else if !b.empty() && !w.delivered[kBody][b.header.TxHash] {
			w.report("result-without-delivery", "%s returned #%d although no delivery ever carried its transaction list", how, num)
		}
		if w.cf.fast {
			if got := types.DeriveSha(types.Receipts(x.Receipts)); got != b.header.ReceiptHash {
				w.report("receipt-mismatch", "%s returned #%d with %d receipts hashing to %s, header.ReceiptHash is %s; last: %s",
					how, num, len(x.Receipts), short(got), short(b.header.ReceiptHash), w.last[kRcpt][w.nextExpected])
			}
		}
		w.nextExpected++
		w.returnedInSession++
	}
	w.logf("importer: %s -> %d results #%d..#%d", how, len(res), w.chain[first].num, w.chain[w.nextExpected-1].num)
	if len(res) == w.cf.maxRes {
		r.Probe("result batch capped at maxResultsProcess")
	}
	r.FP("consume", sizeClass(len(res)))
}

func (b *blk) ntx() int {
	if b.body == nil {
		return 0
	}
	return len(b.body.txs)
}

// ---------------------------------------------------------------- header processor (scheduler)

// schedule imitates one iteration of processHeaders (downloader.go:1253-1320): the next chunk
// of the header stream goes to queue.Schedule(chunk, origin) with the processor's running
// origin. In the fault phase the header stream may be broken (gap, foreign parent, repeated chunk).
func (w *world) schedule() {
	remaining := len(w.chain) - w.nextSched
	if remaining == 0 {
		return
	}
	r, c := w.r, w.c
	r.Steps++
	size := 2048 // maxHeadersProcess
	fault := 0
	if !w.quiet {
		size = 192 - c.Intn("chunk", 192) // header batches arrive in MaxHeaderFetch units
		fault = c.Weighted("header-stream-fault", []int{24, 1, 1, 1})
	}
	if size > remaining {
		size = remaining
	}
	idx := w.nextSched
	chunk := make([]*types.Header, 0, size)
	for i := 0; i < size; i++ {
		chunk = append(chunk, w.chain[idx+i].header)
	}
	from := w.chain[idx].num
	expect := size
	what := "ok"
	switch fault {
	case 1: // numbering gap: g headers missing before position j
		j := c.Intn("gap-at", size)
		g := 1 + c.Intn("gap-len", 3)
		if idx+j+g < len(w.chain) {
			chunk = chunk[:j]
			for i := idx + j + g; i < len(w.chain) && len(chunk) < size; i++ {
				chunk = append(chunk, w.chain[i].header)
			}
			expect, what = j, fmt.Sprintf("gap of %d before position %d", g, j)
			r.Fault("schedule-gap")
		}
	case 2: // header j has the right number but another parent
		j := c.Intn("forge-at", size)
		if j > 0 || w.schedInSession > 0 { // the queue cannot know the parent of the very first header
			w.forgeSalt++
			chunk[j] = forgeHeader(chunk[j], w.forgeSalt)
			expect, what = j, fmt.Sprintf("foreign parent at position %d", j)
			r.Fault("schedule-wrong-parent")
		}
	case 3: // the previous chunk once more
		if w.prevChunk != nil {
			chunk = w.prevChunk
			if c.Chance("stale-from", 1, 2) {
				from = w.prevFrom
			}
			expect, what = 0, fmt.Sprintf("repeat of the chunk at #%d", w.prevFrom)
			r.Fault("schedule-repeat")
		}
	}
	if what == "ok" {
		w.prevChunk, w.prevFrom = chunk, from
	}
	ins := w.q.Schedule(chunk, from)
	kit.Wait()
	w.logf("scheduler: Schedule(%d headers from #%d, %s) -> %d inserted", len(chunk), from, what, len(ins))
	r.FP("sched", what[:2], cutClass(len(ins), len(chunk)))
	if len(ins) > expect {
		w.fail("schedule-accepted-broken-chain", "Schedule(from #%d, %s) inserted %d headers, only the first %d continue the chain", from, what, len(ins), expect)
	}
	if len(ins) < expect {
		w.fail("schedule-rejected-valid-header", "Schedule(from #%d, %s) inserted %d headers, the first %d continue the chain", from, what, len(ins), expect)
	}
	for i, h := range ins {
		if h != chunk[i] {
			w.fail("schedule-accepted-broken-chain", "Schedule(from #%d, %s): inserted header %d is not chunk[%d]", from, what, i, i)
		}
		for k := 0; k < w.kinds; k++ {
			w.last[k][idx+i] = "scheduled"
		}
	}
	w.nextSched += len(ins)
	w.schedInSession += len(ins)
	w.conserve("Schedule")
	if what != "ok" && c.Chance("abort-session-after-bad-headers", 1, 2) {
		// processHeaders returns errBadPeer (downloader.go:1316), the sync ends, the next one starts over
		w.restart("stale headers")
	}
}

// ---------------------------------------------------------------- fetcher (fetchParts)

func (w *world) idle(p *peerSt, k int) bool {
	if !p.present {
		return false
	}
	if k == kBody {
		return dl.SimPeerBodyIdle(p.conn)
	}
	return dl.SimPeerReceiptIdle(p.conn)
}

func (w *world) setIdle(p *peerSt, k, accepted int) {
	if k == kBody {
		p.conn.SetBodiesIdle(accepted) // downloader.go:949
	} else {
		p.conn.SetReceiptsIdle(accepted) // downloader.go:973
	}
}

func (w *world) pendingTasks(k int) int {
	if k == kBody {
		return w.q.PendingBlocks()
	}
	return w.q.PendingReceipts()
}

func (w *world) throttled(k int) bool {
	if k == kBody {
		return w.q.ShouldThrottleBlocks()
	}
	return w.q.ShouldThrottleReceipts()
}

// assign is the body of the `for _, peer := range idles` loop of fetchParts
// (downloader.go:1121-1161) for one idle peer.
func (w *world) assign(p *peerSt, k int) {
	r, c := w.r, w.c
	r.Steps++
	if w.pendingTasks(k) == 0 { // downloader.go:1110,1128
		w.logf("fetcher[%s]: %s idle, no task queued", kindTag[k], p.id)
		r.FP("assign", kindTag[k], "none")
		return
	}
	if w.throttled(k) { // downloader.go:1123
		r.Fault("cache-throttle")
		r.Probe("throttled")
		w.logf("fetcher[%s]: %s idle, throttled (result cache full)", kindTag[k], p.id)
		r.FP("assign", kindTag[k], "throttled")
		return
	}
	var count int
	if k == kBody {
		count = p.conn.BlockCapacity(w.rtt) // downloader.go:948
	} else {
		count = p.conn.ReceiptCapacity(w.rtt) // downloader.go:972
	}
	if !w.quiet {
		switch c.Weighted("reserve-count", []int{6, 2, 2, 1}) {
		case 1:
			count = 1
		case 2:
			count = 1 + c.Intn("count", 16)
		case 3:
			count = dl.MaxBlockFetch
		}
	}
	var (
		req      *dl.SimFetchRequest
		progress bool
		err      error
	)
	if k == kBody {
		req, progress, err = w.q.ReserveBodies(p.conn, count)
	} else {
		req, progress, err = w.q.ReserveReceipts(p.conn, count)
	}
	kit.Wait()
	if err != nil {
		w.logf("fetcher[%s]: Reserve(%s, %d) -> error %v", kindTag[k], p.id, count, err)
		w.fail("reserve-error", "Reserve%s(%s, %d) failed with %q although every scheduled header belongs to one valid chain (fetchParts aborts the sync, downloader.go:1135); %s",
			kindWord[k], p.id, count, err, w.censusText(k))
	}
	if progress {
		r.Probe("empty blocks completed without a fetch")
	}
	if req == nil {
		why := "nothing reserved"
		if w.pendingTasks(k) > 0 && !w.throttled(k) && w.live(p, k) == nil {
			why = "peer lacks everything offered"
			r.Probe("reservation skipped: peer lacks the hashes")
		}
		w.logf("fetcher[%s]: Reserve(%s, %d) -> no request (%s, progress=%v)", kindTag[k], p.id, count, why, progress)
		r.FP("assign", kindTag[k], "nil", fmt.Sprint(progress))
		w.conserve("Reserve")
		return
	}
	p.seq++
	rq := &reqSt{p: p, k: k, name: fmt.Sprintf("%s/%s%d", p.id, kindTag[k], p.seq), req: req}
	for _, h := range req.Headers {
		i := int(h.Number.Uint64() - w.chain[0].num)
		rq.blocks = append(rq.blocks, w.chain[i])
		w.last[k][i] = "reserved as " + rq.name
	}
	if old := p.live[k]; old != nil {
		// cannot happen with a correct queue (one registered request per peer); keep going
		old.fate = "overwritten"
		r.Count("anomaly.second-request-for-busy-peer", 1)
	}
	p.live[k] = rq
	w.logf("fetcher[%s]: Reserve(%s, %d) -> %s %s progress=%v", kindTag[k], p.id, count, rq.name, spanText(rq.blocks), progress)
	r.FP("assign", kindTag[k], sizeClass(len(rq.blocks)))
	w.conserve("Reserve")

	if !w.quiet && w.cf.cancelW > 0 && c.Chance("send-fails", 1, 40) {
		// the documented use of cancel: the request could not be sent, return it (fetchParts `cancel` callback)
		w.cancel(rq, "send failed")
		return
	}
	var ferr error
	if k == kBody {
		ferr = p.conn.FetchBodies(req) // downloader.go:947
	} else {
		ferr = p.conn.FetchReceipts(req) // downloader.go:971
	}
	kit.Wait()
	if ferr != nil {
		// fetchParts panics here (downloader.go:1159); the simulator only assigns idle peers
		panic(fmt.Sprintf("harness: fetch assignment to %s failed: %v", p.id, ferr))
	}
	w.plan(rq)
}

// live returns the simulator's belief, corrected by the queue's own registry.
func (w *world) live(p *peerSt, k int) *reqSt {
	rq := p.live[k]
	if rq != nil && !dl.SimQueueIsPending(w.q, rq.req, k == kRcpt) {
		w.r.Count("anomaly.belief-corrected", 1)
		rq.fate = "vanished"
		p.live[k] = nil
		return nil
	}
	return rq
}

func (w *world) delay(class int) time.Duration {
	c := w.c
	switch class {
	case 0:
		return 50 * time.Millisecond * time.Duration(1+c.Intn("delay", 4))
	case 1:
		return 300*time.Millisecond + 100*time.Millisecond*time.Duration(c.Intn("delay", 28))
	case 2: // around the request timeout
		return w.cf.ttl - time.Second + 100*time.Millisecond*time.Duration(c.Intn("delay", 21))
	default: // well beyond it
		return w.cf.ttl + time.Second + time.Second*time.Duration(c.Intn("delay", int(w.cf.ttl/time.Second)))
	}
}

func (w *world) bodyOf(b *blk) *body {
	if b.body == nil {
		return emptyBody
	}
	return b.body
}

var emptyBody = &body{txRoot: types.EmptyRootHash, rcRoot: types.EmptyRootHash}

func (w *world) root(bd *body, k int) common.Hash {
	if k == kBody {
		return bd.txRoot
	}
	return bd.rcRoot
}

// wrongBody returns a body that does not hash to b's root (of kind k).
func (w *world) wrongBody(b *blk, k int) *body {
	c := w.c
	right := w.bodyOf(b)
	switch c.Intn("wrong-kind", 3) {
	case 0: // somebody else's body
		for d := 1; d < len(w.chain); d++ {
			o := w.chain[(int(b.num-w.chain[0].num)+d)%len(w.chain)]
			if ob := w.bodyOf(o); w.root(ob, k) != w.root(right, k) {
				return ob
			}
		}
	case 1: // one transaction too many
		tx := txExtra(int(b.num % 1000))
		nb := &body{txs: append(append([]*types.Transaction{}, right.txs...), tx), rcs: append(append([]*types.Receipt{}, right.rcs...), types.NewReceipt(nil, true, tx.Gas()))}
		nb.txRoot, nb.rcRoot = types.DeriveSha(types.Transactions(nb.txs)), types.DeriveSha(types.Receipts(nb.rcs))
		return nb
	}
	// an empty list for a block that has transactions (requests never contain empty blocks)
	return emptyBody
}

// plan decides how the remote peer answers request rq (§3 "lying / stalling / vanishing peers").
func (w *world) plan(rq *reqSt) {
	r, c := w.r, w.c
	p, k, n := rq.p, rq.k, len(rq.blocks)
	beh, dclass := 0, 0
	if !w.quiet {
		if !p.honest {
			beh = c.Weighted("answer", []int{10, 3, 2, 3, 2, 2, 2, 1})
		}
		dclass = c.Weighted("delay-class", []int{10, 4, 2, 2})
	}
	d := 50 * time.Millisecond
	if !w.quiet {
		d = w.delay(dclass)
	}
	payload := make([]*body, n)
	for i, b := range rq.blocks {
		payload[i] = w.bodyOf(b)
	}
	label := "complete"
	switch beh {
	case 1:
		if n >= 2 {
			payload, label = payload[:1+c.Intn("prefix", n-1)], "partial"
		}
	case 2:
		payload, label = nil, "empty"
	case 3:
		j := c.Intn("wrong-at", n)
		payload[j], label = w.wrongBody(rq.blocks[j], k), "wrong-body"
	case 4:
		if n >= 2 {
			perm := make([]*body, n)
			switch c.Intn("order", 3) {
			case 0: // rotate
				s := 1 + c.Intn("rotate", n-1)
				for i := range perm {
					perm[i] = payload[(i+s)%n]
				}
			case 1: // reverse
				for i := range perm {
					perm[i] = payload[n-1-i]
				}
			default: // swap the first two
				copy(perm, payload)
				perm[0], perm[1] = perm[1], perm[0]
			}
			for i := range perm {
				if w.root(perm[i], k) != w.root(payload[i], k) {
					label = "reordered"
				}
			}
			if label == "reordered" {
				payload = perm
			}
		}
	case 5:
		r.Fault("stall")
		w.logf("peer %s: will never answer %s", p.id, rq.name)
		r.FP("plan", "never")
		return
	case 7:
		extra := 1 + c.Intn("extra", 3)
		for i := 0; i < extra; i++ {
			payload = append(payload, w.bodyOf(w.chain[c.Intn("extra-block", len(w.chain))]))
		}
		label = "oversize"
	}
	w.addEvent(&event{due: w.now + d, p: p, k: k, rq: rq, label: label, payload: payload})
	if beh == 6 {
		d2 := d + 50*time.Millisecond*time.Duration(c.Intn("dup-gap", 40))
		w.addEvent(&event{due: w.now + d2, p: p, k: k, rq: rq, label: "duplicate", payload: payload})
	}
	w.logf("peer %s: will answer %s with %s (%d items) after %v", p.id, rq.name, label, len(payload), d)
	r.FP("plan", label, fmt.Sprint(dclass))
}

func (w *world) addEvent(ev *event) {
	w.evOrd++
	ev.ord = w.evOrd
	ev.residual = !w.quiet
	if ev.rq != nil {
		ev.rq.events++
	}
	w.events = append(w.events, ev)
	sort.SliceStable(w.events, func(i, j int) bool {
		if w.events[i].due != w.events[j].due {
			return w.events[i].due < w.events[j].due
		}
		return w.events[i].ord < w.events[j].ord
	})
}

func (w *world) dueCount() int {
	n := 0
	for _, ev := range w.events {
		if ev.due <= w.now {
			n++
		}
	}
	return n
}

func (w *world) takeEvent(i int) *event {
	ev := w.events[i]
	w.events = append(w.events[:i], w.events[i+1:]...)
	if ev.rq != nil {
		ev.rq.events--
	}
	return ev
}

// deliver is `case packet := <-deliveryCh` of fetchParts (downloader.go:1026-1050).
func (w *world) deliver(ev *event) {
	r := w.r
	r.Steps++
	p, k := ev.p, ev.k
	if ev.residual && w.quiet {
		w.residualDelivered = true
	}
	if !p.present { // downloader.go:1029: packets of unregistered peers are ignored
		w.logf("fetcher[%s]: packet from %s (%s) ignored, peer is gone", kindTag[k], p.id, ev.label)
		r.FP("deliver", "ignored")
		return
	}
	live := w.live(p, k)
	var (
		accepted int
		err      error
	)
	if k == kBody {
		lists := make([][]*types.Transaction, len(ev.payload))
		for i, bd := range ev.payload {
			lists[i] = bd.txs
			w.delivered[kBody][bd.txRoot] = true
		}
		accepted, err = w.q.DeliverBodies(p.id, lists) // downloader.go:944
	} else {
		lists := make([][]*types.Receipt, len(ev.payload))
		for i, bd := range ev.payload {
			lists[i] = bd.rcs
			w.delivered[kRcpt][bd.rcRoot] = true
		}
		accepted, err = w.q.DeliverReceipts(p.id, lists) // downloader.go:968
	}
	kit.Wait()
	ec := "ok"
	switch {
	case err == nil:
	case err == dl.SimErrInvalidChain:
		ec = "invalid-chain"
	case err == dl.SimErrStaleDelivery:
		ec = "stale"
	case err == dl.SimErrNoFetchesPending:
		ec = "not-requested"
	default:
		ec = "partial-failure"
	}
	about := "unsolicited"
	if ev.rq != nil {
		about = "answer to " + ev.rq.name
		if ev.rq.fate != "" {
			about += " (" + ev.rq.fate + ")"
		}
	}
	hit := "-"
	if live != nil {
		hit = live.name
	}
	w.logf("fetcher[%s]: Deliver(%s, %d items: %s, %s) on registered request %s -> accepted %d, %s", kindTag[k], p.id, len(ev.payload), ev.label, about, hit, accepted, ec)
	r.FP("deliver", kindTag[k], ev.label, ec, accClass(accepted, live))

	// what actually fired
	switch {
	case ev.label == "duplicate":
		r.Fault("duplicate")
	case ev.rq == nil:
		r.Fault("unsolicited")
	case ev.rq == live:
		if ev.label != "complete" {
			r.Fault(ev.label)
		}
	default:
		r.Fault("late")
	}
	if ev.rq != nil && ev.rq != live {
		switch ev.rq.fate {
		case "expired":
			r.Probe("delivery after expiry")
		case "revoked":
			r.Probe("delivery after revoke")
		case "cancelled":
			r.Probe("delivery after cancel")
		case "reset":
			r.Probe("delivery from the previous session")
		}
		if live != nil {
			r.Probe("late delivery matched against a newer request")
		}
	}
	// bookkeeping of the simulator's view
	if live != nil && err != dl.SimErrNoFetchesPending {
		live.fate = "answered"
		p.live[k] = nil
		for i, b := range live.blocks {
			bi := int(b.num - w.chain[0].num)
			if i < accepted {
				w.last[k][bi] = fmt.Sprintf("accepted from %s (%s)", p.id, live.name)
				if lo := w.leftover[k][bi]; lo != 0 && int(lo) != p.idx+1 {
					r.Probe("partial then completed by other peer")
					w.leftover[k][bi] = 0
				}
			} else {
				w.last[k][bi] = fmt.Sprintf("returned to the task queue by Deliver(%s: %s, accepted %d of %d)", live.name, ev.label, accepted, len(live.blocks))
				if accepted > 0 {
					w.leftover[k][bi] = int8(p.idx + 1)
				}
			}
		}
	}
	if err == dl.SimErrInvalidChain { // downloader.go:1032: fetchParts aborts the whole sync
		w.fail("deliver-invalid-chain", "Deliver%s(%s) answered errInvalidChain although every scheduled header belongs to one valid chain (registered request %s, delivery: %s %s); %s",
			kindWord[k], p.id, hit, ev.label, about, w.censusText(k))
	}
	if err != dl.SimErrStaleDelivery { // downloader.go:1038
		w.setIdle(p, k, accepted)
	}
	w.conserve("Deliver")
}

// expire is the head of `case <-update` of fetchParts (downloader.go:1081-1108).
func (w *world) expire() {
	r := w.r
	r.Steps++
	for k := 0; k < w.kinds; k++ {
		var exp map[string]int
		if k == kBody {
			exp = w.q.ExpireBodies(w.cf.ttl) // downloader.go:946
		} else {
			exp = w.q.ExpireReceipts(w.cf.ttl) // downloader.go:970
		}
		kit.Wait()
		ids := make([]string, 0, len(exp))
		for id := range exp {
			ids = append(ids, id)
		}
		sort.Strings(ids)
		if len(ids) == 0 {
			r.FP("expire", kindTag[k], "0")
			continue
		}
		for _, id := range ids {
			p := w.byID[id]
			fails := exp[id]
			r.Fault("expiry")
			name := "?"
			if rq := p.live[k]; rq != nil {
				name = rq.name
				if rq.events > 0 {
					r.Probe("request expired while in flight")
				}
				rq.fate = "expired"
				p.live[k] = nil
				for _, b := range rq.blocks {
					w.last[k][int(b.num-w.chain[0].num)] = "returned to the task queue by Expire(" + rq.name + ")"
				}
			}
			what := "idle again"
			if p.present {
				if fails > 2 || p.honest || w.quiet {
					w.setIdle(p, k, 0) // downloader.go:1092
				} else {
					// downloader.go:1095 dropPeer -> UnregisterPeer (which, in this tree, does not call queue.Revoke)
					p.present = false
					what = "dropped"
					r.Fault("peer-drop")
				}
			} else {
				what = "already gone"
			}
			w.logf("fetcher[%s]: Expire(%v) -> %s (%d headers) expired, peer %s", kindTag[k], w.cf.ttl, name, fails, what)
			r.FP("expire", kindTag[k], what)
		}
		w.conserve("Expire")
	}
}

// revoke: a peer goes away (UnregisterPeer) or its tasks are taken back (queue.Revoke).
func (w *world) revoke() {
	r, c := w.r, w.c
	r.Steps++
	var cand []*peerSt
	for _, p := range w.peers {
		if p.present && (p.live[0] != nil || p.live[1] != nil) {
			cand = append(cand, p)
		}
	}
	if len(cand) == 0 {
		for _, p := range w.peers {
			if p.present {
				cand = append(cand, p)
			}
		}
	}
	if len(cand) == 0 {
		return
	}
	p := cand[c.Intn("revoke-peer", len(cand))]
	variant := 0 // Revoke, peer stays connected
	if !p.honest {
		variant = c.Weighted("drop-variant", []int{3, 2, 2}) // 1: Revoke + unregister (upstream UnregisterPeer), 2: unregister only (this tree)
	}
	if variant != 2 {
		w.q.Revoke(p.id)
		kit.Wait()
		r.Fault("revoke")
		for k := 0; k < w.kinds; k++ {
			if rq := p.live[k]; rq != nil {
				if rq.events > 0 {
					r.Probe("request revoked while in flight")
				}
				rq.fate = "revoked"
				p.live[k] = nil
				for _, b := range rq.blocks {
					w.last[k][int(b.num-w.chain[0].num)] = "returned to the task queue by Revoke(" + rq.name + ")"
				}
			}
		}
	}
	if variant != 0 {
		p.present = false
		r.Fault("peer-drop")
	}
	w.logf("dropper: %s %s", []string{"Revoke", "Revoke+unregister", "unregister (no Revoke)"}[variant], p.id)
	r.FP("revoke", fmt.Sprint(variant))
	w.conserve("Revoke")
}

func (w *world) rejoin() {
	r, c := w.r, w.c
	r.Steps++
	var gone []*peerSt
	for _, p := range w.peers {
		if !p.present {
			gone = append(gone, p)
		}
	}
	if len(gone) == 0 {
		return
	}
	p := gone[c.Intn("rejoin-peer", len(gone))]
	p.conn = dl.NewSimPeerConn(p.id, simPeer{}) // RegisterPeer builds a fresh peerConnection
	p.present = true
	// the old connection is closed: nothing it still had to say arrives
	kept := w.events[:0]
	for _, ev := range w.events {
		if ev.p == p {
			if ev.rq != nil {
				ev.rq.events--
			}
			continue
		}
		kept = append(kept, ev)
	}
	w.events = kept
	w.logf("dropper: %s reconnects (fresh peerConnection)", p.id)
	r.FP("rejoin")
}

func (w *world) cancel(rq *reqSt, why string) {
	r := w.r
	p, k := rq.p, rq.k
	if k == kBody {
		w.q.CancelBodies(rq.req)
	} else {
		w.q.CancelReceipts(rq.req)
	}
	kit.Wait()
	r.Fault("cancel")
	if rq.events > 0 {
		r.Probe("request cancelled while in flight")
	}
	rq.fate = "cancelled"
	p.live[k] = nil
	for _, b := range rq.blocks {
		w.last[k][int(b.num-w.chain[0].num)] = "returned to the task queue by Cancel(" + rq.name + ")"
	}
	if p.present && !w.idle(p, k) {
		w.setIdle(p, k, 0)
	}
	w.logf("dropper: Cancel(%s) %s", rq.name, why)
	r.FP("cancel", why[:4])
	w.conserve("Cancel")
}

func (w *world) cancelSome() {
	w.r.Steps++
	var cand []*reqSt
	for _, p := range w.peers {
		for k := 0; k < w.kinds; k++ {
			if rq := w.live(p, k); rq != nil {
				cand = append(cand, rq)
			}
		}
	}
	if len(cand) == 0 {
		return
	}
	w.cancel(cand[w.c.Intn("cancel-request", len(cand))], "in flight")
}

func (w *world) unsolicited() {
	r, c := w.r, w.c
	r.Steps++
	type pk struct {
		p *peerSt
		k int
	}
	var cand []pk
	for _, p := range w.peers {
		for k := 0; k < w.kinds; k++ {
			if p.present && !p.honest && p.live[k] == nil {
				cand = append(cand, pk{p, k})
			}
		}
	}
	if len(cand) == 0 {
		return
	}
	x := cand[c.Intn("unsolicited-peer", len(cand))]
	n := 1 + c.Intn("unsolicited-items", 4)
	var payload []*body
	for i := 0; i < n; i++ {
		j := w.nextExpected + c.Intn("unsolicited-block", 64)
		if j >= len(w.chain) {
			j = len(w.chain) - 1
		}
		payload = append(payload, w.bodyOf(w.chain[j]))
	}
	w.addEvent(&event{due: w.now, p: x.p, k: x.k, label: "unsolicited", payload: payload})
	w.logf("peer %s: sends %d %s nobody asked for", x.p.id, n, kindWord[x.k])
	r.FP("unsolicited")
}

// restart ends the sync session and starts the next one the way Synchronise does:
// spawnSync closes the queue (downloader.go:524,532), the importer drains what is complete,
// synchronise resets queue and peers (downloader.go:333,334) and syncWithPeer prepares the
// queue at the new origin = local head + 1 (downloader.go:442).
func (w *world) restart(why string) {
	r := w.r
	if w.nextExpected >= len(w.chain) {
		return
	}
	r.Steps++
	w.restarts++
	r.Fault("session-restart")
	w.q.Close()
	kit.Wait()
	drain := w.cf.blocking || !w.c.Chance("importer-stops-early", 1, 3)
	if drain {
		w.drain(true)
	}
	if w.done() {
		w.logf("session: closed (%s); the importer drained the rest of the range", why)
		return
	}
	w.q.Reset()
	for _, p := range w.peers {
		if p.present {
			p.conn.Reset() // PeerSet.Reset, peer_set.go:56
		}
		for k := 0; k < 2; k++ {
			if rq := p.live[k]; rq != nil {
				rq.fate = "reset"
				p.live[k] = nil
			}
		}
	}
	w.sessionStart, w.nextSched = w.nextExpected, w.nextExpected
	w.schedInSession, w.returnedInSession = 0, 0
	w.prevChunk = nil
	w.q.Prepare(w.chain[w.nextExpected].num, w.mode)
	w.logf("session: closed (%s), importer drained=%v; Reset + Prepare(#%d)", why, drain, w.chain[w.nextExpected].num)
	r.FP("restart", fmt.Sprint(drain))
	if w.cf.blocking {
		w.startConsumer()
	}
	w.conserve("Reset")
}

// drain hands over everything the closed queue still releases.
func (w *world) drain(check bool) {
	if !w.cf.blocking {
		for i := 0; i < len(w.chain)+2; i++ {
			res := w.q.Results(false)
			if len(res) == 0 {
				return
			}
			if check {
				w.checkResults(res, "Results after Close")
			}
		}
		return
	}
	for w.consumerAlive {
		res, ok := <-w.resCh
		kit.Wait()
		if !ok || len(res) == 0 {
			w.consumerAlive = false
			return
		}
		if check {
			w.checkResults(res, "Results after Close")
		}
	}
}

// shutdown leaves the bubble clean whatever happened.
func (w *world) shutdown() {
	w.q.Close()
	kit.Wait()
	if w.cf.blocking {
		w.drain(false)
	}
}

// ---------------------------------------------------------------- conservation (white-box diagnosis)

func (w *world) censusText(k int) string {
	tq, tp, pr, ph, dn := dl.SimQueueCensus(w.q, k == kRcpt)
	cl, off := dl.SimQueueWindow(w.q)
	return fmt.Sprintf("census[%s]: task-queue=%d task-pool=%d requests=%d headers-in-flight=%d done=%d cache-len=%d offset=%d wanted(scheduled-returned)=%d",
		kindWord[k], tq, tp, pr, ph, dn, cl, off, w.wanted())
}

// conserve checks after every queue operation that no wanted header has fallen out of all
// pools: every header Schedule accepted and Results has not yet released must be queued, in
// flight or done. A header in no pool can never be delivered, so the completion clause of C18
// is already lost; reporting it here (instead of only after the liveness bound) gives the
// operation that lost it.
func (w *world) conserve(op string) {
	if blackBoxOnly {
		return
	}
	want := w.wanted()
	for k := 0; k < w.kinds; k++ {
		tq, _, _, ph, dn := dl.SimQueueCensus(w.q, k == kRcpt)
		have := tq + ph + dn
		if have < want {
			w.fail("header-lost", "after %s: %d wanted %s tasks are in no pool (neither queued, in flight nor done); first missing block: %s; %s",
				op, want-have, kindWord[k], w.firstLost(k), w.censusText(k))
		}
		if have > want && !w.anomalyLogged {
			w.anomalyLogged = true
			w.r.Count("anomaly.task-in-two-pools", 1)
			w.logf("note: after %s %d more %s tasks in the pools than wanted (%s)", op, have-want, kindWord[k], w.censusText(k))
		}
	}
}

// wanted is the number of headers accepted by Schedule in this session that have not left the
// queue through Results. With the polling importer that is the simulator's own count; with the
// blocking importer a batch may already sit in the importer goroutine's hands, so the queue's
// result offset tells how many have left.
func (w *world) wanted() int {
	if !w.cf.blocking {
		return w.schedInSession - w.returnedInSession
	}
	_, off := dl.SimQueueWindow(w.q)
	return w.schedInSession - int(off-w.chain[w.sessionStart].num)
}

func (w *world) firstLost(k int) string {
	for i := w.nextExpected; i < w.sessionStart+w.schedInSession; i++ {
		inTask, pend, done := dl.SimQueueLocate(w.q, w.chain[i].hash, k == kRcpt)
		if pend == "" && !done {
			// in the task pool map only: queued or lost; the last event tells
			if strings.HasPrefix(w.last[k][i], "returned") || !inTask {
				return fmt.Sprintf("#%d (task-pool=%v, in no request, not done; last seen: %s)", w.chain[i].num, inTask, w.last[k][i])
			}
		}
	}
	return "not identified"
}

func (w *world) where(i int) string {
	var sb strings.Builder
	b := w.chain[i]
	for k := 0; k < w.kinds; k++ {
		inTask, pend, done := dl.SimQueueLocate(w.q, b.hash, k == kRcpt)
		fmt.Fprintf(&sb, "#%d %s: task-pool=%v in-flight-at=%q done=%v last seen: %s; ", b.num, kindWord[k], inTask, pend, done, w.last[k][i])
	}
	sb.WriteString(w.censusText(kBody))
	return sb.String()
}

// ---------------------------------------------------------------- driver

func (w *world) sleep(d time.Duration) {
	time.Sleep(d) // fake clock of the bubble; every other goroutine is durably blocked
	w.now += d
	w.r.SimTime += d
}

func (w *world) done() bool { return w.nextExpected >= len(w.chain) }

// round is one production-shaped iteration: header processor, 100 ms ticker, every packet that
// arrived, expiry check, one reservation per idle peer, importer.
func (w *world) round() {
	w.beginRound()
	defer w.endRound()
	w.schedule()
	if w.done() {
		return
	}
	w.sleep(quantum)
	for len(w.events) > 0 && w.events[0].due <= w.now {
		w.deliver(w.takeEvent(0))
	}
	w.expire()
	for k := 0; k < w.kinds; k++ {
		for _, p := range w.peers {
			if !w.idle(p, k) {
				continue
			}
			// downloader.go:1123-1129: the loop over the idle peers ends at the first throttle / empty queue
			if w.pendingTasks(k) == 0 {
				break
			}
			if w.throttled(k) {
				w.assign(p, k) // logs and counts the throttle
				break
			}
			w.assign(p, k)
		}
	}
	w.consume()
	w.maybeFinish()
}

// maybeFinish is the regular end of a sync: once header processing is over, every fetcher
// returns nil as soon as its queue reports nothing queued and nothing in flight
// (downloader.go:1110-1113); spawnSync then closes the queue (downloader.go:524) and the
// importer drains it. Whatever is not released then is never imported.
func (w *world) maybeFinish() {
	if w.done() || w.nextSched < len(w.chain) {
		return
	}
	for k := 0; k < w.kinds; k++ {
		inFlight := w.q.InFlightBlocks()
		if k == kRcpt {
			inFlight = w.q.InFlightReceipts()
		}
		if w.pendingTasks(k) != 0 || inFlight {
			return
		}
	}
	w.q.Close()
	kit.Wait()
	w.logf("session: header processing over, nothing queued, nothing in flight: fetchers return, queue closed, importer drains")
	w.r.FP("finish")
	w.drain(true)
	if !w.done() {
		w.fail("sync-ended-incomplete", "the queue reported nothing queued and nothing in flight after all %d headers were scheduled, the fetchers finished and the queue was closed, but only %d blocks were released; first missing: %s",
			len(w.chain), w.nextExpected, w.where(w.nextExpected))
	}
}

func (w *world) faultStep() {
	c, r := w.c, w.r
	due := w.dueCount()
	type pk struct {
		p *peerSt
		k int
	}
	var idles []pk
	anyLive, anyGone, anyFaultyFree := false, false, false
	for _, p := range w.peers {
		if !p.present {
			anyGone = true
		}
		for k := 0; k < w.kinds; k++ {
			if w.idle(p, k) {
				idles = append(idles, pk{p, k})
			}
			if p.live[k] != nil {
				anyLive = true
			} else if p.present && !p.honest {
				anyFaultyFree = true
			}
		}
	}
	// index 0 (the boring answer) is a whole production-shaped round
	wt := make([]int, 12)
	wt[0], wt[1], wt[4], wt[6] = 16, 32, 12, 24
	if due > 0 {
		wt[2] = 56
	}
	if len(idles) > 0 {
		wt[3] = 4 // mostly pointless while the cache is full or nothing is queued
		for _, x := range idles {
			if w.pendingTasks(x.k) > 0 && !w.throttled(x.k) {
				wt[3] = 48
				break
			}
		}
	}
	if w.nextSched < len(w.chain) {
		wt[5] = 16
	}
	wt[7] = w.cf.revokeW
	if anyLive {
		wt[8] = w.cf.cancelW
	}
	if anyFaultyFree {
		wt[9] = w.cf.unsolW
	}
	if w.restarts < 2 && w.nextExpected > 0 {
		wt[10] = w.cf.restartW
	}
	if anyGone {
		wt[11] = 4
	}
	switch c.Weighted("actor", wt) {
	case 0:
		w.round()
	case 1:
		d := quantum
		switch c.Weighted("tick", []int{8, 4, 2, 1, 1}) {
		case 1:
			for _, ev := range w.events {
				if ev.due > w.now {
					d = ev.due - w.now
					break
				}
			}
		case 2:
			d = time.Second
		case 3:
			d = w.cf.ttl / 2
		case 4:
			d = w.cf.ttl + time.Second
			if anyLive {
				r.Fault("clock-jump")
			}
		}
		w.sleep(d)
		r.Steps++
		w.logf("clock: +%v", d)
		r.FP("tick", fmt.Sprint(d >= w.cf.ttl))
	case 2:
		i := c.Intn("which-packet", due)
		if i > 0 {
			r.Nontrivial()
		}
		// events are sorted by due time; the i-th due one
		w.deliver(w.takeEvent(i))
	case 3:
		x := idles[c.Intn("which-idle", len(idles))]
		w.assign(x.p, x.k)
	case 4:
		w.expire()
	case 5:
		w.schedule()
	case 6:
		w.consume()
	case 7:
		w.revoke()
	case 8:
		w.cancelSome()
	case 9:
		w.unsolicited()
	case 10:
		w.restart("cancelled")
	case 11:
		w.rejoin()
	}
}

func (w *world) run() {
	r := w.r
	for _, name := range []string{"request expired while in flight", "delivery after expiry", "delivery after revoke",
		"partial then completed by other peer", "throttled"} {
		r.Count("probe."+name, 0)
	}
	for step := 0; step < w.cf.faultSteps && !w.done(); step++ {
		w.faultStep()
	}
	if w.done() {
		r.Probe("range completed during the fault phase")
		w.logf("done during the fault phase at %v", w.now)
		return
	}
	// Quiet phase: no new faults. Everybody who is still connected answers completely and
	// promptly, the importer keeps importing. Answers planned during the fault phase still
	// arrive; the bound restarts while such residual faults flow.
	w.quiet = true
	w.logf("--- fault phase over at %v: %d of %d handed over, %d packets still travelling ---", w.now, w.nextExpected, len(w.chain), len(w.events))
	r.FP("quiet")
	bound := 64 + 6*len(w.chain) + 20*len(w.peers) + 4*int(w.cf.ttl/quantum)
	budget := bound
	rounds := 0
	for !w.done() {
		if budget == 0 {
			w.fail("liveness-stuck", "range not completed %d fault-free rounds (%v simulated) after the last fault although %s answers every request honestly and the importer keeps importing: %d of %d handed over; first missing: %s",
				bound, time.Duration(bound)*quantum, w.peers[0].id, w.nextExpected, len(w.chain), w.where(w.nextExpected))
		}
		budget--
		rounds++
		w.residualDelivered = false
		w.round()
		if w.residualDelivered {
			budget = bound
		}
	}
	r.Count("quiet-rounds", int64(rounds))
	w.logf("done at %v after %d quiet rounds", w.now, rounds)
}

// ---------------------------------------------------------------- trace

// logf writes one trace line. Lines of a production-shaped round are buffered; a round whose
// lines equal those of the previous round (waiting for a timeout, say) is only counted.
func (w *world) logf(format string, a ...interface{}) {
	s := fmt.Sprintf(format, a...)
	if w.inRound {
		w.roundBuf = append(w.roundBuf, s)
		return
	}
	w.flushRounds()
	w.r.Logf("%s", s)
}

func (w *world) flushRounds() {
	if w.repeats > 0 {
		w.r.Logf("  (the previous round repeated %d more times, +%v)", w.repeats, time.Duration(w.repeats)*quantum)
		w.repeats = 0
	}
	w.prevRound = nil
}

func (w *world) beginRound() { w.inRound, w.roundBuf = true, w.roundBuf[:0] }

func (w *world) endRound() {
	if !w.inRound {
		return
	}
	w.inRound = false
	same := w.prevRound != nil && len(w.prevRound) == len(w.roundBuf)
	if same {
		for i := range w.roundBuf {
			if w.roundBuf[i] != w.prevRound[i] {
				same = false
				break
			}
		}
	}
	if same {
		w.repeats++
		return
	}
	w.flushRounds()
	for _, s := range w.roundBuf {
		w.r.Logf("%s", s)
	}
	w.prevRound = append([]string(nil), w.roundBuf...)
}

func (w *world) fail(class, format string, a ...interface{}) {
	w.endRound()
	w.flushRounds()
	w.r.Fail(class, format, a...)
}

func (w *world) report(class, format string, a ...interface{}) {
	if w.inRound { // keep the order of events: what the round logged so far comes first
		w.inRound = false
		w.flushRounds()
		for _, s := range w.roundBuf {
			w.r.Logf("%s", s)
		}
		w.roundBuf = w.roundBuf[:0]
		w.inRound = true
		w.prevRound = nil
	}
	w.flushRounds()
	w.r.Report(class, format, a...)
}

// ---------------------------------------------------------------- small helpers

func short(h common.Hash) string { return fmt.Sprintf("%x", h[:4]) }

func spanText(bs []*blk) string {
	if len(bs) == 0 {
		return "[]"
	}
	contig := true
	for i := 1; i < len(bs); i++ {
		if bs[i].num != bs[i-1].num+1 {
			contig = false
		}
	}
	if contig {
		return fmt.Sprintf("[#%d..#%d]", bs[0].num, bs[len(bs)-1].num)
	}
	var parts []string
	for i, b := range bs {
		if i == 8 {
			parts = append(parts, fmt.Sprintf("… %d in all", len(bs)))
			break
		}
		parts = append(parts, fmt.Sprintf("#%d", b.num))
	}
	return "[" + strings.Join(parts, " ") + "]"
}

func sizeClass(n int) string {
	switch {
	case n == 0:
		return "0"
	case n == 1:
		return "1"
	case n <= 8:
		return "few"
	default:
		return "many"
	}
}

func cutClass(ins, n int) string {
	switch {
	case ins == n:
		return "all"
	case ins == 0:
		return "none"
	default:
		return "cut"
	}
}

func accClass(accepted int, live *reqSt) string {
	switch {
	case live == nil:
		return "noreq"
	case accepted == 0:
		return "none"
	case accepted == len(live.blocks):
		return "all"
	default:
		return "some"
	}
}
