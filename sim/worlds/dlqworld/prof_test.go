package dlqworld

import (
	"os"
	"runtime/pprof"
	"testing"

	"verifsim/kit"
)

func TestProf(t *testing.T) {
	kit.T = t
	ck := kit.LookupPart("C18", "dlq")
	f, _ := os.Create("/tmp/dlqworld-bench/cpu.prof")
	pprof.StartCPUProfile(f)
	for i := uint64(0); i < 300; i++ {
		r, herr := kit.OneRun(ck, "quick", 1, i, false)
		_, _ = r, herr
	}
	pprof.StopCPUProfile()
	f.Close()
}
