package networld

import (
	"verifsim/kit"

	"github.com/youchainhq/go-youchain/rlp"
)

// Structure-aware corruption: parse the frame as an RLP tree, re-serialise it with exactly
// one non-canonical deviation at a seeded item and with all enclosing lengths fixed up, so
// that the result is a well-formed but non-canonical encoding of (nearly) the same value —
// the inputs a canonical decoder must reject. The consensus Message carries its payload as
// a byte string that is itself RLP; the deviation can be placed inside it too.

type rnode struct {
	list bool
	str  []byte
	kids []*rnode
	// embedded: str is itself a complete RLP item (the Message payload); kids[0] is its tree
	embedded bool
}

func parseRLP(b []byte, depth int) (*rnode, []byte, bool) {
	kind, content, rest, err := rlp.Split(b)
	if err != nil {
		return nil, nil, false
	}
	n := &rnode{}
	if kind == rlp.List {
		n.list = true
		for len(content) > 0 {
			k, r, ok := parseRLP(content, depth+1)
			if !ok {
				return nil, nil, false
			}
			n.kids = append(n.kids, k)
			content = r
		}
		return n, rest, true
	}
	n.str = content
	// a long string that parses as exactly one RLP list is treated as an embedded payload
	if depth <= 1 && len(content) > 8 && content[0] >= 0xc0 {
		if k, r, ok := parseRLP(content, depth+1); ok && len(r) == 0 {
			n.embedded = true
			n.kids = []*rnode{k}
		}
	}
	return n, rest, true
}

func (n *rnode) count() int {
	c := 1
	for _, k := range n.kids {
		c += k.count()
	}
	return c
}

func lenPrefix(base byte, l int, forceLong bool) []byte {
	if l <= 55 && !forceLong {
		return []byte{base + byte(l)}
	}
	var lb []byte
	for x := l; x > 0; x >>= 8 {
		lb = append([]byte{byte(x)}, lb...)
	}
	if len(lb) == 0 {
		lb = []byte{0}
	}
	return append([]byte{base + 55 + byte(len(lb))}, lb...)
}

// encode serialises the tree canonically except at the item whose pre-order number is *target
// (counted down to zero), where deviation dev is applied. It reports whether it was applied.
func (n *rnode) encode(target *int, dev int, applied *string) []byte {
	if dev == 5 {
		out, _ := n.encodeSizeAttack(target, applied)
		return out
	}
	here := *target == 0
	*target--
	if n.list || n.embedded {
		var body []byte
		kids := n.kids
		if here && n.list {
			// shape deviations: canonical RLP of a list of the wrong arity or kind
			switch {
			case dev == 9 && len(kids) > 0:
				*applied = "list-element-dropped"
				kids = kids[:len(kids)-1]
			case dev == 10 && len(kids) > 0:
				*applied = "list-element-repeated"
				kids = append(append([]*rnode(nil), kids...), kids[len(kids)-1])
			}
		}
		for _, k := range kids {
			body = append(body, k.encode(target, dev, applied)...)
		}
		if here && n.list && dev == 14 {
			// a list whose announced size is honest but enormous for what it holds: ONE string of
			// just under 1 MiB. A decoder that sizes a buffer from the announced BYTE size of the
			// list (times the element size) allocates far beyond the input before it looks at the
			// first element; a decoder that allocates per element present does not. (A first version
			// held a million empty strings: decoding those into [][]byte legitimately costs 24 bytes
			// per 1-byte element, which tripped the coarse 64 MiB bound on the unchanged tree.)
			*applied = "list-bloated"
			str := make([]byte, 1_040_000)
			body = append(lenPrefix(0x80, len(str), false), str...)
			return append(lenPrefix(0xc0, len(body), false), body...)
		}
		if here && n.list && dev == 11 {
			*applied = "list-as-string"
			return append(lenPrefix(0x80, len(body), false), body...)
		}
		if n.embedded {
			// body is the payload; wrap it as a byte string
			forceLong := here && dev == 2 && len(body) <= 55
			if forceLong {
				*applied = "string-long-form"
			}
			return append(lenPrefix(0x80, len(body), forceLong), body...)
		}
		forceLong := here && dev == 1 && len(body) <= 55
		if forceLong {
			*applied = "list-long-form"
		}
		return append(lenPrefix(0xc0, len(body), forceLong), body...)
	}
	s := n.str
	if here {
		switch {
		case dev == 0 && len(s) == 1 && s[0] < 0x80:
			*applied = "single-byte-as-string"
			return []byte{0x81, s[0]}
		case dev == 2 && len(s) <= 55 && !(len(s) == 1 && s[0] < 0x80):
			*applied = "string-long-form"
			return append(lenPrefix(0x80, len(s), true), s...)
		case dev == 3 && len(s) >= 1 && len(s) <= 8:
			*applied = "integer-leading-zero"
			z := append([]byte{0}, s...)
			return append(lenPrefix(0x80, len(z), false), z...)
		case dev == 11 && len(s) == 0:
			// the empty string written as the empty list (both read as "nothing" by lenient decoders)
			*applied = "empty-string-as-empty-list"
			return []byte{0xc0}
		case dev == 13 && len(s) == 0:
			// the integer zero written as the byte 0x00 instead of the empty string 0x80
			*applied = "zero-as-byte-00"
			return []byte{0x00}
		case dev == 4 && len(s) < 256:
			*applied = "length-with-leading-zero"
			l := len(s)
			return append([]byte{0xb9, 0x00, byte(l)}, s...)
		// shape deviations: canonical RLP of a string of the wrong length or kind (a field the
		// receiving code may index, slice or convert without looking at its length)
		case dev == 6 && len(s) > 0:
			*applied = "string-emptied"
			s = nil
		case dev == 7 && len(s) > 1:
			*applied = "string-cut-by-one"
			s = s[:len(s)-1]
		case dev == 8 && len(s) > 3:
			*applied = "string-halved"
			s = s[:len(s)/2]
		case dev == 12 && len(s) > 0:
			*applied = "string-extended"
			s = append(append([]byte(nil), s...), 0x01)
		case dev == 11 && len(s) > 0:
			*applied = "string-as-list"
			var body []byte
			for _, b := range s[:min(len(s), 4)] {
				if b < 0x80 {
					body = append(body, b)
				} else {
					body = append(body, 0x81, b)
				}
			}
			return append(lenPrefix(0xc0, len(body), false), body...)
		}
	}
	if len(s) == 1 && s[0] < 0x80 {
		return []byte{s[0]}
	}
	return append(lenPrefix(0x80, len(s), false), s...)
}

// hugeHeader returns an 8-byte-length header (list or string) announcing 2^(63-depth)-16 bytes:
// strictly decreasing with depth so that every inner lie still fits into the enclosing lie.
func hugeHeader(list bool, depth int) []byte {
	v := (uint64(1) << uint(63-depth)) - 16
	if depth == 0 {
		v = ^uint64(0) - 16
	}
	h := []byte{0xbf, 0, 0, 0, 0, 0, 0, 0, 0}
	if list {
		h[0] = 0xff
	}
	for i := 0; i < 8; i++ {
		h[1+i] = byte(v >> uint(56-8*i))
	}
	return h
}

// encodeSizeAttack serialises the tree with a size-field attack: the target string item
// announces an enormous length and so does every list that encloses it (inside an embedded
// payload the chain starts at the payload's root), with strictly decreasing sizes, so that no
// enclosing list bound catches the lie and only the input-size limit can. It reports whether
// the target lies in this subtree.
func (n *rnode) encodeSizeAttack(target *int, applied *string) ([]byte, bool) {
	return n.sizeAttack(target, applied, 0)
}

func (n *rnode) sizeAttack(target *int, applied *string, depth int) ([]byte, bool) {
	here := *target == 0
	*target--
	if n.list || n.embedded {
		var body []byte
		inside := false
		kd := depth + 1
		if n.embedded {
			kd = 0 // the payload is decoded on its own: its root is depth 0
		}
		for _, k := range n.kids {
			b, in := k.sizeAttack(target, applied, kd)
			body = append(body, b...)
			inside = inside || in
		}
		if n.embedded {
			// the attack stays inside the payload: the wrapping byte string is honest
			return append(lenPrefix(0x80, len(body), false), body...), false
		}
		if inside {
			return append(hugeHeader(true, depth), body...), true
		}
		return append(lenPrefix(0xc0, len(body), false), body...), false
	}
	s := n.str
	if here && len(s) >= 1 && depth >= 1 {
		*applied = "size-attack-chain"
		return append(hugeHeader(false, depth), s...), true
	}
	if len(s) == 1 && s[0] < 0x80 {
		return []byte{s[0]}, false
	}
	return append(lenPrefix(0x80, len(s), false), s...), false
}

// MutateStructured returns a non-canonical re-encoding of the frame, or ok=false if the frame
// does not parse or the drawn deviation does not apply at the drawn item.
func MutateStructured(c *kit.Chooser, data []byte) (out []byte, how string, ok bool) {
	root, rest, pok := parseRLP(data, 0)
	if !pok || len(rest) != 0 {
		return nil, "", false
	}
	n := root.count()
	for attempt := 0; attempt < 6; attempt++ {
		t := c.Intn("item", n)
		dev := c.Intn("deviation", 15)
		applied := ""
		out := root.encode(&t, dev, &applied)
		if applied != "" {
			return out, applied, true
		}
	}
	return nil, "", false
}
