package networld

import (
	"bytes"
	"fmt"
	"math/big"
	"runtime"
	"time"

	"verifsim/kit"

	"github.com/youchainhq/go-youchain/consensus/ucon"
	"github.com/youchainhq/go-youchain/core/types"
	"github.com/youchainhq/go-youchain/rlp"
)

func init() {
	kit.Register(&kit.Check{
		Prop: "C14", Name: "net-seams", World: "NET", Level: "exploration", Share: 1,
		Rule: "seam monitor on the NET simulation (real engines, seeded schedules and faults): O1 every consensus frame an honest node puts on the simulated wire and every typed record " +
			"(header, body, receipts, own-vote record) it writes to the simulated disk is decoded with the node's own decoder and re-encoded — bytes must be identical; " +
			"O2 corrupted copies of real frames (bit flips, truncation, extension, outer/inner length-prefix inflation up to 2^63, non-minimal bytes, leading-zero integers, list/string confusion) " +
			"are injected as a network fault: whatever the decoders accept must re-encode to exactly the bytes received; O3 HandleMsg never panics on them and a decode never allocates far beyond the " +
			"frame size (64x + 1 MiB, measured around the call). Non-trivial = at least one corrupted frame was delivered.",
		Real:              []string{"rlp", "consensus/ucon message codec and MessageHandler.HandleMsg", "core/types header/block/receipt codecs", "core/rawdb record layout", "the whole NET world (see C02)"},
		Stub:              []string{"as the NET world (C02)"},
		FaultsNotInjected: []string{"values and types the simulated system never produces (staking messages, evidences, validator records with unusual shapes): the value space of the codec is not explored by this technique; only what honest nodes emit and mutations of it"},
		Assumptions:       []string{"this is a narrow, honest claim: a simulator cannot explore a codec's input space better than a fuzzer (DESIGN.md C14)"},
		QuickBudget:       30 * time.Second, ThoroughBudget: 10 * time.Minute,
		MinRuns:        6,
		Exec:           runC14Net,
		ExpectedProbes: []string{"corrupted-frame-decodes", "corrupted-payload-decodes-canonically"},
		PanicClass:     kit.PanicInRepo("engine-panic"),
	})
}

type codecMonitor struct {
	r        *kit.Run
	diskSeen map[int]int // per node: log entries already checked
}

// recode checks decode -> encode identity for one typed value.
func (m *codecMonitor) recode(what string, data []byte, val interface{}) {
	if err := rlp.DecodeBytes(data, val); err != nil {
		m.r.Report("emitted-undecodable:"+what, "%s produced by an honest node does not decode with its own decoder: %v (%x…)", what, err, data[:min(len(data), 24)])
		return
	}
	re, err := rlp.EncodeToBytes(val)
	if err != nil {
		m.r.Report("emitted-unencodable:"+what, "%s decoded from an honest node's bytes cannot be re-encoded: %v", what, err)
		return
	}
	if !bytes.Equal(re, data) {
		m.r.Report("non-canonical-emission:"+what, "%s emitted by an honest node re-encodes differently: got %d bytes, emitted %d bytes (first difference at %d)", what, len(re), len(data), firstDiff(re, data))
	}
	m.r.Count("o1-recoded", 1)
}

func firstDiff(a, b []byte) int {
	for i := 0; i < len(a) && i < len(b); i++ {
		if a[i] != b[i] {
			return i
		}
	}
	return min(len(a), len(b))
}

func (m *codecMonitor) FrameEmitted(s *Sim, node int, frame []byte) {
	msg := new(ucon.Message)
	m.recode("consensus-message", frame, msg)
	if msg.Payload == nil {
		return
	}
	pri, blk, _, _, _, _ := ucon.SimMsgCodes()
	switch {
	case msg.Code == pri:
		m.recode("priority-payload", msg.Payload, new(ucon.ConsensusCommon))
	case msg.Code == blk:
		m.recode("proposed-block", msg.Payload, new(types.Block))
	case ucon.MsgCodeToVoteType(msg.Code) != ucon.VoteNone:
		m.recode("vote-payload", msg.Payload, new(ucon.BlockHashWithVotes))
	}
}

func (m *codecMonitor) BlockCommitted(s *Sim, node int, block *types.Block, insertErr error) {
	if b, err := rlp.EncodeToBytes(block); err == nil {
		m.recode("committed-block", b, new(types.Block))
	}
}
func (m *codecMonitor) BlockImported(s *Sim, node int, block *types.Block, err error) {}
func (m *codecMonitor) Captured(s *Sim, node int, evs []interface{})                  {}
func (m *codecMonitor) Restarted(s *Sim, node int)                                    { m.diskSeen[node] = 0 }

func (m *codecMonitor) FrameHandled(s *Sim, node int, frame []byte, corrupted bool, err error, panicked interface{}) {
	if panicked != nil {
		m.r.Report("handler-panic", "HandleMsg panicked on a %s frame of %d bytes: %v", map[bool]string{true: "corrupted", false: "genuine"}[corrupted], len(frame), panicked)
		return
	}
	if !corrupted {
		return
	}
	m.r.Count("o2-corrupted-handled", 1)
	// O2: whatever the decoders accept must be canonical
	var ms0, ms1 runtime.MemStats
	runtime.ReadMemStats(&ms0)
	msg, derr := ucon.Decode(frame)
	runtime.ReadMemStats(&ms1)
	if grew := int64(ms1.TotalAlloc - ms0.TotalAlloc); grew > int64(64*len(frame)+1<<20) {
		m.r.Report("decode-allocation", "decoding a %d-byte frame allocated %d bytes", len(frame), grew)
	}
	if derr != nil {
		m.r.Count("o2-rejected-by-decoder", 1)
		if err == nil {
			m.r.Report("undecodable-frame-not-rejected", "HandleMsg returned nil for a frame its decoder rejects (%v)", derr)
		}
		return
	}
	re, _ := msg.Encode()
	if !bytes.Equal(re, frame) {
		m.r.Report("non-canonical-accepted:consensus-message", "a corrupted frame (%d bytes) was accepted by the message decoder but re-encodes to different bytes (%d bytes, first difference at %d)", len(frame), len(re), firstDiff(re, frame))
		return
	}
	m.r.Probe("corrupted-frame-decodes")
	pri, blk, _, _, _, _ := ucon.SimMsgCodes()
	var val interface{}
	what := ""
	switch {
	case msg.Code == pri:
		val, what = new(ucon.ConsensusCommon), "priority-payload"
	case msg.Code == blk:
		val, what = new(types.Block), "proposed-block"
	case ucon.MsgCodeToVoteType(msg.Code) != ucon.VoteNone:
		val, what = new(ucon.BlockHashWithVotes), "vote-payload"
	default:
		return
	}
	runtime.ReadMemStats(&ms0)
	perr := rlp.DecodeBytes(msg.Payload, val)
	runtime.ReadMemStats(&ms1)
	if grew := int64(ms1.TotalAlloc - ms0.TotalAlloc); grew > int64(64*len(frame)+1<<20) {
		m.r.Report("decode-allocation", "decoding a %d-byte %s allocated %d bytes", len(msg.Payload), what, grew)
	}
	if perr != nil {
		return
	}
	rp, eerr := rlp.EncodeToBytes(val)
	if eerr != nil || !bytes.Equal(rp, msg.Payload) {
		m.r.Report("non-canonical-accepted:"+what, "a corrupted %s (%d bytes) decodes but re-encodes differently (err=%v, %d bytes, first difference at %d)", what, len(msg.Payload), eerr, len(rp), firstDiff(rp, msg.Payload))
		return
	}
	m.r.Probe("corrupted-payload-decodes-canonically")
}

// Step checks the typed records written to each node's disk since the last look.
func (m *codecMonitor) Step(s *Sim) {
	for i := 0; i < s.NumNodes(); i++ {
		if !s.Running(i) {
			continue
		}
		d := s.Node(i).Disk
		n := d.LogLen()
		for e := m.diskSeen[i]; e < n; e++ {
			d.EntryOps(e, func(key string, val []byte, del bool) {
				if del || len(val) == 0 {
					return
				}
				switch {
				case len(key) == 41 && key[0] == 'h': // header: 'h' + num(8) + hash(32)
					m.recode("disk-header", val, new(types.Header))
				case len(key) == 41 && key[0] == 'b':
					m.recode("disk-body", val, new(types.Body))
				case len(key) == 41 && key[0] == 'r':
					var rs []*types.ReceiptForStorage
					m.recode("disk-receipts", val, &rs)
				case len(key) == 23 && key[0] == 'v': // own vote record: 'v' + addr(20) + type + index
					m.recode("disk-vote-record", val, new(ucon.VoteItem))
				}
			})
		}
		m.diskSeen[i] = n
	}
}

func runC14Net(r *kit.Run) {
	cfg := drawConfig(r.C, false)
	cfg.Corrupt = 30 + r.C.Intn("corrupt", 150)
	cfg.TargetHeight = uint64(2 + r.C.Intn("height", 2))
	r.Logf("config %+v", cfg)
	Run(r, cfg, &codecMonitor{r: r, diskSeen: map[int]int{}})
	_ = fmt.Sprint
	_ = big.NewInt
}
