// Package networld is the NET world: several real ucon.Server engines, each with a real
// core.BlockChain on its own simulated disk, inside one testing/synctest bubble. The
// simulator owns every schedule decision: which pending mux delivery, network frame, block
// delivery or due timer goes next; message delay, loss, duplication, partitions; crash (at a
// quiescent point or at the k-th disk write of a stimulus) and restart on the durable image.
// One stimulus is injected at a time, followed by quiescence, so that one seed is one
// execution.
package networld

import (
	"bytes"
	crand "crypto/rand"
	"crypto/sha256"
	"encoding/hex"
	"fmt"
	"io"
	"math/big"
	"reflect"
	"runtime/debug"
	"sort"
	"strings"
	"sync"
	"time"

	"verifsim/kit"
	"verifsim/simdisk"
	"verifsim/worlds/chainkit"

	"github.com/youchainhq/go-youchain/common"
	"github.com/youchainhq/go-youchain/consensus/ucon"
	"github.com/youchainhq/go-youchain/core"
	"github.com/youchainhq/go-youchain/core/types"
	"github.com/youchainhq/go-youchain/crypto"
	"github.com/youchainhq/go-youchain/event"
	"github.com/youchainhq/go-youchain/local"
	"github.com/youchainhq/go-youchain/logging"
	"github.com/youchainhq/go-youchain/params"
	"github.com/youchainhq/go-youchain/staking"
)

func init() {
	logging.Root().SetHandler(logging.DiscardHandler())
}

// Config is the per-run configuration (drawn from the chooser by the property's Exec).
type Config struct {
	NVals        int
	Stakes       []uint64
	TargetHeight uint64
	MaxSteps     int
	MaxSimTime   time.Duration
	// fault knobs (probabilities are x/1000 per opportunity; 0 disables)
	Reorder          int // chance to pick a non-oldest ready entry
	DropFrame        int
	DupFrame         int
	MaxDelayMs       int
	Partition        int // chance per step (while no partition is active) to start one
	Crash            int // chance per step to crash a running node at a quiescent point
	CrashAtVoteWrite int // chance (per mille) per stimulus to arm a crash at that stimulus's first vote-record write
	CrashAtK         int // chance per stimulus to arm a crash at the k-th disk write of that stimulus
	MaxCrashes       int
	TimerLate        int           // chance to hold back a node's due timers for a while
	FaultUntil       time.Duration // faults stop after this simulated time (quiet phase follows)
	WithStaking      bool          // register the staking module on every chain (needed by C05)
	Corrupt          int           // chance per sent frame to ALSO send a corrupted copy (the original still travels)
}

type nodeState struct {
	id      int
	key     *chainkit.ValKey
	n       *chainkit.Node
	running bool
	// outbox: events captured from the node's mux since the last drain, in arrival order
	// (goroutines spawned by the code under test post concurrently: guarded by obMu)
	obMu   sync.Mutex
	outbox []interface{}
	// escaping: see Sim.escape
	escaping bool
	seen     map[common.Hash]bool // consensus frames already handled (what ProtocolManager keeps)
	// timersHeldUntil: the node's due timers are not looked at before this time (stalled node)
	timersHeldUntil time.Time
	downUntil       time.Time
	incarnation     int
	stk             *staking.Staking
}

type entryKind int

const (
	eMux      entryKind = iota // deliver ev to one real subscriber of node's mux
	eSimNet                    // the simulator's own "ProtocolManager": gossip a MessageEvent
	eSimMiner                  // the simulator's own "miner": build and seal a block on ChainHeadEvent
	eFrame                     // a consensus frame arrives at node
	eBlock                     // a block arrives at node
)

type entry struct {
	seq       uint64
	kind      entryKind
	node      int
	inc       int // node incarnation the entry belongs to (entries of dead incarnations are dropped)
	at        time.Time
	sub       *event.TypeMuxSubscription
	subIdx    int
	ev        interface{}
	data      []byte
	block     *types.Block
	from      int
	desc      string
	corrupted bool
}

// Sim is one simulated network.
type Sim struct {
	r       *kit.Run
	cfg     Config
	genesis *core.Genesis
	nodes   []*nodeState
	pending []*entry
	seq     uint64
	start   time.Time
	// partition: group id per node; links between different groups are down
	group       []int
	partUntil   time.Time
	crashes     int
	critMsgs    []string
	curNode     int // node on whose behalf the current stimulus runs (for logging.Crit)
	Mon         Monitor
	stepsNoProg int
	crashReq    []int // nodes an oracle asked to crash at the next quiescent point (fault placement bias)
}

// RequestCrash asks for node i to be crashed at the next quiescent point (used to place
// crashes right after interesting events, e.g. a vote at a higher round index).
func (s *Sim) RequestCrash(i int) { s.crashReq = append(s.crashReq, i) }

// Monitor receives what the oracles need; all callbacks run on the simulator goroutine at
// quiescent points.
type Monitor interface {
	// FrameEmitted: node (validator key) put a consensus frame on the wire (origin only, not relays).
	FrameEmitted(s *Sim, node int, frame []byte)
	// BlockCommitted: node's engine handed a sealed block to its inserter.
	BlockCommitted(s *Sim, node int, block *types.Block, insertErr error)
	// BlockImported: node imported a block received from the network.
	BlockImported(s *Sim, node int, block *types.Block, err error)
	// FrameHandled: a frame (possibly corrupted) was given to node's HandleMsg.
	FrameHandled(s *Sim, node int, frame []byte, corrupted bool, err error, panicked interface{})
	// Restarted: node came back on its durable image.
	Restarted(s *Sim, node int)
	// Step: after every simulator step.
	Step(s *Sim)
	// Captured: the batch of events a node posted on its mux during the last stimulus (before
	// they are scheduled for delivery). Events posted in one stimulus have no order.
	Captured(s *Sim, node int, evs []interface{})
}

// Now is the simulated time.
func (s *Sim) Now() time.Time { return time.Now() }

// Elapsed is the simulated time since the start of the run.
func (s *Sim) Elapsed() time.Duration { return time.Since(s.start) }

// Node gives access to a node (for oracles).
func (s *Sim) Node(i int) *chainkit.Node { return s.nodes[i].n }

// Key returns node i's validator key.
func (s *Sim) Key(i int) *chainkit.ValKey { return s.nodes[i].key }

// NumNodes is the number of nodes.
func (s *Sim) NumNodes() int { return len(s.nodes) }

// Running reports whether node i is up.
func (s *Sim) Running(i int) bool { return s.nodes[i].running }

// Run builds the network and runs the simulation inside a bubble.
func Run(r *kit.Run, cfg Config, mon Monitor) {
	// every source of randomness the code under test uses must come from the seed: the VRF
	// proof nonce is drawn from crypto/rand.Reader (secp256k1VRF.Evaluate).
	oldRand := crand.Reader
	crand.Reader = kit.NewStream(r.Seed, r.Index)
	oldTimers := ucon.SimTimers
	ucon.SimTimers = true
	defer func() {
		crand.Reader = oldRand
		ucon.SimTimers = oldTimers
		logging.SimCrit = nil
	}()
	var s *Sim
	err := kit.Bubble(func() {
		s = &Sim{r: r, cfg: cfg, Mon: mon}
		s.run()
	})
	if err != nil {
		// leftover blocked goroutines at the end of the bubble are a harness problem
		panic(fmt.Sprintf("networld: %v", err))
	}
}

func (s *Sim) run() {
	r, cfg := s.r, s.cfg
	committed = nil
	s.start = time.Now()
	keys := chainkit.Keys()
	var gvals []chainkit.GenVal
	for i := 0; i < cfg.NVals; i++ {
		role := params.RoleSenator
		if i == 0 {
			role = params.RoleChancellor
		}
		gvals = append(gvals, chainkit.GenVal{Key: keys[i], Stake: cfg.Stakes[i], Role: role, Status: params.ValidatorOnline})
	}
	s.genesis = chainkit.MakeGenesis(gvals, params.YouV5)
	logging.SimCrit = s.onCrit
	s.group = make([]int, cfg.NVals)
	for i := 0; i < cfg.NVals; i++ {
		ns := &nodeState{id: i, key: keys[i], seen: map[common.Hash]bool{}}
		s.nodes = append(s.nodes, ns)
		if err := s.boot(ns, simdisk.New()); err != nil {
			panic("networld: boot: " + err.Error())
		}
	}
	kit.Wait()
	// the first work package, as memMiner.Start does after all engines started
	for _, ns := range s.nodes {
		s.enqueue(&entry{kind: eSimMiner, node: ns.id, inc: ns.incarnation, at: time.Now(), desc: "miner:initial-work"})
	}
	defer s.shutdown()

	for step := 0; step < cfg.MaxSteps; step++ {
		if s.Elapsed() > cfg.MaxSimTime {
			break
		}
		if s.minHeight() >= cfg.TargetHeight {
			r.Probe("target-height-reached")
			break
		}
		r.Steps++
		s.drainOutboxes()
		s.maybeFaults()
		if !s.stepOnce() {
			// nothing ready: advance simulated time to the next scheduled entry or one quantum
			s.advanceTime()
		}
		if s.Mon != nil {
			s.Mon.Step(s)
		}
		if len(r.Violations) > 0 && r.HasClass("stop") {
			break
		}
	}
	r.SimTime = s.Elapsed()
	r.Count("final-min-height", int64(s.minHeight()))
}

func (s *Sim) minHeight() uint64 {
	min := uint64(1 << 62)
	for _, ns := range s.nodes {
		if !ns.running {
			continue
		}
		if h := ns.n.Chain.CurrentBlock().NumberU64(); h < min {
			min = h
		}
	}
	if min == 1<<62 {
		return 0
	}
	return min
}

// boot starts a node on the given disk through the real constructors.
func (s *Sim) boot(ns *nodeState, disk *simdisk.Disk) error {
	n, err := chainkit.NewNode(disk, s.genesis, ns.key)
	if err != nil {
		return err
	}
	ns.n = n
	ns.incarnation++
	ns.outbox = nil
	ns.running = true
	id, inc := ns.id, ns.incarnation
	n.Mux.SimAttach(func(ev interface{}) {
		// events emitted after the disk froze never happened: the process was dead
		if (disk.Frozen() && !ns.escaping) || ns.incarnation != inc {
			return
		}
		_ = id
		ns.obMu.Lock()
		ns.outbox = append(ns.outbox, ev)
		ns.obMu.Unlock()
	})
	if s.cfg.WithStaking {
		ns.stk = staking.NewStaking(n.Mux)
		ns.stk.Register(n.Chain.Processor())
		if err := ns.stk.Start(n.Chain, n.Engine); err != nil {
			return fmt.Errorf("staking start: %v", err)
		}
		// staking subscribes from a goroutine; let it finish so that subscriber order is fixed
		kit.Wait()
	}
	s.curNode = ns.id
	if err := n.Engine.StartMining(n.Chain, &inserter{s: s, ns: ns, inc: inc}, n.Mux); err != nil {
		return fmt.Errorf("StartMining: %v", err)
	}
	return nil
}

// inserter is the consensus.MineInserter of a node: what you.ProtocolManager does with a
// block its own engine committed — insert, then announce.
type inserter struct {
	s   *Sim
	ns  *nodeState
	inc int
}

func (in *inserter) Insert(block *types.Block) error {
	s, ns := in.s, in.ns
	if ns.incarnation != in.inc || ns.n.Disk.Frozen() {
		return fmt.Errorf("node is down")
	}
	err := ns.n.Chain.InsertChain(types.Blocks{block})
	s.r.Logf("n%d COMMIT block %d %s ri=%d -> err=%v", ns.id, block.NumberU64(), shortHash(block.Hash()), roundIndexOf(block), err)
	committed = append(committed, commitRec{node: ns.id, block: block, err: err})
	return err
}

// commitRec buffers commits made during a stimulus; they are processed at quiescence.
type commitRec struct {
	node  int
	block *types.Block
	err   error
}

var committed []commitRec

func roundIndexOf(b *types.Block) uint32 {
	cd, err := ucon.GetConsensusDataFromHeader(b.Header())
	if err != nil {
		return 0
	}
	return cd.RoundIndex
}

func shortHash(h common.Hash) string { return hex.EncodeToString(h[:4]) }

func (s *Sim) onCrit(msg string, ctx []interface{}) {
	// logging.Crit = process exit: the node is dead from here on.
	ns := s.nodes[s.curNode]
	s.critMsgs = append(s.critMsgs, fmt.Sprintf("n%d: %s %v", ns.id, msg, ctx))
	ns.n.Disk.Freeze()
	s.r.Logf("n%d CRIT %s", ns.id, msg)
	s.r.Probe("logging.Crit")
	// end the calling goroutine (the stimulus helper or an event loop of the dead node)
	panic(critExit{})
}

type critExit struct{}

func (s *Sim) enqueue(e *entry) {
	s.seq++
	e.seq = s.seq
	s.pending = append(s.pending, e)
}

// eventKey gives a canonical, content-derived key for an event so that the order in which
// goroutines spawned by the code under test (`go mux.Post(..)`) reached the outbox cannot
// influence the schedule.
func eventKey(ev interface{}) string {
	t := reflect.TypeOf(ev).String()
	h := sha256.New()
	switch e := ev.(type) {
	case ucon.MessageEvent:
		h.Write(e.Payload)
	case ucon.SendMessageEvent:
		h.Write([]byte{byte(e.Code)})
		h.Write(e.Payload)
	case ucon.TransferMessageEvent:
		h.Write([]byte{byte(e.Code)})
		h.Write(e.Payload)
	case ucon.ContextChangeEvent:
		fmt.Fprintf(h, "%v/%d/%d/%v", e.Round, e.RoundIndex, e.Step, e.Certificate)
	case ucon.CommitEvent:
		fmt.Fprintf(h, "%v/%d/%x", e.Round, e.RoundIndex, e.Block.Hash())
	case ucon.RoundIndexChangeEvent:
		fmt.Fprintf(h, "%v/%d/%x/%x", e.Round, e.RoundIndex, e.BlockHash, e.Priority)
	case ucon.UpdateExistedHeaderEvent:
		fmt.Fprintf(h, "%v/%d/%x/%d/%d", e.Round, e.RoundIndex, e.BlockHash, len(e.ChamberPrecommits), len(e.HousePrecommits))
	case ucon.BlockProposalEvent:
		fmt.Fprintf(h, "%x", e.Block.Hash())
	case core.ChainHeadEvent:
		if e.Block != nil {
			fmt.Fprintf(h, "%x", e.Block.Hash())
		}
	case core.InsertBlockEvent:
		if e.Block != nil {
			fmt.Fprintf(h, "%x", e.Block.Hash())
		}
	case ucon.VoteMsgEvent:
		if e.Msg != nil && e.Msg.VotesData != nil {
			fmt.Fprintf(h, "%d/%x/%v/%d/%x", e.VType, e.Msg.VotesData.BlockHash, e.Msg.VotesData.Round, e.Msg.VotesData.RoundIndex, e.Msg.SimAddr())
		}
	case staking.Evidence:
		fmt.Fprintf(h, "%d/%x", e.Type, e.Data)
	default:
		// unknown types keep arrival order among themselves
	}
	return t + ":" + hex.EncodeToString(h.Sum(nil)[:8])
}

func describe(ev interface{}) string {
	switch e := ev.(type) {
	case ucon.MessageEvent:
		return "MessageEvent(" + e.Code + ")"
	case ucon.SendMessageEvent:
		return "SendMessageEvent(" + ucon.MessageCodeToString(e.Code) + ")"
	case ucon.TransferMessageEvent:
		return "TransferMessageEvent(" + ucon.MessageCodeToString(e.Code) + ")"
	case ucon.ContextChangeEvent:
		return fmt.Sprintf("ContextChange(%v,%d,step%d)", e.Round, e.RoundIndex, e.Step)
	case ucon.CommitEvent:
		return fmt.Sprintf("CommitEvent(%v,%d,%s)", e.Round, e.RoundIndex, shortHash(e.Block.Hash()))
	case ucon.RoundIndexChangeEvent:
		return fmt.Sprintf("RoundIndexChange(%v,%d)", e.Round, e.RoundIndex)
	case ucon.BlockProposalEvent:
		return "BlockProposal(" + shortHash(e.Block.Hash()) + ")"
	case core.ChainHeadEvent:
		if e.Block == nil {
			return "ChainHead(nil)"
		}
		return fmt.Sprintf("ChainHead(%d)", e.Block.NumberU64())
	}
	return strings.TrimPrefix(reflect.TypeOf(ev).String(), "ucon.")
}

// drainOutboxes turns captured mux events into pending deliveries, one per (subscriber, event),
// in a canonical order.
func (s *Sim) drainOutboxes() {
	// commits first (they were produced by the stimulus that just ended)
	cs := committed
	committed = nil
	for _, c := range cs {
		if s.Mon != nil {
			s.Mon.BlockCommitted(s, c.node, c.block, c.err)
		}
		if c.err == nil {
			s.gossipBlock(c.node, c.block)
		}
	}
	for _, ns := range s.nodes {
		ns.obMu.Lock()
		evs := ns.outbox
		ns.outbox = nil
		ns.obMu.Unlock()
		if !ns.running || len(evs) == 0 {
			continue
		}
		if s.Mon != nil {
			s.Mon.Captured(s, ns.id, evs)
		}
		type keyed struct {
			k  string
			ev interface{}
			i  int
		}
		ks := make([]keyed, len(evs))
		for i, ev := range evs {
			ks[i] = keyed{eventKey(ev), ev, i}
		}
		// Stable canonical order. Events of one goroutine keep their program order relative to
		// each other only when their keys tie; that is fine: the mux promises no order at all.
		sort.SliceStable(ks, func(a, b int) bool { return ks[a].k < ks[b].k })
		for _, k := range ks {
			ev := k.ev
			for si, sub := range ns.n.Mux.SimSubscribers(ev) {
				s.enqueue(&entry{kind: eMux, node: ns.id, inc: ns.incarnation, at: time.Now(), sub: sub, subIdx: si, ev: ev,
					desc: fmt.Sprintf("mux:%s->sub%d", describe(ev), si)})
			}
			switch e := ev.(type) {
			case ucon.MessageEvent:
				s.enqueue(&entry{kind: eSimNet, node: ns.id, inc: ns.incarnation, at: time.Now(), ev: e, desc: "net:gossip " + e.Code})
			case core.ChainHeadEvent:
				s.enqueue(&entry{kind: eSimMiner, node: ns.id, inc: ns.incarnation, at: time.Now(), desc: "miner:" + describe(e)})
			}
		}
	}
}

func (s *Sim) faultsOn() bool { return s.Elapsed() < s.cfg.FaultUntil }

// stepOnce executes one ready entry (or one due timer); false if nothing was ready.
func (s *Sim) stepOnce() bool {
	c := s.r.C
	now := time.Now()
	// drop entries of dead incarnations
	live := s.pending[:0]
	for _, e := range s.pending {
		ns := s.nodes[e.node]
		if e.inc != 0 && (e.inc != ns.incarnation || !ns.running) {
			continue
		}
		if (e.kind == eFrame || e.kind == eBlock) && !ns.running {
			continue // frames to a dead node are lost
		}
		live = append(live, e)
	}
	s.pending = live

	var ready []*entry
	for _, e := range s.pending {
		if !e.at.After(now) {
			ready = append(ready, e)
		}
	}
	// due timers are tried as "virtual" ready entries, one per node
	type timerCand struct{ node int }
	var timers []timerCand
	for _, ns := range s.nodes {
		if ns.running && !ns.timersHeldUntil.After(now) && ns.n.Engine.SimTimer() != nil {
			timers = append(timers, timerCand{ns.id})
		}
	}
	// First give every due timer its turn: a timer that has not fired costs nothing.
	// Which node's timers are looked at first, and whether step or timeout goes first, is a
	// choice; 0 = node order, step first.
	if len(timers) > 0 {
		order := make([]int, len(timers))
		for i := range order {
			order[i] = i
		}
		if s.faultsOn() && s.cfg.Reorder > 0 && c.Chance("timer-order", s.cfg.Reorder, 1000) {
			p := c.Perm("timer-perm", len(timers))
			order = p
			s.r.Nontrivial()
		}
		for _, oi := range order {
			ns := s.nodes[timers[oi].node]
			if s.faultsOn() && s.cfg.TimerLate > 0 && c.Chance("timer-late", s.cfg.TimerLate, 1000) {
				d := time.Duration(100+c.Intn("late-ms", 2000)) * time.Millisecond
				ns.timersHeldUntil = now.Add(d)
				s.r.Fault("timer.held-back")
				s.r.Logf("n%d timers held back for %v", ns.id, d)
				continue
			}
			if s.fireTimers(ns) {
				return true
			}
		}
	}
	if len(ready) == 0 {
		return false
	}
	// oldest first (seq order) is the boring schedule
	sort.Slice(ready, func(a, b int) bool { return ready[a].seq < ready[b].seq })
	pick := 0
	if s.faultsOn() && s.cfg.Reorder > 0 && len(ready) > 1 && c.Chance("reorder", s.cfg.Reorder, 1000) {
		pick = c.Intn("pick", len(ready))
		if pick != 0 {
			s.r.Fault("schedule.reordered")
		}
	}
	e := ready[pick]
	for i, p := range s.pending {
		if p == e {
			s.pending = append(s.pending[:i], s.pending[i+1:]...)
			break
		}
	}
	s.exec(e)
	return true
}

// fireTimers runs a node's due timer bodies (the bodies of timerLoop's cases, hook H3).
// The step timer is looked at first; a due timeout fires on the next visit.
func (s *Sim) fireTimers(ns *nodeState) bool {
	tm := ns.n.Engine.SimTimer()
	fired := ""
	s.stimulus(ns, "timer", func() {
		if tm.SimTryStep() {
			fired = "STEP"
			return
		}
		if tm.SimTryTimeout() {
			fired = "TIMEOUT"
		}
	})
	if fired != "" {
		s.r.Logf("n%d timer %s", ns.id, fired)
		if fired == "TIMEOUT" {
			s.r.Probe("round-index-timeout")
		}
		s.r.FP(fmt.Sprintf("n%d", ns.id), "timer"+fired)
	}
	return fired != ""
}

// stimulus runs f on a fresh goroutine on behalf of node ns and waits for quiescence.
func (s *Sim) stimulus(ns *nodeState, what string, f func()) {
	s.curNode = ns.id
	armed := false
	if s.faultsOn() && s.cfg.CrashAtK > 0 && s.crashes < s.cfg.MaxCrashes && ns.running && s.r.C.Chance("crash-at-k", s.cfg.CrashAtK, 1000) {
		k := 1 + s.r.C.Intn("k", 6)
		ns.n.Disk.CrashAt(ns.n.Disk.LogLen() + k)
		armed = true
	}
	if !armed && s.faultsOn() && s.cfg.CrashAtVoteWrite > 0 && s.crashes < s.cfg.MaxCrashes && ns.running && s.r.C.Chance("crash-at-vote-write", s.cfg.CrashAtVoteWrite, 1000) {
		// fault placement: the window between persisting a vote record and handing the vote to
		// the network. The crash lands on the first vote-record write of this stimulus (if any):
		// just before it (record lost) or just after it (record durable, nothing later happens).
		ns.n.Disk.CrashMatch = isVoteRecordKey
		ns.n.Disk.CrashMatchBefore = s.r.C.Chance("before-the-write", 1, 2)
		armed = true
	}
	done := make(chan interface{}, 1)
	go func() {
		defer func() {
			v := recover()
			if _, ok := v.(critExit); ok {
				v = nil
			}
			if v != nil {
				if _, ok := v.(*kit.BubblePanic); !ok {
					v = &kit.BubblePanic{Val: v, Stack: string(debug.Stack())}
				}
			}
			done <- v
		}()
		f()
	}()
	kit.Wait()
	var pv interface{}
	select {
	case pv = <-done:
	default:
		// the stimulus goroutine is blocked (e.g. delivering to a subscriber whose loop died)
		s.r.Logf("n%d stimulus %s still blocked at quiescence", ns.id, what)
		s.r.Probe("stimulus-blocked")
	}
	if pv != nil {
		panic(pv)
	}
	viaMatch := false
	if armed {
		if ns.n.Disk.CrashMatch != nil {
			viaMatch = true
			ns.n.Disk.CrashMatch = nil
			if ns.n.Disk.Frozen() {
				if ns.n.Disk.CrashMatchBefore {
					s.r.Fault("crash.before-vote-record-write")
				} else {
					s.r.Fault("crash.after-vote-record-write")
				}
			}
		}
		if ns.n.Disk.Frozen() {
			if !viaMatch {
				s.r.Fault("crash.at-kth-write")
			}
			s.r.Logf("n%d CRASH inside stimulus %s (disk frozen at write %d)", ns.id, what, ns.n.Disk.LogLen())
			if s.r.C.Chance("sends-escape", 1, 2) {
				s.escape(ns)
			}
			s.crash(ns)
		} else {
			ns.n.Disk.CrashAt(-1)
		}
	} else if ns.running && ns.n.Disk.Frozen() {
		// logging.Crit fired
		s.crash(ns)
	}
}

func (s *Sim) exec(e *entry) {
	ns := s.nodes[e.node]
	r := s.r
	switch e.kind {
	case eMux:
		r.Logf("n%d deliver %s", ns.id, e.desc)
		r.FP(fmt.Sprintf("n%d", ns.id), e.desc[:min(len(e.desc), 24)])
		s.stimulus(ns, e.desc, func() { e.sub.SimDeliver(e.ev) })
	case eSimNet:
		s.gossipFrame(ns, e.ev.(ucon.MessageEvent))
	case eSimMiner:
		r.Logf("n%d %s", ns.id, e.desc)
		s.stimulus(ns, "commitWork", func() { s.commitWork(ns) })
	case eFrame:
		s.deliverFrame(ns, e)
	case eBlock:
		s.deliverBlock(ns, e)
	}
}

// commitWork is what miner.worker / the consensus tests' memMiner do on a chain head event:
// assemble an (empty) block on the current head through the real Prepare/FinalizeAndAssemble/Seal.
func (s *Sim) commitWork(ns *nodeState) {
	chain, engine := ns.n.Chain, ns.n.Engine
	parent := chain.CurrentBlock()
	num := parent.Number()
	header := &types.Header{
		ParentHash: parent.Hash(),
		Number:     num.Add(num, common.Big1()),
		GasRewards: big.NewInt(0),
		Subsidy:    big.NewInt(0),
		Time:       uint64(time.Now().Unix()),
		Coinbase:   ns.key.Coinbase,
		GasLimit:   core.CalcGasLimit(parent),
	}
	if header.Time <= parent.Time() {
		header.Time = parent.Time() + 1
	}
	if err := core.ProcessYouVersionState(parent.Header(), header); err != nil {
		panic("networld: ProcessYouVersionState: " + err.Error())
	}
	if err := engine.Prepare(chain, header); err != nil {
		return // not a proposer in this (round, index)
	}
	stakingRoot := parent.StakingRoot()
	if s.cfg.WithStaking {
		yp, err := chain.VersionForRound(header.Number.Uint64())
		if err != nil {
			panic("networld: VersionForRound: " + err.Error())
		}
		stakingRoot = core.StakingRootForNewBlock(yp.StakingTrieFrequency, parent.Header())
	}
	statedb, err := chain.StateAt(parent.Root(), parent.ValRoot(), stakingRoot)
	if err != nil {
		panic("networld: StateAt: " + err.Error())
	}
	var receipts []*types.Receipt
	if s.cfg.WithStaking {
		// as miner.worker.commitNewWork: end-of-block hooks (rewards, slashing, period end)
		statedb.IntermediateRoot(true)
		res, _, _ := chain.Processor().EndBlock(chain, header, nil, statedb, true, local.FakeRecorder())
		for _, rc := range res {
			if rc != nil {
				receipts = append(receipts, rc)
			}
		}
	}
	block, err := engine.FinalizeAndAssemble(chain, header, statedb, nil, receipts)
	if err != nil {
		panic("networld: FinalizeAndAssemble: " + err.Error())
	}
	if _, err := engine.Seal(chain, block, make(chan struct{})); err != nil {
		panic("networld: Seal: " + err.Error())
	}
	s.r.Logf("n%d PROPOSE block %d ri=%d %s", ns.id, block.NumberU64(), roundIndexOf(block), shortHash(block.Hash()))
	s.r.Probe("block-proposed")
}

func (s *Sim) linkUp(a, b int) bool { return s.group[a] == s.group[b] }

// gossipFrame is the simulator's ProtocolManager: a MessageEvent on node's mux is sent to
// every connected peer that has not seen the frame.
func (s *Sim) gossipFrame(ns *nodeState, me ucon.MessageEvent) {
	c := s.r.C
	h := crypto.Keccak256Hash(me.Payload)
	origin := !ns.seen[h]
	ns.seen[h] = true
	if origin && s.Mon != nil {
		s.Mon.FrameEmitted(s, ns.id, me.Payload)
	}
	s.r.Logf("n%d gossip %s %s origin=%v", ns.id, me.Code, shortHash(h), origin)
	for _, peer := range s.nodes {
		if peer.id == ns.id {
			continue
		}
		if !s.linkUp(ns.id, peer.id) {
			s.r.Fault("net.partitioned-frame")
			continue
		}
		if s.faultsOn() && s.cfg.DropFrame > 0 && c.Chance("drop", s.cfg.DropFrame, 1000) {
			s.r.Fault("net.drop")
			continue
		}
		delay := time.Duration(1+c.Intn("delay-ms", s.cfg.MaxDelayMs+1)) * time.Millisecond
		s.enqueue(&entry{kind: eFrame, node: peer.id, at: time.Now().Add(delay), data: me.Payload, from: ns.id, desc: "frame " + me.Code})
		if s.cfg.Corrupt > 0 && c.Chance("corrupt", s.cfg.Corrupt, 1000) {
			bad, how := Mutate(c, me.Payload)
			s.r.Fault("net.corrupt." + how)
			s.enqueue(&entry{kind: eFrame, node: peer.id, at: time.Now().Add(delay), data: bad, from: ns.id, desc: "frame(corrupt:" + how + ") " + me.Code, corrupted: true})
		}
		if s.faultsOn() && s.cfg.DupFrame > 0 && c.Chance("dup", s.cfg.DupFrame, 1000) {
			s.r.Fault("net.duplicate")
			s.enqueue(&entry{kind: eFrame, node: peer.id, at: time.Now().Add(2 * delay), data: me.Payload, from: ns.id, desc: "frame(dup) " + me.Code})
		}
	}
}

func (s *Sim) deliverFrame(ns *nodeState, e *entry) {
	h := crypto.Keccak256Hash(e.data)
	if ns.seen[h] && !strings.Contains(e.desc, "dup") && !e.corrupted {
		return // ProtocolManager does not hand a known frame to the engine again
	}
	if !e.corrupted {
		ns.seen[h] = true
	}
	var herr error
	s.r.FP(fmt.Sprintf("n%d", ns.id), "frame")
	var pv interface{}
	s.stimulus(ns, e.desc, func() {
		defer func() {
			if v := recover(); v != nil {
				if _, ok := v.(critExit); ok {
					panic(v)
				}
				pv = v
			}
		}()
		herr = ns.n.Engine.HandleMsg(e.data, time.Now())
	})
	s.r.Logf("n%d recv %s %s from n%d -> err=%v", ns.id, e.desc, shortHash(h), e.from, herr)
	if s.Mon != nil {
		s.Mon.FrameHandled(s, ns.id, e.data, e.corrupted, herr, pv)
	}
}

func (s *Sim) gossipBlock(from int, block *types.Block) {
	c := s.r.C
	for _, peer := range s.nodes {
		if peer.id == from {
			continue
		}
		if !s.linkUp(from, peer.id) {
			s.r.Fault("net.partitioned-block")
			continue
		}
		delay := time.Duration(1+c.Intn("delay-ms", s.cfg.MaxDelayMs+1)) * time.Millisecond
		s.enqueue(&entry{kind: eBlock, node: peer.id, at: time.Now().Add(delay), block: block, from: from, desc: fmt.Sprintf("block %d %s", block.NumberU64(), shortHash(block.Hash()))})
	}
}

// deliverBlock: the fetcher/downloader stand-in. A block whose ancestors are missing makes the
// node fetch the gap from the sender (if reachable), then the block is imported through the
// real InsertChain.
func (s *Sim) deliverBlock(ns *nodeState, e *entry) {
	chain := ns.n.Chain
	if chain.HasBlock(e.block.Hash(), e.block.NumberU64()) {
		return
	}
	var blocks types.Blocks
	src := s.nodes[e.from]
	if !chain.HasBlock(e.block.ParentHash(), e.block.NumberU64()-1) {
		if !src.running || !s.linkUp(ns.id, src.id) {
			s.r.Logf("n%d cannot catch up for %s (sender unreachable)", ns.id, e.desc)
			return
		}
		// walk back on the sender's chain until a block the node has
		cur := e.block
		var gap types.Blocks
		for !chain.HasBlock(cur.ParentHash(), cur.NumberU64()-1) {
			p := src.n.Chain.GetBlock(cur.ParentHash(), cur.NumberU64()-1)
			if p == nil {
				s.r.Logf("n%d cannot catch up for %s (sender lacks ancestor)", ns.id, e.desc)
				return
			}
			gap = append(types.Blocks{p}, gap...)
			cur = p
			if len(gap) > 64 {
				return
			}
		}
		blocks = append(blocks, gap...)
		s.r.Probe("catch-up-sync")
	}
	blocks = append(blocks, e.block)
	var err error
	s.r.FP(fmt.Sprintf("n%d", ns.id), "block")
	s.stimulus(ns, e.desc, func() { err = chain.InsertChain(blocks) })
	s.r.Logf("n%d import %s (+%d ancestors) from n%d -> err=%v head=%d", ns.id, e.desc, len(blocks)-1, e.from, err, chain.CurrentBlock().NumberU64())
	if s.Mon != nil {
		s.Mon.BlockImported(s, ns.id, e.block, err)
	}
	if err == nil {
		// relay to peers that may have missed it (partition heal)
		s.gossipBlockOnce(ns.id, e.block)
	}
}

func (s *Sim) gossipBlockOnce(from int, block *types.Block) {
	// relays are only needed across partitions; keep the traffic bounded: relay to nodes
	// whose head is behind this block and that are connected.
	for _, peer := range s.nodes {
		if peer.id == from || !peer.running || !s.linkUp(from, peer.id) {
			continue
		}
		if peer.n.Chain.HasBlock(block.Hash(), block.NumberU64()) {
			continue
		}
		already := false
		for _, p := range s.pending {
			if p.kind == eBlock && p.node == peer.id && p.block.Hash() == block.Hash() {
				already = true
				break
			}
		}
		if already {
			continue
		}
		s.enqueue(&entry{kind: eBlock, node: peer.id, at: time.Now().Add(5 * time.Millisecond), block: block, from: from, desc: fmt.Sprintf("block(relay) %d %s", block.NumberU64(), shortHash(block.Hash()))})
	}
}

func (s *Sim) advanceTime() {
	now := time.Now()
	next := now.Add(20 * time.Millisecond)
	for _, e := range s.pending {
		if e.at.After(now) && e.at.Before(next) {
			next = e.at
		}
	}
	time.Sleep(next.Sub(now))
	kit.Wait()
}

// maybeFaults injects partitions, heals, crashes and restarts at quiescent points.
func (s *Sim) maybeFaults() {
	c := s.r.C
	now := time.Now()
	// restarts are due whether or not the fault phase is over
	for _, ns := range s.nodes {
		if !ns.running && !ns.downUntil.After(now) && ns.n != nil {
			s.restart(ns)
		}
	}
	if !s.partUntil.IsZero() && !s.partUntil.After(now) {
		for i := range s.group {
			s.group[i] = 0
		}
		s.partUntil = time.Time{}
		s.r.Logf("HEAL partition")
		// after a heal, nodes exchange heads (what the handshake + sync do)
		s.exchangeHeads()
	}
	reqs := s.crashReq
	s.crashReq = nil
	if !s.faultsOn() {
		return
	}
	for _, i := range reqs {
		ns := s.nodes[i]
		if ns.running && s.crashes < s.cfg.MaxCrashes {
			ns.n.Disk.Freeze()
			s.r.Fault("crash.after-vote")
			s.r.Logf("n%d CRASH right after a vote", ns.id)
			s.crash(ns)
		}
	}
	if s.cfg.Partition > 0 && s.partUntil.IsZero() && c.Chance("partition", s.cfg.Partition, 1000) {
		for i := range s.group {
			s.group[i] = c.Intn("group", 2)
		}
		d := time.Duration(200+c.Intn("part-ms", 6000)) * time.Millisecond
		s.partUntil = now.Add(d)
		s.r.Fault("net.partition")
		s.r.Logf("PARTITION %v for %v", s.group, d)
	}
	if s.cfg.Crash > 0 && s.crashes < s.cfg.MaxCrashes && c.Chance("crash", s.cfg.Crash, 1000) {
		var up []*nodeState
		for _, ns := range s.nodes {
			if ns.running {
				up = append(up, ns)
			}
		}
		if len(up) > 0 {
			ns := up[c.Intn("crash-node", len(up))]
			ns.n.Disk.Freeze()
			s.r.Fault("crash.quiescent")
			s.r.Logf("n%d CRASH at quiescent point", ns.id)
			s.crash(ns)
		}
	}
}

func (s *Sim) exchangeHeads() {
	for _, a := range s.nodes {
		if !a.running {
			continue
		}
		head := a.n.Chain.CurrentBlock()
		if head.NumberU64() == 0 {
			continue
		}
		s.gossipBlockOnce(a.id, head)
	}
}

// escape models that a process does not die in the program order of one goroutine: what the
// dying goroutine had handed to the event mux BEFORE the write that was lost may still be
// picked up by the process's other goroutines (MessageHandler.sendMsg signs and broadcasts
// it) and reach the wire before the process is gone. Only send requests emitted before the
// disk froze take part; nothing they cause is written (the disk stays frozen).
func (s *Sim) escape(ns *nodeState) {
	ns.obMu.Lock()
	evs := ns.outbox
	ns.outbox = nil
	ns.obMu.Unlock()
	var sends []interface{}
	for _, ev := range evs {
		if _, ok := ev.(ucon.SendMessageEvent); ok {
			sends = append(sends, ev)
		}
	}
	if len(sends) == 0 {
		return
	}
	sort.SliceStable(sends, func(a, b int) bool { return eventKey(sends[a]) < eventKey(sends[b]) })
	ns.escaping = true
	for _, ev := range sends {
		for _, sub := range ns.n.Mux.SimSubscribers(ev) {
			sub, ev := sub, ev
			done := make(chan struct{})
			go func() {
				defer close(done)
				defer func() { recover() }()
				sub.SimDeliver(ev)
			}()
			kit.Wait()
		}
	}
	ns.escaping = false
	ns.obMu.Lock()
	out := ns.outbox
	ns.outbox = nil
	ns.obMu.Unlock()
	sort.SliceStable(out, func(a, b int) bool { return eventKey(out[a]) < eventKey(out[b]) })
	n := 0
	for _, ev := range out {
		if me, ok := ev.(ucon.MessageEvent); ok {
			s.gossipFrame(ns, me)
			n++
		}
	}
	if n > 0 {
		s.r.Fault("crash.sends-escaped-before-lost-write")
		s.r.Logf("n%d %d frame(s) requested before the lost write reached the wire", ns.id, n)
	}
}

// isVoteRecordKey recognises the keys of VoteDB records (vote_cache.go AddrTypeKey: "v" +
// 20-byte address + vote kind + slot).
func isVoteRecordKey(k string) bool { return len(k) == 23 && k[0] == 'v' }

// crash stops a node whose disk is frozen: nothing but the disk image survives.
func (s *Sim) crash(ns *nodeState) {
	if !ns.running {
		return
	}
	s.crashes++
	ns.running = false
	ns.outbox = nil
	ns.n.Disk.Freeze()
	// stop the dead process's goroutines (their writes are swallowed by the frozen disk)
	s.curNode = ns.id
	done := make(chan struct{})
	go func() {
		defer close(done)
		defer func() { recover() }()
		ns.n.Engine.Stop()
		if ns.stk != nil {
			ns.stk.Stop()
		}
		ns.n.Chain.Stop()
		ns.n.Mux.Stop()
	}()
	kit.Wait()
	select {
	case <-done:
	default:
		s.r.Logf("n%d shutdown still blocked", ns.id)
	}
	d := time.Duration(100+s.r.C.Intn("down-ms", 5000)) * time.Millisecond
	ns.downUntil = time.Now().Add(d)
	ns.seen = map[common.Hash]bool{}
	s.r.Logf("n%d down for %v", ns.id, d)
}

func (s *Sim) restart(ns *nodeState) {
	disk := ns.n.Disk.Restart()
	if err := s.boot(ns, disk); err != nil {
		s.r.Report("restart-failed", "n%d: restart on the durable image failed: %v", ns.id, err)
		ns.downUntil = time.Now().Add(time.Hour * 1000)
		ns.running = false
		return
	}
	kit.Wait()
	s.r.Logf("n%d RESTART (incarnation %d) head=%d", ns.id, ns.incarnation, ns.n.Chain.CurrentBlock().NumberU64())
	s.r.FP(fmt.Sprintf("n%d", ns.id), "restart")
	if s.Mon != nil {
		s.Mon.Restarted(s, ns.id)
	}
	s.enqueue(&entry{kind: eSimMiner, node: ns.id, inc: ns.incarnation, at: time.Now(), desc: "miner:initial-work"})
	// peers tell the restarted node about their heads (handshake)
	for _, p := range s.nodes {
		if p.running && p.id != ns.id && s.linkUp(p.id, ns.id) {
			if head := p.n.Chain.CurrentBlock(); head.NumberU64() > ns.n.Chain.CurrentBlock().NumberU64() {
				s.enqueue(&entry{kind: eBlock, node: ns.id, at: time.Now().Add(10 * time.Millisecond), block: head, from: p.id, desc: fmt.Sprintf("block(handshake) %d %s", head.NumberU64(), shortHash(head.Hash()))})
				break
			}
		}
	}
}

func (s *Sim) shutdown() {
	for _, ns := range s.nodes {
		if ns.running {
			ns.running = false
			n := ns.n
			stk := ns.stk
			go func() {
				defer func() { recover() }()
				n.Engine.Stop()
				if stk != nil {
					stk.Stop()
				}
				n.Chain.Stop()
				n.Mux.Stop()
			}()
		}
	}
	kit.Wait()
	// let tickers of stopped components observe their quit channels
	time.Sleep(6 * time.Second)
	kit.Wait()
}

var _ = bytes.Equal
var _ io.Reader

// Mutate corrupts a frame the way a faulty or hostile network can: bit flips, truncation,
// extension, length-prefix inflation (size-field attacks), non-minimal length encodings and
// list/string confusion. It returns the corrupted bytes and the name of the mutation.
func Mutate(c *kit.Chooser, data []byte) ([]byte, string) {
	b := append([]byte{}, data...)
	if len(b) == 0 {
		return []byte{0xc0}, "empty"
	}
	if c.Chance("structured", 1, 2) {
		if out, how, ok := MutateStructured(c, data); ok {
			switch how {
			case "size-attack-chain":
				return out, how
			case "list-bloated":
				return out, "size-attack-" + how
			case "string-emptied", "string-cut-by-one", "string-halved", "string-extended", "string-as-list",
				"list-element-dropped", "list-element-repeated", "list-as-string", "empty-string-as-empty-list":
				return out, "wrong-shape-" + how // canonical encoding of a value of the wrong shape
			}
			return out, "noncanonical-" + how
		}
	}
	switch c.Intn("mutation", 8) {
	case 0:
		i := c.Intn("pos", len(b))
		b[i] ^= 1 << uint(c.Intn("bit", 8))
		return b, "bitflip"
	case 1:
		return b[:c.Intn("cut", len(b))], "truncate"
	case 2:
		return append(b, c.Bytes("extra", 1+c.Intn("n", 8))...), "extend"
	case 3:
		// inflate the outer length prefix: a list/string header announcing up to 2^63 bytes
		hdr := []byte{0xff, 0x7f, 0xff, 0xff, 0xff, 0xff, 0xff, 0xff, 0xff}
		if c.Chance("string", 1, 2) {
			hdr[0] = 0xbf
		}
		return append(hdr, b[1:]...), "inflate-outer-length"
	case 4:
		// inflate an inner length prefix at a random position
		i := c.Intn("pos", len(b))
		hdr := []byte{0xbb, 0xff, 0xff, 0xff, 0xf0}
		return append(append(append([]byte{}, b[:i]...), hdr...), b[i:]...), "inflate-inner-length"
	case 5:
		// non-minimal encoding: find a single byte < 0x80 and wrap it as 0x81 xx
		for i := 1; i < len(b); i++ {
			if b[i] < 0x80 && b[i] > 0 {
				nb := append(append(append([]byte{}, b[:i]...), 0x81), b[i:]...)
				return nb, "non-minimal-byte"
			}
		}
		b[0] ^= 0x40
		return b, "list-string-confusion"
	case 6:
		b[0] ^= 0x40 // 0xc0..0xff <-> 0x80..0xbf
		return b, "list-string-confusion"
	default:
		// leading zero in an integer: insert 0x00 after a short-string header 0x81..0x88
		for i := 1; i < len(b)-1; i++ {
			if b[i] >= 0x81 && b[i] <= 0x87 {
				nb := append([]byte{}, b[:i]...)
				nb = append(nb, b[i]+1, 0x00)
				nb = append(nb, b[i+1:]...)
				return nb, "leading-zero-int"
			}
		}
		i := c.Intn("pos", len(b))
		b[i] = byte(c.Intn("byte", 256))
		return b, "byte-set"
	}
}
