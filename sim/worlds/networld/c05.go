package networld

import (
	"fmt"
	"math/big"
	"sort"
	"strings"
	"time"

	"verifsim/kit"

	"github.com/youchainhq/go-youchain/common"
	"github.com/youchainhq/go-youchain/consensus/ucon"
	"github.com/youchainhq/go-youchain/core"
	"github.com/youchainhq/go-youchain/core/state"
	"github.com/youchainhq/go-youchain/core/types"
	"github.com/youchainhq/go-youchain/local"
	"github.com/youchainhq/go-youchain/rlp"
	"github.com/youchainhq/go-youchain/staking"
)

func init() {
	kit.Register(&kit.Check{
		Prop: "C05", Name: "honest-history", World: "NET", Level: "exploration", Share: 3,
		Rule: "part 1 of C05 (an honest validator is never slashable), a history property: the NET simulation (real engines with the staking module registered, seeded schedules, message faults, " +
			"partitions, crash/restart) records every signature each honest validator puts on the wire per (round, index) — prevote, precommit, next-index, across restarts. Whenever a node's head reaches " +
			"round r the simulator assembles EVERY candidate double-sign evidence for round r from that history (the same signature twice, every pair of that validator's signatures in one (round, index), " +
			"every claimed vote type) and runs the REAL slashing code on scratch copies of that node's head state: the builder path (evidence posted on the mux as the detector and dev_api do, then " +
			"Processor.EndBlock(isSeal=true)) and the validator path (evidence in header.SlashData, EndBlock(isSeal=false)). Oracle: no evidence is confirmed (header.SlashData stays empty on the builder " +
			"path) and the validator's record is the same as after an EndBlock without evidence. Non-trivial = at least one candidate evidence was evaluated and one fault fired.",
		Real:              []string{"staking (slashing, replaySlashing, processEvidences, processDoubleSignV5, doPenalize), core.StateProcessor.EndBlock, core/state", "the whole NET world (see C02): every signature comes from a real ucon.Voter"},
		Stub:              []string{"as the NET world (C02)"},
		FaultsNotInjected: []string{"Byzantine equivocation (part 2 of C05) is injected in the CHAIN world part"},
		QuickBudget:       35 * time.Second, ThoroughBudget: 12 * time.Minute,
		MinRuns:        6,
		Exec:           runC05Net,
		ExpectedProbes: []string{"candidate:same-hash", "candidate:different-hashes", "candidate:three-entries"},
		PanicClass:     kit.PanicInRepo("engine-panic"),
	})
}

type sigRec struct {
	kind  ucon.VoteType
	hash  common.Hash
	sig   []byte
	idx   uint32 // VoterIdx the validator used
	index uint32 // round index
}

type evidenceMonitor struct {
	r     *kit.Run
	sigs  map[common.Address]map[uint64][]sigRec // validator -> round -> signatures emitted
	tried map[string]bool
}

func (m *evidenceMonitor) FrameEmitted(s *Sim, node int, frame []byte) {
	msg, err := ucon.Decode(frame)
	if err != nil {
		return
	}
	signer, err := ucon.GetSignatureAddress(append(append([]byte{}, msg.Payload...), byte(msg.Code)), msg.Signature)
	if err != nil || signer != s.Key(node).Addr {
		return
	}
	kind := ucon.MsgCodeToVoteType(msg.Code)
	if kind == ucon.VoteNone {
		return
	}
	var v ucon.BlockHashWithVotes
	if msg.DecodePayload(&v) != nil || v.Round == nil || v.Vote == nil {
		return
	}
	if m.sigs[signer] == nil {
		m.sigs[signer] = map[uint64][]sigRec{}
	}
	r := v.Round.Uint64()
	m.sigs[signer][r] = append(m.sigs[signer][r], sigRec{kind: kind, hash: v.BlockHash, sig: append([]byte{}, v.Vote.Signature...), idx: v.Vote.VoterIdx, index: v.RoundIndex})
}

func (m *evidenceMonitor) Captured(s *Sim, node int, evs []interface{})                {}
func (m *evidenceMonitor) BlockImported(s *Sim, node int, block *types.Block, e error) {}
func (m *evidenceMonitor) Restarted(s *Sim, node int)                                  {}
func (m *evidenceMonitor) Step(s *Sim)                                                 {}
func (m *evidenceMonitor) FrameHandled(s *Sim, node int, frame []byte, corrupted bool, err error, panicked interface{}) {
	if panicked != nil {
		panic(panicked)
	}
}

// BlockCommitted: node's head is now `block` (round r = its number): try every evidence that can
// be assembled from honest signatures of round r against this node's real slashing code.
func (m *evidenceMonitor) BlockCommitted(s *Sim, node int, block *types.Block, insertErr error) {
	if insertErr != nil {
		return
	}
	ns := s.nodes[node]
	if ns.stk == nil || ns.n.Chain.CurrentBlock().Hash() != block.Hash() {
		return
	}
	round := block.NumberU64()
	var vals []common.Address
	for a := range m.sigs {
		vals = append(vals, a)
	}
	sort.Slice(vals, func(i, j int) bool { return vals[i].Hex() < vals[j].Hex() })
	for _, a := range vals {
		recs := m.sigs[a][round]
		if len(recs) == 0 {
			continue
		}
		byIndex := map[uint32][]sigRec{}
		var idxs []uint32
		for _, rc := range recs {
			if len(byIndex[rc.index]) == 0 {
				idxs = append(idxs, rc.index)
			}
			byIndex[rc.index] = append(byIndex[rc.index], rc)
		}
		sort.Slice(idxs, func(i, j int) bool { return idxs[i] < idxs[j] })
		for _, ri := range idxs {
			rs := byIndex[ri]
			// candidates: each signature twice; every unordered pair
			type cand struct {
				a, b sigRec
				what string
				// extra entries appended after the pair (evidence lists are not limited to two)
				extra []*staking.SignInfo
			}
			var cands []cand
			kindPair := func(a, b sigRec) string {
				x, y := ucon.VoteTypeToString(a.kind), ucon.VoteTypeToString(b.kind)
				if a.kind > b.kind {
					x, y = y, x
				}
				return x + "+" + y
			}
			for i := range rs {
				cands = append(cands, cand{rs[i], rs[i], "same-hash kinds=" + kindPair(rs[i], rs[i]) + " (one signature listed twice)", nil})
				for j := i + 1; j < len(rs); j++ {
					if rs[i].hash == rs[j].hash {
						cands = append(cands, cand{rs[i], rs[j], "same-hash kinds=" + kindPair(rs[i], rs[j]), nil})
					} else {
						cands = append(cands, cand{rs[i], rs[j], "different-hashes kinds=" + kindPair(rs[i], rs[j]), nil})
					}
				}
			}
			// a signature reused for a hash it does not sign (forged second entry)
			for i := range rs {
				other := rs[i]
				other.hash = common.BytesToHash(append([]byte("not-signed-"), rs[i].hash[:8]...))
				cands = append(cands, cand{rs[i], other, "reused-signature kinds=" + kindPair(rs[i], rs[i]) + " (second entry lists another hash with the same signature)", nil})
			}
			// three entries: one genuine signature listed twice, then another hash with a signature
			// that does not sign it (a verifier that looks at two entries only sees two valid
			// signatures, a comparison over all entries sees two different hashes)
			for i := range rs {
				unsigned := common.BytesToHash(append([]byte("third-entry-"), rs[i].hash[:8]...))
				garbage := append([]byte(nil), rs[i].sig...)
				garbage[len(garbage)-1] ^= 0x5a
				// alternately a damaged signature and the genuine one (which does not sign that hash)
				sig := [][]byte{garbage, rs[i].sig}[i%2]
				cands = append(cands, cand{a: rs[i], b: rs[i], what: "three-entries kinds=" + kindPair(rs[i], rs[i]) + " (one signature twice, then an unsigned other hash)",
					extra: []*staking.SignInfo{{Hash: unsigned, Sign: sig}}})
			}
			for _, cd := range cands {
				// any claimed vote type: the signed payload carries none
				for ci, claimed := range []uint8{staking.Prevote, staking.Precommit, staking.NextIndex} {
					if len(cd.extra) > 0 && ci != int(ri+uint32(cd.a.kind))%3 {
						continue // three-entry lists: one claimed type each (rotating), they cost a full evaluation
					}
					key := fmt.Sprintf("%d/%x/%d/%d/%x/%x/%d/%d", node, a[:4], round, ri, cd.a.sig[:6], cd.b.sig[:6], claimed, len(cd.extra))
					if len(cd.extra) > 0 {
						key += fmt.Sprintf("/%x", cd.extra[0].Sign[len(cd.extra[0].Sign)-2:])
					}
					if m.tried[key] {
						continue
					}
					m.tried[key] = true
					ev := staking.NewEvidence(staking.EvidenceDoubleSignV5{Round: round, RoundIndex: ri, SignerIdx: cd.a.idx, VoteType: claimed,
						Signs: append([]*staking.SignInfo{{Hash: cd.a.hash, Sign: cd.a.sig}, {Hash: cd.b.hash, Sign: cd.b.sig}}, cd.extra...)})
					m.evaluate(s, ns, block, a, ev, cd.what)
				}
			}
		}
	}
}

// scratchHeader builds the header of the next block the way miner.worker does.
func scratchHeader(ns *nodeState, parent *types.Block, coinbase common.Address) *types.Header {
	num := parent.Number()
	h := &types.Header{
		ParentHash: parent.Hash(), Number: num.Add(num, common.Big1()), Time: parent.Time() + 1, Coinbase: coinbase,
		GasLimit: core.CalcGasLimit(parent), GasRewards: big.NewInt(0), Subsidy: big.NewInt(0),
	}
	if err := core.ProcessYouVersionState(parent.Header(), h); err != nil {
		panic(err)
	}
	return h
}

func scratchState(ns *nodeState, parent *types.Block) *state.StateDB {
	yp, err := ns.n.Chain.VersionForRound(parent.NumberU64() + 1)
	if err != nil {
		panic(err)
	}
	st, err := ns.n.Chain.StateAt(parent.Root(), parent.ValRoot(), core.StakingRootForNewBlock(yp.StakingTrieFrequency, parent.Header()))
	if err != nil {
		panic(err)
	}
	return st
}

func valFingerprint(st *state.StateDB, a common.Address) string {
	v := st.GetValidatorByMainAddr(a)
	if v == nil {
		return "<nil>"
	}
	return fmt.Sprintf("token=%v stake=%v status=%d expelled=%v expelExpired=%d", v.Token, v.Stake, v.Status, v.Expelled, v.ExpelExpired)
}

func (m *evidenceMonitor) evaluate(s *Sim, ns *nodeState, head *types.Block, honest common.Address, ev staking.Evidence, what string) {
	m.r.Count("evidence-candidates-evaluated", 1)
	m.r.Probe("candidate:" + strings.Fields(what)[0])
	chain := ns.n.Chain
	proc := chain.Processor()
	// baseline: EndBlock of the next block without any evidence
	var base string
	func() {
		h := scratchHeader(ns, head, ns.key.Addr)
		st := scratchState(ns, head)
		proc.EndBlock(chain, h, nil, st, true, local.FakeRecorder())
		base = valFingerprint(st, honest) + " penaltyTo=" + st.GetBalance(penaltyTo(chain, h)).String()
	}()
	// builder path: the evidence reaches the staking module through the mux, then EndBlock(isSeal=true)
	func() {
		for _, sub := range ns.n.Mux.SimSubscribers(ev) {
			sub := sub
			s.stimulus(ns, "evidence", func() { sub.SimDeliver(ev) })
		}
		h := scratchHeader(ns, head, ns.key.Addr)
		st := scratchState(ns, head)
		proc.EndBlock(chain, h, nil, st, true, local.FakeRecorder())
		got := valFingerprint(st, honest) + " penaltyTo=" + st.GetBalance(penaltyTo(chain, h)).String()
		if len(h.SlashData) > 0 || got != base {
			m.r.Report("honest-validator-slashable:"+classOf(what), "builder path: an evidence assembled from honest validator %x's own votes of (round %d, index %d) [%s, claimed vote type %d] was confirmed: slashData=%d bytes; record without evidence: {%s}; with evidence: {%s}",
				honest[:4], head.NumberU64(), evRoundIndex(ev), what, evVoteType(ev), len(h.SlashData), base, got)
		}
	}()
	// validator path: the evidence arrives in a block's slash data
	func() {
		h := scratchHeader(ns, head, ns.key.Addr)
		sd, err := rlp.EncodeToBytes([]staking.Evidence{ev})
		if err != nil {
			panic(err)
		}
		h.SlashData = sd
		st := scratchState(ns, head)
		proc.EndBlock(chain, h, nil, st, false, local.FakeRecorder())
		got := valFingerprint(st, honest) + " penaltyTo=" + st.GetBalance(penaltyTo(chain, h)).String()
		if got != base {
			m.r.Report("honest-validator-slashable:"+classOf(what), "validator path: a block whose slash data carries an evidence assembled from honest validator %x's own votes of (round %d, index %d) [%s, claimed vote type %d] penalises it: without evidence {%s}; with evidence {%s}",
				honest[:4], head.NumberU64(), evRoundIndex(ev), what, evVoteType(ev), base, got)
		}
	}()
}

func penaltyTo(chain *core.BlockChain, h *types.Header) common.Address {
	yp, err := chain.VersionForRound(h.Number.Uint64())
	if err != nil {
		panic(err)
	}
	return yp.PenaltyTo
}

func evRoundIndex(ev staking.Evidence) uint32 {
	var d staking.EvidenceDoubleSignV5
	rlp.DecodeBytes(ev.Data, &d)
	return d.RoundIndex
}

func evVoteType(ev staking.Evidence) uint8 {
	var d staking.EvidenceDoubleSignV5
	rlp.DecodeBytes(ev.Data, &d)
	return d.VoteType
}

func runC05Net(r *kit.Run) {
	cfg := drawConfig(r.C, false)
	cfg.WithStaking = true
	cfg.TargetHeight = uint64(2 + r.C.Intn("height", 2))
	r.Logf("config %+v", cfg)
	Run(r, cfg, &evidenceMonitor{r: r, sigs: map[common.Address]map[uint64][]sigRec{}, tried: map[string]bool{}})
}

// classOf turns "different-hashes kinds=Precommit+Next ..." into "different-hashes:Precommit+Next":
// the vote kinds are part of the class so that a known finding about one legitimate pair
// never hides a different pair (e.g. two prevotes, which would be a real double sign).
func classOf(what string) string {
	f := strings.Fields(what)
	if len(f) >= 2 {
		return f[0] + ":" + strings.TrimPrefix(f[1], "kinds=")
	}
	return f[0]
}
