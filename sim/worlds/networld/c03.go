package networld

import (
	"strings"
	"time"

	"verifsim/kit"

	"github.com/youchainhq/go-youchain/common"
	"github.com/youchainhq/go-youchain/consensus/ucon"
	"github.com/youchainhq/go-youchain/core/types"
	"github.com/youchainhq/go-youchain/rlp"
)

func init() {
	kit.Register(&kit.Check{
		Prop: "C03", Name: "net", World: "NET", Level: "exploration", Share: 2,
		Rule: "the NET simulation (real engines, seeded schedules, message faults, partitions, crash/restart; see C02) with the commit oracles of C03 on the whole engine: every block an honest " +
			"engine announces as committed (hands to its inserter with the packed vote set) must be accepted by its own chain and by every other honest node's import path (independent verifiers); " +
			"an honest node never commits two different blocks at one height; and a node emits a precommit for a block only after the simulator has delivered to it (in that round and index) " +
			"prevote frames for exactly that block from distinct validators whose stake-weighted sortition counts reach the quorum — counted by the simulator from the frames it delivered. " +
			"Non-trivial = at least one fault fired.",
		Real:              []string{"as the NET world (C02): ucon.Server incl. Voter.judgeVoteCount/commit, PackVotes, header verification in InsertChain"},
		Stub:              []string{"as the NET world (C02)"},
		FaultsNotInjected: []string{"Byzantine votes (equivocation, wrong kind/credential, stale/future): injected in the VOTER world part of C03", "certificate rounds (ACoCHTFrequency constant)"},
		QuickBudget:       35 * time.Second, ThoroughBudget: 12 * time.Minute,
		MinRuns:        6,
		Exec:           runC03Net,
		ExpectedProbes: []string{"precommit-signed", "commit-announced", "precommit-at-exact-quorum", "round-index-timeout"},
		PanicClass:     kit.PanicInRepo("engine-panic"),
	})
}

type commitMonitor struct {
	r         *kit.Run
	byHeight  map[int]map[uint64]common.Hash                                // node -> height -> committed hash
	delivered map[int]map[voteKey]map[common.Hash]map[common.Address]uint32 // node -> (round,index,kind) -> hash -> sender -> weight
	own       *voteHistory
}

func (m *commitMonitor) FrameEmitted(s *Sim, node int, frame []byte) {}

// Captured looks at the votes a node signed during one stimulus (its SendMessageEvents): its
// own votes count in its own tally the moment they are signed; a precommit signed in the same
// stimulus must be backed by the prevotes delivered so far plus its own.
func (m *commitMonitor) Captured(s *Sim, node int, evs []interface{}) {
	var own []ucon.SendMessageEvent
	for _, ev := range evs {
		if e, ok := ev.(ucon.SendMessageEvent); ok && ucon.MsgCodeToVoteType(e.Code) != ucon.VoteNone {
			own = append(own, e)
		}
	}
	var votes []*ucon.BlockHashWithVotes
	var kinds []ucon.VoteType
	for _, e := range own {
		v := new(ucon.BlockHashWithVotes)
		if rlp.DecodeBytes(e.Payload, v) != nil || v.Round == nil || v.Vote == nil {
			continue
		}
		kind := ucon.MsgCodeToVoteType(e.Code)
		m.note(node, s.Key(node).Addr, kind, v)
		votes, kinds = append(votes, v), append(kinds, kind)
	}
	for i, v := range votes {
		if kinds[i] != ucon.Precommit {
			continue
		}
		m.r.Probe("precommit-signed")
		k := voteKey{round: v.Round.Uint64(), index: v.RoundIndex, kind: ucon.Prevote}
		var weight uint64
		for _, w := range m.delivered[node][k][v.BlockHash] {
			weight += uint64(w)
		}
		q := quorumWeight(s)
		if weight == q || weight == q+1 {
			m.r.Probe("precommit-at-exact-quorum")
		}
		if weight < q {
			m.r.Report("precommit-without-counted-quorum", "n%d precommitted %s at (round %d, index %d) with prevotes of weight %d delivered for that block; quorum is %d",
				node, shortHash(v.BlockHash), k.round, k.index, weight, q)
		}
	}
}

// quorumWeight is the protocol quorum: floor(0.685 * committee size) with the committee size of
// the protocol version in force (params test-case set: ValidatorThreshold 2000).
func quorumWeight(s *Sim) uint64 {
	t := s.Node(0).Engine.CurrentCaravelParams().ValidatorThreshold
	return t * 685 / 1000
}

func (m *commitMonitor) note(node int, sender common.Address, kind ucon.VoteType, v *ucon.BlockHashWithVotes) {
	k := voteKey{round: v.Round.Uint64(), index: v.RoundIndex, kind: kind}
	if m.delivered[node] == nil {
		m.delivered[node] = map[voteKey]map[common.Hash]map[common.Address]uint32{}
	}
	if m.delivered[node][k] == nil {
		m.delivered[node][k] = map[common.Hash]map[common.Address]uint32{}
	}
	if m.delivered[node][k][v.BlockHash] == nil {
		m.delivered[node][k][v.BlockHash] = map[common.Address]uint32{}
	}
	m.delivered[node][k][v.BlockHash][sender] = v.Vote.Votes
}

func (m *commitMonitor) FrameHandled(s *Sim, node int, frame []byte, corrupted bool, herr error, panicked interface{}) {
	if panicked != nil {
		panic(panicked)
	}
	if corrupted || herr != nil {
		return
	}
	msg, err := ucon.Decode(frame)
	if err != nil {
		return
	}
	kind := ucon.MsgCodeToVoteType(msg.Code)
	if kind == ucon.VoteNone {
		return
	}
	sender, err := ucon.GetSignatureAddress(append(append([]byte{}, msg.Payload...), byte(msg.Code)), msg.Signature)
	if err != nil {
		return
	}
	var v ucon.BlockHashWithVotes
	if msg.DecodePayload(&v) != nil || v.Round == nil || v.Vote == nil {
		return
	}
	m.note(node, sender, kind, &v)
}

func (m *commitMonitor) BlockCommitted(s *Sim, node int, block *types.Block, insertErr error) {
	m.r.Probe("commit-announced")
	if insertErr != nil {
		m.r.Report("commit-does-not-verify", "n%d's engine committed block %d %s (round index %d) but its own chain rejected it: %v", node, block.NumberU64(), shortHash(block.Hash()), roundIndexOf(block), insertErr)
	}
	if m.byHeight[node] == nil {
		m.byHeight[node] = map[uint64]common.Hash{}
	}
	if prev, ok := m.byHeight[node][block.NumberU64()]; ok && prev != block.Hash() {
		m.r.Report("two-commits-at-one-height", "n%d committed both %s and %s at height %d", node, shortHash(prev), shortHash(block.Hash()), block.NumberU64())
	}
	m.byHeight[node][block.NumberU64()] = block.Hash()
}

func (m *commitMonitor) BlockImported(s *Sim, node int, block *types.Block, err error) {
	if err != nil && !benignImportError(err) {
		m.r.Report("honest-commit-rejected-by-verifier", "n%d rejected block %d %s committed by an honest engine: %v", node, block.NumberU64(), shortHash(block.Hash()), err)
	}
}

// benignImportError: failures that say nothing about the commit itself (the importer lacks state
// for an old fork point etc.).
func benignImportError(err error) bool {
	s := err.Error()
	return strings.Contains(s, "pruned") || strings.Contains(s, "unknown ancestor")
}

func (m *commitMonitor) Restarted(s *Sim, node int) { delete(m.delivered, node) }
func (m *commitMonitor) Step(s *Sim)                {}

func runC03Net(r *kit.Run) {
	cfg := drawConfig(r.C, false)
	r.Logf("config %+v", cfg)
	Run(r, cfg, &commitMonitor{r: r, byHeight: map[int]map[uint64]common.Hash{}, delivered: map[int]map[voteKey]map[common.Hash]map[common.Address]uint32{}})
}
