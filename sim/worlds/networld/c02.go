package networld

import (
	"fmt"
	"time"

	"verifsim/kit"

	"github.com/youchainhq/go-youchain/common"
	"github.com/youchainhq/go-youchain/consensus/ucon"
	"github.com/youchainhq/go-youchain/core/types"
)

func init() {
	kit.Register(&kit.Check{
		Prop: "C02", Name: "net", World: "NET", Level: "exploration", Share: 4,
		Rule: "one run = 4-5 real ucon engines with real block chains on simulated disks in one synctest bubble, driven one stimulus at a time: seeded order of mux deliveries, " +
			"network delay/drop/duplication, partitions and heals, late timers, and crash/restart of nodes (at quiescent points and at the k-th disk write inside a stimulus, i.e. also " +
			"between the vote record and its gossip) with restart through NewVRFServer/NewBlockChain/StartMining on the durable image. Oracle (history): every consensus frame that " +
			"leaves a node is decoded by the simulator and appended to that validator's signed-vote history, which survives restarts; per (round, index) never two different block hashes " +
			"for prevote, precommit or certificate and never more than two next-index votes. Non-trivial = at least one fault fired.",
		Real: []string{"consensus/ucon.Server (proposal, voter, vote DB, sortition, message handler, timer handlers)", "core.BlockChain (header chain, validator, processor)", "VRF/BLS/secp256k1", "rlp"},
		Stub: []string{"p2p / you.ProtocolManager / downloader / fetcher: simulator network (consensus frames with per-node seen-set, block gossip, minimal catch-up)",
			"miner.worker: empty-block assembly through the real Prepare/FinalizeAndAssemble/Seal (as the repository's memMiner)",
			"TimerManager.timerLoop goroutine: its two case bodies are run by the simulator (hook H3)", "quic-go: API stub (never run)"},
		FaultsNotInjected: []string{"per-node clock skew: one synctest bubble has one clock (late timers and held-back nodes are injected instead)",
			"Byzantine validators in this part (they are injected in the VOTER world)", "certificate rounds: params.ACoCHTFrequency is a constant (32768), unreachable in a grown chain; certificate votes are covered by the VOTEDB/VOTER parts"},
		Assumptions: []string{"crash model: the process dies, completed puts and whole batches survive, nothing is torn inside a batch"},
		QuickBudget: 40 * time.Second, ThoroughBudget: 15 * time.Minute,
		MinRuns:        8,
		Exec:           runC02Net,
		ExpectedProbes: []string{"node-restarted", "vote-at-index>=2", "round-index-timeout", "block-proposed", "target-height-reached", "catch-up-sync"},
		PanicClass:     kit.PanicInRepo("engine-panic"),
	})
}

type voteKey struct {
	val   common.Address
	round uint64
	index uint32
	kind  ucon.VoteType
}

// voteHistory is the signed-vote history oracle of C02 (and the material C05 assembles
// evidence from).
type voteHistory struct {
	r      *kit.Run
	votes  map[voteKey][]common.Hash
	frames map[voteKey][][]byte // signatures (BLS) per emitted vote, for C05
}

func newVoteHistory(r *kit.Run) *voteHistory {
	return &voteHistory{r: r, votes: map[voteKey][]common.Hash{}}
}

func (h *voteHistory) FrameEmitted(s *Sim, node int, frame []byte) {
	msg, err := ucon.Decode(frame)
	if err != nil {
		h.r.Report("emitted-undecodable-frame", "n%d emitted a frame its own decoder rejects: %v", node, err)
		return
	}
	signer, err := ucon.GetSignatureAddress(append(append([]byte{}, msg.Payload...), byte(msg.Code)), msg.Signature)
	if err != nil || signer != s.Key(node).Addr {
		return // a relayed frame
	}
	kind := ucon.MsgCodeToVoteType(msg.Code)
	if kind == ucon.VoteNone {
		return
	}
	var v ucon.BlockHashWithVotes
	if err := msg.DecodePayload(&v); err != nil || v.Round == nil {
		h.r.Report("emitted-undecodable-frame", "n%d emitted a vote payload its own decoder rejects: %v", node, err)
		return
	}
	k := voteKey{signer, v.Round.Uint64(), v.RoundIndex, kind}
	prev := h.votes[k]
	h.votes[k] = append(prev, v.BlockHash)
	h.r.Logf("VOTE n%d %s (%d,%d) %s", node, ucon.VoteTypeToString(kind), k.round, k.index, shortHash(v.BlockHash))
	h.r.Count("votes-emitted", 1)
	if k.index >= 2 {
		h.r.Probe("vote-at-index>=2")
		// place some crashes right after a vote at a higher index: after the restart the
		// engine re-enters the round at index 1 (ucon.go clearData)
		if s.cfg.MaxCrashes > 0 && s.faultsOn() && h.r.C.Chance("crash-after-vote", 1, 8) {
			s.RequestCrash(node)
		}
	}
	if kind == ucon.NextIndex {
		if len(prev)+1 > 2 {
			h.r.Report("next-index-excess", "validator n%d emitted %d next-index votes for (round %d, index %d)", node, len(prev)+1, k.round, k.index)
		}
		return
	}
	for _, ph := range prev {
		if ph != v.BlockHash {
			h.r.Report("conflicting-votes:"+ucon.VoteTypeToString(kind), "validator n%d signed two different %s votes for (round %d, index %d): %s and %s",
				node, ucon.VoteTypeToString(kind), k.round, k.index, shortHash(ph), shortHash(v.BlockHash))
			return
		}
	}
	if len(prev) > 0 {
		h.r.Probe("same-vote-re-emitted")
	}
}

func (h *voteHistory) BlockCommitted(s *Sim, node int, block *types.Block, insertErr error) {}
func (h *voteHistory) BlockImported(s *Sim, node int, block *types.Block, err error)        {}
func (h *voteHistory) FrameHandled(s *Sim, node int, frame []byte, corrupted bool, err error, panicked interface{}) {
	if panicked != nil {
		panic(panicked)
	}
}
func (h *voteHistory) Restarted(s *Sim, node int)                   { h.r.Probe("node-restarted") }
func (h *voteHistory) Step(s *Sim)                                  {}
func (h *voteHistory) Captured(s *Sim, node int, evs []interface{}) {}

// drawConfig draws a NET configuration; swarm style: every run enables a random subset of
// fault kinds at random rates.
func drawConfig(c *kit.Chooser, crashy bool) Config {
	cfg := Config{NVals: 4 + c.Intn("nvals", 2), TargetHeight: uint64(2 + c.Intn("height", 3)), MaxSteps: 6000, MaxSimTime: 90 * time.Second, MaxDelayMs: 5}
	for i := 0; i < cfg.NVals; i++ {
		cfg.Stakes = append(cfg.Stakes, uint64(60000+10000*c.Intn("stake", 5)))
	}
	cfg.FaultUntil = time.Duration(5+c.Intn("fault-secs", 25)) * time.Second
	if c.Chance("reorder-on", 2, 3) {
		cfg.Reorder = 50 + c.Intn("reorder", 400)
	}
	if c.Chance("drop-on", 1, 3) {
		cfg.DropFrame = 10 + c.Intn("drop", 150)
	}
	if c.Chance("dup-on", 1, 3) {
		cfg.DupFrame = 10 + c.Intn("dup", 100)
	}
	if c.Chance("delay-on", 1, 2) {
		cfg.MaxDelayMs = 10 + c.Intn("delay", 600)
	}
	if c.Chance("partition-on", 1, 3) {
		cfg.Partition = 2 + c.Intn("partition", 10)
	}
	if c.Chance("late-on", 1, 3) {
		cfg.TimerLate = 5 + c.Intn("late", 60)
	}
	if c.Chance("stall-first", 1, 3) {
		// lose most frames for a while so that round indexes advance by timeout
		cfg.DropFrame = 500 + c.Intn("stall-drop", 400)
	}
	if crashy || c.Chance("crash-on", 1, 2) {
		cfg.Crash = 2 + c.Intn("crash", 12)
		cfg.CrashAtK = 2 + c.Intn("crash-k", 15)
		if c.Chance("crash-vote-write-on", 2, 3) {
			cfg.CrashAtVoteWrite = 20 + c.Intn("crash-vote-write", 100)
		}
		cfg.MaxCrashes = 1 + c.Intn("max-crashes", 3)
	}
	return cfg
}

func runC02Net(r *kit.Run) {
	cfg := drawConfig(r.C, true)
	r.Logf("config %+v", cfg)
	h := newVoteHistory(r)
	Run(r, cfg, h)
	r.Count("blocks", int64(0))
	_ = fmt.Sprint
}
