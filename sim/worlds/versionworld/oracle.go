package versionworld

// The reference state machine of property C12. It is written from the property text in
// /verif/properties.jsonl only and sees nothing but the five version fields of the accepted
// headers and the parameter set of the run (threshold, vote rounds, minimum wait per version):
//
//   "the active protocol version changes only at the round announced by an upgrade proposal
//    that collected at least the approval threshold within its voting window, with each block
//    adding at most one approval, and never earlier than the minimum waiting period after the
//    window closes."
//
// A proposal is MADE by the first header that carries a non-zero NextVersion after a header
// without one (or a different one). What that header announces — window close (NextVoteBefore)
// and switch round (NextSwitchOn) — is frozen here; later header fields are compared against
// it, never trusted. Approvals are tallied by the oracle itself (one per block whose
// NextApprovals is higher than its parent's), never read from the header.
//
// Reading of "voting window" (see the package comment for the justification):
//   strict = rounds [made, voteBefore)   — the primary reading ("vote BEFORE")
//   lax    = rounds [made, voteBefore]   — the most lenient reading that is still defensible
// A switch whose quorum exists under neither tally is a violation under every reading. A switch
// that has the quorum only under the lax tally is interpretation-dependent: counted, and a
// violation only in the strict auxiliary part.

type hdr struct {
	round                           uint64
	cur, next                       uint64
	approvals, voteBefore, switchOn uint64
}

type proposal struct {
	target                     uint64
	made, voteBefore, switchOn uint64 // as announced by the header that made the proposal
	strict, lax                uint64 // approvals tallied inside the window (two readings)
	threshold, minWait         uint64 // parameter set in force when the proposal was made
	reached                    bool
}

type verdict struct{ class, detail string }

type oracle struct {
	ver        uint64
	p          *proposal
	strictMode bool
	par        func(ver uint64) (threshold, voteRounds, minWait uint64, ok bool)

	hard   []verdict // violations under every reading
	soft   []string  // interpretation-dependent divergences (counters)
	events []string  // probes / fingerprint tokens
}

func (o *oracle) bad(class, f string, a ...interface{}) {
	o.hard = append(o.hard, verdict{class, sprintf(f, a...)})
}

func (o *oracle) dependent(class, f string, a ...interface{}) {
	if o.strictMode {
		o.bad(class, f, a...)
		return
	}
	o.soft = append(o.soft, class)
}

func (o *oracle) ev(s string) { o.events = append(o.events, s) }

// tally counts one approval added by the block at round n.
func (p *proposal) tally(n uint64, o *oracle) {
	if n >= p.made && n < p.voteBefore {
		p.strict++
	}
	if n >= p.made && n <= p.voteBefore {
		p.lax++
	}
	if n == p.voteBefore {
		o.ev("approval-at-window-boundary")
	}
	if !p.reached && p.strict >= p.threshold {
		p.reached = true
		o.ev("threshold-reached")
	}
}

// step consumes the next accepted header h (child of parent).
func (o *oracle) step(parent, h hdr) {
	o.hard, o.soft, o.events = o.hard[:0], o.soft[:0], o.events[:0]
	n := h.round

	// 1. a change of the active version
	if h.cur != o.ver {
		p := o.p
		switch {
		case p == nil:
			o.bad("switch-without-proposal", "round %d: version %d -> %d with no open proposal", n, o.ver, h.cur)
		case h.cur != p.target:
			o.bad("switch-to-unproposed-version", "round %d: version %d -> %d but the open proposal (made at %d) is for %d", n, o.ver, h.cur, p.made, p.target)
		case n != p.switchOn:
			o.bad("switch-not-at-announced-round", "round %d: version %d -> %d but the proposal made at %d announced switch round %d", n, o.ver, h.cur, p.made, p.switchOn)
		default:
			if p.lax < p.threshold {
				o.bad("switch-without-quorum", "round %d: version %d -> %d; proposal made at %d, window [%d,%d), threshold %d, approvals inside the window %d (%d counting the block at the closing round)",
					n, o.ver, h.cur, p.made, p.made, p.voteBefore, p.threshold, p.strict, p.lax)
			} else if p.strict < p.threshold {
				o.dependent("quorum-needs-boundary-approval", "round %d: version %d -> %d; proposal made at %d, threshold %d: only %d approvals in [%d,%d), the %d-th was added by the block AT round %d",
					n, o.ver, h.cur, p.made, p.threshold, p.strict, p.made, p.voteBefore, p.lax, p.voteBefore)
			}
			if n < p.voteBefore+p.minWait {
				o.bad("switch-before-min-wait", "round %d: version %d -> %d; window closed at %d, minimum wait %d", n, o.ver, h.cur, p.voteBefore, p.minWait)
			}
		}
		o.ev("switch")
		o.ver, o.p = h.cur, nil
	}

	// 2. the proposal carried by the header
	if h.next == 0 {
		if p := o.p; p != nil {
			if n >= p.voteBefore && p.strict < p.threshold {
				o.ev("expired-without-quorum")
			} else {
				o.ev("proposal-dropped")
			}
		}
		o.p = nil
		return
	}
	if o.p == nil || o.p.target != h.next {
		// a proposal is made by this block
		if o.p != nil {
			o.ev("proposal-replaced")
		}
		th, vr, mw, ok := o.par(o.ver)
		if !ok {
			o.p = nil
			return
		}
		p := &proposal{target: h.next, made: n, voteBefore: h.voteBefore, switchOn: h.switchOn, threshold: th, minWait: mw}
		o.p = p
		o.ev("proposal-opened")
		if h.voteBefore != n+vr {
			o.bad("window-length", "round %d: proposal for %d announces window [%d,%d) but the parameter set says %d voting rounds", n, h.next, n, h.voteBefore, vr)
		}
		if h.approvals > 1 {
			o.bad("approval-jump", "round %d: the block that makes the proposal carries %d approvals", n, h.approvals)
		}
		if h.approvals >= 1 {
			p.tally(n, o)
		}
		return
	}
	// the open proposal continues
	p := o.p
	if h.approvals > parent.approvals+1 {
		o.bad("approval-jump", "round %d: approvals %d -> %d in one block", n, parent.approvals, h.approvals)
	}
	if h.approvals > parent.approvals {
		p.tally(n, o)
	}
	if h.switchOn != p.switchOn {
		o.bad("switch-round-moved", "round %d: proposal made at %d announced switch round %d, header now says %d", n, p.made, p.switchOn, h.switchOn)
	}
	if h.voteBefore != parent.voteBefore {
		if p.lax < p.threshold {
			o.bad("window-moved", "round %d: proposal made at %d announced window close %d, header moves it %d -> %d with %d/%d approvals", n, p.made, p.voteBefore, parent.voteBefore, h.voteBefore, p.lax, p.threshold)
		} else {
			o.dependent("window-field-moved-after-threshold", "round %d: proposal made at %d announced window close %d; after %d/%d approvals the header moves NextVoteBefore %d -> %d", n, p.made, p.voteBefore, p.lax, p.threshold, parent.voteBefore, h.voteBefore)
		}
	}
}
