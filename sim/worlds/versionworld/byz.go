package versionworld

import (
	"github.com/youchainhq/go-youchain/core/types"
	"github.com/youchainhq/go-youchain/params"
)

func addDelta(v uint64, d int) uint64 {
	if d < 0 && uint64(-d) > v {
		return 0
	}
	return uint64(int64(v) + int64(d))
}

func copyFields(dst, src *types.Header) {
	dst.CurrVersion, dst.NextVersion = src.CurrVersion, src.NextVersion
	dst.NextApprovals, dst.NextVoteBefore, dst.NextSwitchOn = src.NextApprovals, src.NextVoteBefore, src.NextSwitchOn
}

// byzantine produces the header of a Byzantine proposer: any version fields whatsoever, as
// long as every honest verifier accepts them (a rejected block never enters anybody's chain,
// core/blockchain.go:241-246). Templates are the strategic moves (withhold, approve out of
// turn, open a proposal for any version with any delay, clear, switch now); on top of a
// template one or two fields are perturbed by small deltas around the legitimate value and
// around the boundary values (round, round+1, threshold, 0). Template 0 + no perturbation =
// behaves honestly.
func (w *world) byzantine(prev, full *types.Header, cand [3]*types.Header) *types.Header {
	r, c := w.r, w.r.C
	n := prev.Number.Uint64() + 1
	P := w.p[prev.CurrVersion]
	for attempt := 0; attempt < 3; attempt++ {
		h := newHeader(n)
		carry := func() {
			copyFields(h, prev)
		}
		open := func() {
			h.CurrVersion = prev.CurrVersion
			v := uint64(prev.CurrVersion) + 1
			if c.Chance("byz-any-version", 1, 3) {
				v = uint64(c.Intn("byz-version", w.n+2))
			}
			h.NextVersion = params.YouVersion(v)
			h.NextVoteBefore = n + P.voteRounds
			h.NextSwitchOn = h.NextVoteBefore + uint64(c.Range("byz-wait", int(P.minWait), int(P.maxWait)))
			h.NextApprovals = 1
		}
		switch c.Weighted("byz-template", []int{2, 3, 4, 3, 1, 1}) {
		case 0: // what an honest node with the newest release would publish
			if full != nil {
				copyFields(h, full)
			} else {
				carry()
			}
		case 1: // withhold: neither propose nor approve
			carry()
		case 2: // approve regardless of window and of knowing the version; propose if nothing is open
			if prev.NextVersion != 0 {
				carry()
				h.NextApprovals++
			} else {
				open()
			}
		case 3: // open a proposal (replaces an open one: only a broken verifier accepts that)
			open()
		case 4: // clear the proposal
			h.CurrVersion = prev.CurrVersion
		case 5: // switch right now
			h.CurrVersion = prev.NextVersion
			if h.CurrVersion == 0 {
				h.CurrVersion = prev.CurrVersion + 1
			}
		}
		if c.Chance("byz-perturb", w.noise, 4) {
			for k := 1 + c.Intn("byz-nfields", 2); k > 0; k-- {
				f := c.Intn("byz-field", 5)
				if f < 2 {
					v := params.YouVersion(c.Intn("byz-version", w.n+2))
					if f == 0 {
						h.CurrVersion = v
					} else {
						h.NextVersion = v
					}
					continue
				}
				ptr := [...]*uint64{&h.NextApprovals, &h.NextVoteBefore, &h.NextSwitchOn}[f-2]
				switch c.Intn("byz-op", 9) {
				case 0:
					*ptr = addDelta(*ptr, 1)
				case 1:
					*ptr = addDelta(*ptr, -1)
				case 2:
					*ptr = addDelta(*ptr, 2)
				case 3:
					*ptr = addDelta(*ptr, -2)
				case 4:
					*ptr = 0
				case 5:
					*ptr = n
				case 6:
					*ptr = n + 1
				case 7:
					switch f {
					case 2:
						*ptr = P.threshold
					case 3:
						*ptr = prev.NextSwitchOn
					case 4:
						*ptr = addDelta(h.NextVoteBefore+P.minWait, -1)
					}
				case 8:
					*ptr = ^uint64(0) - uint64(c.Intn("byz-huge", 2))
				}
			}
		}
		ok, _, _, split := w.acceptedByAll(prev, h)
		if split {
			r.Report("verifier-disagreement", "round %d: byzantine header {%s} on parent {%s} is accepted by some honest verifiers and rejected by others", n, vs(h), vs(prev))
		}
		if !ok {
			r.Probe("byzantine candidate rejected")
			continue
		}
		// count what fired: fields that differ from what an honest, up-to-date node publishes
		ref := full
		if ref == nil {
			ref = prev
		}
		if h.CurrVersion != ref.CurrVersion {
			r.Fault("byzantine-field-mutation.CurrVersion")
		}
		if h.NextVersion != ref.NextVersion {
			r.Fault("byzantine-field-mutation.NextVersion")
		}
		if h.NextApprovals != ref.NextApprovals {
			r.Fault("byzantine-field-mutation.NextApprovals")
		}
		if h.NextVoteBefore != ref.NextVoteBefore {
			r.Fault("byzantine-field-mutation.NextVoteBefore")
		}
		if h.NextSwitchOn != ref.NextSwitchOn {
			r.Fault("byzantine-field-mutation.NextSwitchOn")
		}
		honestLike := sameVersionFields(h, ref)
		for _, hc := range cand {
			honestLike = honestLike || (hc != nil && sameVersionFields(h, hc))
		}
		if !honestLike {
			r.Probe("byzantine header accepted")
		}
		return h
	}
	return full
}
