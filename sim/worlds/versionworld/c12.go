// Package versionworld is the VERSION world. It decides property C12: the protocol version
// changes only by a quorum of block votes, at the announced round, and honest builders'
// headers are accepted by honest verifiers.
//
// Real code: core.ProcessYouVersionState (the block builder's step, miner/worker.go:302) and
// core.VerifyYouVersionState (the importer's step, core/blockchain.go:241 via
// core/protocol_version_processor.go:214-250), driven over synthetic headers that carry only
// Number and the five version fields, with scaled-down tables installed in the process-global
// params.Versions. There is no clock, disk, goroutine or scheduler in this code; what is
// simulated is WHO proposes each block: honest nodes running different software releases
// (they know different prefixes of the version chain: a rolling upgrade) and a Byzantine
// proposer that publishes any version fields the honest verifiers accept.
//
// INTERPRETATION of "voting window" (the property text does not say whether the block AT round
// NextVoteBefore may still approve):
//
//	primary reading, used for honest builders: the window is [proposal round, NextVoteBefore),
//	i.e. exactly UpgradeVoteRounds blocks including the proposing block. Reasons: the field is
//	called Next-Vote-BEFORE; params/config.go:77-79 says "Votes for upgrades are collected for
//	UpgradeVoteRounds" and the proposing block already counts as approval 1, so a window of
//	UpgradeVoteRounds blocks ends at NextVoteBefore-1; the builder itself approves only when
//	round < NextVoteBefore (protocol_version_processor.go:77,101) and drops a proposal that is
//	below threshold AT round NextVoteBefore (line 110).
//	lenient reading: "vote until specific round" (core/types/block.go:60) could be read as
//	inclusive, [proposal round, NextVoteBefore].
//
// A run is a VIOLATION only if it violates the property under both readings. What differs
// between the readings is counted ("interp.*" counters) and becomes a violation only in the
// auxiliary part "version-strict" (registered when VERSIONWORLD_AUX is set).
package versionworld

import (
	"fmt"
	"math/big"
	"os"
	"time"

	"verifsim/kit"

	"github.com/youchainhq/go-youchain/core"
	"github.com/youchainhq/go-youchain/core/types"
	"github.com/youchainhq/go-youchain/logging"
	"github.com/youchainhq/go-youchain/params"
)

func sprintf(f string, a ...interface{}) string { return fmt.Sprintf(f, a...) }

type options struct {
	strict    bool // interpretation-dependent divergences are violations
	downgrade bool // report a switch to a lower version (observation outside C12; used to obtain a minimised trace)
	minWaitLo int  // lower end of the MinUpgradeWaitRounds range (designed: 2)
}

func init() {
	logging.Root().SetHandler(logging.DiscardHandler())
	reg := func(name string, o options, note string) {
		kit.Register(&kit.Check{
			Prop: "C12", Name: name, World: "VERSION", Level: "exploration",
			Rule: "one run = one chain of 20..200 synthetic headers (Number + CurrVersion/NextVersion/NextApprovals/NextVoteBefore/NextSwitchOn) over a seeded parameter set " +
				"(3-4 versions; per version vote rounds 3..12, threshold 2..min(10,vote rounds), min wait 2..8, max wait min..8, proposer-specified wait 0..max; upgrade path k->k+1 or, sometimes, k->k+2). " +
				"Three honest parties run software releases that know the versions 1..j (j seeded per party, may grow during the run: rolling upgrade); before a party acts its release's table is installed in params.Versions. " +
				"At every height every honest party that knows the active version derives a header with the real ProcessYouVersionState and every honest verifier (full table and every release that knows the versions involved) must accept it with the real VerifyYouVersionState (clause 2). " +
				"The chooser then picks the block's proposer: one of the honest parties, or the Byzantine proposer, which starts from a template (honest / withhold approval / approve regardless of window and knowledge / open a proposal for any version 0..N+1 with any wait / clear / switch now) " +
				"and perturbs one or more of the five fields by small deltas around the legitimate values and around round, round+1, threshold, 0; only a candidate that every honest verifier accepts is kept (up to 3 attempts, else it behaves honestly). " +
				"Oracle (clause 1): a reference state machine written from the property text, fed with the accepted chain: the version changes only at the switch round announced by the block that made the open proposal, to the proposed version; " +
				"the oracle's own tally of approvals (at most one per block, only blocks inside the announced window) is >= threshold; switch round >= announced window close + min wait; window length = vote rounds; announced window and switch round never move while the proposal is undecided. " +
				"A run is non-trivial when a Byzantine header that no honest party would have built was accepted, or a party with a partial table proposed. " + note,
			Real: []string{"core.ProcessYouVersionState", "core.VerifyYouVersionState", "params.Versions (process-global table, swapped per acting party)"},
			Stub: []string{"the chain (synthetic headers: only Number and the five version fields are set; no bodies, no consensus data, no BlockChain/HeaderChain object)",
				"who proposes (chooser)", "params tables (scaled-down, generated per run; only the upgrade fields of YouParams are filled)"},
			FaultsNotInjected: []string{
				"crash/restart, disk, network, timers: the two functions are pure functions of (parent header, header, params.Versions); nothing is in flight",
				"misconfigured release (ApprovedUpgradeVersion missing locally, proposer wait above max wait): the builder returns an error and miner/worker.go:303 stops the node (log.Crit); not a header, so nothing to verify",
				"verifier that does not know the active or the target version: VerifyYouVersionState calls logging.Crit (os.Exit) by design; such verifiers are excluded ('knows the versions involved')",
				"uint64 overflow of round + vote rounds: rounds stay below 300"},
			Assumptions: []string{
				"all releases agree on the parameters of the versions they know (only ApprovedUpgradeVersion of the newest known version differs), as in params/all_versions.go where a release appends a version and sets its predecessor's ApprovedUpgradeVersion",
				"voting window read as [proposal round, NextVoteBefore) for honest builders and as [proposal round, NextVoteBefore] when judging accepted chains (a violation must hold under both readings); see interp.* counters for what differs",
				"VersionForRound (the 8-rounds-back lookup used by consumers of the version) is not part of this world"},
			QuickBudget: 30 * time.Second, ThoroughBudget: 10 * time.Minute,
			MinRuns:    1000,
			Exec:       func(r *kit.Run) { runC12(r, o) },
			PanicClass: kit.PanicInRepo("version-panic"),
		})
	}
	reg("version", options{minWaitLo: 2}, "")
	if os.Getenv("VERSIONWORLD_AUX") != "" {
		reg("version-strict", options{strict: true, minWaitLo: 2}, "AUXILIARY PART: interpretation-dependent divergences (quorum that needs the approval of the block AT NextVoteBefore; NextVoteBefore rewritten after the threshold) are reported as violations.")
		reg("version-minwait0", options{minWaitLo: 0}, "AUXILIARY PART: min wait range extended to 0..8 (outside the designed parameter range).")
		reg("version-downgrade", options{minWaitLo: 2, downgrade: true}, "AUXILIARY PART: a switch to a lower version is reported (NOT part of C12: the quorum exists; honest builders approve any locally known version).")
	}
}

const maxVersions = 4

type vparams struct {
	voteRounds, threshold, minWait, maxWait uint64
	wait                                    uint64 // UpgradeWaitRounds: the delay a proposer of THIS version asks for
	next                                    int    // upgrade path in the newest release (0 = none)
}

type party struct {
	name string
	upTo int // the release knows versions 1..upTo
}

type world struct {
	r      *kit.Run
	opt    options
	n      int                      // number of versions in the full table
	p      [maxVersions + 2]vparams // index = version
	tables [maxVersions + 1]params.VersionsMap
	par    [3]party
	or     oracle
	noise  int // the Byzantine proposer perturbs fields of its template with chance noise/4
}

// table builds the params table of the release that knows versions 1..upTo. Imitates
// params/all_versions.go: every release appends versions and points the predecessor's
// ApprovedUpgradeVersion at the newest version it ships.
func (w *world) table(upTo int) params.VersionsMap {
	m := make(params.VersionsMap, upTo)
	for k := 1; k <= upTo; k++ {
		p := w.p[k]
		next := p.next
		if next > upTo {
			next = 0
			if k+1 <= upTo {
				next = k + 1
			}
		}
		m[params.YouVersion(k)] = params.YouParams{
			Version:                params.YouVersion(k),
			ApprovedUpgradeVersion: params.YouVersion(next),
			UpgradeWaitRounds:      p.wait,
			UpgradeVoteRounds:      p.voteRounds,
			UpgradeThreshold:       p.threshold,
			MinUpgradeWaitRounds:   p.minWait,
			MaxUpgradeWaitRounds:   p.maxWait,
		}
	}
	return m
}

func min64(a, b uint64) uint64 {
	if a < b {
		return a
	}
	return b
}

func (w *world) generate() {
	c := w.r.C
	w.n = 3 + c.Intn("versions", 2)
	for k := 1; k <= w.n; k++ {
		p := &w.p[k]
		p.voteRounds = uint64(c.Range("vote-rounds", 3, 12))
		p.threshold = uint64(c.Range("threshold", 2, int(min64(10, p.voteRounds))))
		p.minWait = uint64(c.Range("min-wait", w.opt.minWaitLo, 8))
		p.maxWait = uint64(c.Range("max-wait", int(p.minWait), 8))
		if k < w.n {
			p.next = k + 1
		}
	}
	// sometimes the newest release skips a version (k -> k+2); older releases still point at k+1
	if c.Chance("skip-path", 1, 6) {
		k := 1 + c.Intn("skip-from", w.n-2)
		w.p[k].next = k + 2
	}
	for k := 2; k <= w.n; k++ {
		hi := w.p[k-1].maxWait
		if k >= 3 {
			hi = min64(hi, w.p[k-2].maxWait)
		}
		w.p[k].wait = uint64(c.Range("proposer-wait", 0, int(hi)))
	}
	for j := 1; j <= w.n; j++ {
		w.tables[j] = w.table(j)
	}
	// releases of the three honest parties; 0 = everybody runs the newest release
	names := [3]string{"A", "B", "C"}
	for i := range w.par {
		w.par[i] = party{name: names[i], upTo: w.n - c.Intn("release-lag", w.n)}
	}
	w.r.Logf("config: %d versions", w.n)
	for k := 1; k <= w.n; k++ {
		p := w.p[k]
		w.r.Logf("  v%d: voteRounds=%d threshold=%d minWait=%d maxWait=%d proposerWait=%d next=v%d", k, p.voteRounds, p.threshold, p.minWait, p.maxWait, p.wait, p.next)
	}
	w.r.Logf("  releases: A knows v1..v%d, B v1..v%d, C v1..v%d; verifier F knows v1..v%d", w.par[0].upTo, w.par[1].upTo, w.par[2].upTo, w.n)
}

func newHeader(round uint64) *types.Header {
	// miner/worker.go:290-299: a fresh header with Number = parent+1; the version fields are
	// filled by ProcessYouVersionState
	return &types.Header{Number: new(big.Int).SetUint64(round)}
}

// build runs the real builder with the release's table (miner/worker.go:302).
func (w *world) build(upTo int, prev *types.Header) (*types.Header, error) {
	h := newHeader(prev.Number.Uint64() + 1)
	params.Versions = w.tables[upTo]
	if err := core.ProcessYouVersionState(prev, h); err != nil {
		return nil, err
	}
	return h, nil
}

// verify runs the real verifier with the release's table (core/blockchain.go:241). A verifier
// that does not know the versions involved would stop its node (logging.Crit): known=false.
func (w *world) verify(upTo int, prev, h *types.Header) (known bool, err error) {
	tb := w.tables[upTo]
	if _, ok := tb[prev.CurrVersion]; !ok {
		return false, nil
	}
	if prev.NextSwitchOn == h.Number.Uint64() {
		if _, ok := tb[prev.NextVersion]; !ok {
			return false, nil
		}
	}
	params.Versions = tb
	return true, core.VerifyYouVersionState(prev, h)
}

// verifiers lists the distinct releases acting as verifiers: the full table first.
func (w *world) verifiers() []int {
	out := []int{w.n}
	for _, p := range w.par {
		dup := false
		for _, u := range out {
			dup = dup || u == p.upTo
		}
		if !dup {
			out = append(out, p.upTo)
		}
	}
	return out
}

// acceptedByAll asks every honest verifier. ok = all that know the versions accept; none = no
// verifier knows the versions involved.
func (w *world) acceptedByAll(prev, h *types.Header) (ok, none bool, firstErr error, split bool) {
	acc, rej := 0, 0
	for _, u := range w.verifiers() {
		known, err := w.verify(u, prev, h)
		if !known {
			continue
		}
		if err != nil {
			rej++
			if firstErr == nil {
				firstErr = fmt.Errorf("verifier knowing v1..v%d: %v", u, err)
			}
		} else {
			acc++
		}
	}
	return acc > 0 && rej == 0, acc+rej == 0, firstErr, acc > 0 && rej > 0
}

func vs(h *types.Header) string {
	return fmt.Sprintf("v=%d next=%d appr=%d voteBefore=%d switchOn=%d", h.CurrVersion, h.NextVersion, h.NextApprovals, h.NextVoteBefore, h.NextSwitchOn)
}

func toHdr(h *types.Header) hdr {
	return hdr{round: h.Number.Uint64(), cur: uint64(h.CurrVersion), next: uint64(h.NextVersion), approvals: h.NextApprovals, voteBefore: h.NextVoteBefore, switchOn: h.NextSwitchOn}
}

func sameVersionFields(a, b *types.Header) bool {
	return a.CurrVersion == b.CurrVersion && a.NextVersion == b.NextVersion && a.NextApprovals == b.NextApprovals &&
		a.NextVoteBefore == b.NextVoteBefore && a.NextSwitchOn == b.NextSwitchOn
}

var probeNames = []string{"proposal opened", "threshold reached", "switch happened", "proposal expired without quorum",
	"approval at window boundary", "byzantine header accepted", "byzantine candidate rejected", "partial-table header differs from full-table header",
	"honest party cannot build (active version unknown)", "honest party withholds approval (proposed version unknown)", "release upgraded during run",
	"chain end: switch to a version no verifier knows", "proposal for same-or-lower version approved by an honest builder", "competing honest upgrade paths",
	"NextVoteBefore rewritten by accepted header", "switch to a lower version"}

func runC12(r *kit.Run, opt options) {
	orig := params.Versions
	defer func() { params.Versions = orig }()
	for _, p := range probeNames {
		r.Count("probe."+p, 0)
	}
	// always 0 on the real verifier: CurrVersion is pinned in every case (shown so that the
	// evidence says so instead of omitting the field)
	r.Count("fault.byzantine-field-mutation.CurrVersion", 0)
	r.Count("interp.quorum-needs-boundary-approval", 0)
	r.Count("interp.window-field-moved-after-threshold", 0)

	c := r.C
	w := &world{r: r, opt: opt}
	w.generate()
	w.or = oracle{ver: 1, strictMode: opt.strict, par: func(ver uint64) (uint64, uint64, uint64, bool) {
		if ver < 1 || int(ver) > w.n {
			return 0, 0, 0, false
		}
		p := w.p[ver]
		return p.threshold, p.voteRounds, p.minWait, true
	}}
	byzW := []int{0, 2, 5, 10}[c.Intn("byz-weight", 4)]
	w.noise = []int{0, 1, 2, 3}[c.Intn("byz-noise", 4)]
	length := c.Range("length", 20, 200)
	prev := newHeader(uint64(c.Range("genesis-round", 0, 40)))
	prev.CurrVersion = 1
	r.Logf("genesis #%d %s; byzWeight=%d noise=%d/4 length=%d", prev.Number.Uint64(), vs(prev), byzW, w.noise, length)

	lastTok := ""
	honestApprovals, downApprovals := 0, 0 // honest approvals of the open proposal (after this / after the parent block)
	for step := 0; step < length; step++ {
		r.Steps++
		n := prev.Number.Uint64() + 1
		// rolling upgrade: a party installs the next release
		if c.Chance("install-release", 1, 25) {
			i := c.Intn("who-installs", 3)
			if w.par[i].upTo < w.n {
				w.par[i].upTo++
				r.Probe("release upgraded during run")
				r.Logf("#%d party %s installs the release that knows v1..v%d", n, w.par[i].name, w.par[i].upTo)
			}
		}

		// clause 2 at every height: every honest party derives a header; every verifier that
		// knows the versions involved must accept it
		full, ferr := w.build(w.n, prev)
		var cand [3]*types.Header
		for i, p := range w.par {
			h, err := w.build(p.upTo, prev)
			if err != nil {
				// miner/worker.go:303: the node stops (log.Crit)
				continue
			}
			cand[i] = h
			ok, none, verr, split := w.acceptedByAll(prev, h)
			if split {
				r.Report("verifier-disagreement", "round %d: honest header {%s} built by %s (knows v1..v%d) on parent {%s} splits honest verifiers: %v", n, vs(h), p.name, p.upTo, vs(prev), verr)
			} else if !ok && !none {
				r.Report("honest-header-rejected", "round %d: header {%s} built by honest %s (knows v1..v%d) on accepted parent {%s} is rejected: %v", n, vs(h), p.name, p.upTo, vs(prev), verr)
			}
			// primary reading of the window, applied to honest builders only: an honest block
			// adds an approval only before the parent's NextVoteBefore
			if prev.NextVersion != 0 && h.NextVersion == prev.NextVersion && h.NextApprovals > prev.NextApprovals && n >= prev.NextVoteBefore {
				r.Report("honest-approval-outside-window", "round %d: honest %s turns parent {%s} into {%s}: approval added at a round >= NextVoteBefore", n, p.name, vs(prev), vs(h))
			}
		}

		// who proposes this block
		who := c.Weighted("proposer", []int{6, 3, 3, byzW})
		var h *types.Header
		actor := ""
		if who < 3 {
			p := w.par[who]
			h = cand[who]
			actor = fmt.Sprintf("%s(v1..v%d)", p.name, p.upTo)
			if h == nil {
				r.Fault("unknown-version-proposer")
				r.Probe("honest party cannot build (active version unknown)")
				// the slot goes to another honest party that can build, else to a hypothetical
				// honest node with the newest release
				for i := range cand {
					if cand[i] != nil {
						h, actor = cand[i], fmt.Sprintf("%s(v1..v%d) for stopped %s", w.par[i].name, w.par[i].upTo, p.name)
						break
					}
				}
				if h == nil {
					h, actor = full, "F (all parties stopped)"
				}
			} else {
				if p.upTo < w.n {
					r.Fault("heterogeneous-table")
					if full != nil && !sameVersionFields(h, full) {
						r.Probe("partial-table header differs from full-table header")
						if prev.NextVersion == 0 && h.NextVersion != 0 && full.NextVersion != 0 && h.NextVersion != full.NextVersion {
							r.Probe("competing honest upgrade paths")
						}
					}
				}
				if prev.NextVersion != 0 && n < prev.NextVoteBefore && h.NextVersion == prev.NextVersion && h.NextApprovals == prev.NextApprovals {
					r.Fault("unknown-version-proposer")
					r.Probe("honest party withholds approval (proposed version unknown)")
				}
				if prev.NextVersion != 0 && prev.NextVersion <= prev.CurrVersion && h.NextApprovals > prev.NextApprovals {
					r.Probe("proposal for same-or-lower version approved by an honest builder")
				}
			}
		} else {
			h = w.byzantine(prev, full, cand)
			actor = "byz"
		}
		if h == nil {
			if ferr != nil {
				// nobody, not even the full table, can extend the chain
				r.Logf("#%d nobody can build: %v", n, ferr)
			}
			break
		}
		// the chain only ever contains headers every honest verifier accepts
		ok, none, verr, _ := w.acceptedByAll(prev, h)
		if none {
			r.Probe("chain end: switch to a version no verifier knows")
			r.Logf("#%d %s: {%s} cannot be judged: no verifier knows v%d (nodes stop: logging.Crit)", n, actor, vs(h), prev.NextVersion)
			break
		}
		if !ok {
			// already reported above for honest parties; the chain cannot contain it
			r.Logf("#%d %s: {%s} REJECTED: %v", n, actor, vs(h), verr)
			break
		}

		parent := toHdr(prev)
		w.or.step(parent, toHdr(h))
		for _, s := range w.or.soft {
			r.Count("interp."+s, 1)
		}
		evs := ""
		for _, e := range w.or.events {
			evs += " " + e
			switch e {
			case "proposal-opened":
				r.Probe("proposal opened")
			case "threshold-reached":
				r.Probe("threshold reached")
			case "switch":
				r.Probe("switch happened")
			case "expired-without-quorum":
				r.Probe("proposal expired without quorum")
			case "approval-at-window-boundary":
				r.Probe("approval at window boundary")
			}
		}
		for _, s := range w.or.soft {
			evs += " (" + s + ")"
		}
		if prev.NextVersion != 0 && h.NextVersion == prev.NextVersion && h.NextVoteBefore != prev.NextVoteBefore {
			r.Probe("NextVoteBefore rewritten by accepted header")
		}
		// observation outside C12: approvals that honest builders gave to a proposal for a lower version
		if prev.NextVersion == 0 || h.NextVersion != prev.NextVersion {
			honestApprovals = 0
		}
		if who < 3 && h.NextVersion != 0 && (h.NextVersion != prev.NextVersion || h.NextApprovals > prev.NextApprovals) {
			honestApprovals++
		}
		if h.CurrVersion < prev.CurrVersion {
			r.Probe("switch to a lower version")
			if opt.downgrade && downApprovals > 0 {
				r.Report("observation-downgrade", "round %d: version %d -> %d; %d of the %d approvals were added by honest builders | parent {%s}", n, prev.CurrVersion, h.CurrVersion, downApprovals, prev.NextApprovals, vs(prev))
			}
		}
		downApprovals = honestApprovals
		r.Logf("#%d %s: %s |%s", n, actor, vs(h), evs)
		for _, v := range w.or.hard {
			r.Report(v.class, "%s | parent {%s} header {%s} by %s", v.detail, vs(prev), vs(h), actor)
		}
		// fingerprint: the sequence of (actor class, action, oracle events) with repetitions of
		// the same token collapsed, i.e. the shape of the history rather than its lengths
		cls := "Z"
		if who < 3 {
			cls = "H"
			if w.par[who].upTo < w.n {
				cls = "P"
			}
		}
		if tok := cls + ":" + abstract(prev, h) + evs; tok != lastTok {
			r.FP(tok)
			lastTok = tok
		}
		prev = h
	}
}

// abstract maps a (parent, header) pair to a coarse action name for the fingerprint.
func abstract(prev, h *types.Header) string {
	switch {
	case h.CurrVersion != prev.CurrVersion:
		return "switch"
	case prev.NextVersion == 0 && h.NextVersion == 0:
		return "idle"
	case prev.NextVersion == 0:
		return "open"
	case h.NextVersion == 0:
		return "clear"
	case h.NextApprovals > prev.NextApprovals:
		return "approve"
	default:
		return "hold"
	}
}
