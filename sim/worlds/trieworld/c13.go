package trieworld

import (
	"bytes"
	"fmt"
	"sort"
	"time"

	"verifsim/kit"
	"verifsim/simdisk"

	"github.com/youchainhq/go-youchain/common"
	"github.com/youchainhq/go-youchain/crypto"
	"github.com/youchainhq/go-youchain/trie"
	"github.com/youchainhq/go-youchain/youdb"
)

func init() {
	kit.Register(&kit.Check{
		Prop: "C13", Name: "trie", World: "TRIE", Level: "exploration",
		Rule: "one run = a seeded plan of 20..200 operations over up to 3 working tries (trie.Trie, trie.SecureTrie with seeded cache limits, and a " +
			"database-less zero-value Trie as core/types.DeriveSha uses it) on one trie.Database over the simulated disk: update/delete/get with keys from " +
			"tiny alphabets (fixed length, variable length 0..3 bytes = keys that are prefixes of each other incl. the empty key, 31..40-byte keys with a long " +
			"shared prefix, rlp(index) keys), values of 1..150 bytes around the 32-byte embedding boundary, zero-length value = delete; Hash; " +
			"trie.Commit followed by Reference(root,{}) and/or Database.Commit(root); leaf values that reference another trie's root, registered through the " +
			"Commit leaf callback exactly as StateDB.Commit does (statedb.go:893-910); Reference/Dereference of other roots; Cap(limit) with seeded limits; " +
			"reopen by root; rebuild of the same content in a seeded order; restart = brand-new trie.Database over disk.Restart(); NodeIterator/trie.NewIterator " +
			"with and without a start key, LeafProof; Prove/VerifyProof for present and absent keys. Faults: restart at seeded points (and a cold re-read on " +
			"the durable image after EVERY Database.Commit), garbage collection of other roots, cache flushes, proof corruption in transit (every single-byte " +
			"flip of every proof node once per run plus seeded flips, dropped node, node substituted from another proof or trie, truncated node). " +
			"Oracle: a Go map model after every step; root == an independent Merkle-Patricia root calculator written in the harness from the yellow-paper " +
			"definition (rlp + Keccak only); iteration == model (ascending when the key set is prefix-free); every root that is pinned, persisted or referenced " +
			"by a live parent serves exactly its content after every GC/Cap/Commit/restart; VerifyProof == model value or absence; a tampered proof yields an " +
			"error or the same answer. A run is non-trivial when a restart, a collecting Dereference, a flushing Cap or a proof corruption fired.",
		Real: []string{"trie.Trie", "trie.SecureTrie", "trie.Database (Commit/Reference/Dereference/Cap, preimages)", "trie node iterator and key-value iterator",
			"trie.Prove / trie.VerifyProof / LeafProof", "rlp", "crypto.Keccak256"},
		Stub: []string{"callers of the trie (operation patterns of core/state, core/types.DeriveSha and, for Reference/Dereference/Cap which have no caller in this repository besides StateDB.Commit, of go-ethereum's blockchain garbage collector)",
			"the receiver of a proof (stores every received node under the Keccak of its bytes, then calls the real VerifyProof)"},
		FaultsNotInjected: []string{
			"crash inside Database.Commit/Cap: both write one youdb batch (atomic in the crash model; a batch only splits above 100 KiB, not reached with <= 64 keys), so the restart points after each operation are all crash points there are",
			"a proof database whose keys are not the hashes of its values: VerifyProof trusts its DatabaseReader by design, hashing is the receiver's job",
			"Dereference of a root the caller never referenced, or use of a trie whose base root the caller released: API misuse, no guarantee stated"},
		Assumptions: []string{"seek (NodeIterator(start)) is compared strictly only when no key (nor the start key) is a prefix of another; otherwise every key >= start must be returned exactly once and nothing outside the model",
			"roots that are neither referenced from the meta root, persisted, nor referenced by a live parent leaf are not required to survive"},
		QuickBudget: 40 * time.Second, ThoroughBudget: 12 * time.Minute,
		MinRuns:    200,
		Exec:       runC13,
		PanicClass: panicInRepo("trie-panic"),
		// reach probes every batch is expected to hit (listed in the evidence as probes_never_hit otherwise)
		ExpectedProbes: []string{"commit-of-32+-keys", "continued-on-reopened-root", "embedded-node-in-trie", "gc-with-other-live-roots", "leaf-references-other-root", "proof-all-single-byte-flips", "proof-of-absent-key", "proof-of-present-key", "rebuilt-in-other-order", "restart-with-unpersisted-roots", "same-root-committed-again", "value-at-branch"},
	})
}

// anyTrie is the part of the Trie / SecureTrie API the plans use.
type anyTrie interface {
	TryGet(key []byte) ([]byte, error)
	TryUpdate(key, value []byte) error
	TryDelete(key []byte) error
	Hash() common.Hash
	Commit(onleaf trie.LeafCallback) (common.Hash, error)
	NodeIterator(start []byte) trie.NodeIterator
	Prove(key []byte, fromLevel uint, proofDb youdb.Putter) error
}

const (
	kindRaw = iota
	kindSecure
	kindNoDB
)

const linkTag = 0xEE

var (
	alphabets = [][]byte{
		{0x00, 0x01, 0x10, 0x11},
		{0xab, 0xac, 0xbb, 0xa0},
		{0x00, 0x0f, 0xf0, 0xff},
	}
	valSizes = []int{1, 2, 5, 20, 30, 31, 32, 33, 34, 60, 150}
	valFills = []byte{0x01, 0x00, 0x7f, 0x80, 0xff}
)

const (
	schemeFixed = iota
	schemeVar
	schemeLong
	schemeRlpIdx
	schemeVarLong
	nSchemes
)

type keyGen struct {
	scheme int
	alpha  int
	length int // fixed length / long-prefix length
}

func newKeyGen(c *kit.Chooser, kind int) keyGen {
	g := keyGen{alpha: c.Intn("alphabet", len(alphabets))}
	switch kind {
	case kindNoDB:
		g.scheme = schemeRlpIdx
		if c.Chance("nodb-other-scheme", 1, 3) {
			g.scheme = c.Intn("scheme", nSchemes)
		}
	case kindSecure:
		g.scheme = c.Intn("scheme", 2) // original keys; hashing makes them uniform anyway
	default:
		g.scheme = c.Weighted("scheme", []int{4, 4, 2, 1, 2})
	}
	switch g.scheme {
	case schemeFixed:
		g.length = 1 + c.Weighted("keylen", []int{1, 3, 3})
	case schemeLong:
		g.length = []int{30, 29, 31, 38}[c.Intn("prefixlen", 4)]
	}
	return g
}

func (g keyGen) key(c *kit.Chooser) []byte {
	a := alphabets[g.alpha]
	pick := func(n int) []byte {
		k := make([]byte, n)
		for i := range k {
			k[i] = a[c.Intn("keybyte", len(a))]
		}
		return k
	}
	switch g.scheme {
	case schemeFixed:
		return pick(g.length)
	case schemeVar:
		return pick(c.Intn("keylen", 4))
	case schemeLong:
		return append(bytes.Repeat([]byte{0x55}, g.length), pick(2)...)
	case schemeRlpIdx:
		// core/types/derive_sha.go:35: rlp.Encode(keybuf, uint(i))
		return mustRLP(uint(c.Intn("index", 200)))
	default: // schemeVarLong: short keys, some with a 33-byte tail (long leaf paths under branch values)
		k := pick(c.Intn("keylen", 3))
		if c.Chance("tail", 1, 3) {
			k = append(k, bytes.Repeat([]byte{0x77}, 33)...)
		}
		return k
	}
}

func mkValue(c *kit.Chooser) []byte {
	n := valSizes[c.Intn("valsize", len(valSizes))]
	v := bytes.Repeat([]byte{valFills[c.Intn("valfill", len(valFills))]}, n)
	v[n-1] = byte(c.Intn("valtag", 3))
	if n == 1 && c.Chance("high-byte", 1, 2) {
		v[0] |= 0x80
	}
	return v
}

func linkValue(h common.Hash) []byte { return append([]byte{linkTag}, h[:]...) }

func linkOf(v []byte) (common.Hash, bool) {
	if len(v) == 33 && v[0] == linkTag {
		return common.BytesToHash(v[1:]), true
	}
	return common.Hash{}, false
}

// rootRec is one committed root the harness keeps alive and re-checks.
type rootRec struct {
	hash      common.Hash
	kind      int
	gen       keyGen
	limit     uint16
	content   map[string][]byte
	pins      int           // outstanding Reference(root, {}) calls
	persisted bool          // Database.Commit(root) (or of a parent referencing it) returned
	links     []common.Hash // roots referenced from leaf values of this trie (in key order)
}

func linksOf(content map[string][]byte) []common.Hash {
	var out []common.Hash
	for _, k := range sortedKeys(content) {
		if h, is := linkOf(content[k]); is {
			out = append(out, h)
		}
	}
	return out
}

type work struct {
	id    int
	kind  int
	t     anyTrie
	sec   *trie.SecureTrie
	model map[string][]byte
	base  common.Hash // root the clean part of the in-memory trie belongs to (zero: none)
	gen   keyGen
	limit uint16
}

type env13 struct {
	r     *kit.Run
	c     *kit.Chooser
	disk  *simdisk.Disk
	tdb   *trie.Database
	roots []*rootRec
	works []*work
	cur   int
	nextW int
	// proofs remembered for node substitution
	otherProof  [][]byte
	flipAllDone bool
}

func copyModel(m map[string][]byte) map[string][]byte {
	o := make(map[string][]byte, len(m))
	for k, v := range m {
		o[k] = v
	}
	return o
}

func sortedKeys(m map[string][]byte) []string {
	ks := make([]string, 0, len(m))
	for k := range m {
		ks = append(ks, k)
	}
	sort.Strings(ks)
	return ks
}

func prefixFree(keys []string) bool {
	// keys sorted: a prefix sorts directly before one of its extensions
	for i := 1; i < len(keys); i++ {
		if len(keys[i-1]) <= len(keys[i]) && keys[i][:len(keys[i-1])] == keys[i-1] {
			return false
		}
	}
	return true
}

func (e *env13) rec(h common.Hash) *rootRec {
	for _, r := range e.roots {
		if r.hash == h {
			return r
		}
	}
	return nil
}

// alive computes which tracked roots the database contract obliges to stay readable: pinned
// from the meta root, persisted, or referenced (leaf callback) by an alive parent.
func (e *env13) alive() map[common.Hash]bool {
	al := map[common.Hash]bool{}
	for changed := true; changed; {
		changed = false
		for _, r := range e.roots {
			if al[r.hash] {
				continue
			}
			ok := r.pins > 0 || r.persisted
			if !ok {
				for _, p := range e.roots {
					if !al[p.hash] {
						continue
					}
					for _, h := range p.links {
						if h == r.hash {
							ok = true
						}
					}
				}
			}
			if ok {
				al[r.hash] = true
				changed = true
			}
		}
	}
	return al
}

// sweep forgets roots that are no longer alive and discards working tries built on them.
func (e *env13) sweep() {
	al := e.alive()
	var keep []*rootRec
	for _, r := range e.roots {
		if al[r.hash] {
			keep = append(keep, r)
			continue
		}
		e.r.Logf("  root %s is released (no pin, not persisted, no live parent)", short(r.hash))
		for i, w := range e.works {
			if w != nil && w.base == r.hash {
				e.r.Logf("  working trie w%d discarded: its base root was released", w.id)
				e.works[i] = nil
			}
		}
	}
	e.roots = keep
}

// markPersisted marks a root and everything it references durable (Database.Commit walks
// external children too, database.go:653).
func (e *env13) markPersisted(h common.Hash) {
	r := e.rec(h)
	if r == nil || r.persisted {
		return
	}
	r.persisted = true
	for _, ch := range r.links {
		e.markPersisted(ch)
	}
}

func (e *env13) newWork(kind int) *work {
	c := e.c
	w := &work{id: e.nextW, kind: kind, model: map[string][]byte{}}
	e.nextW++
	w.gen = newKeyGen(c, kind)
	switch kind {
	case kindRaw:
		t, err := trie.New(common.Hash{}, e.tdb)
		if err != nil {
			e.r.Fail("open-empty-failed", "trie.New(empty): %v", err)
		}
		if c.Chance("raw-cachelimit", 1, 4) {
			w.limit = uint16(1 + c.Intn("limit", 3))
			t.SetCacheLimit(w.limit)
		}
		w.t = t
	case kindSecure:
		w.limit = []uint16{0, 1, 2, 120}[c.Intn("sec-cachelimit", 4)]
		t, err := trie.NewSecure(common.Hash{}, e.tdb, w.limit)
		if err != nil {
			e.r.Fail("open-empty-failed", "trie.NewSecure(empty): %v", err)
		}
		w.t, w.sec = t, t
	case kindNoDB:
		w.t = new(trie.Trie) // core/types/derive_sha.go:32
	}
	e.r.Logf("new working trie w%d kind=%d scheme=%d alpha=%d len=%d limit=%d", w.id, kind, w.gen.scheme, w.gen.alpha, w.gen.length, w.limit)
	return w
}

func (e *env13) open(rec *rootRec, tdb *trie.Database) (anyTrie, *trie.SecureTrie, error) {
	if rec.kind == kindSecure {
		t, err := trie.NewSecure(rec.hash, tdb, rec.limit)
		if err != nil {
			return nil, nil, err
		}
		return t, t, nil
	}
	t, err := trie.New(rec.hash, tdb)
	if err != nil {
		return nil, nil, err
	}
	if rec.limit > 0 {
		t.SetCacheLimit(rec.limit)
	}
	return t, nil, nil
}

func trieKey(kind int, k []byte) []byte {
	if kind == kindSecure {
		return crypto.Keccak256(k)
	}
	return k
}

// checkContent compares a trie with a model: every key by lookup, absent keys, and (deep) the
// full iteration through both iterator layers.
func (e *env13) checkContent(what string, kind int, t anyTrie, sec *trie.SecureTrie, model map[string][]byte, deep bool) bool {
	r := e.r
	keys := sortedKeys(model)
	for _, k := range keys {
		got, err := t.TryGet([]byte(k))
		if err != nil {
			r.Report("lookup-error", "%s: TryGet(%s): %v", what, keyName([]byte(k)), err)
			return false
		}
		if !bytes.Equal(got, model[k]) {
			r.Report("lookup-mismatch", "%s: Get(%s) = %s, model has %s", what, keyName([]byte(k)), valName(got), valName(model[k]))
			return false
		}
	}
	if !deep {
		return true
	}
	// expected iteration: trie keys (hashed for the secure trie) in ascending order
	type pair struct{ k, v []byte }
	exp := make([]pair, 0, len(keys))
	pre := map[string]string{}
	for _, k := range keys {
		tk := trieKey(kind, []byte(k))
		exp = append(exp, pair{tk, model[k]})
		pre[string(tk)] = k
	}
	sort.Slice(exp, func(i, j int) bool { return bytes.Compare(exp[i].k, exp[j].k) < 0 })
	tks := make([]string, len(exp))
	for i := range exp {
		tks[i] = string(exp[i].k)
	}
	ordered := prefixFree(tks)
	var got []pair
	it := trie.NewIterator(t.NodeIterator(nil))
	for it.Next() {
		got = append(got, pair{append([]byte{}, it.Key...), append([]byte{}, it.Value...)})
		if len(got) > len(exp)+4 {
			break
		}
	}
	if it.Err != nil {
		r.Report("iteration-error", "%s: iterator error after %d of %d entries: %v", what, len(got), len(exp), it.Err)
		return false
	}
	if !ordered {
		sort.SliceStable(got, func(i, j int) bool { return bytes.Compare(got[i].k, got[j].k) < 0 })
	}
	if len(got) != len(exp) {
		r.Report("iteration-mismatch", "%s: iteration returned %d entries, model has %d (ordered=%v)", what, len(got), len(exp), ordered)
		return false
	}
	for i := range exp {
		if !bytes.Equal(got[i].k, exp[i].k) || !bytes.Equal(got[i].v, exp[i].v) {
			cls := "iteration-mismatch"
			if ordered {
				// same set in another order?
				cls = "iteration-order-or-content"
			}
			r.Report(cls, "%s: entry %d is %s=%s, expected %s=%s (ascending expected=%v)", what, i, keyName(got[i].k), valName(got[i].v), keyName(exp[i].k), valName(exp[i].v), ordered)
			return false
		}
	}
	if sec != nil {
		for _, p := range exp {
			if orig := sec.GetKey(p.k); !bytes.Equal(orig, []byte(pre[string(p.k)])) {
				r.Report("secure-preimage-mismatch", "%s: GetKey(%s) = %s, the key stored was %s", what, keyName(p.k), keyName(orig), keyName([]byte(pre[string(p.k)])))
				return false
			}
		}
	}
	return true
}

// verifyRec opens a root on a database and checks its whole content.
func (e *env13) verifyRec(when string, rec *rootRec, tdb *trie.Database) bool {
	what := fmt.Sprintf("root %s (kind %d, pins %d, persisted %v) %s", short(rec.hash), rec.kind, rec.pins, rec.persisted, when)
	t, sec, err := e.open(rec, tdb)
	if err != nil {
		e.r.Report("live-root-unreadable", "%s: open: %v", what, err)
		return false
	}
	if !e.checkContent(what, rec.kind, t, sec, rec.content, true) {
		return false
	}
	if h := t.Hash(); h != rec.hash {
		e.r.Report("reopened-root-differs", "%s: Hash() of the reopened trie is %s", what, short(h))
		return false
	}
	return true
}

func (e *env13) verifyAll(when string) {
	al := e.alive()
	for _, rec := range e.roots {
		if al[rec.hash] {
			e.verifyRec(when, rec, e.tdb)
		}
	}
	e.r.Count("roots-verified", int64(len(al)))
}

// onleaf imitates the callback of StateDB.Commit (statedb.go:893-910): leaf values that carry
// a reference to another trie register it with the database.
func (e *env13) onleaf(leaf []byte, parent common.Hash) error {
	if h, is := linkOf(leaf); is {
		e.tdb.Reference(h, parent)
		e.r.Count("leaf-references", 1)
	}
	return nil
}

func (e *env13) hashCheck(w *work, how string) bool {
	got := w.t.Hash()
	mk := w.model
	if w.kind == kindSecure {
		mk = make(map[string][]byte, len(w.model))
		for k, v := range w.model {
			mk[string(crypto.Keccak256([]byte(k)))] = v
		}
	}
	want, st := refRootStats(mk)
	if st.embedded > 0 {
		e.r.Probe("embedded-node-in-trie")
	}
	if st.branchValues > 0 {
		e.r.Probe("value-at-branch")
	}
	if got != want {
		e.r.Report("root-differs-from-reference", "w%d %s: Hash() = %x, independent Merkle-Patricia calculator gives %x for the %d surviving keys %s", w.id, how, got, want, len(w.model), describeKeys(w.model))
		return false
	}
	return true
}

func describeKeys(m map[string][]byte) string {
	ks := sortedKeys(m)
	var b bytes.Buffer
	for i, k := range ks {
		if i >= 12 {
			fmt.Fprintf(&b, " …")
			break
		}
		fmt.Fprintf(&b, " %s=%s", keyName([]byte(k)), valName(m[k]))
	}
	return b.String()
}

func runC13(r *kit.Run) {
	c := r.C
	e := &env13{r: r, c: c, disk: simdisk.New()}
	e.tdb = trie.NewDatabase(e.disk)
	e.works = []*work{e.newWork(c.Weighted("first-kind", []int{5, 3, 2})), nil, nil}
	nOps := 20 + c.Intn("nops", 181)
	weights := []int{
		30, // 0 update
		12, // 1 delete
		6,  // 2 get
		8,  // 3 hash
		10, // 4 commit + pin / persist
		5,  // 5 dereference
		2,  // 6 reference again
		4,  // 7 cap
		3,  // 8 persist a live root
		4,  // 9 reopen a live root
		2,  // 10 restart
		5,  // 11 iterate
		5,  // 12 prove
		3,  // 13 new / rebuilt working trie
		4,  // 14 link another root into a leaf and commit
		3,  // 15 switch working trie
		5,  // 16 bulk update (grows the trie quickly)
	}
	for i := 0; i < nOps; i++ {
		r.Steps++
		w := e.works[e.cur]
		if w == nil {
			// the current working trie was discarded: continue on a live root or a fresh trie
			w = e.replaceWork(e.cur)
		}
		switch op := c.Weighted("op", weights); op {
		case 0, 1:
			e.opUpdate(w, op == 1)
		case 2:
			e.opGet(w)
		case 3:
			if e.hashCheck(w, "Hash") {
				r.Logf("w%d Hash ok (%d keys)", w.id, len(w.model))
			}
			r.FP("hash")
		case 4:
			e.opCommit(w)
		case 5:
			e.opDereference()
		case 6:
			e.opReference()
		case 7:
			e.opCap()
		case 8:
			e.opPersist()
		case 9:
			e.replaceWork(c.Intn("slot", len(e.works)))
		case 10:
			e.opRestart()
		case 11:
			e.opIterate(w)
		case 12:
			e.opProve(w)
		case 13:
			e.opNewWork()
		case 14:
			e.opLink(w)
		case 15:
			e.cur = c.Intn("slot", len(e.works))
			r.Logf("switch to slot %d", e.cur)
			r.FP("switch")
		case 16:
			for n := 4 + c.Intn("bulk", 21); n > 0 && len(r.Violations) == 0; n-- {
				e.opUpdate(w, c.Chance("bulk-delete", 1, 6))
			}
		}
		if len(r.Violations) > 0 {
			return // later steps would only repeat the same finding in other words
		}
	}
	// final: everything alive must still be exact, also for a process that starts now
	e.verifyAll("at the end of the run")
	e.coldCheck("at the end of the run")
}

// replaceWork fills a slot with a working trie reopened from a live root (or a fresh one).
func (e *env13) replaceWork(slot int) *work {
	c := e.c
	al := e.alive()
	var cands []*rootRec
	for _, rec := range e.roots {
		if al[rec.hash] {
			cands = append(cands, rec)
		}
	}
	var w *work
	if len(cands) == 0 || c.Chance("fresh-instead", 1, 5) {
		w = e.newWork(c.Weighted("kind", []int{5, 3, 2}))
	} else {
		rec := cands[len(cands)-1-c.Intn("which-root", len(cands))]
		t, sec, err := e.open(rec, e.tdb)
		if err != nil {
			e.r.Fail("live-root-unreadable", "reopen of root %s (pins %d, persisted %v): %v", short(rec.hash), rec.pins, rec.persisted, err)
		}
		w = &work{id: e.nextW, kind: rec.kind, t: t, sec: sec, model: copyModel(rec.content), base: rec.hash, gen: rec.gen, limit: rec.limit}
		e.nextW++
		e.r.Logf("reopen root %s as w%d (%d keys)", short(rec.hash), w.id, len(w.model))
		e.r.FP("reopen")
		e.r.Probe("continued-on-reopened-root")
		e.checkContent(fmt.Sprintf("w%d just reopened from %s", w.id, short(rec.hash)), w.kind, w.t, w.sec, w.model, true)
	}
	e.works[slot] = w
	e.cur = slot
	return w
}

func (e *env13) opUpdate(w *work, del bool) {
	c, r := e.c, e.r
	key := w.gen.key(c)
	if len(w.model) >= 64 {
		if _, has := w.model[string(key)]; !has {
			del = true // bound: at most 64 keys
			ks := sortedKeys(w.model)
			key = []byte(ks[c.Intn("victim", len(ks))])
		}
	}
	var err error
	switch {
	case del && c.Chance("delete-by-empty-value", 1, 3):
		// zero-length value means delete (trie.go:181)
		err = w.t.TryUpdate(key, []byte{})
		delete(w.model, string(key))
		r.Logf("w%d Update(%s, <empty>)", w.id, keyName(key))
		r.FP("upd-empty")
	case del:
		err = w.t.TryDelete(key)
		delete(w.model, string(key))
		r.Logf("w%d Delete(%s)", w.id, keyName(key))
		r.FP("del")
	default:
		v := mkValue(c)
		err = w.t.TryUpdate(key, v)
		w.model[string(key)] = v
		r.Logf("w%d Update(%s, %s)", w.id, keyName(key), valName(v))
		r.FP("upd")
	}
	if err != nil {
		r.Report("update-error", "w%d (base %s): update/delete of %s failed: %v", w.id, short(w.base), keyName(key), err)
		return
	}
	got, err := w.t.TryGet(key)
	if err != nil || !bytes.Equal(got, w.model[string(key)]) {
		r.Report("lookup-mismatch", "w%d: right after the write, Get(%s) = %s (err %v), model has %s", w.id, keyName(key), valName(got), err, valName(w.model[string(key)]))
	}
}

func (e *env13) opGet(w *work) {
	key := w.gen.key(e.c)
	if e.c.Chance("neighbour", 1, 4) {
		key = append(key, byte(e.c.Intn("extra", 4)))
	}
	got, err := w.t.TryGet(key)
	want := w.model[string(key)]
	e.r.Logf("w%d Get(%s) -> %s", w.id, keyName(key), valName(got))
	e.r.FP("get")
	if err != nil {
		e.r.Report("lookup-error", "w%d (base %s): TryGet(%s): %v", w.id, short(w.base), keyName(key), err)
	} else if !bytes.Equal(got, want) {
		e.r.Report("lookup-mismatch", "w%d: Get(%s) = %s, model has %s", w.id, keyName(key), valName(got), valName(want))
	}
}

// opCommit: trie.Commit, then what callers do with the root: reference it from the meta root
// (go-ethereum's blockchain.go, the caller Reference/Dereference/Cap were written for) and/or
// persist it (core/blockchain.go:811 of this repository).
func (e *env13) opCommit(w *work) {
	c, r := e.c, e.r
	if w.kind == kindNoDB {
		// a database-less trie cannot be committed (trie.go:434); hashing is all DeriveSha does
		e.hashCheck(w, "Hash (db-less)")
		r.FP("hash")
		return
	}
	e.checkContent(fmt.Sprintf("w%d before commit", w.id), w.kind, w.t, w.sec, w.model, false)
	var cb trie.LeafCallback
	if w.kind == kindRaw {
		cb = e.onleaf
	}
	root, err := w.t.Commit(cb)
	if err != nil {
		r.Report("commit-error", "w%d trie.Commit: %v", w.id, err)
		return
	}
	if !e.hashCheck(w, "Commit") {
		return
	}
	if h := w.t.Hash(); h != root {
		r.Report("root-differs-from-reference", "w%d: Commit returned %x but Hash() says %x", w.id, root, h)
		return
	}
	how := c.Weighted("after-commit", []int{5, 3, 2}) // 0 pin, 1 persist, 2 both
	if len(w.model) == 0 {
		r.Logf("w%d Commit -> empty root", w.id)
		w.base = common.Hash{}
		r.FP("commit-empty")
		return
	}
	rec := e.rec(root)
	if rec == nil {
		rec = &rootRec{hash: root, kind: w.kind, gen: w.gen, limit: w.limit, content: copyModel(w.model), links: linksOf(w.model)}
		e.roots = append(e.roots, rec)
	} else {
		r.Probe("same-root-committed-again")
		if rec.kind != w.kind {
			// same node set reached as a raw and as a secure trie: keep the first view
			r.Logf("  (root %s already known with kind %d)", short(root), rec.kind)
		}
	}
	w.base = root
	if how == 0 || how == 2 {
		e.tdb.Reference(root, common.Hash{})
		rec.pins++
	}
	r.Logf("w%d Commit -> %s (%d keys) then how=%d pins=%d", w.id, short(root), len(w.model), how, rec.pins)
	r.Count("keys-at-commit", int64(len(w.model)))
	r.Count("commits", 1)
	if len(w.model) >= 32 {
		r.Probe("commit-of-32+-keys")
	}
	r.FP("commit", fmt.Sprint(how))
	if how == 1 || how == 2 {
		e.persist(rec)
	}
	e.limitRoots()
	e.sweep()
	e.verifyAll("after commit of " + short(root))
}

func (e *env13) persist(rec *rootRec) {
	if err := e.tdb.Commit(rec.hash, false); err != nil {
		e.r.Report("commit-error", "Database.Commit(%s): %v", short(rec.hash), err)
		return
	}
	e.markPersisted(rec.hash)
	e.r.Logf("Database.Commit(%s) disk log=%d", short(rec.hash), e.disk.LogLen())
	e.r.FP("persist")
	// the process may die right here: a new process must find everything persisted so far
	e.coldCheck("on the durable image right after Database.Commit(" + short(rec.hash) + ")")
}

// coldCheck reads every persisted root through a brand-new Database over the durable image.
func (e *env13) coldCheck(when string) {
	img := e.disk.Restart()
	cold := trie.NewDatabase(img)
	n := 0
	for _, rec := range e.roots {
		if rec.persisted {
			e.verifyRec(when, rec, cold)
			n++
		}
	}
	if n > 0 {
		e.r.Count("cold-checks", int64(n))
	}
}

// limitRoots keeps at most 6 tracked roots by releasing the oldest the way a caller would:
// drop its references; a persisted root stays on disk and is merely no longer re-checked.
func (e *env13) limitRoots() {
	for guard := 0; len(e.roots) > 6 && guard < 8; guard++ {
		var rec *rootRec
		for _, x := range e.roots {
			if x.pins > 0 || x.persisted {
				rec = x
				break
			}
		}
		if rec == nil {
			return // everything left is held by parents' references
		}
		for rec.pins > 0 {
			e.tdb.Dereference(rec.hash)
			rec.pins--
		}
		e.r.Logf("release oldest root %s (persisted=%v)", short(rec.hash), rec.persisted)
		if rec.persisted {
			for i, x := range e.roots {
				if x == rec {
					e.roots = append(e.roots[:i:i], e.roots[i+1:]...)
					break
				}
			}
		} else {
			e.r.Fault("gc.dereference")
			e.sweep()
		}
	}
}

func (e *env13) opDereference() {
	var cands []*rootRec
	for _, rec := range e.roots {
		if rec.pins > 0 {
			cands = append(cands, rec)
		}
	}
	if len(cands) == 0 {
		e.r.FP("deref-none")
		return
	}
	rec := cands[e.c.Intn("which-pinned", len(cands))]
	others := len(e.alive()) - 1
	e.tdb.Dereference(rec.hash)
	rec.pins--
	e.r.Logf("Dereference(%s) pins now %d persisted=%v", short(rec.hash), rec.pins, rec.persisted)
	e.r.FP("deref", fmt.Sprint(rec.pins == 0))
	if rec.pins == 0 && !rec.persisted {
		e.r.Fault("gc.dereference")
		if others > 0 {
			e.r.Probe("gc-with-other-live-roots")
		}
	}
	e.sweep()
	e.verifyAll("after Dereference(" + short(rec.hash) + ")")
}

func (e *env13) opReference() {
	al := e.alive()
	var cands []*rootRec
	for _, rec := range e.roots {
		if al[rec.hash] {
			cands = append(cands, rec)
		}
	}
	if len(cands) == 0 {
		e.r.FP("ref-none")
		return
	}
	rec := cands[e.c.Intn("which-live", len(cands))]
	e.tdb.Reference(rec.hash, common.Hash{})
	rec.pins++
	e.r.Logf("Reference(%s, meta) pins now %d", short(rec.hash), rec.pins)
	e.r.FP("ref")
}

func (e *env13) opCap() {
	size, _ := e.tdb.Size()
	var limit common.StorageSize
	if size > 0 && !e.c.Chance("cap-everything", 1, 3) {
		limit = common.StorageSize(e.c.Intn("cap-limit", int(size)+1))
	}
	before := e.disk.LogLen()
	if err := e.tdb.Cap(limit); err != nil {
		e.r.Report("commit-error", "Database.Cap(%v): %v", limit, err)
		return
	}
	after, _ := e.tdb.Size()
	e.r.Logf("Cap(%d) cache %d -> %d bytes", int(limit), int(size), int(after))
	e.r.FP("cap", fmt.Sprint(after < size))
	if e.disk.LogLen() > before {
		e.r.Fault("cache.cap-flush")
	}
	e.verifyAll(fmt.Sprintf("after Cap(%d)", int(limit)))
}

func (e *env13) opPersist() {
	al := e.alive()
	var cands []*rootRec
	for _, rec := range e.roots {
		if al[rec.hash] {
			cands = append(cands, rec)
		}
	}
	if len(cands) == 0 {
		e.r.FP("persist-none")
		return
	}
	rec := cands[e.c.Intn("which-live", len(cands))]
	e.persist(rec)
	e.verifyAll("after Database.Commit(" + short(rec.hash) + ")")
}

// opRestart: the process dies; only the disk survives. A brand-new Database serves the
// persisted roots; everything else is gone and no longer expected.
func (e *env13) opRestart() {
	r := e.r
	lost := 0
	var keep []*rootRec
	for _, rec := range e.roots {
		if rec.persisted {
			rec.pins = 0
			keep = append(keep, rec)
		} else {
			lost++
		}
	}
	e.roots = keep
	e.disk = e.disk.Restart()
	e.tdb = trie.NewDatabase(e.disk)
	for i := range e.works {
		e.works[i] = nil
	}
	e.otherProof = nil
	r.Fault("restart")
	if lost > 0 {
		r.Probe("restart-with-unpersisted-roots")
	}
	r.Logf("RESTART: %d persisted roots survive, %d unpersisted forgotten, disk has %d keys", len(keep), lost, e.disk.Len())
	r.FP("restart")
	e.verifyAll("after restart")
}

func (e *env13) opNewWork() {
	c := e.c
	slot := c.Intn("slot", len(e.works))
	old := e.works[e.cur]
	if old != nil && old.kind != kindNoDB && len(old.model) > 0 && c.Chance("rebuild", 1, 2) {
		// the same content inserted in another order (plus noise that is deleted again) into a
		// fresh trie: history-independence, and re-creation of nodes the database already has
		w := &work{id: e.nextW, kind: old.kind, model: map[string][]byte{}, gen: old.gen, limit: old.limit}
		e.nextW++
		var err error
		if old.kind == kindSecure {
			var t *trie.SecureTrie
			t, err = trie.NewSecure(common.Hash{}, e.tdb, old.limit)
			w.t, w.sec = t, t
		} else {
			w.t, err = trie.New(common.Hash{}, e.tdb)
		}
		if err != nil {
			e.r.Fail("open-empty-failed", "open empty trie: %v", err)
		}
		ks := sortedKeys(old.model)
		perm := c.Perm("rebuild-order", len(ks))
		for _, pi := range perm {
			k := ks[pi]
			if c.Chance("noise", 1, 6) {
				nk := old.gen.key(c)
				if _, has := old.model[string(nk)]; !has {
					w.t.TryUpdate(nk, mkValue(c))
					if err := w.t.TryDelete(nk); err != nil {
						e.r.Report("update-error", "rebuild: delete of noise key: %v", err)
					}
				}
			}
			if err := w.t.TryUpdate([]byte(k), old.model[k]); err != nil {
				e.r.Report("update-error", "rebuild: %v", err)
			}
			w.model[k] = old.model[k]
		}
		e.r.Logf("rebuild w%d from the content of w%d in a seeded order (%d keys)", w.id, old.id, len(ks))
		e.r.FP("rebuild")
		e.r.Probe("rebuilt-in-other-order")
		e.hashCheck(w, "rebuilt in another order")
		e.works[slot] = w
		e.cur = slot
		return
	}
	e.works[slot] = e.newWork(c.Weighted("kind", []int{5, 3, 2}))
	e.cur = slot
	e.r.FP("newwork")
}

// opLink stores a reference to another live root in a leaf of a raw trie and commits, the
// way StateDB.Commit commits storage tries first and the account trie after them.
func (e *env13) opLink(w *work) {
	c, r := e.c, e.r
	if w.kind != kindRaw || w.gen.scheme == schemeVar || w.gen.scheme == schemeVarLong {
		// references live in full-size leaves (accounts are > 32 bytes and never sit in a branch's value slot)
		r.FP("link-skip")
		return
	}
	al := e.alive()
	var cands []*rootRec
	for _, rec := range e.roots {
		if al[rec.hash] && rec.hash != w.base {
			cands = append(cands, rec)
		}
	}
	if len(cands) == 0 {
		r.FP("link-none")
		return
	}
	child := cands[c.Intn("which-child", len(cands))]
	key := w.gen.key(c)
	if len(w.model) >= 64 {
		ks := sortedKeys(w.model)
		key = []byte(ks[c.Intn("victim", len(ks))])
	}
	v := linkValue(child.hash)
	if err := w.t.TryUpdate(key, v); err != nil {
		r.Report("update-error", "w%d: %v", w.id, err)
		return
	}
	w.model[string(key)] = v
	r.Logf("w%d Update(%s, ref->%s)", w.id, keyName(key), short(child.hash))
	r.FP("link")
	r.Probe("leaf-references-other-root")
	e.opCommit(w)
}

func (e *env13) opIterate(w *work) {
	c, r := e.c, e.r
	if !c.Chance("seek", 1, 2) {
		r.Logf("w%d iterate all", w.id)
		r.FP("iter")
		e.checkContent(fmt.Sprintf("w%d (uncommitted changes possible)", w.id), w.kind, w.t, w.sec, w.model, true)
		e.nodeWalk(w)
		return
	}
	// seek: "iteration starts at the key after the given start key" (trie.go:93)
	var start []byte
	ks := sortedKeys(w.model)
	switch c.Intn("start-kind", 3) {
	case 0:
		if len(ks) > 0 {
			start = trieKey(w.kind, []byte(ks[c.Intn("start", len(ks))]))
		}
	case 1:
		start = trieKey(w.kind, w.gen.key(c))
	default:
		start = trieKey(w.kind, w.gen.key(c))
		if len(start) > 0 {
			start = append([]byte{}, start...)
			start[len(start)-1] ^= byte(1 << uint(c.Intn("bit", 8)))
		}
	}
	exp := map[string][]byte{}
	all := map[string][]byte{}
	var tks []string
	for _, k := range ks {
		tk := trieKey(w.kind, []byte(k))
		all[string(tk)] = w.model[k]
		tks = append(tks, string(tk))
		if bytes.Compare(tk, start) >= 0 {
			exp[string(tk)] = w.model[k]
		}
	}
	tks = append(tks, string(start))
	sort.Strings(tks)
	// strict only when neither a key nor the start key is a prefix of another key
	strict := prefixFree(dedupe(tks))
	var gotK []string
	got := map[string][]byte{}
	it := trie.NewIterator(w.t.NodeIterator(start))
	dups := false
	for it.Next() {
		if _, seen := got[string(it.Key)]; seen {
			dups = true
		}
		got[string(it.Key)] = append([]byte{}, it.Value...)
		gotK = append(gotK, string(it.Key))
		if len(gotK) > len(all)+4 {
			break
		}
	}
	r.Logf("w%d iterate from %s -> %d entries (expected %d, strict=%v)", w.id, keyName(start), len(gotK), len(exp), strict)
	r.FP("seek")
	if it.Err != nil {
		r.Report("iteration-error", "w%d seek(%s): %v", w.id, keyName(start), it.Err)
		return
	}
	if dups {
		r.Report("iteration-mismatch", "w%d seek(%s): an entry was returned twice", w.id, keyName(start))
		return
	}
	for _, k := range sortedKeys(exp) {
		if v, ok := got[k]; !ok || !bytes.Equal(v, exp[k]) {
			r.Report("iteration-mismatch", "w%d seek(%s): key %s >= start is missing or has value %s (model %s)", w.id, keyName(start), keyName([]byte(k)), valName(v), valName(exp[k]))
			return
		}
	}
	for _, k := range gotK {
		if v, ok := all[k]; !ok || !bytes.Equal(v, got[k]) {
			r.Report("iteration-mismatch", "w%d seek(%s): returned %s=%s which is not in the model", w.id, keyName(start), keyName([]byte(k)), valName(got[k]))
			return
		}
	}
	if strict {
		if len(gotK) != len(exp) {
			r.Report("iteration-mismatch", "w%d seek(%s): %d entries returned, %d keys are >= start", w.id, keyName(start), len(gotK), len(exp))
			return
		}
		if !sort.StringsAreSorted(gotK) {
			r.Report("iteration-order-or-content", "w%d seek(%s): entries not ascending", w.id, keyName(start))
		}
	}
}

func dedupe(s []string) []string {
	var o []string
	for i, x := range s {
		if i == 0 || x != s[i-1] {
			o = append(o, x)
		}
	}
	return o
}

// nodeWalk drives the raw NodeIterator (the layer state dumps and sync tests use): leaves in
// the same order as the key-value iterator, every LeafProof verifies to the leaf's value, and
// every hashed node the database can serve hashes to its name.
func (e *env13) nodeWalk(w *work) {
	r := e.r
	root := w.t.Hash()
	byTK := make(map[string]string, len(w.model))
	for mk := range w.model {
		byTK[string(trieKey(w.kind, []byte(mk)))] = mk
	}
	it := w.t.NodeIterator(nil)
	leaves, hashed := 0, 0
	for it.Next(true) {
		if it.Leaf() {
			leaves++
			k := append([]byte{}, it.LeafKey()...)
			orig, known := byTK[string(k)]
			if !known || !bytes.Equal(it.LeafBlob(), w.model[orig]) {
				r.Report("iteration-mismatch", "w%d NodeIterator leaf %s=%s is not in the model", w.id, keyName(k), valName(it.LeafBlob()))
				return
			}
			if leaves <= 4 && len(w.model) > 0 {
				db := proofDB{}
				for _, n := range it.LeafProof() {
					db[string(crypto.Keccak256(n))] = n
				}
				val, _, err := trie.VerifyProof(root, k, db)
				if err != nil || !bytes.Equal(val, w.model[orig]) {
					r.Report("proof-wrong-answer", "w%d LeafProof of %s verifies to %s err=%v, stored value is %s", w.id, keyName(k), valName(val), err, valName(w.model[orig]))
					return
				}
			}
			continue
		}
		if h := it.Hash(); h != (common.Hash{}) && w.kind != kindNoDB {
			if blob, err := e.tdb.Node(h); err == nil && len(blob) > 0 {
				hashed++
				if crypto.Keccak256Hash(blob) != h {
					r.Report("node-hash-mismatch", "w%d node at path %x is named %x but Database.Node returns bytes hashing to %x", w.id, it.Path(), h, crypto.Keccak256Hash(blob))
					return
				}
			}
		}
	}
	if err := it.Error(); err != nil {
		r.Report("iteration-error", "w%d NodeIterator: %v", w.id, err)
		return
	}
	if leaves != len(w.model) {
		r.Report("iteration-mismatch", "w%d NodeIterator visited %d leaves, model has %d keys", w.id, leaves, len(w.model))
	}
	r.Count("node-walk-hashed-nodes", int64(hashed))
}

// ---- proofs ----

// proofList records what Prove writes, in order: the proof as it travels.
type proofList struct {
	keys, vals [][]byte
}

func (p *proofList) Put(k, v []byte) error {
	p.keys = append(p.keys, append([]byte{}, k...))
	p.vals = append(p.vals, append([]byte{}, v...))
	return nil
}

// proofDB is the receiver's node set (trie.DatabaseReader).
type proofDB map[string][]byte

func (d proofDB) Get(k []byte) ([]byte, error) {
	if v, ok := d[string(k)]; ok {
		return v, nil
	}
	return nil, fmt.Errorf("not found")
}
func (d proofDB) Has(k []byte) (bool, error) { _, ok := d[string(k)]; return ok, nil }

// receive is what a proof's receiver does with the node list it got from the network: name
// every node by the hash of its bytes.
func receive(nodes [][]byte) proofDB {
	db := proofDB{}
	for _, n := range nodes {
		db[string(crypto.Keccak256(n))] = n
	}
	return db
}

func (e *env13) opProve(w *work) {
	c, r := e.c, e.r
	if len(w.model) == 0 {
		r.FP("prove-empty")
		return // the property speaks of proofs of a non-empty trie
	}
	ks := sortedKeys(w.model)
	var key []byte // original key
	switch c.Weighted("prove-key", []int{4, 3, 2}) {
	case 0:
		key = []byte(ks[c.Intn("present", len(ks))])
	case 1:
		key = w.gen.key(c)
	default:
		key = append([]byte{}, []byte(ks[c.Intn("near", len(ks))])...)
		switch c.Intn("neighbour-kind", 3) {
		case 0:
			key = append(key, byte(c.Intn("extra", 256)))
		case 1:
			if len(key) > 0 {
				key = key[:len(key)-1]
			}
		default:
			if len(key) > 0 {
				key[len(key)-1] ^= byte(1 << uint(c.Intn("bit", 8)))
			}
		}
	}
	want := w.model[string(key)] // nil = absent
	// statedb.go:362: callers of the secure trie pass the hashed key to Prove and to VerifyProof
	tk := trieKey(w.kind, key)
	mk := w.model
	if w.kind == kindSecure {
		mk = make(map[string][]byte, len(w.model))
		for k, v := range w.model {
			mk[string(crypto.Keccak256([]byte(k)))] = v
		}
	}
	root := refRoot(mk) // the verifier's root comes from the independent calculator
	var pl proofList
	if err := w.t.Prove(tk, 0, &pl); err != nil {
		r.Report("prove-error", "w%d Prove(%s): %v", w.id, keyName(tk), err)
		return
	}
	for i := range pl.keys {
		if !bytes.Equal(crypto.Keccak256(pl.vals[i]), pl.keys[i]) {
			r.Report("proof-node-hash-mismatch", "w%d Prove(%s): node %d is stored under %x but hashes to %x", w.id, keyName(tk), i, pl.keys[i], crypto.Keccak256(pl.vals[i]))
			return
		}
	}
	val, _, err := trie.VerifyProof(root, tk, receive(pl.vals))
	if want != nil {
		r.Probe("proof-of-present-key")
	} else {
		r.Probe("proof-of-absent-key")
	}
	r.Logf("w%d Prove(%s) %d nodes -> %s err=%v (model %s)", w.id, keyName(tk), len(pl.vals), valName(val), err, valName(want))
	r.FP("prove", fmt.Sprint(want != nil))
	if err != nil {
		r.Report("proof-rejected", "w%d: the untampered proof of %s (%d nodes) does not verify against the reference root: %v", w.id, keyName(tk), len(pl.vals), err)
		return
	}
	if !bytes.Equal(val, want) || (want != nil && val == nil) {
		r.Report("proof-wrong-answer", "w%d: proof of %s verifies to %s, the trie holds %s", w.id, keyName(tk), valName(val), valName(want))
		return
	}
	// ---- corruption in transit ----
	check := func(kind string, nodes [][]byte) {
		v, _, err := trie.VerifyProof(root, tk, receive(nodes))
		if err != nil {
			r.Count("tampered-proof-rejected", 1)
			return
		}
		if !bytes.Equal(v, want) {
			r.Report("tampered-proof-accepted", "w%d: proof of %s with %s verifies to %s without error; the trie holds %s", w.id, keyName(tk), kind, valName(v), valName(want))
			return
		}
		r.Count("tampered-proof-same-answer", 1)
	}
	clone := func() [][]byte {
		o := make([][]byte, len(pl.vals))
		for i := range o {
			o[i] = append([]byte{}, pl.vals[i]...)
		}
		return o
	}
	total := 0
	for _, n := range pl.vals {
		total += len(n)
	}
	if !e.flipAllDone && total <= 2000 && c.Chance("flip-every-byte", 1, 3) {
		// every single-byte flip of every proof node (once per run; the mask walks through the
		// bits). Only the changed node is re-hashed by the receiver.
		e.flipAllDone = true
		base := receive(pl.vals)
		for ni := range pl.vals {
			orig := pl.vals[ni]
			delete(base, string(crypto.Keccak256(orig)))
			for pos := range orig {
				t := append([]byte{}, orig...)
				t[pos] ^= byte(1 << uint((pos+ni)%8))
				hk := string(crypto.Keccak256(t))
				base[hk] = t
				v, _, err := trie.VerifyProof(root, tk, base)
				delete(base, hk)
				if err == nil && !bytes.Equal(v, want) {
					r.Report("tampered-proof-accepted", "w%d: proof of %s with node %d byte %d flipped verifies to %s without error; the trie holds %s", w.id, keyName(tk), ni, pos, valName(v), valName(want))
					return
				}
			}
			base[string(crypto.Keccak256(orig))] = orig
			r.Stats["fault.proof.flip"] += int64(len(orig))
		}
		r.Nontrivial()
		r.Probe("proof-all-single-byte-flips")
	}
	for n := c.Intn("tamper-count", 4); n > 0; n-- {
		ni := c.Intn("tamper-node", len(pl.vals))
		t := clone()
		switch c.Intn("tamper-kind", 5) {
		case 0:
			pos := c.Intn("pos", len(t[ni]))
			t[ni][pos] ^= byte(1 + c.Intn("mask", 255))
			check(fmt.Sprintf("node %d byte %d changed", ni, pos), t)
			r.Fault("proof.flip")
		case 1:
			t = append(t[:ni], t[ni+1:]...)
			check(fmt.Sprintf("node %d dropped", ni), t)
			r.Fault("proof.drop-node")
		case 2:
			if len(e.otherProof) > 0 {
				t[ni] = e.otherProof[c.Intn("other-node", len(e.otherProof))]
				check(fmt.Sprintf("node %d replaced by a node of another proof", ni), t)
				r.Fault("proof.substitute-node")
			}
		case 3:
			cut := c.Intn("cut", len(t[ni]))
			t[ni] = t[ni][:cut]
			check(fmt.Sprintf("node %d truncated to %d bytes", ni, cut), t)
			r.Fault("proof.truncate-node")
		case 4:
			// the proof of a different key (possibly of a different trie) offered for this key
			if len(e.otherProof) > 0 {
				check("all nodes replaced by another proof", e.otherProof)
				r.Fault("proof.substitute-proof")
			}
		}
	}
	e.otherProof = pl.vals
}
