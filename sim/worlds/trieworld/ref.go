// Package trieworld is the TRIE world: the real trie package (Trie, SecureTrie, Database,
// iterators, proofs, Sync), core/state's StateSync and the downloader's processNodeData/commit
// (hook H5) over the simulated disk. It decides C13 (the trie is a faithful, canonical,
// provable map) and C19 (trie/state sync reproduces the source or reports incompleteness).
// There are no goroutines and no clock here: both checks are plain seeded loops.
package trieworld

import (
	"bytes"
	"encoding/hex"
	"fmt"
	"sort"
	"strings"

	"github.com/youchainhq/go-youchain/common"
	"github.com/youchainhq/go-youchain/crypto"
	"github.com/youchainhq/go-youchain/logging"
	"github.com/youchainhq/go-youchain/rlp"
)

func init() {
	logging.Root().SetHandler(logging.DiscardHandler())
	refSelfTest()
}

// ---------------------------------------------------------------------------------------
// Independent Merkle-Patricia root calculator.
//
// Written from the definition (Ethereum yellow paper, appendix D: hex-prefix encoding,
// leaf / extension / branch, node references shorter than 32 bytes are embedded, Keccak-256,
// RLP) over the sorted key list. It uses only /repo's rlp encoder and crypto.Keccak256 and
// nothing from /repo/trie, so it is a second implementation: equality of roots checks
// history-independence and cross-implementation agreement at once.
// ---------------------------------------------------------------------------------------

type refItem struct {
	nib []byte // key as nibbles (no terminator)
	val []byte
}

func toNibbles(key []byte) []byte {
	n := make([]byte, 0, len(key)*2)
	for _, b := range key {
		n = append(n, b>>4, b&15)
	}
	return n
}

// hexPrefix is HP(x, t) of the yellow paper.
func hexPrefix(nib []byte, leaf bool) []byte {
	flag := byte(0)
	if leaf {
		flag = 2
	}
	out := make([]byte, 0, len(nib)/2+1)
	if len(nib)%2 == 1 {
		out = append(out, (flag+1)<<4|nib[0])
		nib = nib[1:]
	} else {
		out = append(out, flag<<4)
	}
	for i := 0; i < len(nib); i += 2 {
		out = append(out, nib[i]<<4|nib[i+1])
	}
	return out
}

var refEmptyRoot = crypto.Keccak256Hash(mustRLP([]byte{}))

func mustRLP(v interface{}) []byte {
	b, err := rlp.EncodeToBytes(v)
	if err != nil {
		panic("trieworld: rlp: " + err.Error())
	}
	return b
}

// refStats counts structural features of the reference trie (for reach probes).
type refStats struct {
	nodes, embedded, branchValues, extensions int
}

// refRoot is the Merkle-Patricia root of a byte-key → value map (values non-empty).
func refRoot(m map[string][]byte) common.Hash {
	h, _ := refRootStats(m)
	return h
}

func refRootStats(m map[string][]byte) (common.Hash, refStats) {
	var st refStats
	if len(m) == 0 {
		return refEmptyRoot, st
	}
	items := make([]refItem, 0, len(m))
	for k, v := range m {
		if len(v) == 0 {
			panic("trieworld: model holds an empty value")
		}
		items = append(items, refItem{nib: toNibbles([]byte(k)), val: v})
	}
	sort.Slice(items, func(i, j int) bool { return bytes.Compare(items[i].nib, items[j].nib) < 0 })
	enc := refNode(items, 0, &st)
	return crypto.Keccak256Hash(enc), st
}

// refNode is c(J, i): the RLP of the node for the items J, which agree on their first i nibbles.
func refNode(items []refItem, i int, st *refStats) []byte {
	st.nodes++
	if len(items) == 1 {
		return mustRLP([]interface{}{hexPrefix(items[0].nib[i:], true), items[0].val})
	}
	// length of the longest common prefix of all keys (sorted: first and last decide)
	a, b := items[0].nib, items[len(items)-1].nib
	j := i
	for j < len(a) && j < len(b) && a[j] == b[j] {
		j++
	}
	if j > i {
		st.extensions++
		return mustRLP([]interface{}{hexPrefix(a[i:j], false), refRef(items, j, st)})
	}
	var elems [17]interface{}
	rest := items
	elems[16] = []byte{}
	if len(items[0].nib) == i { // a key ends here: the branch carries its value
		elems[16] = items[0].val
		rest = items[1:]
		st.branchValues++
	}
	for nib := 0; nib < 16; nib++ {
		n := 0
		for n < len(rest) && rest[n].nib[i] == byte(nib) {
			n++
		}
		if n == 0 {
			elems[nib] = []byte{}
		} else {
			elems[nib] = refRef(rest[:n], i+1, st)
		}
		rest = rest[n:]
	}
	if len(rest) != 0 {
		panic("trieworld: reference trie: unsorted items")
	}
	return mustRLP(elems[:])
}

// refRef is n(J, i): the node itself when its RLP is shorter than 32 bytes, else its hash.
func refRef(items []refItem, i int, st *refStats) interface{} {
	enc := refNode(items, i, st)
	if len(enc) < 32 {
		st.embedded++
		return rlp.RawValue(enc)
	}
	return crypto.Keccak256(enc)
}

// refSelfTest pins the calculator to published vectors of the Ethereum test-suite
// (trietest.json / trieanyorder.json), so that a slip in the harness cannot masquerade as a
// defect of the code under test.
func refSelfTest() {
	vec := []struct {
		kv   map[string][]byte
		root string
	}{
		{map[string][]byte{}, "56e81f171bcc55a6ff8345e692c0f86e5b48e01b996cadc001622fb5e363b421"},
		{map[string][]byte{"doe": []byte("reindeer"), "dog": []byte("puppy"), "dogglesworth": []byte("cat")},
			"8aad789dff2f538bca5d8ea56e8abe10f4c7ba3a5dea95fea4cd6e7c3a1168d3"},
		{map[string][]byte{"A": bytes.Repeat([]byte("a"), 50)},
			"d23786fb4a010da3ce639d66d5e904a11dbc02746d1ce25029e53290cabf28ab"},
		{map[string][]byte{"do": []byte("verb"), "horse": []byte("stallion"), "doge": []byte("coin"), "dog": []byte("puppy")},
			"5991bb8c6514148a29db676a14ac506cd2cd5775ace63c30a4fe457715e9ac84"},
		{map[string][]byte{"foo": []byte("bar"), "food": []byte("bass")},
			"17beaa1648bafa633cda809c90c04af50fc8aed3cb40d16efbddee6fdf63c4c3"},
	}
	for _, v := range vec {
		if got := refRoot(v.kv); hex.EncodeToString(got[:]) != v.root {
			panic(fmt.Sprintf("trieworld: reference root calculator fails a published vector: got %x want %s", got, v.root))
		}
	}
}

// ---------------------------------------------------------------------------------------
// Independent node decoder / walker (used by C19 for the source node set, the closure
// invariant and the integrity walk of the destination). Only rlp.Split* and Keccak.
// ---------------------------------------------------------------------------------------

// refNodeInfo is what one stored node (a blob addressed by its hash) contains.
type refNodeInfo struct {
	children []common.Hash // hash references (embedded nodes are looked through)
	leaves   []refLeaf     // values stored in this blob (path relative to the blob's position)
}

type refLeaf struct {
	path []byte // nibbles from the blob's own position
	val  []byte
}

func decodeHP(b []byte) (nib []byte, leaf bool, err error) {
	if len(b) == 0 {
		return nil, false, fmt.Errorf("empty hex-prefix")
	}
	flag := b[0] >> 4
	if flag > 3 {
		return nil, false, fmt.Errorf("bad hex-prefix flag %d", flag)
	}
	leaf = flag&2 != 0
	if flag&1 == 1 {
		nib = append(nib, b[0]&15)
	} else if b[0]&15 != 0 {
		return nil, false, fmt.Errorf("bad hex-prefix padding")
	}
	for _, x := range b[1:] {
		nib = append(nib, x>>4, x&15)
	}
	return nib, leaf, nil
}

// refDecode decodes one stored node blob.
func refDecode(blob []byte) (*refNodeInfo, error) {
	info := &refNodeInfo{}
	if err := refDecodeInto(info, blob, nil); err != nil {
		return nil, err
	}
	return info, nil
}

func refDecodeInto(info *refNodeInfo, enc []byte, path []byte) error {
	elems, rest, err := rlp.SplitList(enc)
	if err != nil {
		return err
	}
	if len(rest) != 0 {
		return fmt.Errorf("trailing bytes after node")
	}
	n, err := rlp.CountValues(elems)
	if err != nil {
		return err
	}
	ref := func(buf []byte, p []byte) ([]byte, error) {
		kind, val, rest, err := rlp.Split(buf)
		if err != nil {
			return nil, err
		}
		switch {
		case kind == rlp.List:
			return rest, refDecodeInto(info, buf[:len(buf)-len(rest)], p)
		case len(val) == 0:
			return rest, nil
		case len(val) == 32:
			info.children = append(info.children, common.BytesToHash(val))
			return rest, nil
		}
		return nil, fmt.Errorf("bad reference of %d bytes", len(val))
	}
	switch n {
	case 2:
		kbuf, rest, err := rlp.SplitString(elems)
		if err != nil {
			return err
		}
		nib, leaf, err := decodeHP(kbuf)
		if err != nil {
			return err
		}
		p := append(append([]byte{}, path...), nib...)
		if leaf {
			val, _, err := rlp.SplitString(rest)
			if err != nil {
				return err
			}
			info.leaves = append(info.leaves, refLeaf{path: p, val: append([]byte{}, val...)})
			return nil
		}
		_, err = ref(rest, p)
		return err
	case 17:
		buf := elems
		for i := 0; i < 16; i++ {
			p := append(append([]byte{}, path...), byte(i))
			if buf, err = ref(buf, p); err != nil {
				return err
			}
		}
		val, _, err := rlp.SplitString(buf)
		if err != nil {
			return err
		}
		if len(val) > 0 {
			info.leaves = append(info.leaves, refLeaf{path: append([]byte{}, path...), val: append([]byte{}, val...)})
		}
		return nil
	}
	return fmt.Errorf("node with %d elements", n)
}

func short(h common.Hash) string { return hex.EncodeToString(h[:4]) }

func keyName(k []byte) string {
	if len(k) > 6 {
		return fmt.Sprintf("%x..%x(%d)", k[:2], k[len(k)-3:], len(k))
	}
	return fmt.Sprintf("%x", k)
}

func valName(v []byte) string {
	if v == nil {
		return "nil"
	}
	if len(v) > 4 {
		return fmt.Sprintf("%x..(%d)", v[:2], len(v))
	}
	return fmt.Sprintf("%x", v)
}

// panicInRepo is kit.PanicInRepo with one difference: the code under test is recognised by
// "/repo/" anywhere in the frame's path, not only as a prefix, because /verif/mutant.sh builds
// against a scratch copy at /tmp/mutant.*/repo. A panic whose first non-runtime frame is in
// the code under test is a violation of class cls; any other panic is a harness error.
func panicInRepo(cls string) func(v interface{}, stack string) string {
	return func(v interface{}, stack string) string {
		for _, ln := range strings.Split(stack, "\n") {
			ln = strings.TrimSpace(ln)
			if !strings.HasPrefix(ln, "/") {
				continue
			}
			if strings.Contains(ln, "/runtime/") || strings.Contains(ln, "kit/run.go") || strings.Contains(ln, "/go1.26.8/src/") || strings.Contains(ln, "/pkg/mod/") {
				continue
			}
			if strings.Contains(ln, "/repo/") && !strings.Contains(ln, "/verif/") {
				return cls
			}
			return ""
		}
		return ""
	}
}
