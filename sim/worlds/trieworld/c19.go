package trieworld

import (
	"bytes"
	"fmt"
	"math/big"
	"sort"
	"time"

	"verifsim/kit"
	"verifsim/simdisk"

	"github.com/youchainhq/go-youchain/common"
	"github.com/youchainhq/go-youchain/core/state"
	"github.com/youchainhq/go-youchain/core/types"
	"github.com/youchainhq/go-youchain/crypto"
	"github.com/youchainhq/go-youchain/rlp"
	"github.com/youchainhq/go-youchain/trie"
	"github.com/youchainhq/go-youchain/you/downloader"
)

func init() {
	kit.Register(&kit.Check{
		Prop: "C19", Name: "sync", World: "TRIE", Level: "exploration",
		Rule: "one run = one source (a raw trie, a secure trie, or a whole state built with core/state: accounts with balance/nonce, shared and private storage " +
			"tries, shared code blobs, validators, delegations (DelegationsHash blobs), staking records; optionally a second, newer version of the same source) on a " +
			"source database, and an empty destination on the simulated disk. The real trie.Sync (state.NewStateSync for the account trie, trie.NewSync for generic, " +
			"validator and staking tries, all into the one destination as BlockChain.TrieBackingDb does) is driven by a simulated requester/responder: " +
			"Missing(n) with seeded n, a retry queue like trieSync.tasks, requests answered per item now / late (after the item was re-requested) / twice / never " +
			"until re-requested / with corrupted bytes (flip, truncate, append) / with valid nodes nobody requested (already delivered, deeper, of another version, " +
			"of an unrelated trie); packets split, reordered and delivered out of order; every blob enters through the downloader's real processNodeData (hook H5), " +
			"the membatch is flushed by the downloader's real commit (one batch) at seeded points, or by Sync.Commit straight onto the disk put by put; interruption " +
			"at a seeded round: crash (membatch lost), graceful cancel (membatch committed), crash between two puts of a direct commit, or a pivot move to the newer " +
			"version; then a fresh Sync on the same destination, late packets of the previous incarnation still arriving. After a seeded number of rounds the " +
			"responder turns honest so that a correct scheduler must finish. Oracle: per blob - not part of the requested trie => refused, Pending() and disk " +
			"unchanged; already processed => refused (ErrNotRequested/ErrAlreadyProcessed), nothing changes; requested and unprocessed => accepted; at EVERY durable " +
			"write (and every put prefix of a direct commit): each stored entry's children / storage root / code / delegations are stored too (so a present root " +
			"implies a complete trie) and nothing but source nodes is stored; at every interruption an independent walk from a present root finds no missing node; " +
			"on completion (Pending()==0 + commit): independent walk and the real iterators over the destination return exactly the source's leaves for every trie " +
			"of the state, every reachable node/code/delegation blob is stored byte-identical, a real StateDB over the destination answers like the source; a " +
			"scheduler with Pending()>0 that has nothing left to request is a stall. A run is non-trivial when a responder fault or an interruption fired.",
		Real: []string{"trie.Sync (NewSync, AddSubTrie, AddRawEntry, Missing, Process, Commit, Pending)", "core/state.NewStateSync leaf callback",
			"you/downloader (*trieSync).processNodeData and (*trieSync).commit through hook H5 (you/downloader/sim_verif.go)",
			"core/state StateDB + trie.Database as builder and server of the source, and as reader of the destination", "trie iterators as reader of the destination"},
		Stub: []string{"the downloader's task assignment, peers, timeouts and delivery plumbing (trieSync.loop/assignTasks/fillTasks/process, runTrieSync): replaced by the seeded requester loop, which re-queues undelivered items the way process() does",
			"the responding peer (ProtocolManager.handleGetNodeDataMsg): the simulator serves TrieDB().Node(hash) like BlockChain.StateTrieNode and decides the faults"},
		FaultsNotInjected: []string{"torn write inside one batch: the downloader commits the membatch as one youdb batch, atomic in the crash model",
			"a source that itself serves an invalid node under a requested hash: impossible without a Keccak collision",
			"peer scoring / dropping and the 'failed with all peers' abort of process(): stubbed requester"},
		Assumptions: []string{"the requester loop is a stand-in for trieSync.loop; ordering effects that exist only inside fillTasks' map iteration are covered by seeded request selection",
			"put-by-put Sync.Commit (no batch) is not what the downloader does; it is included because Sync.Commit takes any Putter and documents its completion order as crash protection"},
		QuickBudget: 40 * time.Second, ThoroughBudget: 12 * time.Minute,
		MinRuns:    200,
		Exec:       runC19,
		PanicClass: panicInRepo("sync-panic"),
		// reach probes every batch is expected to hit (listed in the evidence as probes_never_hit otherwise)
		ExpectedProbes: []string{"accepted-before-handed-out", "crash-between-puts-of-a-commit", "duplicate-while-waiting-for-children", "interrupted-with-nonempty-membatch", "packets-of-previous-incarnation-in-flight", "pivot-after-complete-old-version", "put-by-put-commit-of-several-entries", "root-absent-at-interruption", "root-of-other-trie-present-at-interruption", "source-account-with-code", "source-account-with-delegations-blob", "source-storage-trie-shared-by-accounts", "sync-finds-root-already-present", "whole-state-compared"},
	})
}

var (
	emptyCodeHash = crypto.Keccak256Hash(nil)
	progressKey   = "TrieSync" // rawdb.fastTrieProgressKey, written by the real commit for KindState
)

// srcNode is one entry of the source: a trie node or a raw blob, and what it depends on.
type srcNode struct {
	blob []byte
	deps []common.Hash
	raw  bool
}

type syncJob struct {
	name   string
	root   common.Hash
	state  bool // account trie: state.NewStateSync
	kind   types.TrieKind
	secure bool
	model  map[string][]byte // generic tries only
	reach  map[common.Hash]bool
}

type srcVersion struct {
	jobs []*syncJob
	// state sources
	isState                  bool
	root, valRoot, stakeRoot common.Hash
	addrs                    []common.Address
	slots                    []common.Hash
}

type packet struct {
	blobs [][]byte
	items []common.Hash // the request this packet answers (nil: stray)
	due   int
}

type c19 struct {
	r       *kit.Run
	c       *kit.Chooser
	srcDisk *simdisk.Disk
	srcDB   state.Database
	dst     *simdisk.Disk
	all     map[common.Hash]*srcNode // every entry of every version (closure invariant)
	junk    [][]byte                 // nodes of an unrelated trie
	vers    []*srcVersion

	inflight    []packet
	faultBudget int
	quietAfter  int
	rounds      int
	interrupts  int
}

func (x *c19) srcGet(h common.Hash) []byte {
	// BlockChain.StateTrieNode / VldTrieNode (core/blockchain.go:1396-1403): TrieDB().Node(hash)
	b, err := x.srcDB.TrieDB().Node(h)
	if err != nil {
		return nil
	}
	return b
}

// collect walks a trie of the source with the harness' own decoder and records every entry
// with its dependencies. state=true decodes leaves as accounts and follows storage root,
// code hash and delegations hash.
func (x *c19) collect(h common.Hash, isState bool, reach map[common.Hash]bool) {
	if h == refEmptyRoot || h == (common.Hash{}) {
		return
	}
	if reach[h] {
		return
	}
	reach[h] = true
	blob := x.srcGet(h)
	if blob == nil {
		panic(fmt.Sprintf("trieworld: source lacks node %x", h))
	}
	info, err := refDecode(blob)
	if err != nil {
		panic(fmt.Sprintf("trieworld: source node %x does not decode: %v", h, err))
	}
	n := &srcNode{blob: blob, deps: append([]common.Hash{}, info.children...)}
	for _, ch := range info.children {
		x.collect(ch, isState, reach)
	}
	if isState {
		for _, lf := range info.leaves {
			var acc state.Account
			if err := rlp.DecodeBytes(lf.val, &acc); err != nil {
				panic(fmt.Sprintf("trieworld: source account does not decode: %v", err))
			}
			if acc.Root != refEmptyRoot && acc.Root != (common.Hash{}) {
				n.deps = append(n.deps, acc.Root)
				if reach[acc.Root] {
					x.r.Probe("source-storage-trie-shared-by-accounts")
				}
				x.collect(acc.Root, false, reach)
			}
			if len(acc.DelegationsHash) == common.HashLength {
				x.r.Probe("source-account-with-delegations-blob")
			}
			if common.BytesToHash(acc.CodeHash) != emptyCodeHash {
				x.r.Probe("source-account-with-code")
			}
			raws := [][]byte{acc.CodeHash}
			if len(acc.DelegationsHash) == common.HashLength {
				raws = append(raws, acc.DelegationsHash)
			}
			for _, rh := range raws {
				hh := common.BytesToHash(rh)
				if hh == emptyCodeHash {
					continue
				}
				n.deps = append(n.deps, hh)
				reach[hh] = true
				if x.all[hh] == nil {
					b := x.srcGet(hh)
					if b == nil {
						panic(fmt.Sprintf("trieworld: source lacks blob %x", hh))
					}
					x.all[hh] = &srcNode{blob: b, raw: true}
				}
			}
		}
	}
	if old := x.all[h]; old == nil || len(n.deps) > len(old.deps) {
		x.all[h] = n
	}
}

// leavesOf lists all leaves (full nibble path, value) below a root through the harness' own
// decoder; missing collects hashes the getter could not serve.
func leavesOf(get func(common.Hash) []byte, root common.Hash, missing *[]common.Hash) []refLeaf {
	var out []refLeaf
	var walk func(h common.Hash, path []byte)
	walk = func(h common.Hash, path []byte) {
		blob := get(h)
		if blob == nil {
			*missing = append(*missing, h)
			return
		}
		info, err := refDecode(blob)
		if err != nil || crypto.Keccak256Hash(blob) != h {
			*missing = append(*missing, h)
			return
		}
		// children and leaves of one blob are interleaved in path order; collect then sort at the end
		for _, lf := range info.leaves {
			out = append(out, refLeaf{path: append(append([]byte{}, path...), lf.path...), val: lf.val})
		}
		// child paths: re-decode to know each child's path
		for _, cp := range childPaths(blob) {
			walk(cp.hash, append(append([]byte{}, path...), cp.path...))
		}
	}
	if root != refEmptyRoot && root != (common.Hash{}) {
		walk(root, nil)
	}
	sort.SliceStable(out, func(i, j int) bool { return bytes.Compare(out[i].path, out[j].path) < 0 })
	return out
}

type childPath struct {
	hash common.Hash
	path []byte
}

// childPaths returns the hash children of a blob with their relative nibble paths.
func childPaths(blob []byte) []childPath {
	var out []childPath
	var rec func(enc []byte, path []byte)
	ref := func(buf []byte, p []byte) []byte {
		kind, val, rest, err := rlp.Split(buf)
		if err != nil {
			return nil
		}
		switch {
		case kind == rlp.List:
			rec(buf[:len(buf)-len(rest)], p)
		case len(val) == 32:
			out = append(out, childPath{hash: common.BytesToHash(val), path: append([]byte{}, p...)})
		}
		return rest
	}
	rec = func(enc []byte, path []byte) {
		elems, _, err := rlp.SplitList(enc)
		if err != nil {
			return
		}
		n, _ := rlp.CountValues(elems)
		switch n {
		case 2:
			kbuf, rest, err := rlp.SplitString(elems)
			if err != nil {
				return
			}
			nib, leaf, err := decodeHP(kbuf)
			if err != nil || leaf {
				return
			}
			ref(rest, append(append([]byte{}, path...), nib...))
		case 17:
			buf := elems
			for i := 0; i < 16 && buf != nil; i++ {
				buf = ref(buf, append(append([]byte{}, path...), byte(i)))
			}
		}
	}
	rec(blob, nil)
	return out
}

// ---------------------------------------------------------------------------------------
// sources
// ---------------------------------------------------------------------------------------

func (x *c19) buildGeneric(secure bool) {
	c := x.c
	tdb := x.srcDB.TrieDB()
	kind := kindRaw
	if secure {
		kind = kindSecure
	}
	gen := newKeyGen(c, kind)
	if !secure && c.Chance("hashed-looking-keys", 1, 3) {
		gen = keyGen{scheme: -1}
	}
	key := func() []byte {
		if gen.scheme == -1 {
			return crypto.Keccak256([]byte{byte(c.Intn("k", 200))})
		}
		return gen.key(c)
	}
	var t anyTrie
	var err error
	if secure {
		t, err = trie.NewSecure(common.Hash{}, tdb, 0)
	} else {
		t, err = trie.New(common.Hash{}, tdb)
	}
	if err != nil {
		panic(err)
	}
	model := map[string][]byte{}
	nver := 1 + c.Intn("versions", 2)
	for v := 0; v < nver; v++ {
		n := 1 + c.Intn("nkeys", 12)
		if c.Chance("bigger", 1, 3) {
			n = 20 + c.Intn("nkeys", 100)
		}
		for i := 0; i < n; i++ {
			k := key()
			if v > 0 && c.Chance("delete", 1, 3) {
				t.TryDelete(k)
				delete(model, string(k))
				continue
			}
			val := mkValue(c)
			if c.Chance("same-value", 1, 4) {
				val = bytes.Repeat([]byte{0x42}, 40) // identical leaves/subtrees: one node, several parents
			}
			t.TryUpdate(k, val)
			model[string(k)] = val
		}
		root, err := t.Commit(nil)
		if err != nil {
			panic(err)
		}
		if c.Chance("source-on-disk", 1, 2) {
			tdb.Commit(root, false)
		} else {
			tdb.Reference(root, common.Hash{})
		}
		job := &syncJob{name: fmt.Sprintf("generic-v%d", v), root: root, kind: types.KindValidator, secure: secure, model: copyModel(model), reach: map[common.Hash]bool{}}
		if c.Chance("kind-staking", 1, 3) {
			job.kind = types.KindStaking
		}
		x.collect(root, false, job.reach)
		x.vers = append(x.vers, &srcVersion{jobs: []*syncJob{job}})
		x.r.Logf("source %s: %d keys root %s, %d entries (secure=%v scheme=%d)", job.name, len(model), short(root), len(job.reach), secure, gen.scheme)
	}
}

type valKey struct {
	pub  []byte
	addr common.Address
	bls  []byte
}

var c19ValKeys []valKey

func init() {
	for i := 0; i < 4; i++ {
		d := make([]byte, 32)
		d[0], d[31] = 0x19, byte(i+1)
		priv, err := crypto.ToECDSA(d)
		if err != nil {
			panic(err)
		}
		bls := make([]byte, 128)
		for j := range bls {
			bls[j] = byte(i*11 + j)
		}
		c19ValKeys = append(c19ValKeys, valKey{pub: crypto.CompressPubkey(&priv.PublicKey), addr: crypto.PubkeyToAddress(priv.PublicKey), bls: bls})
	}
}

var c19Codes = [][]byte{{0x60, 0x00}, {0x60, 0x01, 0x60, 0x02, 0x01}, bytes.Repeat([]byte{0x5b}, 70)}

func acctAddr(i int) common.Address {
	return common.BytesToAddress([]byte{0xa0, byte(i >> 8), byte(i)})
}

// buildState builds one or two versions of a whole state the way block processing does:
// mutations on a StateDB, Commit, then TrieDB().Commit of the three roots (blockchain.go:802-813).
func (x *c19) buildState() {
	c := x.c
	st, err := state.New(common.Hash{}, common.Hash{}, common.Hash{}, x.srcDB)
	if err != nil {
		panic(err)
	}
	nver := 1 + c.Intn("versions", 2)
	var addrs []common.Address
	slots := []common.Hash{}
	for i := 0; i < 6; i++ {
		slots = append(slots, common.BigToHash(big.NewInt(int64(i))))
	}
	for v := 0; v < nver; v++ {
		n := 1 + c.Intn("naccounts", 8)
		sizes := []int{6, 3, 1}
		if x.r.Tier == "thorough" {
			sizes = []int{4, 4, 2} // the long tier spends more of its time on larger states
		}
		switch c.Weighted("size", sizes) {
		case 1:
			n = 9 + c.Intn("naccounts", 32)
		case 2:
			n = 100 + c.Intn("naccounts", 201)
		}
		if v > 0 {
			n = 1 + n/3
		}
		for i := 0; i < n; i++ {
			idx := len(addrs)
			if v > 0 && len(addrs) > 0 && c.Chance("touch-existing", 1, 2) {
				idx = c.Intn("which", len(addrs))
			}
			a := acctAddr(idx)
			if idx == len(addrs) {
				addrs = append(addrs, a)
			}
			st.AddBalance(a, big.NewInt(int64(1+c.Intn("wei", 1000))))
			st.SetNonce(a, st.GetNonce(a)+1)
			if st.GetCodeSize(a) == 0 && c.Chance("code", 1, 3) {
				st.SetCode(a, c19Codes[c.Intn("which-code", len(c19Codes))]) // few codes: shared blobs
			}
			if c.Chance("storage", 1, 2) {
				// few slot/value combinations: accounts with identical storage tries share the root
				for s := c.Intn("nslots", 5); s >= 0; s-- {
					st.SetState(a, slots[c.Intn("slot", len(slots))], common.BigToHash(big.NewInt(int64(c.Intn("sval", 3)))))
				}
				if c.Chance("big-storage", 1, 6) {
					for s := 0; s < 20+c.Intn("more", 30); s++ {
						st.SetState(a, common.BigToHash(big.NewInt(int64(100+s))), common.BigToHash(big.NewInt(int64(1+c.Intn("sval", 3)))))
					}
				}
			}
		}
		if c.Chance("validators", 1, 2) {
			for i := 0; i <= c.Intn("nvals", len(c19ValKeys)); i++ {
				k := c19ValKeys[i]
				tok := new(big.Int).Mul(big.NewInt(int64(1000+c.Intn("tok", 1000))), big.NewInt(1e18))
				st.CreateValidator(fmt.Sprintf("v%d", i), acctAddr(0), acctAddr(0), 1, k.pub, k.bls, tok, big.NewInt(int64(1000+i)), 1, 100, 100, 1)
			}
			for i := c.Intn("ndelegations", 4); i > 0; i-- {
				vals := st.GetValidatorsForUpdate()
				if len(vals) == 0 || len(addrs) == 0 {
					break
				}
				val := st.GetValidatorByMainAddr(vals[c.Intn("which-val", len(vals))].MainAddress())
				d := addrs[c.Intn("delegator", len(addrs))]
				if val == nil {
					continue
				}
				if df := val.GetDelegationFrom(d); df != nil && c.Chance("undelegate", 1, 3) {
					// teDelegationSub down to zero: the delegator's list shrinks, possibly to none
					st.UpdateDelegation(d, val, new(big.Int).Neg(df.Token))
				} else {
					st.UpdateDelegation(d, val, new(big.Int).Mul(big.NewInt(int64(1+c.Intn("dtok", 50))), big.NewInt(1e18)))
				}
			}
			if c.Chance("staking-records", 1, 2) {
				for i := c.Intn("nrecords", 4); i >= 0; i-- {
					st.AddStakingRecord(common.Address{}, c19ValKeys[c.Intn("which-key", len(c19ValKeys))].addr, common.BigToHash(big.NewInt(int64(1+c.Intn("txh", 50)))), big.NewInt(int64(c.Intn("amt", 1000))))
				}
			}
		}
		root, vroot, sroot, err := st.Commit(true)
		if err != nil {
			panic(err)
		}
		for _, h := range []common.Hash{root, vroot, sroot} {
			if err := x.srcDB.TrieDB().Commit(h, false); err != nil {
				panic(err)
			}
		}
		ver := &srcVersion{isState: true, root: root, valRoot: vroot, stakeRoot: sroot, addrs: append([]common.Address{}, addrs...), slots: slots}
		add := func(name string, h common.Hash, isState bool, kind types.TrieKind) {
			if h == (common.Hash{}) {
				return // fetchStakingTrie skips a zero root (triesync.go:67)
			}
			job := &syncJob{name: fmt.Sprintf("%s-v%d", name, v), root: h, state: isState, kind: kind, reach: map[common.Hash]bool{}}
			x.collect(h, isState, job.reach)
			ver.jobs = append(ver.jobs, job)
		}
		add("state", root, true, types.KindState)
		add("validators", vroot, false, types.KindValidator)
		add("staking", sroot, false, types.KindStaking)
		x.vers = append(x.vers, ver)
		x.r.Logf("source state-v%d: %d accounts, roots %s/%s/%s, entries %d/%d/%d", v, len(addrs), short(root), short(vroot), short(sroot),
			len(ver.jobs[0].reach), reachLen(ver.jobs, 1), reachLen(ver.jobs, 2))
		if v+1 < nver {
			if st, err = state.New(root, vroot, sroot, x.srcDB); err != nil {
				panic(err)
			}
		}
	}
}

func reachLen(jobs []*syncJob, i int) int {
	if i < len(jobs) {
		return len(jobs[i].reach)
	}
	return 0
}

// ---------------------------------------------------------------------------------------
// the run
// ---------------------------------------------------------------------------------------

func runC19(r *kit.Run) {
	c := r.C
	x := &c19{r: r, c: c, srcDisk: simdisk.NewNoLog(), dst: simdisk.New(), all: map[common.Hash]*srcNode{}}
	x.srcDB = state.NewDatabase(x.srcDisk)
	switch c.Weighted("source", []int{4, 2, 5}) {
	case 0:
		x.buildGeneric(false)
	case 1:
		x.buildGeneric(true)
	default:
		x.buildState()
	}
	x.buildJunk()
	total := 0
	for range x.all {
		total++
	}
	r.Count("source-entries", int64(total))
	x.faultBudget = c.Intn("fault-budget", 4) * (2 + total/4)
	x.quietAfter = 2 + c.Intn("quiet-after", 6+total/2)

	// plan: which version is synced when, and where the sync is interrupted
	target := len(x.vers) - 1
	if len(x.vers) > 1 && c.Chance("pivot-move", 1, 2) {
		// sync of the older version is abandoned (or even finished) when the pivot moves
		stop := c.Intn("pivot-after-rounds", 3+total/3)
		done := x.syncVersion(x.vers[0], stop, c.Weighted("pivot-how", []int{3, 2, 3}))
		r.Fault("sync.pivot-move")
		if done {
			r.Probe("pivot-after-complete-old-version")
			x.finalCheck(x.vers[0])
		}
	} else if len(x.vers) > 1 && c.Chance("sync-old-version-only", 1, 4) {
		target = 0
	}
	for attempt := 0; ; attempt++ {
		stop := -1
		if attempt < 2 && c.Chance("interrupt", 1, 2) {
			stop = c.Intn("interrupt-after-rounds", 3+total/2)
		}
		if x.syncVersion(x.vers[target], stop, c.Weighted("interrupt-how", []int{3, 2, 3})) {
			break
		}
		if len(r.Violations) > 0 {
			return
		}
		if attempt > 4 {
			panic("trieworld: C19 plan did not terminate")
		}
	}
	if len(r.Violations) > 0 {
		return
	}
	x.finalCheck(x.vers[target])
}

func (x *c19) buildJunk() {
	// an unrelated trie whose nodes are valid but belong to nothing that is ever requested
	d := trie.NewDatabase(simdisk.NewNoLog())
	t, _ := trie.New(common.Hash{}, d)
	for i := 0; i < 12; i++ {
		t.TryUpdate([]byte{0x99, byte(i * 17)}, bytes.Repeat([]byte{0x66, byte(i)}, 20))
	}
	root, _ := t.Commit(nil)
	var walk func(h common.Hash)
	walk = func(h common.Hash) {
		b, err := d.Node(h)
		if err != nil || b == nil {
			return
		}
		x.junk = append(x.junk, b)
		for _, cp := range childPaths(b) {
			walk(cp.hash)
		}
	}
	walk(root)
}

// syncVersion runs the jobs of one version in order on the destination. stop >= 0 interrupts
// after that many rounds (how: 0 crash, 1 graceful cancel, 2 crash inside a put-by-put commit).
// Returns true when every job reported completion.
func (x *c19) syncVersion(ver *srcVersion, stop int, how int) bool {
	left := stop
	for _, job := range ver.jobs {
		done, used := x.syncJob(job, left, how)
		if !done {
			return false
		}
		if left >= 0 {
			left -= used
			if left < 0 {
				left = 0
			}
		}
	}
	return true
}

func (x *c19) syncJob(job *syncJob, stop int, how int) (done bool, rounds int) {
	c, r := x.c, x.r
	var sched *trie.Sync
	if job.state {
		sched = state.NewStateSync(job.root, x.dst) // triesync.go:77
	} else {
		sched = trie.NewSync(job.root, x.dst, nil) // triesync.go:104
	}
	ts := downloader.NewSimTrieSync(job.kind, x.dst, sched)
	r.Logf("SYNC %s root %s: Pending=%d, destination has %d keys", job.name, short(job.root), sched.Pending(), x.dst.Len())
	r.FP("sync", job.name[:3])
	if sched.Pending() == 0 {
		if has, _ := x.dst.Has(job.root[:]); has {
			r.Probe("sync-finds-root-already-present")
		}
	}
	var tasks []common.Hash // the retry queue (trieSync.tasks)
	popped := map[common.Hash]bool{}
	accepted := map[common.Hash]bool{}
	dirty := false // membatch holds something not yet written
	inTasks := func(h common.Hash) bool {
		for _, t := range tasks {
			if t == h {
				return true
			}
		}
		return false
	}

	deliver := func(p packet) {
		for _, blob := range p.blobs {
			h := crypto.Keccak256Hash(blob)
			before, logBefore := sched.Pending(), x.dst.LogLen()
			committed, named, err := ts.ProcessNodeData(blob)
			want := job.reach[h]
			outcome := "accepted"
			if err != nil {
				outcome = err.Error()
			}
			r.Logf("  blob %s (%d bytes, part of trie=%v popped=%v processed=%v) -> %s committed=%v pending %d->%d", short(h), len(blob), want, popped[h], accepted[h], outcome, committed, before, sched.Pending())
			r.FP(fmt.Sprintf("b%v%v%v%v%d", want, accepted[h], err == nil, committed, sched.Pending()-before))
			if named != h {
				r.Report("blob-misnamed", "processNodeData names a blob %x, the Keccak-256 of its %d bytes is %x", named, len(blob), h)
			}
			switch {
			case !want:
				if err == nil {
					r.Report("unrequested-data-accepted", "job %s: a blob hashing to %x, which is no part of the trie being synced, was accepted (committed=%v)", job.name, h, committed)
				} else if sched.Pending() != before || x.dst.LogLen() != logBefore {
					r.Report("refused-data-changed-state", "job %s: refused blob %x (%v) changed Pending %d->%d or the disk", job.name, h, err, before, sched.Pending())
				} else {
					r.Count("refused-unrequested", 1)
				}
			case accepted[h]:
				if err == nil {
					r.Report("duplicate-accepted", "job %s: node %x was processed before and is accepted a second time (committed=%v, pending %d->%d)", job.name, h, committed, before, sched.Pending())
				} else if err != trie.ErrAlreadyProcessed && err != trie.ErrNotRequested {
					r.Report("duplicate-wrong-error", "job %s: duplicate of %x answered with %v", job.name, h, err)
				} else if sched.Pending() != before || x.dst.LogLen() != logBefore {
					r.Report("refused-data-changed-state", "job %s: duplicate %x (%v) changed Pending %d->%d or the disk", job.name, h, err, before, sched.Pending())
				} else {
					if err == trie.ErrAlreadyProcessed {
						r.Probe("duplicate-while-waiting-for-children")
					}
					r.Count("refused-duplicate", 1)
				}
			case popped[h]:
				if err != nil {
					r.Report("requested-node-refused", "job %s: node %x was handed out by Missing, its correct bytes are refused with %v", job.name, h, err)
				} else {
					accepted[h] = true
				}
			default:
				// part of the trie but not handed out yet: the scheduler may know it already or not
				if err == nil {
					accepted[h] = true
					r.Probe("accepted-before-handed-out")
				} else if err != trie.ErrNotRequested {
					r.Report("requested-node-refused", "job %s: valid node %x refused with %v", job.name, h, err)
				}
			}
			if err == nil && committed {
				dirty = true
			}
		}
		// process() (triesync.go:485-499): what the response did not fulfil goes back to the queue
		for _, it := range p.items {
			if job.reach[it] && popped[it] && !accepted[it] && !inTasks(it) {
				tasks = append(tasks, it)
			}
		}
	}

	commitAndCheck := func(force bool, why string) bool {
		before := x.dst.LogLen()
		if err := ts.Commit(force); err != nil {
			r.Report("commit-error", "job %s: downloader commit: %v", job.name, err)
			return false
		}
		if x.dst.LogLen() != before {
			dirty = false
			r.Logf("  commit (%s): disk log %d -> %d, %d keys", why, before, x.dst.LogLen(), x.dst.Len())
			r.FP("commit")
			return x.checkDurable(x.dst, "after "+why)
		}
		return true
	}

	maxRounds := 60 + 3*len(job.reach) + x.quietAfter
	for sched.Pending() > 0 {
		if stop >= 0 && rounds >= stop {
			x.interrupt(job, sched, ts, how, dirty)
			return false, rounds
		}
		rounds++
		x.rounds++
		r.Steps++
		if rounds > maxRounds {
			r.Report("sync-stalls", "job %s: %d rounds, the last %d with an honest responder, and Pending() is still %d (queue %d)", job.name, rounds, rounds-x.quietAfter, sched.Pending(), len(tasks))
			return false, rounds
		}
		quiet := x.rounds > x.quietAfter || x.faultBudget <= 0
		// loop(): commit(false) at the top of every iteration (triesync.go:335)
		if !commitAndCheck(false, "commit(false)") {
			return false, rounds
		}
		if !quiet && dirty && c.Chance("flush-now", 1, 4) {
			if c.Chance("put-by-put", 1, 3) {
				if !x.directCommit(job, sched, false) {
					return false, rounds
				}
				dirty = false
			} else if !commitAndCheck(true, "forced commit") {
				return false, rounds
			}
		}
		// assignTasks/fillTasks (triesync.go:396-448): refill from Missing, pick a request
		n := 16 + c.Intn("cap", 48)
		if !quiet {
			n = 1 + c.Intn("cap", 12)
		}
		if len(tasks) < n {
			ask := n - len(tasks)
			if !quiet && c.Chance("missing-unlimited", 1, 12) {
				ask = 0
			}
			for _, h := range sched.Missing(ask) {
				if popped[h] {
					r.Report("node-handed-out-twice", "job %s: Missing returned %x a second time", job.name, h)
				}
				if !job.reach[h] {
					r.Report("foreign-node-requested", "job %s: Missing asks for %x, which is no part of the source trie", job.name, h)
					return false, rounds
				}
				popped[h] = true
				tasks = append(tasks, h)
			}
		}
		if len(tasks) == 0 && !x.dueSoon() {
			r.Report("sync-stalls", "job %s: Pending()=%d but Missing() hands out nothing and nothing is in flight", job.name, sched.Pending())
			return false, rounds
		}
		m := len(tasks)
		if m > n {
			m = n
		}
		var req []common.Hash
		if !quiet && m > 0 && c.Chance("pick-out-of-order", 1, 3) {
			perm := c.Perm("task-order", len(tasks))
			var rest []common.Hash
			for i, pi := range perm {
				if i < m {
					req = append(req, tasks[pi])
				} else {
					rest = append(rest, tasks[pi])
				}
			}
			tasks = rest
		} else {
			req = append(req, tasks[:m]...)
			tasks = append([]common.Hash{}, tasks[m:]...)
		}
		r.Logf(" round %d: request %d items, %d left in queue, pending %d, quiet=%v", rounds, len(req), len(tasks), sched.Pending(), quiet)
		x.respond(job, req, quiet, accepted)
		// deliveries that are due, oldest first unless reordered
		var due, later []packet
		for _, p := range x.inflight {
			if p.due <= x.rounds {
				due = append(due, p)
			} else {
				later = append(later, p)
			}
		}
		x.inflight = later
		if !quiet && len(due) > 1 && c.Chance("reorder-packets", 1, 2) {
			perm := c.Perm("packet-order", len(due))
			nd := make([]packet, len(due))
			for i, pi := range perm {
				nd[i] = due[pi]
			}
			due = nd
			r.Fault("resp.reorder-packets")
		}
		for _, p := range due {
			deliver(p)
			if len(r.Violations) > 0 {
				return false, rounds
			}
		}
	}
	// loop() exit: deferred commit(true) (triesync.go:326-331)
	if !commitAndCheck(true, "final commit of "+job.name) {
		return false, rounds
	}
	r.Logf("DONE %s after %d rounds, destination has %d keys", job.name, rounds, x.dst.Len())
	return true, rounds
}

func (x *c19) dueSoon() bool { return len(x.inflight) > 0 }

// respond plays the remote peer for one request.
func (x *c19) respond(job *syncJob, req []common.Hash, quiet bool, accepted map[common.Hash]bool) {
	c, r := x.c, x.r
	now := packet{items: req, due: x.rounds}
	if quiet {
		for _, h := range req {
			now.blobs = append(now.blobs, x.all[h].blob)
		}
		x.inflight = append(x.inflight, now)
		return
	}
	for _, h := range req {
		blob := x.all[h].blob
		d := c.Weighted("answer", []int{14, 3, 2, 2, 3})
		if d != 0 {
			x.faultBudget--
		}
		switch d {
		case 0:
			now.blobs = append(now.blobs, blob)
		case 1: // late: the request times out (item re-queued by the caller), the answer arrives rounds later
			x.inflight = append(x.inflight, packet{blobs: [][]byte{blob}, items: []common.Hash{h}, due: x.rounds + 1 + c.Intn("delay", 4)})
			r.Fault("resp.late")
		case 2: // twice
			now.blobs = append(now.blobs, blob, blob)
			r.Fault("resp.duplicate")
		case 3: // never (until re-requested)
			r.Fault("resp.never")
		case 4: // corrupted bytes
			bad := append([]byte{}, blob...)
			switch c.Intn("corruption", 4) {
			case 0:
				bad[c.Intn("pos", len(bad))] ^= byte(1 << uint(c.Intn("bit", 8)))
			case 1:
				bad = bad[:len(bad)-1]
			case 2:
				bad = append(bad, 0x00)
			default:
				bad = append(bad, byte(c.Intn("extra", 256)))
			}
			now.blobs = append(now.blobs, bad)
			r.Fault("resp.corrupt")
		}
	}
	// valid nodes nobody asked for
	for k := c.Intn("unrequested", 3); k > 0 && x.faultBudget > 0; k-- {
		x.faultBudget--
		var blob []byte
		switch c.Intn("unrequested-kind", 4) {
		case 0: // something already processed in this incarnation
			hs := sortedHashes(accepted)
			if len(hs) > 0 {
				blob = x.all[hs[c.Intn("which", len(hs))]].blob
			}
		case 1: // any entry of the trie being synced (may be deeper than what was handed out)
			hs := sortedHashes(job.reach)
			blob = x.all[hs[c.Intn("which", len(hs))]].blob
		case 2: // an entry of another trie or version of the source
			hs := make([]common.Hash, 0, len(x.all))
			for h := range x.all {
				if !job.reach[h] {
					hs = append(hs, h)
				}
			}
			sort.Slice(hs, func(i, j int) bool { return bytes.Compare(hs[i][:], hs[j][:]) < 0 })
			if len(hs) > 0 {
				blob = x.all[hs[c.Intn("which", len(hs))]].blob
			}
		default:
			blob = x.junk[c.Intn("which", len(x.junk))]
		}
		if blob != nil {
			now.blobs = append(now.blobs, blob)
			r.Fault("resp.unrequested")
		}
	}
	if len(now.blobs) > 1 && c.Chance("shuffle-blobs", 1, 3) {
		perm := c.Perm("blob-order", len(now.blobs))
		nb := make([][]byte, len(now.blobs))
		for i, pi := range perm {
			nb[i] = now.blobs[pi]
		}
		now.blobs = nb
		r.Fault("resp.reorder-blobs")
	}
	if len(now.blobs) > 1 && c.Chance("split-packet", 1, 4) {
		cut := 1 + c.Intn("cut", len(now.blobs)-1)
		second := packet{blobs: now.blobs[cut:], items: nil, due: x.rounds + c.Intn("second-half-delay", 3)}
		now.blobs = now.blobs[:cut]
		x.inflight = append(x.inflight, now, second)
		r.Fault("resp.regroup")
		return
	}
	x.inflight = append(x.inflight, now)
}

func sortedHashes(m map[common.Hash]bool) []common.Hash {
	hs := make([]common.Hash, 0, len(m))
	for h, ok := range m {
		if ok {
			hs = append(hs, h)
		}
	}
	sort.Slice(hs, func(i, j int) bool { return bytes.Compare(hs[i][:], hs[j][:]) < 0 })
	return hs
}

// directCommit flushes the membatch with Sync.Commit straight onto the disk, one Put per
// entry, and checks the closure invariant on every prefix of those puts (= every instant the
// process could have died). With crash=true the disk is then cut back to a seeded prefix.
func (x *c19) directCommit(job *syncJob, sched *trie.Sync, crash bool) bool {
	r := x.r
	before := x.dst.LogLen()
	if !crash && x.c.Chance("transient-write-error", 1, 3) {
		// a transient disk error on one Put of the flush: Sync.Commit reports how far it got and
		// the caller flushes again (what was not written must still be there)
		x.dst.FailAfter = 1 + x.c.Intn("failing-put", 6)
	}
	n, err := sched.Commit(x.dst)
	x.dst.FailAfter = 0
	if err != nil {
		r.Fault("disk.write-error-then-retry")
		r.Logf("  Sync.Commit: write error after %d entries, flushing again", n)
		if !x.checkDurable(x.dst, "after a flush that stopped at a write error") {
			return false
		}
		var n2 int
		n2, err = sched.Commit(x.dst)
		n += n2
	}
	if err != nil {
		r.Report("commit-error", "job %s: Sync.Commit: %v", job.name, err)
		return false
	}
	after := x.dst.LogLen()
	r.Logf("  put-by-put commit: %d entries, disk log %d -> %d", n, before, after)
	r.FP("commit-direct")
	if after-before > 1 {
		r.Probe("put-by-put-commit-of-several-entries")
	}
	step := 1
	if after-before > 24 {
		step = (after - before) / 24
	}
	for k := before + 1; k < after; k += step {
		if !x.checkDurable(x.dst.Prefix(k), fmt.Sprintf("after put %d of %d of a put-by-put commit", k-before, after-before)) {
			return false
		}
	}
	if !x.checkDurable(x.dst, "after a put-by-put commit") {
		return false
	}
	if crash && after > before {
		k := before + x.c.Intn("crash-at-put", after-before+1)
		x.dst = x.dst.Prefix(k)
		r.Logf("  CRASH after put %d of %d", k-before, after-before)
		if k > before && k < after {
			r.Probe("crash-between-puts-of-a-commit")
		}
	}
	return true
}

// checkDurable is the invariant a resumed sync relies on (sync.go AddSubTrie/children skip
// whatever the database already has): every stored entry's dependencies are stored, and only
// source entries are stored at all.
func (x *c19) checkDurable(img *simdisk.Disk, when string) bool {
	r := x.r
	ok := true
	for _, k := range img.Keys() {
		if k == progressKey {
			continue
		}
		var h common.Hash
		if len(k) == common.HashLength {
			copy(h[:], k)
		}
		n := x.all[h]
		if len(k) != common.HashLength || n == nil {
			r.Report("foreign-data-stored", "%s: the destination holds key %x, which is no entry of the source", when, k)
			return false
		}
		v, _ := img.Get([]byte(k))
		if !bytes.Equal(v, n.blob) {
			r.Report("stored-bytes-differ", "%s: entry %x is stored with %d bytes that differ from the source's %d bytes", when, h, len(v), len(n.blob))
			return false
		}
		for _, d := range n.deps {
			if has, _ := img.Has(d[:]); !has {
				r.Report("parent-durable-before-child", "%s: entry %x is on disk but %x, which it references, is not: a sync resumed now treats the sub-trie as complete", when, h, d)
				ok = false
				break
			}
		}
		if !ok {
			break
		}
	}
	r.Count("durable-image-checks", 1)
	return ok
}

// interrupt ends an incarnation of the sync. how: 0 crash, 1 graceful cancel, 2 crash inside
// a put-by-put commit.
func (x *c19) interrupt(job *syncJob, sched *trie.Sync, ts *downloader.SimTrieSync, how int, dirty bool) {
	r, c := x.r, x.c
	x.interrupts++
	if dirty {
		r.Probe("interrupted-with-nonempty-membatch")
	}
	switch how {
	case 1:
		// Cancel: loop() returns and its deferred commit(true) flushes the membatch (triesync.go:326-331)
		if err := ts.Commit(true); err != nil {
			r.Report("commit-error", "job %s: commit on cancel: %v", job.name, err)
		}
		r.Fault("sync.interrupt-graceful")
		r.Logf("INTERRUPT %s: graceful cancel, membatch committed; Pending was %d", job.name, sched.Pending())
	case 2:
		if dirty {
			x.directCommit(job, sched, true)
			r.Fault("sync.crash-inside-commit")
			r.Logf("INTERRUPT %s: crash inside a put-by-put commit; Pending was %d", job.name, sched.Pending())
			break
		}
		fallthrough
	default:
		r.Fault("sync.interrupt-crash")
		r.Logf("INTERRUPT %s: crash, membatch lost (dirty=%v); Pending was %d", job.name, dirty, sched.Pending())
	}
	r.FP("interrupt", fmt.Sprint(how), fmt.Sprint(dirty))
	// the new process sees only the durable image
	x.dst = x.dst.Restart()
	if !c.Chance("late-packets-survive", 1, 2) {
		x.inflight = nil
	} else if len(x.inflight) > 0 {
		r.Probe("packets-of-previous-incarnation-in-flight")
	}
	x.checkDurable(x.dst, "at the interruption of "+job.name)
	// a root that is present promises the whole trie - for every trie of every version of the
	// source, since a later sync of any of them would stop at that root
	for _, ver := range x.vers {
		for _, j := range ver.jobs {
			if j.root == refEmptyRoot {
				continue
			}
			if has, _ := x.dst.Has(j.root[:]); has {
				if j == job {
					r.Probe("root-of-interrupted-trie-present")
				} else {
					r.Probe("root-of-other-trie-present-at-interruption")
				}
				var missing []common.Hash
				x.walkAll(j, x.dstGet(), &missing)
				if len(missing) > 0 {
					r.Report("partial-trie-presented-as-complete", "at the interruption of %s the destination holds the root %x of %s but lacks %d entries below it (first %x)", job.name, j.root, j.name, len(missing), missing[0])
				}
			} else if j == job {
				r.Probe("root-absent-at-interruption")
			}
		}
	}
}

func (x *c19) dstGet() func(common.Hash) []byte {
	d := x.dst
	return func(h common.Hash) []byte {
		b, err := d.Get(h[:])
		if err != nil {
			return nil
		}
		return b
	}
}

// walkAll reads a job's trie (and for the account trie every storage trie, code and
// delegation blob) through the harness' own decoder and returns all leaves; missing entries
// are appended to *missing.
func (x *c19) walkAll(job *syncJob, get func(common.Hash) []byte, missing *[]common.Hash) map[string][]refLeaf {
	out := map[string][]refLeaf{}
	top := leavesOf(get, job.root, missing)
	out["main"] = top
	if !job.state {
		return out
	}
	for _, lf := range top {
		var acc state.Account
		if err := rlp.DecodeBytes(lf.val, &acc); err != nil {
			continue
		}
		name := fmt.Sprintf("storage-of-%x", lf.path)
		out[name] = leavesOf(get, acc.Root, missing)
		raws := [][]byte{acc.CodeHash}
		if len(acc.DelegationsHash) == common.HashLength {
			raws = append(raws, acc.DelegationsHash)
		}
		for _, rh := range raws {
			hh := common.BytesToHash(rh)
			if hh == emptyCodeHash {
				continue
			}
			if b := get(hh); b == nil || crypto.Keccak256Hash(b) != hh {
				*missing = append(*missing, hh)
			}
		}
	}
	return out
}

func nibblesToKey(nib []byte) []byte {
	if len(nib)%2 != 0 {
		return nil
	}
	k := make([]byte, len(nib)/2)
	for i := range k {
		k[i] = nib[2*i]<<4 | nib[2*i+1]
	}
	return k
}

// finalCheck: the sync reported completion for every job of the version.
func (x *c19) finalCheck(ver *srcVersion) {
	r := x.r
	if !x.checkDurable(x.dst, "after completion") {
		return
	}
	img := x.dst.Restart() // what a new process reads
	get := func(h common.Hash) []byte {
		b, err := img.Get(h[:])
		if err != nil {
			return nil
		}
		return b
	}
	tdb := trie.NewDatabase(img)
	for _, job := range ver.jobs {
		// 1. every reachable entry is stored, byte-identical
		for _, h := range sortedHashes(job.reach) {
			b := get(h)
			if b == nil {
				r.Report("incomplete-after-completion", "%s reported complete, entry %x (raw=%v) of the source is not in the destination", job.name, h, x.all[h].raw)
				return
			}
			if !bytes.Equal(b, x.all[h].blob) {
				r.Report("stored-bytes-differ", "%s: entry %x differs from the source", job.name, h)
				return
			}
		}
		// 2. independent walk: same leaves as the source, nothing missing
		var missSrc, missDst []common.Hash
		src := x.walkAll(job, x.srcGet, &missSrc)
		dst := x.walkAll(job, get, &missDst)
		if len(missSrc) > 0 {
			panic("trieworld: source incomplete")
		}
		if len(missDst) > 0 {
			r.Report("incomplete-after-completion", "%s reported complete, the integrity walk misses %d entries (first %x)", job.name, len(missDst), missDst[0])
			return
		}
		names := make([]string, 0, len(src))
		for n := range src {
			names = append(names, n)
		}
		sort.Strings(names)
		nLeaves := 0
		for _, n := range names {
			a, b := src[n], dst[n]
			nLeaves += len(a)
			if len(a) != len(b) {
				r.Report("content-differs-after-completion", "%s/%s: source has %d leaves, destination %d", job.name, n, len(a), len(b))
				return
			}
			for i := range a {
				if !bytes.Equal(a[i].path, b[i].path) || !bytes.Equal(a[i].val, b[i].val) {
					r.Report("content-differs-after-completion", "%s/%s: leaf %d differs", job.name, n, i)
					return
				}
			}
			// 3. the real iterator over the destination yields the same leaves
			var root common.Hash
			if n == "main" {
				root = job.root
			} else {
				// storage trie: find the account again
				for _, lf := range src["main"] {
					if fmt.Sprintf("storage-of-%x", lf.path) == n {
						var acc state.Account
						rlp.DecodeBytes(lf.val, &acc)
						root = acc.Root
					}
				}
			}
			t, err := trie.New(root, tdb)
			if err != nil {
				r.Report("incomplete-after-completion", "%s/%s: trie.New(%x) on the destination: %v", job.name, n, root, err)
				return
			}
			it := trie.NewIterator(t.NodeIterator(nil))
			var got []refLeaf
			for it.Next() && len(got) <= len(a) {
				got = append(got, refLeaf{path: append([]byte{}, it.Key...), val: append([]byte{}, it.Value...)})
			}
			if it.Err != nil || len(got) != len(a) {
				r.Report("incomplete-after-completion", "%s/%s: the destination's iterator returns %d of %d leaves: %v", job.name, n, len(got), len(a), it.Err)
				return
			}
			// (a value stored at a branch is visited after the branch's children, so the order is
			// only ascending for prefix-free key sets - C13's business; here the content counts)
			sort.SliceStable(got, func(i, j int) bool { return bytes.Compare(got[i].path, got[j].path) < 0 })
			for i := range a {
				if !bytes.Equal(got[i].path, nibblesToKey(a[i].path)) || !bytes.Equal(got[i].val, a[i].val) {
					r.Report("content-differs-after-completion", "%s/%s: the destination's iterator returns %s=%s, the source's leaf %d is %x=%s", job.name, n, keyName(got[i].path), valName(got[i].val), i, a[i].path, valName(a[i].val))
					return
				}
			}
		}
		r.Count("leaves-compared", int64(nLeaves))
		// generic tries: also against the model the source was built from
		if job.model != nil {
			var t anyTrie
			var err error
			if job.secure {
				t, err = trie.NewSecure(job.root, tdb, 0)
			} else {
				t, err = trie.New(job.root, tdb)
			}
			if err != nil {
				r.Report("incomplete-after-completion", "%s: open on the destination: %v", job.name, err)
				return
			}
			for _, k := range sortedKeys(job.model) {
				v, err := t.TryGet([]byte(k))
				if err != nil || !bytes.Equal(v, job.model[k]) {
					r.Report("content-differs-after-completion", "%s: Get(%s) on the destination = %s (err %v), the source holds %s", job.name, keyName([]byte(k)), valName(v), err, valName(job.model[k]))
					return
				}
			}
			if got := len(src["main"]); got != len(job.model) {
				r.Report("content-differs-after-completion", "%s: %d leaves, model has %d keys", job.name, got, len(job.model))
			}
		}
	}
	// 4. a real StateDB over the destination answers like one over the source
	if ver.isState {
		sdst, err := state.New(ver.root, ver.valRoot, ver.stakeRoot, state.NewDatabase(img))
		if err != nil {
			r.Report("incomplete-after-completion", "state.New on the destination: %v", err)
			return
		}
		ssrc, err := state.New(ver.root, ver.valRoot, ver.stakeRoot, x.srcDB)
		if err != nil {
			panic(err)
		}
		for _, a := range ver.addrs {
			if ssrc.GetBalance(a).Cmp(sdst.GetBalance(a)) != 0 || ssrc.GetNonce(a) != sdst.GetNonce(a) || !bytes.Equal(ssrc.GetCode(a), sdst.GetCode(a)) {
				r.Report("content-differs-after-completion", "account %x: balance/nonce/code differ between source and destination state", a)
				return
			}
			for _, s := range ver.slots {
				if ssrc.GetState(a, s) != sdst.GetState(a, s) {
					r.Report("content-differs-after-completion", "account %x slot %x differs", a, s)
					return
				}
			}
			ds, _ := ssrc.GetDelegationsFrom(a)
			dd, derr := sdst.GetDelegationsFrom(a)
			if derr != nil || len(ds) != len(dd) {
				r.Report("content-differs-after-completion", "account %x: delegations differ (%d vs %d, err %v)", a, len(ds), len(dd), derr)
				return
			}
		}
		if vs, vd := ssrc.GetValidators(), sdst.GetValidators(); vs.Len() != vd.Len() {
			r.Report("content-differs-after-completion", "validator sets differ: %d vs %d", vs.Len(), vd.Len())
			return
		}
		if err := sdst.Error(); err != nil {
			r.Report("incomplete-after-completion", "reading the destination state: %v", err)
			return
		}
		r.Probe("whole-state-compared")
	}
	r.Logf("final check of %d jobs passed", len(ver.jobs))
}
