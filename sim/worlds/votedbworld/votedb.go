// Package votedbworld is the VOTEDB world: the real ucon.VoteDB (the persisted once-only
// latch behind every vote an honest validator signs) over the simulated disk, driven through
// its exported API exactly as Voter does (voter.go: UpdateContext on every context change,
// UpdateVoteData(kind, current round, current index) before a vote is posted), with process
// restarts (a fresh NewVoteDB on the durable image) and engine resumes at seeded points.
package votedbworld

import (
	"fmt"
	"math/big"
	"time"

	"verifsim/kit"
	"verifsim/simdisk"

	"github.com/youchainhq/go-youchain/consensus/ucon"
	"github.com/youchainhq/go-youchain/crypto"
	"github.com/youchainhq/go-youchain/logging"
)

func init() {
	logging.Root().SetHandler(logging.DiscardHandler())
	kit.Register(&kit.Check{
		Prop: "C02", Name: "votedb", World: "VOTEDB", Level: "exploration", Share: 1,
		Rule: "one run = a seeded history of consensus contexts (round, index) as a real engine produces them (index advances, possibly by jumps; new round at index 1; " +
			"after a restart or a Pause/Resume the engine re-enters at (head+1, 1), i.e. possibly the SAME round at index 1) and vote attempts of all four kinds " +
			"(prevote, precommit, next-index, certificate) in the current context through the real VoteDB API; faults: process crash+restart (fresh NewVoteDB on the " +
			"durable image of the simulated disk) after any operation, including between the record write and the caller's use of the grant; engine resume without restart. " +
			"Oracle (reference model = the set of grants ever given): per (round, index) at most one grant for prevote, precommit and certificate and at most two for next-index, over the whole history. " +
			"Non-trivial = at least one restart or resume fired.",
		Real:        []string{"consensus/ucon.VoteDB (NewVoteDB, UpdateContext, UpdateVoteData, ExistVoteData)", "secp256k1 signing of vote records", "rlp"},
		Stub:        []string{"Voter (the caller): replaced by a generator that issues exactly the calls voter.go issues"},
		QuickBudget: 15 * time.Second, ThoroughBudget: 4 * time.Minute,
		MinRuns:        100,
		Exec:           runVoteDB,
		ExpectedProbes: []string{"restart-in-same-round-at-higher-index", "resume-in-same-round-at-higher-index"},
		PanicClass:     kit.PanicInRepo("votedb-panic"),
	})
}

var kinds = []ucon.VoteType{ucon.Prevote, ucon.Precommit, ucon.NextIndex, ucon.Certificate}

type key struct {
	round uint64
	index uint32
	kind  ucon.VoteType
}

func runVoteDB(r *kit.Run) {
	c := r.C
	d := make([]byte, 32)
	d[31] = 7
	d[0] = 0x22
	sk, _ := crypto.ToECDSA(d)
	disk := simdisk.New()
	vdb := ucon.NewVoteDB(disk, sk)
	grants := map[key]int{}
	round, index := uint64(1+c.Intn("start-round", 3)), uint32(1)
	head := round - 1 // the engine's chain head: a new round starts only when head advances
	vdb.UpdateContext(new(big.Int).SetUint64(round), index)
	steps := 4 + c.Intn("steps", 40)
	for i := 0; i < steps; i++ {
		r.Steps++
		switch c.Weighted("action", []int{10, 4, 2, 3, 2}) {
		case 0: // vote attempt in the current context (voter.go:425)
			k := kinds[c.Weighted("kind", []int{4, 4, 4, 2})]
			err := vdb.UpdateVoteData(k, new(big.Int).SetUint64(round), index)
			granted := err == nil
			r.Logf("vote %s at (%d,%d) -> granted=%v", ucon.VoteTypeToString(k), round, index, granted)
			r.FP("vote", ucon.VoteTypeToString(k), fmt.Sprint(granted))
			if granted {
				kk := key{round, index, k}
				grants[kk]++
				limit := 1
				if k == ucon.NextIndex {
					limit = 2
				}
				if grants[kk] > limit {
					r.Report("double-grant:"+ucon.VoteTypeToString(k), "%s vote granted %d times for (round %d, index %d)", ucon.VoteTypeToString(k), grants[kk], round, index)
				}
			}
		case 1: // round index advances (NextRound: next index, or a jump to a higher one)
			index += uint32(1 + c.Intn("index-jump", 3))
			vdb.UpdateContext(new(big.Int).SetUint64(round), index)
			r.Logf("context -> (%d,%d)", round, index)
			r.FP("index")
		case 2: // a block was inserted: new round at index 1
			head = round
			round++
			index = 1
			vdb.UpdateContext(new(big.Int).SetUint64(round), index)
			r.Logf("new round -> (%d,%d)", round, index)
			r.FP("round")
		case 3: // crash + restart: fresh VoteDB on the durable image; the engine starts at (head+1, 1)
			disk = disk.Restart()
			vdb = ucon.NewVoteDB(disk, sk)
			if c.Chance("head-advanced-while-down", 1, 4) {
				head += uint64(1 + c.Intn("blocks", 2))
			}
			if head+1 > round {
				round = head + 1
			}
			if index > 1 {
				r.Probe("restart-in-same-round-at-higher-index")
			}
			index = 1
			r.Fault("crash-restart")
			vdb.UpdateContext(new(big.Int).SetUint64(round), index)
			r.Logf("RESTART -> context (%d,%d)", round, index)
			r.FP("restart")
		case 4: // Pause/Resume (ucon.go:263 StartNewRound(true)): same process, context back to (head+1, 1)
			if index > 1 {
				r.Probe("resume-in-same-round-at-higher-index")
			}
			index = 1
			r.Fault("resume")
			vdb.UpdateContext(new(big.Int).SetUint64(round), index)
			r.Logf("RESUME -> context (%d,%d)", round, index)
			r.FP("resume")
		}
	}
}
