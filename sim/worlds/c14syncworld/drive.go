package c14syncworld

import (
	"fmt"
	"math/big"
	"time"

	"verifsim/worlds/networld"

	"github.com/youchainhq/go-youchain/common"
	"github.com/youchainhq/go-youchain/core/types"
	"github.com/youchainhq/go-youchain/rlp"
	"github.com/youchainhq/go-youchain/you"
)

const maxHostile = 2 // plus the persistent probe and one fresh probe: never more than four peers

func (w *world) drive() {
	r := w.r
	w.probe = w.connect(true, false, 0)
	if w.probe == nil || !w.probe.registered {
		r.Fail("honest-handshake-refused", "the honest probe peer could not complete the handshake")
	}
	steps := 20 + r.C.Intn("steps", 40)
	for i := 0; i < steps; i++ {
		w.step()
	}
	// let outstanding timeouts fire, then the final look
	time.Sleep(65 * time.Second)
	w.settle()
	w.probeCheck()
	w.freshProbe()
	w.finalInvariants()
	if w.hostileN > 0 {
		r.Nontrivial()
	}
	r.Count("hostile-messages", int64(w.hostileN))
	r.Count("node-head-gain", int64(w.nodeHeight()-w.startHead))
	if w.nodeHeight() > w.startHead {
		r.FP("gained")
	}
}

func (w *world) hostiles() []*conn {
	var out []*conn
	for _, c := range w.conns {
		if !c.probe && c.alive() {
			out = append(out, c)
		}
	}
	return out
}

func (w *world) withPending() []*conn {
	var out []*conn
	for _, c := range w.hostiles() {
		if len(c.pending) > 0 && c.writing == nil {
			out = append(out, c)
		}
	}
	return out
}

func (w *world) step() {
	r := w.r
	hs := w.hostiles()
	pend := w.withPending()
	weights := []int{10, 0, 2, 4, 1, 1}
	if len(pend) > 0 {
		weights[1] = 14
	}
	if len(hs) == 0 {
		weights[0], weights[5] = 0, 0
		weights[2] = 10
	}
	if len(hs) >= maxHostile {
		weights[2] = 0
	}
	switch r.C.Weighted("action", weights) {
	case 0:
		c := hs[r.C.Intn("peer", len(hs))]
		w.stimulate(c)
	case 1:
		c := pend[r.C.Intn("peer", len(pend))]
		w.answer(c)
	case 2:
		full := true
		for _, c := range hs {
			if c.full {
				full = false // at most one downloader-registered peer at a time
			}
		}
		if full && r.C.Chance("light-type", 1, 4) {
			full = false
		}
		w.connect(false, full, r.C.Weighted("handshake", []int{10, 1, 1, 1, 1, 2, 1, 1}))
	case 3:
		d := []time.Duration{500 * time.Millisecond, 100 * time.Millisecond, 1 * time.Second, 5 * time.Second, 10 * time.Second, 20 * time.Second, 61 * time.Second}[r.C.Intn("advance", 7)]
		r.Logf("time advances by %v", d)
		r.FP("advance", d.String())
		time.Sleep(d)
		r.SimTime += d
		w.settle()
	case 4:
		w.freshProbe()
	case 5:
		c := hs[r.C.Intn("peer", len(hs))]
		r.Fault("abrupt-disconnect")
		r.FP(c.name, "disconnect")
		w.closeConn(c, "remote side hangs up")
		w.settle()
	}
	w.probeCheck()
}

// connect opens a connection and performs the handshake variant hv (0 = honest).
func (w *world) connect(probe, full bool, hv int) *conn {
	r := w.r
	c := w.newConn(probe, full)
	variants := []string{"honest", "wrong-genesis", "wrong-network", "wrong-version", "non-status-first", "corrupted-status", "silent", "oversize-status"}
	r.Logf("%s connects (full-node type %v), handshake: %s", c.tag(), full, variants[hv])
	r.FP(c.name, "connect", variants[hv])
	w.settle()
	if c.nodeStatus == nil {
		if c.alive() {
			r.Report("no-status-sent", "the node did not open the handshake with a status message")
		}
		return c
	}
	// (d) the node's own status must describe its chain
	if st := c.nodeStatus; st.Height != w.nodeHeight() || st.CurrentBlock != w.head().Hash() || st.GenesisBlock != w.full[0].Hash() || st.NetworkId != w.cw.Genesis.NetworkId {
		r.Report("wrong-own-status", "status %s does not describe the node's chain (head %d)", describe(you.StatusMsg, enc(st)), w.nodeHeight())
	}
	// what the peer claims: the chain it owns (longer than the node's), by default
	claim := uint64(len(w.full) - 1)
	if probe {
		claim = 0 // a light client fresh from genesis
	} else if hv == 0 {
		switch r.C.Weighted("claim", []int{6, 2, 1, 1}) {
		case 1:
			claim = w.nodeHeight()
		case 2:
			claim = 1
		case 3:
			claim = uint64(len(w.full)-1) + 5 // a height it cannot back up
		}
	}
	headHash := w.full[min(claim, uint64(len(w.full)-1))].Hash()
	st := w.status(c, claim, headHash)
	payload := enc(st)
	code, declared := uint64(you.StatusMsg), uint32(0)
	if hv != 0 {
		r.Fault("handshake-" + variants[hv])
	}
	switch hv {
	case 1:
		st.GenesisBlock = w.full[1].Hash()
		payload = enc(st)
	case 2:
		st.NetworkId++
		payload = enc(st)
	case 3:
		st.ProtocolVersion++
		payload = enc(st)
	case 4:
		code, payload = you.GetBlockHeadersMsg, enc(&you.SimGetBlockHeadersData{Origin: you.HashOrNumber{Number: 1}, Amount: 1})
	case 5:
		how := ""
		payload, how = networld.Mutate(r.C, payload)
		r.Logf("%s: status corrupted by %s", c.tag(), how)
	case 6:
		r.Logf("%s stays silent; time advances by 6s", c.tag())
		time.Sleep(6 * time.Second)
		r.SimTime += 6 * time.Second
		w.settle()
		if c.alive() {
			r.Report("silent-handshake-not-timed-out", "a peer that never sends its status is still being served after 6s")
			w.closeConn(c, "cleanup")
			w.settle()
		}
		return c
	case 7:
		declared = you.ProtocolMaxMsgSize + 1
	}
	if declared == 0 {
		declared = uint32(len(payload))
	}
	w.send(c, code, payload, declared, "handshake("+variants[hv]+")")
	switch {
	case hv == 0:
		if !c.registered {
			r.Report("honest-handshake-refused", "%s sent a correct status and was not registered: %v", c.tag(), errText(c.serveErr))
			return c
		}
		c.shook = true
	case hv == 5:
		// a corrupted status may still be a valid one; such a peer is not used any further
		if c.alive() {
			w.closeConn(c, "corrupted status was acceptable; not used further")
			w.settle()
		}
	default:
		if c.registered || c.alive() {
			r.Report("bad-handshake-accepted:"+variants[hv], "%s was registered=%v alive=%v after a %s handshake", c.tag(), c.registered, c.alive(), variants[hv])
			w.closeConn(c, "cleanup")
			w.settle()
		}
	}
	return c
}

// stimulate sends one generated message from a hostile peer and applies the per-message oracles.
func (w *world) stimulate(c *conn) {
	r := w.r
	s := w.genStim(c)
	if s.declared == 0 {
		s.declared = uint32(len(s.payload))
	}
	if s.code == you.NewBlockHashMsg && w.announceConflict(c, s.payload) {
		r.Logf("%s: announcement not sent (a hash in it was announced by another peer, or the peer's announce allowance is used up)", c.tag())
		return
	}
	cn := codeName(s.code)
	if s.fault != "" {
		w.lastFault = cn
		w.hostileN++
	}
	r.FP(c.name, cn, s.fault)
	if !w.send(c, s.code, s.payload, s.declared, s.label) {
		return
	}
	r.Probe("code:" + cn)
	if s.fault != "" {
		r.Fault(s.fault)
	}
	if s.twice {
		w.send(c, s.code, s.payload, s.declared, s.label+" (again)")
	}
	if c.writing != nil {
		// the connection's handler is still busy with an earlier message of this peer (e.g. blocked
		// handing a delivery to a running sync cycle): this message has not been looked at yet, so
		// nothing can be said about it; the probe below still decides whether the node is responsive
		r.FP("unread")
		return
	}
	// reject rather than crash: what must end the connection does
	switch {
	case s.declared > you.ProtocolMaxMsgSize:
		if c.alive() {
			r.Report("oversize-message-accepted", "a %s message declaring %d bytes (> ProtocolMaxMsgSize) did not end the connection", cn, s.declared)
		}
	case s.code == you.StatusMsg && int(s.declared) == len(s.payload):
		if c.alive() {
			r.Report("second-status-accepted", "a status message after the handshake did not end the connection")
		}
	}
	r.FP(map[bool]string{true: "kept", false: "gone"}[c.alive()])
	w.checkReply(c, s.code, s.payload, s.declared)
	c.got = nil // broadcasts and late replies are in the trace; nothing else is expected of them
}

// ---------------------------------------------------------------------------------------------
// the node's own requests

func (w *world) answer(c *conn) {
	r := w.r
	req := c.pending[0]
	c.pending = c.pending[1:]
	weights := []int{8, 2, 3, 1, 1}
	headHeight, skeletonReq := false, false
	if req.code == you.GetBlockHeadersMsg {
		var q you.SimGetBlockHeadersData
		if rlp.DecodeBytes(req.data, &q) == nil {
			// the adversary knows the downloader's conversation: the first question of a sync cycle
			// (one header by hash: "how high are you?") and the skeleton question are where a lie
			// steers the rest of the cycle, so it lies there more often
			headHeight = q.Origin.Hash != (common.Hash{}) && q.Amount == 1
			skeletonReq = q.Origin.Hash == (common.Hash{}) && q.Skip > 100
			if headHeight {
				weights = []int{8, 1, 3, 1, 1}
			}
			if skeletonReq {
				weights = []int{4, 2, 6, 1, 1}
			}
		}
	}
	policy := r.C.Weighted("answer", weights)
	names := []string{"honest", "corrupted", "hostile", "ignored", "honest-twice"}
	view := w.peerView()
	var code uint64
	var payload []byte
	var hostile []byte
	hlabel := ""
	switch req.code {
	case you.GetBlockHeadersMsg:
		var q you.SimGetBlockHeadersData
		if err := rlp.DecodeBytes(req.data, &q); err != nil {
			r.Report("node-sent-undecodable:GetBlockHeaders", "%v", err)
			return
		}
		hs := view.headers(&q)
		code, payload = you.BlockHeadersMsg, encodeHeaders(hs, q.Light)
		v := r.C.Intn("hostile-headers-answer", 13)
		if headHeight && len(hs) > 0 && r.C.Chance("inflate-height", 1, 2) {
			v = 100
		}
		if skeletonReq && r.C.Chance("make-up-skeleton", 1, 2) {
			v = 10
		}
		switch {
		case v == 100:
			h := types.CopyHeader(hs[0])
			if r.C.Chance("huge", 1, 3) {
				h.Number = new(big.Int).Lsh(big.NewInt(1), uint(20+r.C.Intn("bits", 44)))
			} else {
				h.Number = new(big.Int).Add(h.Number, big.NewInt(int64(300+r.C.Intn("ahead", 2000))))
			}
			hostile, hlabel = encodeHeaders([]*types.Header{h}, q.Light), fmt.Sprintf("the head header under number %v", h.Number)
		case v >= 10:
			// headers the peer makes up: real headers under numbers of its choosing (the seal no longer
			// matches, but nothing has verified a header when the downloader first looks at the numbers)
			base := q.Origin.Number
			if base == 0 {
				base = w.nodeHeight() + 1
			}
			menu := [][]uint64{
				{base, base + q.Skip + 1, base + 2*(q.Skip+1)}, // what was asked for, made up
				{base + 1000},
				{1 << 40},
				{base - 5},
				{1<<24 + base},
				{base, 1 << 62},
				{maxU64()},
			}
			pick := r.C.Intn("made-up-numbers", len(menu))
			var t []*types.Header
			for i, n := range menu[pick] {
				h := types.CopyHeader(w.full[1+i%(len(w.full)-1)].Header())
				h.Number = new(big.Int).SetUint64(n)
				t = append(t, h)
			}
			hostile, hlabel = encodeHeaders(t, q.Light), fmt.Sprintf("made-up headers numbered %v", menu[pick])
		case v >= 7 && len(hs) > 0:
			t := make([]*types.Header, len(hs))
			copy(t, hs)
			i := r.C.Intn("which", len(hs))
			h := types.CopyHeader(hs[i])
			how := w.fieldHostile(h)
			t[i] = h
			hostile, hlabel = encodeHeaders(t, false), fmt.Sprintf("header %v with %s", h.Number, how)
		case v == 0 && len(hs) > 1:
			hostile, hlabel = encodeHeaders(hs[1:], q.Light), "first header missing"
		case v == 1 && len(hs) > 0:
			hostile, hlabel = encodeHeaders(append(append([]*types.Header{}, hs...), hs[len(hs)-1]), q.Light), "last header twice"
		case v == 2 && len(hs) > 1:
			rev := make([]*types.Header, len(hs))
			for i := range hs {
				rev[len(hs)-1-i] = hs[i]
			}
			hostile, hlabel = encodeHeaders(rev, q.Light), "reversed"
		case v == 3 && len(hs) > 0:
			var many []*types.Header
			for i := 0; i < 192; i++ {
				many = append(many, hs[0])
			}
			hostile, hlabel = encodeHeaders(many, q.Light), "192 copies of the first header"
		case v == 4 && len(hs) > 0:
			t := make([]*types.Header, len(hs))
			copy(t, hs)
			h := types.CopyHeader(hs[len(hs)-1])
			if len(h.Validator) > 10 {
				h.Validator = append([]byte{}, h.Validator...)
				h.Validator[len(h.Validator)/3] ^= 0x01
			}
			h.Signature = append([]byte{}, h.Signature...)
			if len(h.Signature) > 0 {
				h.Signature[0] ^= 0x80
			}
			t[len(t)-1] = h
			hostile, hlabel = encodeHeaders(t, false), "last header with corrupted validator data and signature (same hash)"
		case v == 5 && len(hs) > 0:
			t := make([]*types.Header, len(hs))
			copy(t, hs)
			h := types.CopyHeader(hs[0])
			h.GasUsed ^= 1
			t[0] = h
			hostile, hlabel = encodeHeaders(t, q.Light), "first header with another GasUsed (another hash)"
		default:
			hostile, hlabel = enc([]*types.Header{}), "empty"
		}
	case you.GetBlockBodiesMsg:
		var hashes []common.Hash
		if err := rlp.DecodeBytes(req.data, &hashes); err != nil {
			r.Report("node-sent-undecodable:GetBlockBodies", "%v", err)
			return
		}
		bodies := view.bodies(hashes)
		code, payload = you.BlockBodiesMsg, enc(bodies)
		switch v := r.C.Intn("hostile-bodies-answer", 4); {
		case v == 0 && len(bodies) > 1:
			sw := append([]rlp.RawValue{}, bodies...)
			sw[0], sw[1] = sw[1], sw[0]
			hostile, hlabel = enc(sw), "first two bodies swapped"
		case v == 1:
			hostile, hlabel = enc(append(append([]rlp.RawValue{}, bodies...), enc(w.full[1].Body()))), "one body too many"
		case v == 2 && len(bodies) > 0:
			hostile, hlabel = enc(make([]types.Body, len(bodies))), "empty bodies"
		default:
			hostile, hlabel = enc([]*types.Body{}), "empty"
		}
	case you.GetBlockMsg:
		var h common.Hash
		if err := rlp.DecodeBytes(req.data, &h); err != nil {
			r.Report("node-sent-undecodable:GetBlock", "%v", err)
			return
		}
		b := view.known(h)
		if b == nil {
			r.Logf("%s: does not own the block the node asks for (%x); no answer", c.tag(), h.Bytes()[:6])
			r.Fault("unanswered-request")
			return
		}
		code, payload = you.NewBlockMsg, enc(b)
		n := b.NumberU64()
		if r.C.Chance("foreign-body", 1, 2) && n > 0 {
			hostile, hlabel = enc(w.tamper(n, nil, &types.Body{})), "the block without its transactions"
		} else {
			hostile, hlabel = enc(w.full[1]), "another block than requested"
		}
	case you.GetNodeDataMsg:
		var q you.GetNodeDataMsgData
		if err := rlp.DecodeBytes(req.data, &q); err != nil {
			r.Report("node-sent-undecodable:GetNodeData", "%v", err)
			return
		}
		var blobs [][]byte
		for _, h := range q.Hashes {
			blob, err := w.cw.B.Chain.StateTrieNode(h)
			if err != nil {
				break
			}
			blobs = append(blobs, blob)
		}
		code, payload = you.NodeDataMsg, enc(blobs)
		hostile, hlabel = enc([][]byte{r.C.Bytes("blob", 33)}), "a junk blob"
	case you.GetReceiptsMsg:
		var hashes []common.Hash
		if err := rlp.DecodeBytes(req.data, &hashes); err != nil {
			r.Report("node-sent-undecodable:GetReceipts", "%v", err)
			return
		}
		code, payload = you.ReceiptsMsg, enc(w.receiptsOf(view, hashes))
		hostile, hlabel = enc(make([][]*types.Receipt, len(hashes)+1)), "empty lists, one too many"
	}
	cn := codeName(code)
	r.FP(c.name, "answer", codeName(req.code), names[policy])
	label := fmt.Sprintf("answer to %s %s: %s", codeName(req.code), describe(req.code, req.data), names[policy])
	switch policy {
	case 0:
		if w.send(c, code, payload, uint32(len(payload)), label) {
			r.Probe("code:" + cn)
			r.Probe("request-served-honestly")
		}
	case 1:
		bad, how := networld.Mutate(r.C, payload)
		w.lastFault = cn
		w.hostileN++
		if w.send(c, code, bad, uint32(len(bad)), label+" ("+how+")") {
			r.Probe("code:" + cn)
			r.Probe("request-served-hostile")
			r.Fault("corrupt-answer")
		}
	case 2:
		w.lastFault = cn
		w.hostileN++
		if w.send(c, code, hostile, uint32(len(hostile)), label+" ("+hlabel+")") {
			r.Probe("code:" + cn)
			r.Probe("request-served-hostile")
			r.Fault("hostile-answer")
		}
	case 3:
		r.Logf("%s: %s", c.tag(), label)
		r.Fault("unanswered-request")
	case 4:
		if w.send(c, code, payload, uint32(len(payload)), label) {
			r.Probe("code:" + cn)
			r.Probe("request-served-honestly")
			w.lastFault = cn
			w.hostileN++
			if w.send(c, code, payload, uint32(len(payload)), label+" (again)") {
				r.Fault("duplicate-delivery")
			}
		}
	}
	if h := w.nodeHeight(); h > w.startHead {
		r.Probe("sync-imported-blocks")
	}
	c.got = nil
}

// ---------------------------------------------------------------------------------------------
// oracle (b): the node stays responsive

// probeCheck asks, as the honest probe peer, for the header and the body of a known block.
func (w *world) probeCheck() {
	r := w.r
	p := w.probe
	after := w.lastFaultOr("nothing-hostile")
	if !p.alive() || !p.sp.Registered() {
		r.Report("honest-peer-dropped-after:"+after, "the honest probe peer is no longer served (handler returned: %v)", errText(p.serveErr))
		// a new persistent probe, so that the rest of the run is still observed
		w.probe = w.connect(true, false, 0)
		return
	}
	w.probeSeq++
	w.ask(p, 1+w.probeSeq%w.nodeHeight(), after, "")
}

// ask sends the two probe queries on c and checks the answers.
func (w *world) ask(c *conn, n uint64, after, probeName string) bool {
	r := w.r
	c.got = nil
	want := w.full[n]
	q := enc(&you.SimGetBlockHeadersData{Origin: you.HashOrNumber{Number: n}, Amount: 1})
	ok := true
	check := func(code uint64, good func(data []byte) bool, what string) {
		for try := 0; ; try++ {
			for _, m := range c.take(code) {
				if good(m.data) {
					return
				}
				r.Report("node-wrong-answer-after:"+after, "the honest probe asked for the %s of block %d and got something else", what, n)
				ok = false
				return
			}
			if try == 1 || !c.alive() {
				break
			}
			time.Sleep(time.Second) // bounded patience: one simulated second
			w.settle()
		}
		r.Report("node-unresponsive-after:"+after, "the honest probe asked for the %s of block %d and got no answer at quiescence nor a second later (connection alive=%v, write pending=%v)", what, n, c.alive(), c.writing != nil)
		ok = false
	}
	w.send(c, you.GetBlockHeadersMsg, q, uint32(len(q)), fmt.Sprintf("probe: header %d", n))
	check(you.BlockHeadersMsg, func(data []byte) bool {
		var hs []*types.Header
		return rlp.DecodeBytes(data, &hs) == nil && sameHeaders(hs, []*types.Header{want.Header()}, false, w.startHead)
	}, "header")
	if !ok {
		return false
	}
	b := enc([]common.Hash{want.Hash()})
	w.send(c, you.GetBlockBodiesMsg, b, uint32(len(b)), fmt.Sprintf("probe: body %d", n))
	check(you.BlockBodiesMsg, func(data []byte) bool {
		var bs []*types.Body
		return rlp.DecodeBytes(data, &bs) == nil && len(bs) == 1 && types.DeriveSha(types.Transactions(bs[0].Transactions)) == want.TxHash()
	}, "body")
	if ok && probeName != "" {
		r.Probe(probeName)
	}
	return ok
}

// freshProbe: an honest peer that handshakes now gets correct answers, then leaves.
func (w *world) freshProbe() {
	after := w.lastFaultOr("nothing-hostile")
	n := 0
	for _, c := range w.conns {
		if c.alive() {
			n++
		}
	}
	if n >= 4 {
		w.r.Logf("fresh probe skipped (four connections open)")
		return
	}
	c := w.connect(true, false, 0)
	if !c.registered {
		w.r.Report("node-unresponsive-after:"+after, "a freshly connecting honest peer could not complete the handshake: %v", errText(c.serveErr))
		return
	}
	w.ask(c, w.nodeHeight(), after, "fresh-probe-answered")
	w.closeConn(c, "fresh probe leaves")
	w.settle()
}
