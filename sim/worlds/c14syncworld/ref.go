package c14syncworld

import (
	"bytes"
	"fmt"
	"math/big"

	"github.com/youchainhq/go-youchain/common"
	"github.com/youchainhq/go-youchain/core/types"
	"github.com/youchainhq/go-youchain/crypto"
	"github.com/youchainhq/go-youchain/rlp"
	"github.com/youchainhq/go-youchain/you"
)

func bigInt(v int64) *big.Int { return big.NewInt(v) }

// the message codes of protocol you/8 (protocol.go:46-62) plus the unassigned codes below the
// advertised protocol length (18): higher codes never reach the handler, the p2p layer rejects them.
var allCodes = []uint64{you.StatusMsg, you.NewBlockMsg, you.NewBlockHashMsg, you.TxMsg, you.GetBlockMsg, you.ConsensusCtrMsg, you.ConsensusMsg,
	you.GetBlockHeadersMsg, you.BlockHeadersMsg, you.GetNodeDataMsg, you.NodeDataMsg, you.GetBlockBodiesMsg, you.BlockBodiesMsg, you.GetReceiptsMsg, you.ReceiptsMsg,
	0x0f, 0x10, 0x11}

func codeName(c uint64) string {
	switch c {
	case you.StatusMsg:
		return "Status"
	case you.NewBlockMsg:
		return "NewBlock"
	case you.NewBlockHashMsg:
		return "NewBlockHash"
	case you.TxMsg:
		return "Tx"
	case you.GetBlockMsg:
		return "GetBlock"
	case you.ConsensusCtrMsg:
		return "ConsensusCtr"
	case you.ConsensusMsg:
		return "Consensus"
	case you.GetBlockHeadersMsg:
		return "GetBlockHeaders"
	case you.BlockHeadersMsg:
		return "BlockHeaders"
	case you.GetNodeDataMsg:
		return "GetNodeData"
	case you.NodeDataMsg:
		return "NodeData"
	case you.GetBlockBodiesMsg:
		return "GetBlockBodies"
	case you.BlockBodiesMsg:
		return "BlockBodies"
	case you.GetReceiptsMsg:
		return "GetReceipts"
	case you.ReceiptsMsg:
		return "Receipts"
	}
	if c < 18 {
		return "Unassigned"
	}
	return "OutOfRange"
}

// describe renders what the node sent in chain terms (block numbers, counts), never raw order
// of anything map-backed.
func describe(code uint64, data []byte) string {
	switch code {
	case you.GetBlockHeadersMsg:
		var q you.SimGetBlockHeadersData
		if rlp.DecodeBytes(data, &q) == nil {
			return fmt.Sprintf("origin=(%x,%d) amount=%d skip=%d reverse=%v light=%v", q.Origin.Hash.Bytes()[:4], q.Origin.Number, q.Amount, q.Skip, q.Reverse, q.Light)
		}
	case you.BlockHeadersMsg:
		var hs []*types.Header
		if rlp.DecodeBytes(data, &hs) == nil {
			s := fmt.Sprintf("%d headers:", len(hs))
			for i, h := range hs {
				if i == 12 {
					s += " .."
					break
				}
				s += fmt.Sprintf(" %v", h.Number)
			}
			return s
		}
	case you.GetBlockBodiesMsg, you.GetReceiptsMsg:
		var hs []common.Hash
		if rlp.DecodeBytes(data, &hs) == nil {
			return fmt.Sprintf("%d hashes %s", len(hs), hashList(hs))
		}
	case you.GetBlockMsg:
		var h common.Hash
		if rlp.DecodeBytes(data, &h) == nil {
			return fmt.Sprintf("hash %x", h.Bytes()[:6])
		}
	case you.NewBlockMsg:
		var b types.Block
		if rlp.DecodeBytes(data, &b) == nil {
			return fmt.Sprintf("block %d %x txs=%d", b.NumberU64(), b.Hash().Bytes()[:6], len(b.Transactions()))
		}
	case you.NewBlockHashMsg:
		var a you.NewBlockHashesData
		if rlp.DecodeBytes(data, &a) == nil {
			s := fmt.Sprintf("%d announces:", len(a))
			for i, e := range a {
				if i == 8 {
					break
				}
				s += fmt.Sprintf(" %d/%x", e.Number, e.Hash.Bytes()[:4])
			}
			return s
		}
	case you.TxMsg:
		var txs []*types.Transaction
		if rlp.DecodeBytes(data, &txs) == nil {
			return fmt.Sprintf("%d txs", len(txs))
		}
	case you.GetNodeDataMsg:
		var q you.GetNodeDataMsgData
		if rlp.DecodeBytes(data, &q) == nil {
			return fmt.Sprintf("kind=%d %d hashes %s", q.Kind, len(q.Hashes), hashList(q.Hashes))
		}
	case you.StatusMsg:
		var st you.SimStatusData
		if rlp.DecodeBytes(data, &st) == nil {
			return fmt.Sprintf("v=%d net=%d origin=%d height=%d head=%x", st.ProtocolVersion, st.NetworkId, st.Origin, st.Height, st.CurrentBlock.Bytes()[:6])
		}
	}
	return fmt.Sprintf("%d bytes %s", len(data), short(data))
}

func hashList(hs []common.Hash) string {
	s := ""
	for i, h := range hs {
		if i == 6 {
			s += ".."
			break
		}
		s += fmt.Sprintf("%x,", h.Bytes()[:4])
	}
	return s
}

// ---------------------------------------------------------------------------------------------
// Reference semantics of the retrieval queries over a chain that is one canonical sequence
// (no side chains): the meaning of GetBlockHeaders (origin by hash or number, amount, skip,
// direction) as the protocol defines it.

type chainView struct {
	blocks []*types.Block // index = number; only [0, top] is visible
	top    uint64
	byHash map[common.Hash]*types.Block
}

func (w *world) nodeView() chainView {
	return chainView{blocks: w.full, top: w.nodeHeight(), byHash: w.byHash}
}

func (w *world) peerView() chainView {
	return chainView{blocks: w.full, top: uint64(len(w.full) - 1), byHash: w.byHash}
}

func (v chainView) known(h common.Hash) *types.Block {
	b := v.byHash[h]
	if b == nil || b.NumberU64() > v.top {
		return nil
	}
	return b
}

// saneHeadersQuery: the domain in which the answer is unambiguous and no implementation limit
// of a server matters (a server may cap a reply; all known servers cap far above 64).
func saneHeadersQuery(q *you.SimGetBlockHeadersData) bool {
	byHash := q.Origin.Hash != (common.Hash{})
	if byHash && q.Origin.Number != 0 {
		return false
	}
	return q.Amount <= 64 && q.Skip < 1<<32
}

func (v chainView) headers(q *you.SimGetBlockHeadersData) []*types.Header {
	var out []*types.Header
	num := q.Origin.Number
	if q.Origin.Hash != (common.Hash{}) {
		b := v.known(q.Origin.Hash)
		if b == nil {
			return nil
		}
		num = b.NumberU64()
	}
	step := q.Skip + 1
	for uint64(len(out)) < q.Amount {
		if num > v.top {
			break
		}
		out = append(out, v.blocks[num].Header())
		if q.Reverse {
			if num < step {
				break
			}
			num -= step
		} else {
			if num+step < num {
				break
			}
			num += step
		}
	}
	return out
}

func encodeHeaders(hs []*types.Header, light bool) []byte {
	out := make([]*types.Header, len(hs))
	for i, h := range hs {
		out[i] = h
		if light {
			cp := types.CopyHeader(h)
			cp.Validator = []byte{}
			out[i] = cp
		}
	}
	enc, err := rlp.EncodeToBytes(out)
	if err != nil {
		panic(err)
	}
	return enc
}

func (v chainView) bodies(hashes []common.Hash) []rlp.RawValue {
	var out []rlp.RawValue
	for _, h := range hashes {
		if b := v.known(h); b != nil {
			enc, err := rlp.EncodeToBytes(b.Body())
			if err != nil {
				panic(err)
			}
			out = append(out, enc)
		}
	}
	return out
}

func (w *world) receiptsOf(v chainView, hashes []common.Hash) []rlp.RawValue {
	var out []rlp.RawValue
	for _, h := range hashes {
		if b := v.known(h); b != nil && b.NumberU64() > 0 {
			enc, err := rlp.EncodeToBytes(w.receipts[h])
			if err != nil {
				panic(err)
			}
			out = append(out, enc)
		}
	}
	return out
}

// ---------------------------------------------------------------------------------------------
// checkReply decides oracle (d) for one query the simulator has just sent: it looks only at the
// bytes that went over the wire (decoded with the protocol's own packet types) and at the
// node's reply.

func (w *world) checkReply(c *conn, code uint64, payload []byte, declared uint32) {
	if int(declared) != len(payload) {
		return
	}
	view := w.nodeView()
	cn := codeName(code)
	switch code {
	case you.GetBlockHeadersMsg:
		replies := c.take(you.BlockHeadersMsg)
		var q you.SimGetBlockHeadersData
		if err := wireDecode(payload, &q); err != nil {
			if len(replies) > 0 {
				w.r.Report("reply-to-undecodable:"+cn, "the node answered a query that does not decode (%v): %x", err, payload[:min(len(payload), 200)])
			}
			return
		}
		if !c.alive() {
			return
		}
		if len(replies) != 1 {
			w.r.Report("query-not-answered:"+cn, "%d replies to a decodable GetBlockHeaders %s | %x", len(replies), describe(code, payload), payload)
			return
		}
		var got []*types.Header
		if err := rlp.DecodeBytes(replies[0].data, &got); err != nil {
			w.r.Report("node-sent-undecodable:BlockHeaders", "%v", err)
			return
		}
		for _, h := range got {
			b := view.known(h.Hash())
			if b == nil || !h.Number.IsUint64() || b.NumberU64() != h.Number.Uint64() {
				w.r.Report("reply-not-chain-data:"+cn, "a returned header (number %v, %x) is not a canonical header of the node | query %s", h.Number, h.Hash().Bytes()[:6], describe(code, payload))
				return
			}
			if q.Light && len(h.Validator) != 0 {
				w.r.Report("light-header-carries-validator", "query %s", describe(code, payload))
			}
		}
		if q.Amount < 1<<31 && uint64(len(got)) > q.Amount {
			w.r.Report("reply-exceeds-amount:"+cn, "%d headers for amount %d", len(got), q.Amount)
		}
		if saneHeadersQuery(&q) {
			want := view.headers(&q)
			if !sameHeaders(got, want, q.Light, w.startHead) {
				w.r.Report("wrong-reply:"+cn, "query %s: got %s, the chain says %s", describe(code, payload), numbers(got), numbers(want))
				return
			}
			w.r.Probe("valid-query-answered")
		}
	case you.GetBlockBodiesMsg:
		replies := c.take(you.BlockBodiesMsg)
		if !c.alive() {
			return
		}
		for _, rp := range replies {
			var bodies []*types.Body
			if err := rlp.DecodeBytes(rp.data, &bodies); err != nil {
				w.r.Report("node-sent-undecodable:BlockBodies", "%v", err)
				return
			}
		}
		var hashes []common.Hash
		if err := wireDecode(payload, &hashes); err != nil {
			return // the handler reads the list element-wise; what it does with a partly decodable list is its choice
		}
		if len(replies) != 1 {
			w.r.Report("query-not-answered:"+cn, "%d replies to a decodable GetBlockBodies of %d hashes", len(replies), len(hashes))
			return
		}
		var got []*types.Body
		rlp.DecodeBytes(replies[0].data, &got)
		var known []*types.Block
		for _, h := range hashes {
			if b := view.known(h); b != nil {
				known = append(known, b)
			}
		}
		if len(got) > len(known) {
			w.r.Report("wrong-reply:"+cn, "%d bodies returned, %d of the requested hashes are known", len(got), len(known))
			return
		}
		for i, body := range got {
			if types.DeriveSha(types.Transactions(body.Transactions)) != known[i].TxHash() {
				w.r.Report("wrong-reply:"+cn, "body %d of the reply does not hash to the transaction root of block %d", i, known[i].NumberU64())
				return
			}
		}
		if len(hashes) <= 64 {
			if len(got) != len(known) {
				w.r.Report("wrong-reply:"+cn, "%d bodies returned for %d known requested blocks", len(got), len(known))
				return
			}
			w.r.Probe("valid-query-answered")
		}
	case you.GetReceiptsMsg:
		replies := c.take(you.ReceiptsMsg)
		if !c.alive() {
			return
		}
		var hashes []common.Hash
		if err := wireDecode(payload, &hashes); err != nil {
			return
		}
		if len(replies) != 1 {
			w.r.Report("query-not-answered:"+cn, "%d replies to a decodable GetReceipts of %d hashes", len(replies), len(hashes))
			return
		}
		var got [][]*types.Receipt
		if err := rlp.DecodeBytes(replies[0].data, &got); err != nil {
			w.r.Report("node-sent-undecodable:Receipts", "%v", err)
			return
		}
		var known []*types.Block
		for _, h := range hashes {
			if b := view.known(h); b != nil {
				known = append(known, b)
			}
		}
		if len(got) > len(known) {
			w.r.Report("wrong-reply:"+cn, "%d receipt lists returned, %d requested blocks known", len(got), len(known))
			return
		}
		for i, rs := range got {
			if types.DeriveSha(types.Receipts(rs)) != known[i].ReceiptHash() {
				w.r.Report("wrong-reply:"+cn, "receipt list %d does not hash to the receipt root of block %d", i, known[i].NumberU64())
				return
			}
		}
		if len(hashes) <= 64 {
			if len(got) != len(known) {
				w.r.Report("wrong-reply:"+cn, "%d receipt lists for %d known requested blocks", len(got), len(known))
				return
			}
			w.r.Probe("valid-query-answered")
		}
	case you.GetNodeDataMsg:
		replies := c.take(you.NodeDataMsg)
		if !c.alive() {
			return
		}
		var q you.GetNodeDataMsgData
		if err := wireDecode(payload, &q); err != nil {
			if len(replies) > 0 {
				w.r.Report("reply-to-undecodable:"+cn, "the node answered a query that does not decode (%v)", err)
			}
			return
		}
		if len(replies) > 1 {
			w.r.Report("wrong-reply:"+cn, "%d replies to one query", len(replies))
			return
		}
		if len(replies) == 1 {
			var blobs [][]byte
			if err := rlp.DecodeBytes(replies[0].data, &blobs); err != nil {
				w.r.Report("node-sent-undecodable:NodeData", "%v", err)
				return
			}
			if len(blobs) > len(q.Hashes) {
				w.r.Report("wrong-reply:"+cn, "%d blobs for %d hashes", len(blobs), len(q.Hashes))
				return
			}
			for i, b := range blobs {
				if crypto.Keccak256Hash(b) != q.Hashes[i] {
					w.r.Report("wrong-reply:"+cn, "blob %d does not hash to the %d-th requested hash", i, i)
					return
				}
			}
			if len(blobs) == len(q.Hashes) && len(blobs) > 0 {
				w.r.Probe("valid-query-answered")
			}
		}
	case you.GetBlockMsg:
		var h common.Hash
		if err := wireDecode(payload, &h); err != nil {
			return
		}
		if !c.alive() {
			return
		}
		want := view.known(h)
		found := false
		var rest []inMsg
		for _, m := range c.got {
			if m.code == you.NewBlockMsg && !found {
				var b types.Block
				if err := rlp.DecodeBytes(m.data, &b); err != nil {
					w.r.Report("node-sent-undecodable:NewBlock", "%v", err)
					continue
				}
				if b.Hash() == h {
					found = true
					if want == nil || types.DeriveSha(b.Transactions()) != want.TxHash() {
						w.r.Report("wrong-reply:"+cn, "the block sent for %x is not the canonical block with its body", h.Bytes()[:6])
					}
					continue
				}
			}
			rest = append(rest, m)
		}
		c.got = rest
		if want != nil && !found {
			w.r.Report("query-not-answered:"+cn, "no block sent for the known hash %x (block %d)", h.Bytes()[:6], want.NumberU64())
		} else if found {
			w.r.Probe("valid-query-answered")
		}
	}
}

// sameHeaders compares header identities (hashes) and, for the blocks the node was given by the
// simulator itself (number <= trusted), complete encodings: Header.Hash omits Validator, Signature
// and Certificate, and whether a header whose unhashed fields differ may be accepted from a peer
// is a question of header verification, not of this property.
func sameHeaders(got, want []*types.Header, light bool, trusted uint64) bool {
	if len(got) != len(want) {
		return false
	}
	for i := range got {
		if got[i].Hash() != want[i].Hash() {
			return false
		}
		if want[i].Number.Uint64() > trusted {
			continue
		}
		if !bytes.Equal(encodeHeaders(got[i:i+1], false), encodeHeaders(want[i:i+1], light)) {
			return false
		}
	}
	return true
}

// wireDecode decodes a message payload the way the handlers do (p2p.Msg.Decode, message.go:53-58:
// a stream limited to the message size; bytes after the first value are not looked at).
func wireDecode(payload []byte, val interface{}) error {
	return rlp.NewStream(bytes.NewReader(payload), uint64(len(payload))).Decode(val)
}

func numbers(hs []*types.Header) string {
	s := "["
	for i, h := range hs {
		if i == 16 {
			s += " .."
			break
		}
		s += fmt.Sprintf(" %v", h.Number)
	}
	return s + " ]"
}
