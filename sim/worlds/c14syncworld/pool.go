package c14syncworld

import (
	"sort"
	"sync"

	"verifsim/worlds/chainkit"

	"github.com/youchainhq/go-youchain/common"
	"github.com/youchainhq/go-youchain/core"
	"github.com/youchainhq/go-youchain/core/types"
	"github.com/youchainhq/go-youchain/event"
)

// stubPool implements the txPool interface of package you (protocol.go:105). It does what the
// real pool does with a remote batch before any state is consulted — sender recovery of every
// transaction (TxPool.addTxs, core/tx_pool.go:660-662) and the stateless checks at the top of
// validateTx (tx_pool.go:548-564) — and announces the accepted ones as the real pool would
// (NewTxsEvent), so that the manager's broadcast loop runs.
type stubPool struct {
	mu      sync.Mutex
	feed    event.Feed
	subs    []event.Subscription
	pending []*types.Transaction
	seen    map[common.Hash]bool
	signer  types.Signer
	Added   int
}

func newStubPool(pending []*types.Transaction) *stubPool {
	return &stubPool{pending: pending, seen: map[common.Hash]bool{}, signer: chainkit.Signer()}
}

func (p *stubPool) AddRemotes(txs types.Transactions) []error {
	for _, tx := range txs {
		types.Sender(p.signer, tx) // tx_pool.go:660
	}
	p.mu.Lock()
	errs := make([]error, len(txs))
	var ok types.Transactions
	for i, tx := range txs {
		switch {
		case p.seen[tx.Hash()]:
			errs[i] = core.ErrNonceTooLow
		case tx.Size() > 32*1024:
			errs[i] = core.ErrOversizedData
		case tx.Value().Sign() < 0:
			errs[i] = core.ErrNegativeValue
		default:
			if _, err := types.Sender(p.signer, tx); err != nil {
				errs[i] = core.ErrInvalidSender
				continue
			}
			p.seen[tx.Hash()] = true
			ok = append(ok, tx)
		}
	}
	p.Added += len(ok)
	p.mu.Unlock()
	if len(ok) > 0 {
		p.feed.Send(core.NewTxsEvent{Txs: ok})
	}
	return errs
}

func (p *stubPool) Pending() (map[common.Address]types.Transactions, error) {
	p.mu.Lock()
	defer p.mu.Unlock()
	out := map[common.Address]types.Transactions{}
	for _, tx := range p.pending {
		from, err := types.Sender(p.signer, tx)
		if err != nil {
			continue
		}
		out[from] = append(out[from], tx)
	}
	for _, l := range out {
		sort.Sort(types.TxByNonce(l))
	}
	return out, nil
}

func (p *stubPool) SubscribeNewTxsEvent(ch chan<- core.NewTxsEvent) event.Subscription {
	s := p.feed.Subscribe(ch)
	p.mu.Lock()
	p.subs = append(p.subs, s)
	p.mu.Unlock()
	return s
}

func (p *stubPool) close() {
	p.mu.Lock()
	subs := p.subs
	p.subs = nil
	p.mu.Unlock()
	for _, s := range subs {
		s.Unsubscribe()
	}
}
