// Package c14syncworld is the SYNC world, part "sync-seams" of the check for C14: a real
// you.ProtocolManager (handler.go, peer.go, sync.go, the real fetcher and downloader) over a real
// core.BlockChain with a short real chain, inside one synctest bubble. The remote side of every
// connection is played by the simulator over p2p.MsgPipe: it performs the real handshake and then
// sends valid, corrupted and semantically hostile protocol messages, serves (or mis-serves) the
// node's own requests, and an honest probe peer checks after every hostile message that the node
// still answers correctly.
package c14syncworld

import (
	"bytes"
	"fmt"
	"io"
	"os"
	"runtime"
	"runtime/debug"
	"sort"
	"strings"
	"sync"
	"time"

	"verifsim/kit"
	"verifsim/simdisk"
	"verifsim/worlds/chainkit"
	"verifsim/worlds/chainworld"

	"github.com/youchainhq/go-youchain/common"
	"github.com/youchainhq/go-youchain/core"
	"github.com/youchainhq/go-youchain/core/types"
	"github.com/youchainhq/go-youchain/logging"
	"github.com/youchainhq/go-youchain/p2p"
	"github.com/youchainhq/go-youchain/p2p/enode"
	"github.com/youchainhq/go-youchain/params"
	"github.com/youchainhq/go-youchain/rlp"
	"github.com/youchainhq/go-youchain/you"
	"github.com/youchainhq/go-youchain/you/downloader"
)

func init() {
	logging.Root().SetHandler(logging.DiscardHandler())
	params.InitNetworkId(params.NetworkIdForTestCase)

	var probes []string
	for _, c := range allCodes {
		probes = append(probes, "code:"+codeName(c))
	}
	probes = append(probes, "sync-started", "sync-imported-blocks", "fetcher-imported-block", "fetcher-requested-block", "peer-dropped-by-node",
		"handler-returned-error", "request-served-honestly", "request-served-hostile", "valid-query-answered", "fresh-probe-answered")
	kit.Register(&kit.Check{
		Prop: "C14", Name: "sync-seams", World: "SYNC", Level: "exploration", Share: 1,
		Rule: "one real you.ProtocolManager (plain or UCon flavour, seeded) with the real fetcher and downloader over a real BlockChain holding 3-6 real blocks, in a synctest bubble; " +
			"the simulator plays up to two hostile remote peers and one honest probe peer over p2p.MsgPipe through the production per-connection entry point (Protocol.Run body). " +
			"Seeded schedule of: handshake variants (honest, wrong genesis/network/version, non-status first, corrupted, silent, oversize), every message code of the protocol (0x00-0x11) " +
			"as a VALID message built from the real chain, as a corrupted copy (networld.Mutate: bit flips, truncation, extension, outer/inner size-field attacks, non-canonical and wrong-shape " +
			"canonical encodings) and as seeded semantically hostile messages (huge amount/skip, max-uint64 origin, unknown hashes, blocks with foreign bodies or tampered headers, unrequested and " +
			"duplicated deliveries, the zero hash, header fields with hostile values before and behind the seal check, second status, declared size above ProtocolMaxMsgSize); the node's own requests (GetBlock, GetBlockHeaders, GetBlockBodies, ... issued by the real fetcher and by " +
			"real downloader sync cycles against a peer that owns 1-3 more real blocks) are answered honestly, corrupted, hostile (missing/duplicated/reordered/tampered items, made-up header numbers; the adversary lies more often at the head-height and skeleton questions of a sync cycle), twice or not at all; simulated time is advanced so that the " +
			"fetcher/downloader/handshake timeouts fire. Oracles: (a) no panic (handler goroutine: recovered and classified; node goroutine: process crash); (b) after every hostile message an honest " +
			"probe peer gets the correct header and body of a known block at quiescence, a freshly handshaking probe too, and the honest probe is never dropped; (c) TotalAlloc around handling one message " +
			"< 1 MiB stays below 64 MiB; (d) every reply to a decodable query consists of genuine chain data, and equals the reference answer for in-range queries; (e) the canonical chain is always a " +
			"prefix of the one valid chain, never regresses, and its head state is present; rejected handshakes are not registered; oversize and second-status messages drop the peer. " +
			"Non-trivial = at least one corrupted or hostile message was handled after a completed handshake.",
		Real: []string{"you.ProtocolManager / UConProtocolManager (handle, handleMsg, every handleXxxMsg, Handshake/readStatus, peer set, broadcast loops, txsyncLoop, syncer, synchronise)",
			"you/fetcher.Fetcher", "you/downloader.Downloader (full sync: fetchHeight, findAncestor, fetchHeaders, processHeaders, fetchBodies, queue, importBlockResults; deliver entry points)",
			"core.BlockChain + staking module + un-started ucon.Server as verifying engine (chainkit.Importer)", "rlp, core/types codecs", "p2p.MsgPipe, p2p.Msg, p2p.NewPeer",
			"the builder of the CHAIN world (real miner/worker/TxPool over the forge engine) as the source of the valid chain"},
		Stub: []string{"the remote peers (simulator)", "the p2p.Server/rlpx transport (p2p.MsgPipe; p2p.NewPeer's Disconnect is a no-op, the simulator closes the pipe when the node unregisters a peer)",
			"the transaction pool: a stub implementing you.txPool that recovers senders as TxPool.addTxs does (core/tx_pool.go:660) and feeds NewTxsEvent", "simdisk instead of LevelDB"},
		FaultsNotInjected: []string{
			"fast/light sync cycles (acHeaders, CHT/BLT, state/validator trie download): the chains are shorter than 2*stakeLookBack so the downloader always runs its full-sync path; the trie-sync delivery path is C13/C19's world",
			"more than one downloader-registered (full-node type) peer at a time and more than four connected peers: idle-peer selection, propagation subsets and BestPeer ties follow Go map order and would make runs irreproducible; the 5-peer newPeerCh sync trigger is therefore not reached (force-sync and NewBlock-triggered syncs are)",
			"several peers announcing the same block hash (the fetcher picks the source with the unseeded math/rand)",
			"an engine that is mining: ConsensusMsg reaches ucon_handler.handleMsg and Server.HandleMsg, which ignores it while not mining; the consensus message handlers proper are decided by part net-seams",
			"messages whose declared size differs from the payload length other than the oversize case: the rlpx transport always delivers Size == len(payload)",
			"real TxPool admission (C20's world)"},
		Assumptions: []string{"ProtocolMaxMsgSize and the message codes are the protocol's published interface (exported constants), not implementation detail",
			"a simulator cannot explore a codec's input space better than a fuzzer; this part decides the handler seams for what valid traffic and mutations of it look like"},
		QuickBudget: 40 * time.Second, ThoroughBudget: 10 * time.Minute,
		MinRuns:        8,
		Exec:           run,
		ExpectedProbes: probes,
		PanicClass:     kit.PanicInRepo("handler-panic"),
	})
}

var echo = os.Getenv("C14SYNC_ECHO") != ""

// ---------------------------------------------------------------------------------------------

type inMsg struct {
	code uint64
	size uint32
	data []byte
}

// conn is one simulated connection (the remote side is ours).
type conn struct {
	w      *world
	slot   int // stable name in the trace
	name   string
	probe  bool
	full   bool // connects as a full-node type peer (registered with the downloader, gets tx sync)
	origin uint64

	app, net *p2p.MsgPipeRW
	sp       *you.SimPeer

	mu         sync.Mutex
	inbox      []inMsg
	serveDone  bool
	serveErr   error
	panicVal   interface{}
	panicStack string

	shook      bool // the handshake completed from our point of view
	registered bool // seen in the node's peer set
	closed     bool // we closed the pipe
	exitLogged bool
	writing    chan error // an in-flight write the handler has not consumed yet
	writingLbl string

	nodeStatus *you.SimStatusData
	pending    []inMsg // the node's requests we have not answered yet
	got        []inMsg // everything else the node sent since the last take
	announces  int
}

func (c *conn) tag() string { return c.name }

type world struct {
	r  *kit.Run
	cw *chainworld.World

	full     []*types.Block // full[i] = block number i of the one valid chain (0 = genesis); RLP round-tripped
	byHash   map[common.Hash]*types.Block
	receipts map[common.Hash]types.Receipts

	node *chainkit.Importer
	pm   *you.ProtocolManager
	um   *you.UConProtocolManager
	pool *stubPool

	conns      []*conn // live and dead connections in creation order
	probe      *conn
	nextSlot   int
	nextOrigin uint64
	lastHead   uint64
	startHead  uint64
	probeSeq   uint64
	announced  map[common.Hash]int // block hash -> slot of the only peer that announced it
	spareTxs   []*types.Transaction
	lastFault  string // code name of the last hostile stimulus (for violation classes)
	hostileN   int
}

func (w *world) head() *types.Block { return w.node.Chain.CurrentBlock() }

// nodeHeight is the number of the node's canonical head.
func (w *world) nodeHeight() uint64 { return w.head().NumberU64() }

func run(r *kit.Run) {
	setup := chainworld.Setup{NVals: 4, PoolCfg: core.DefaultTxPoolConfig,
		Stakes: []uint64{60000, 70000, 80000, 90000}, Offline: make([]bool, 4), House: make([]bool, 4)}
	chainworld.Run(r, setup, func(cw *chainworld.World) {
		w := &world{r: r, cw: cw, byHash: map[common.Hash]*types.Block{}, receipts: map[common.Hash]types.Receipts{}, announced: map[common.Hash]int{}}
		if !w.buildChain() {
			return
		}
		w.startNode()
		defer w.stopNode()
		w.drive()
	})
}

// buildChain lets the CHAIN world's builder produce the one valid chain: n blocks the node
// will own plus k blocks only the remote peers own.
func (w *world) buildChain() bool {
	r := w.r
	n := 3 + r.C.Intn("node-blocks", 4)
	k := 1 + r.C.Intn("extra-blocks", 3)
	w.startHead = uint64(n)
	gen := w.cw.B.Chain.GetBlockByNumber(0)
	w.addBlock(gen)
	for i := 0; i < n+k; i++ {
		ntx := 1 + r.C.Intn("ntx", 3)
		var txs []*types.Transaction
		for j := 0; j < ntx; j++ {
			from := (i + j) % chainkit.NClients
			to := chainworld.ClientAddr((from + 1 + r.C.Intn("to", chainkit.NClients-1)) % chainkit.NClients)
			// unique gas price per sender: the worker breaks price ties in map order
			txs = append(txs, w.cw.Transfer(from, to, bigInt(int64(1+r.C.Intn("amt", 1000))), int64(1+from)))
		}
		for _, e := range w.cw.Submit(txs...) {
			if e != nil {
				panic(fmt.Sprintf("c14sync: submit: %v", e))
			}
		}
		blk, err := w.cw.NextBlock()
		if err != nil {
			panic(fmt.Sprintf("c14sync: build block %d: %v", i+1, err))
		}
		w.addBlock(blk)
		w.receipts[blk.Hash()] = w.cw.B.Chain.GetReceiptsByHash(blk.Hash())
	}
	// transactions nobody has mined: material for TxMsg
	for j := 0; j < 4; j++ {
		from := j % chainkit.NClients
		w.spareTxs = append(w.spareTxs, w.cw.Transfer(from, chainworld.ClientAddr((from+3)%chainkit.NClients), bigInt(int64(7+j)), int64(1+from)))
	}
	r.Logf("chain built: node owns 1..%d, peers own 1..%d", n, n+k)
	return true
}

// addBlock stores an RLP round-tripped copy (sender caches and other in-memory state of the
// builder's objects must not travel to the node).
func (w *world) addBlock(b *types.Block) {
	enc, err := rlp.EncodeToBytes(b)
	if err != nil {
		panic(err)
	}
	cp := new(types.Block)
	if err := rlp.DecodeBytes(enc, cp); err != nil {
		panic(err)
	}
	if cp.Hash() != b.Hash() {
		panic("c14sync: block changed hash in the RLP round trip")
	}
	w.full = append(w.full, cp)
	w.byHash[cp.Hash()] = cp
}

func (w *world) startNode() {
	r := w.r
	im, err := chainkit.NewImporter(simdisk.NewNoLog(), w.cw.Genesis, kit.Wait)
	if err != nil {
		panic("c14sync: importer: " + err.Error())
	}
	w.node = im
	for i := uint64(1); i <= w.startHead; i++ {
		if err := im.Chain.InsertChain(types.Blocks{w.fresh(i)}); err != nil {
			panic(fmt.Sprintf("c14sync: node refuses valid block %d: %v", i, err))
		}
		kit.Wait()
	}
	if im.Chain.CurrentBlock().Hash() != w.full[w.startHead].Hash() {
		panic("c14sync: node head is not the block just imported")
	}
	w.lastHead = w.startHead
	w.pool = newStubPool(w.spareTxs[:1])
	if r.C.Chance("ucon-flavour", 1, 3) {
		// the manager of a validator node (backend.go:213); the engine stays un-started
		um, err := you.NewUConProtocolManager(w.pool, im.Chain, im.Engine, im.Mux, im.Disk, downloader.FullSync)
		if err != nil {
			panic(err)
		}
		w.um, w.pm = um, um.ProtocolManager
		um.Start(nil, 16)
		r.Logf("node: UConProtocolManager")
	} else {
		// the manager of a non-mining full node (backend.go:204)
		pm, err := you.NewProtocolManager(w.pool, im.Chain, im.Engine, im.Mux, im.Disk, downloader.FullSync)
		if err != nil {
			panic(err)
		}
		w.pm = pm
		pm.Start(nil, 16)
		r.Logf("node: ProtocolManager")
	}
	kit.Wait()
}

func (w *world) stopNode() {
	for _, c := range w.conns {
		w.closeConn(c, "teardown")
	}
	kit.Wait()
	for _, c := range w.conns {
		w.collectExit(c)
	}
	if w.um != nil {
		w.um.Stop()
	} else {
		w.pm.Stop()
	}
	w.pool.close() // Stop leaves the tx subscription open when the engine is Ucon (handler.go:842-845)
	kit.Wait()
	time.Sleep(2 * time.Minute) // let every ticker / time.After of the fetcher and downloader run out
	kit.Wait()
	w.node.Stop(kit.Wait)
}

// fresh returns a newly decoded copy of block n of the valid chain.
func (w *world) fresh(n uint64) *types.Block {
	enc, _ := rlp.EncodeToBytes(w.full[n])
	b := new(types.Block)
	if err := rlp.DecodeBytes(enc, b); err != nil {
		panic(err)
	}
	return b
}

// ---------------------------------------------------------------------------------------------
// connections

func (w *world) newConn(probe, full bool) *conn {
	c := &conn{w: w, slot: w.nextSlot, probe: probe, full: full}
	w.nextSlot++
	w.nextOrigin++
	c.origin = w.nextOrigin // distinct origins make PeerSet.BestPeer independent of map order
	if probe {
		c.name = fmt.Sprintf("probe%d", c.slot)
	} else {
		c.name = fmt.Sprintf("peer%d", c.slot)
	}
	c.app, c.net = p2p.MsgPipe()
	var id enode.ID
	copy(id[:], fmt.Sprintf("c14sync-node-%04d................", c.slot))
	nt := uint16(params.LightNode)
	if full {
		nt = uint16(params.FullNode)
	}
	c.sp = w.pm.SimNewPeer(id, c.name, int(you.ProtocolVersions[0]), nt, c.net)
	w.conns = append(w.conns, c)
	// our read side: drain whatever the node writes, as the remote host's socket would
	go func() {
		for {
			m, err := c.app.ReadMsg()
			if err != nil {
				return
			}
			data, _ := io.ReadAll(m.Payload)
			c.mu.Lock()
			c.inbox = append(c.inbox, inMsg{code: m.Code, size: m.Size, data: data})
			c.mu.Unlock()
		}
	}()
	// the node's side: the production per-connection entry point
	go func() {
		defer func() {
			if v := recover(); v != nil {
				c.mu.Lock()
				st := string(debug.Stack())
				if i := strings.Index(st, "\npanic("); i >= 0 {
					st = st[i+1:] // drop the frames of this recover handler: the classifier looks at the first non-runtime frame
				}
				c.panicVal, c.panicStack = v, st
				c.mu.Unlock()
			}
			c.mu.Lock()
			c.serveDone = true
			c.mu.Unlock()
			c.net.Close() // p2p closes the connection when Protocol.Run returns
		}()
		err := c.sp.Serve()
		c.mu.Lock()
		c.serveErr = err
		c.mu.Unlock()
	}()
	return c
}

func (w *world) closeConn(c *conn, why string) {
	if c.closed {
		return
	}
	c.closed = true
	c.app.Close()
	w.r.Logf("%s: connection closed by the simulator (%s)", c.tag(), why)
}

func (c *conn) done() bool {
	c.mu.Lock()
	defer c.mu.Unlock()
	return c.serveDone
}

func (c *conn) alive() bool { return !c.closed && !c.done() }

// collectExit logs the end of a connection's handler once, classifying a recovered panic.
func (w *world) collectExit(c *conn) bool {
	c.mu.Lock()
	done, err, pv, ps := c.serveDone, c.serveErr, c.panicVal, c.panicStack
	c.mu.Unlock()
	if !done || c.exitLogged {
		return false
	}
	c.exitLogged = true
	if pv != nil {
		cls := kit.PanicInRepo("handler-panic")(pv, ps)
		if cls == "" {
			panic(&kit.BubblePanic{Val: pv, Stack: ps})
		}
		w.r.Report(cls+":"+w.lastFaultOr("none"), "the handler goroutine of %s panicked: %v | %s", c.tag(), pv, repoFrames(ps))
		w.r.Logf("%s: handler PANIC", c.tag())
	} else {
		w.r.Logf("%s: handler returned: %s", c.tag(), errText(err))
		if c.shook && !c.closed {
			w.r.Probe("handler-returned-error")
		}
	}
	if !c.closed {
		c.closed = true // Serve's epilogue closed the pipe
	}
	return true
}

func (w *world) lastFaultOr(d string) string {
	if w.lastFault == "" {
		return d
	}
	return w.lastFault
}

func errText(err error) string {
	if err == nil {
		return "nil"
	}
	s := err.Error()
	if len(s) > 100 {
		s = s[:100]
	}
	return s
}

func repoFrames(stack string) string {
	var out []string
	for _, ln := range bytes.Split([]byte(stack), []byte("\n")) {
		s := string(bytes.TrimSpace(ln))
		if j := indexOf(s, "/repo/"); j >= 0 && indexOf(s, "/verif/") < 0 {
			if i := indexOf(s, " +0x"); i > 0 {
				s = s[:i]
			}
			out = append(out, s[j+len("/repo/"):])
			if len(out) >= 6 {
				break
			}
		}
	}
	return fmt.Sprint(out)
}

func indexOf(s, sub string) int { return bytes.Index([]byte(s), []byte(sub)) }

// ---------------------------------------------------------------------------------------------
// settle: quiescence, bookkeeping of what the node did

func (w *world) settle() {
	for round := 0; round < 40; round++ {
		kit.Wait()
		progress := false
		for _, c := range w.conns {
			// finished in-flight write?
			if c.writing != nil {
				select {
				case err := <-c.writing:
					w.r.Logf("%s: delayed write of %s completed: %s", c.tag(), c.writingLbl, errText(err))
					c.writing = nil
					progress = true
				default:
				}
			}
			if !c.registered && !c.done() && c.sp.Registered() {
				c.registered = true
			}
			if c.registered && !c.closed && !c.done() && !c.sp.Registered() {
				// the node unregistered the peer (removePeer -> Peer.Disconnect): the transport closes
				w.r.Logf("%s: dropped by the node", c.tag())
				w.r.Probe("peer-dropped-by-node")
				w.closeConn(c, "node disconnected")
				progress = true
			}
			c.mu.Lock()
			msgs := c.inbox
			c.inbox = nil
			c.mu.Unlock()
			if len(msgs) > 0 {
				progress = true
				// several goroutines of the node may write to one connection between two
				// quiescence points (map-ordered fan-outs): canonical order inside a batch
				sort.SliceStable(msgs, func(i, j int) bool {
					if msgs[i].code != msgs[j].code {
						return msgs[i].code < msgs[j].code
					}
					return bytes.Compare(msgs[i].data, msgs[j].data) < 0
				})
				for _, m := range msgs {
					w.onNodeMsg(c, m)
				}
			}
			if w.collectExit(c) {
				progress = true
			}
		}
		if !progress {
			break
		}
	}
	w.invariants()
}

func (w *world) onNodeMsg(c *conn, m inMsg) {
	w.r.Logf("%s <- node: %s %s", c.tag(), codeName(m.code), describe(m.code, m.data))
	if echo {
		fmt.Fprintf(os.Stderr, "ECHO %s <- node: %s %s\n", c.tag(), codeName(m.code), describe(m.code, m.data))
	}
	switch m.code {
	case you.StatusMsg:
		st := new(you.SimStatusData)
		if err := rlp.DecodeBytes(m.data, st); err != nil {
			w.r.Report("node-sent-undecodable:Status", "%v", err)
			return
		}
		c.nodeStatus = st
	case you.GetBlockMsg, you.GetBlockHeadersMsg, you.GetBlockBodiesMsg, you.GetNodeDataMsg, you.GetReceiptsMsg:
		if c.probe {
			// the probe is a light client that announces nothing; the node has no reason to ask it
			w.r.Logf("%s: ignoring the node's request", c.tag())
			return
		}
		c.pending = append(c.pending, m)
		if m.code == you.GetBlockHeadersMsg {
			w.r.Probe("sync-started")
		}
		if m.code == you.GetBlockMsg {
			w.r.Probe("fetcher-requested-block")
		}
	default:
		c.got = append(c.got, m)
	}
}

// take removes and returns the received messages of one code.
func (c *conn) take(code uint64) []inMsg {
	var out, rest []inMsg
	for _, m := range c.got {
		if m.code == code {
			out = append(out, m)
		} else {
			rest = append(rest, m)
		}
	}
	c.got = rest
	return out
}

// ---------------------------------------------------------------------------------------------
// sending

// send writes one message on c's connection the way the remote host's transport would, waits
// for quiescence and measures what handling it allocated (oracle c).
func (w *world) send(c *conn, code uint64, payload []byte, declared uint32, label string) bool {
	if c.closed || c.done() {
		w.r.Logf("%s -> node: %s skipped (connection is gone)", c.tag(), label)
		return false
	}
	if c.writing != nil {
		w.r.Logf("%s -> node: %s skipped (previous write still unread)", c.tag(), label)
		return false
	}
	w.r.Steps++
	w.r.Logf("%s -> node: %s %s [%d bytes, declared %d] %s", c.tag(), codeName(code), label, len(payload), declared, short(payload))
	if echo {
		// triage aid for runs that end in a process crash (the trace dies with the process)
		fmt.Fprintf(os.Stderr, "ECHO %s -> node: %s %s [%d bytes] %x\n", c.tag(), codeName(code), label, len(payload), payload[:min(len(payload), 4096)])
	}
	var m0, m1 runtime.MemStats
	done := make(chan error, 1)
	runtime.ReadMemStats(&m0)
	go func() {
		done <- c.app.WriteMsg(p2p.Msg{Code: code, Size: declared, Payload: bytes.NewReader(payload), ReceivedAt: time.Now()})
	}()
	kit.Wait()
	runtime.ReadMemStats(&m1)
	select {
	case err := <-done:
		if err != nil {
			w.r.Logf("%s: write failed: %s", c.tag(), errText(err))
		}
	default:
		// the handler has not read the message (it is busy or blocked): remember the write
		c.writing, c.writingLbl = done, codeName(code)
		w.r.Logf("%s: the handler has not consumed the message at quiescence", c.tag())
		w.r.Count("writes-left-unread", 1)
	}
	if grew := m1.TotalAlloc - m0.TotalAlloc; len(payload) < 1<<20 && grew > 64<<20 {
		// the exact figure varies by a few KiB from process to process: report it in units of 64 MiB
		w.r.Report("handler-allocation:"+codeName(code), "handling one %s message of %d bytes (declared %d) from %s allocated more than %d MiB | payload %x",
			codeName(code), len(payload), declared, c.tag(), (grew>>26)*64, payload[:min(len(payload), 512)])
	}
	w.settle()
	return true
}

func short(b []byte) string {
	if len(b) <= 24 {
		return fmt.Sprintf("%x", b)
	}
	return fmt.Sprintf("%x..%x", b[:16], b[len(b)-6:])
}

// ---------------------------------------------------------------------------------------------
// invariants after every quiescence (oracle e)

func (w *world) invariants() {
	h := w.head()
	n := h.NumberU64()
	if n < w.lastHead {
		w.r.Report("head-regressed", "the canonical head went from %d back to %d (after %s)", w.lastHead, n, w.lastFaultOr("nothing hostile"))
	}
	if n >= uint64(len(w.full)) || w.full[n].Hash() != h.Hash() {
		w.r.Report("invalid-block-canonical", "the node's head %d %x is not block %d of the valid chain (after %s)", n, h.Hash().Bytes()[:6], n, w.lastFaultOr("nothing hostile"))
		return
	}
	if n > w.lastHead {
		w.r.Logf("node head advanced %d -> %d", w.lastHead, n)
		if !w.pm.SimSyncing() {
			w.r.Probe("fetcher-imported-block") // no sync cycle is running: the block came through the fetcher
		}
		w.lastHead = n
	}
}

func (w *world) finalInvariants() {
	n := w.nodeHeight()
	for i := uint64(0); i <= n && i < uint64(len(w.full)); i++ {
		hd := w.node.Chain.GetHeaderByNumber(i)
		if hd == nil || hd.Hash() != w.full[i].Hash() {
			w.r.Report("invalid-block-canonical", "canonical block %d of the node is not the valid chain's", i)
			return
		}
	}
	if !w.node.Chain.HasState(w.head().Root()) {
		w.r.Report("head-state-missing", "the state of the node's head %d is not present", n)
	}
	if cur := w.node.Chain.CurrentHeader(); cur.Hash() != w.head().Hash() {
		w.r.Report("head-header-diverged", "CurrentHeader %d %x differs from CurrentBlock %d", cur.Number, cur.Hash().Bytes()[:6], n)
	}
}
