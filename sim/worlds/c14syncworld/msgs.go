package c14syncworld

import (
	"fmt"
	"math/big"

	"verifsim/worlds/networld"

	"github.com/youchainhq/go-youchain/common"
	"github.com/youchainhq/go-youchain/consensus/ucon"
	"github.com/youchainhq/go-youchain/core/types"
	"github.com/youchainhq/go-youchain/crypto"
	"github.com/youchainhq/go-youchain/params"
	"github.com/youchainhq/go-youchain/rlp"
	"github.com/youchainhq/go-youchain/you"
)

// stim is one message the simulator is about to put on a connection.
type stim struct {
	code     uint64
	payload  []byte
	declared uint32 // 0 = len(payload)
	label    string
	fault    string // "" = a valid message
	twice    bool
}

// the order makes choice 0 the most harmless stimulus (a header query)
var stimCodes = []uint64{you.GetBlockHeadersMsg, you.GetBlockBodiesMsg, you.GetReceiptsMsg, you.GetNodeDataMsg, you.GetBlockMsg,
	you.NewBlockHashMsg, you.NewBlockMsg, you.TxMsg, you.BlockHeadersMsg, you.BlockBodiesMsg, you.NodeDataMsg, you.ReceiptsMsg,
	you.ConsensusMsg, you.ConsensusCtrMsg, 0x0f, 0x10, 0x11, you.StatusMsg}

func enc(v interface{}) []byte {
	b, err := rlp.EncodeToBytes(v)
	if err != nil {
		panic(err)
	}
	return b
}

func maxU64() uint64 { return ^uint64(0) }

func (w *world) randHash(label string) common.Hash {
	return common.BytesToHash(w.r.C.Bytes(label, 32))
}

// pickKnown draws a block number the node owns.
func (w *world) pickKnown(label string) *types.Block {
	return w.full[w.r.C.Intn(label, int(w.nodeHeight())+1)]
}

func (w *world) status(c *conn, height uint64, head common.Hash) *you.SimStatusData {
	return &you.SimStatusData{ProtocolVersion: uint32(you.ProtocolVersions[0]), NetworkId: w.cw.Genesis.NetworkId, Origin: c.origin,
		Height: height, CurrentBlock: head, GenesisBlock: w.full[0].Hash()}
}

// genStim draws the next message of a hostile peer: a code, then valid / corrupted / hostile.
func (w *world) genStim(c *conn) stim {
	r := w.r
	code := stimCodes[r.C.Intn("code", len(stimCodes))]
	mode := r.C.Weighted("mode", []int{3, 4, 3})
	if mode == 2 {
		if r.C.Chance("oversize", 1, 12) {
			s := w.validStim(c, code)
			s.declared = you.ProtocolMaxMsgSize + 1 + uint32(r.C.Intn("over-by", 1000))
			s.label, s.fault = "declared-size-above-protocol-maximum", "oversize-declared"
			return s
		}
		return w.hostileStim(c, code)
	}
	s := w.validStim(c, code)
	if mode == 1 {
		s.payload, s.label = networld.Mutate(r.C, s.payload)
		switch {
		case len(s.label) > 11 && s.label[:11] == "wrong-shape":
			s.fault = "corrupt-wrong-shape"
		case len(s.label) > 12 && s.label[:12] == "noncanonical":
			s.fault = "corrupt-noncanonical"
		case s.label == "size-attack-chain" || s.label == "inflate-outer-length" || s.label == "inflate-inner-length":
			s.fault = "corrupt-size-field"
		default:
			s.fault = "corrupt-bytes"
		}
		s.label = "mutated(" + s.label + ")"
	}
	return s
}

// validStim builds a well-formed, meaningful message of the given code from the real chain.
func (w *world) validStim(c *conn, code uint64) stim {
	r := w.r
	top := w.nodeHeight()
	s := stim{code: code}
	switch code {
	case you.GetBlockHeadersMsg:
		// amount 1..9, and 0 (a legal query with an empty answer) as the last alternative
		q := you.SimGetBlockHeadersData{Amount: uint64((r.C.Intn("amount", 10) + 1) % 10), Skip: uint64(r.C.Intn("skip", 4)),
			Reverse: r.C.Chance("reverse", 1, 2), Light: r.C.Chance("light", 1, 3)}
		n := uint64(r.C.Intn("origin", int(top)+3)) // up to two beyond the head
		if r.C.Chance("by-hash", 1, 2) && n < uint64(len(w.full)) {
			q.Origin.Hash = w.full[n].Hash()
			s.label = fmt.Sprintf("by hash of block %d", n)
		} else {
			q.Origin.Number = n
			s.label = fmt.Sprintf("by number %d", n)
		}
		s.label += fmt.Sprintf(" amount=%d skip=%d reverse=%v light=%v", q.Amount, q.Skip, q.Reverse, q.Light)
		s.payload = enc(&q)
	case you.GetBlockBodiesMsg, you.GetReceiptsMsg:
		var hs []common.Hash
		for i := 0; i < 1+r.C.Intn("nhashes", 5); i++ {
			if r.C.Chance("unknown-hash", 1, 6) {
				hs = append(hs, w.randHash("hash"))
			} else {
				hs = append(hs, w.pickKnown("block").Hash())
			}
		}
		s.label = fmt.Sprintf("%d hashes", len(hs))
		s.payload = enc(hs)
	case you.GetNodeDataMsg:
		q := you.GetNodeDataMsgData{Kind: types.KindState}
		val := r.C.Chance("validator-trie", 1, 3)
		if val {
			q.Kind = types.KindValidator
		}
		for i := 0; i < 1+r.C.Intn("nhashes", 3); i++ {
			b := w.pickKnown("block")
			if val {
				q.Hashes = append(q.Hashes, b.Header().ValRoot)
			} else {
				q.Hashes = append(q.Hashes, b.Root())
			}
		}
		s.label = fmt.Sprintf("kind=%d %d root hashes", q.Kind, len(q.Hashes))
		s.payload = enc(&q)
	case you.GetBlockMsg:
		b := w.pickKnown("block")
		s.label = fmt.Sprintf("block %d", b.NumberU64())
		s.payload = enc(b.Hash())
	case you.NewBlockHashMsg:
		var a you.NewBlockHashesData
		n := top + uint64(r.C.Intn("ahead", 3)) // 0: the head itself (known), 1: the next block, 2: the one after
		if n >= uint64(len(w.full)) {
			n = uint64(len(w.full) - 1)
		}
		a = append(a, struct {
			Hash   common.Hash
			Number uint64
		}{w.full[n].Hash(), n})
		s.label = fmt.Sprintf("block %d", n)
		s.payload = enc(a)
	case you.NewBlockMsg:
		n := top + 1 - uint64(r.C.Intn("behind", 2)) + uint64(r.C.Intn("ahead", 2))
		if n >= uint64(len(w.full)) {
			n = uint64(len(w.full) - 1)
		}
		s.label = fmt.Sprintf("valid block %d", n)
		s.payload = enc(w.full[n])
	case you.TxMsg:
		k := 1 + r.C.Intn("ntx", len(w.spareTxs))
		s.label = fmt.Sprintf("%d signed transfers", k)
		s.payload = enc(w.spareTxs[:k])
	case you.BlockHeadersMsg:
		var hs []*types.Header
		b := w.pickKnown("block")
		for i := b.NumberU64(); i < uint64(len(w.full)) && len(hs) < 1+r.C.Intn("n", 4); i++ {
			hs = append(hs, w.full[i].Header())
		}
		s.label = fmt.Sprintf("unrequested: %d real headers from %d", len(hs), b.NumberU64())
		s.fault = "unrequested-delivery"
		s.payload = enc(hs)
	case you.BlockBodiesMsg:
		var bs []*types.Body
		for i := 0; i < 1+r.C.Intn("n", 3); i++ {
			bs = append(bs, w.full[1+r.C.Intn("block", len(w.full)-1)].Body())
		}
		s.label = fmt.Sprintf("unrequested: %d real bodies", len(bs))
		s.fault = "unrequested-delivery"
		s.payload = enc(bs)
	case you.NodeDataMsg:
		var blobs [][]byte
		for i := 0; i < 1+r.C.Intn("n", 3); i++ {
			if blob, err := w.cw.B.Chain.StateTrieNode(w.full[1+r.C.Intn("block", len(w.full)-1)].Root()); err == nil {
				blobs = append(blobs, blob)
			}
		}
		s.label = fmt.Sprintf("unrequested: %d real state root nodes", len(blobs))
		s.fault = "unrequested-delivery"
		s.payload = enc(blobs)
	case you.ReceiptsMsg:
		var rs []types.Receipts
		for i := 0; i < 1+r.C.Intn("n", 3); i++ {
			rs = append(rs, w.receipts[w.full[1+r.C.Intn("block", len(w.full)-1)].Hash()])
		}
		s.label = fmt.Sprintf("unrequested: %d real receipt lists", len(rs))
		s.fault = "unrequested-delivery"
		s.payload = enc(rs)
	case you.ConsensusMsg:
		// the wire form of peer.SendConsensus (peer.go:217): the encoded consensus message as one byte string
		m := &ucon.Message{Code: ucon.MsgType(r.C.Intn("ucon-code", 8)), Payload: r.C.Bytes("ucon-payload", 40+r.C.Intn("len", 60)), Signature: r.C.Bytes("ucon-sig", 65)}
		inner, _ := m.Encode()
		s.label = fmt.Sprintf("consensus message code %d", m.Code)
		s.payload = enc(inner)
	case you.StatusMsg:
		s.label = "a second status message"
		s.fault = "second-status"
		s.payload = enc(w.status(c, top, w.full[top].Hash()))
	default: // ConsensusCtrMsg and the unassigned codes: no defined packet
		s.label = "small list"
		s.payload = enc([]interface{}{uint64(1), r.C.Bytes("blob", 8)})
	}
	return s
}

// tamper returns block n of the valid chain with one header field changed by f and/or a foreign body.
func (w *world) tamper(n uint64, f func(h *types.Header), body *types.Body) *types.Block {
	h := types.CopyHeader(w.full[n].Header())
	if f != nil {
		f(h)
	}
	if body == nil {
		body = w.full[n].Body()
	}
	return types.NewBlockWithHeader(h).WithBody(body)
}

// hostileStim builds a well-formed message with hostile meaning.
func (w *world) hostileStim(c *conn, code uint64) stim {
	r := w.r
	top := w.nodeHeight()
	next := top + 1
	if next >= uint64(len(w.full)) {
		next = uint64(len(w.full) - 1)
	}
	s := stim{code: code, fault: "hostile-semantic"}
	switch code {
	case you.GetBlockHeadersMsg:
		q := you.SimGetBlockHeadersData{Amount: 3}
		switch v := r.C.Intn("hostile-headers-query", 12); v {
		case 0:
			q.Amount, s.label = maxU64(), "amount=2^64-1 from 0"
		case 1:
			q.Amount, s.label = 1<<63, "amount=2^63 from 0"
		case 2:
			// large, but small enough that a server which sized a buffer by it would not take the machine down
			q.Amount, s.label = 1<<24+uint64(r.C.Intn("more", 1<<24)), "amount between 2^24 and 2^25 from 0"
		case 3:
			q.Origin.Number, q.Skip, q.Amount, s.label = 1, maxU64(), 5, "skip=2^64-1"
		case 4:
			q.Origin.Number, q.Skip, q.Amount, s.label = 1, maxU64()-1, 5, "skip=2^64-2"
		case 5:
			q.Origin.Number, s.label = maxU64(), "origin=2^64-1"
		case 6:
			q.Origin.Number, q.Skip, s.label = maxU64()-1, 0, "origin=2^64-2 rising"
		case 7:
			q.Origin.Hash, s.label = w.randHash("hash"), "unknown origin hash"
		case 8:
			q.Origin.Hash, q.Origin.Number, s.label = w.full[1].Hash(), maxU64(), "origin hash and number both set"
		case 9:
			q.Origin.Hash, q.Skip, q.Reverse, q.Amount, s.label = w.full[top].Hash(), maxU64(), true, 5, "by hash, reverse, skip=2^64-1"
		case 10:
			q.Origin.Hash, q.Skip, q.Amount, s.label = w.full[1].Hash(), maxU64()-1, 5, "by hash, rising, skip=2^64-2"
		case 11:
			q.Origin.Number, q.Amount, q.Reverse, q.Skip, s.label = top, 1000, true, 0, "amount=1000 falling from the head"
		}
		s.payload = enc(&q)
	case you.GetBlockBodiesMsg, you.GetReceiptsMsg:
		var hs []common.Hash
		switch r.C.Intn("hostile-hash-list", 5) {
		case 4:
			hs = []common.Hash{{}, w.full[top].Hash(), {}}
			s.label = "the zero hash around the head's hash"
		case 0:
			for i := 0; i < 300; i++ {
				hs = append(hs, w.full[uint64(i)%(top+1)].Hash())
			}
			s.label = "300 known hashes (repeating)"
		case 1:
			seed := w.randHash("seed")
			for i := 0; i < 1000; i++ {
				seed = crypto.Keccak256Hash(seed[:])
				hs = append(hs, seed)
			}
			s.label = "1000 unknown hashes"
		case 2:
			s.label = "empty list"
		case 3:
			for i := 0; i < 40; i++ {
				hs = append(hs, w.full[top].Hash())
			}
			s.label = "the head's hash 40 times"
		}
		s.payload = enc(hs)
	case you.GetNodeDataMsg:
		q := you.GetNodeDataMsgData{Kind: types.KindState}
		switch r.C.Intn("hostile-nodedata-query", 8) {
		case 6:
			q.Kind, q.Hashes, s.label = types.TrieKind(r.C.Intn("kind", 4)), []common.Hash{{}}, "the zero hash"
		case 7:
			q.Kind, q.Hashes, s.label = types.TrieKind(r.C.Intn("kind", 4)), []common.Hash{w.full[top].Root(), {}, w.full[top].Root()}, "a known hash, the zero hash, a known hash"
		case 0:
			q.Kind, q.Hashes, s.label = types.TrieKind(4+r.C.Intn("kind", 250)), []common.Hash{w.full[top].Root()}, "unsupported trie kind"
		case 1:
			for i := 0; i < 500; i++ {
				q.Hashes = append(q.Hashes, w.full[uint64(i)%(top+1)].Root())
			}
			s.label = "500 known hashes"
		case 2:
			q.Hashes, s.label = []common.Hash{w.randHash("hash")}, "unknown hash"
		case 3:
			q.Kind, q.Hashes, s.label = types.KindCht, []common.Hash{w.full[top].Root(), w.randHash("hash")}, "CHT kind with a state root"
		case 4:
			q.Kind, q.Hashes, s.label = types.KindBlt, []common.Hash{w.randHash("hash")}, "BLT kind with an unknown hash"
		case 5:
			s.label = "no hashes"
		}
		s.payload = enc(&q)
	case you.GetBlockMsg:
		if r.C.Chance("zero-hash", 1, 2) {
			s.label, s.payload = "zero hash", enc(common.Hash{})
		} else {
			s.label, s.payload = "unknown hash", enc(w.randHash("hash"))
		}
	case you.NewBlockHashMsg:
		var a you.NewBlockHashesData
		add := func(h common.Hash, n uint64) {
			a = append(a, struct {
				Hash   common.Hash
				Number uint64
			}{h, n})
		}
		switch r.C.Intn("hostile-announce", 6) {
		case 0:
			seed := w.randHash("seed")
			for i := 0; i < 64; i++ {
				seed = crypto.Keccak256Hash(seed[:])
				add(seed, top+1+uint64(i%20))
			}
			s.label = "64 unknown hashes near the head"
		case 1:
			add(w.full[top].Hash(), top+3)
			s.label = "the head's hash under a wrong number"
		case 2:
			add(w.randHash("hash"), 0)
			s.label = "unknown hash, number 0"
		case 3:
			add(w.randHash("hash"), maxU64())
			s.label = "unknown hash, number 2^64-1"
		case 4:
			h := w.randHash("hash")
			for i := 0; i < 50; i++ {
				add(h, top+1)
			}
			s.label = "one unknown hash 50 times"
		case 5:
			add(w.full[next].Hash(), next+5)
			s.label = fmt.Sprintf("block %d's hash under number %d", next, next+5)
		}
		s.payload = enc(a)
	case you.NewBlockMsg:
		var b *types.Block
		switch r.C.Intn("hostile-block", 12) {
		case 9, 10, 11:
			how := ""
			b = w.tamper(next, func(h *types.Header) { how = w.fieldHostile(h) }, nil)
			s.label = fmt.Sprintf("block %d with %s", next, how)
		case 0:
			other := w.full[1+(next%uint64(len(w.full)-1))]
			if other.NumberU64() == next {
				other = w.full[1]
			}
			b, s.label = w.tamper(next, nil, other.Body()), fmt.Sprintf("block %d with the body of block %d (transaction root mismatch)", next, other.NumberU64())
		case 1:
			b, s.label = w.tamper(next, func(h *types.Header) { h.GasUsed++ }, nil), fmt.Sprintf("block %d with GasUsed+1 (seal no longer matches)", next)
		case 2:
			b, s.label = w.tamper(next, func(h *types.Header) {
				if len(h.Validator) > 10 {
					h.Validator = append([]byte{}, h.Validator...)
					h.Validator[len(h.Validator)/2] ^= 0x10
				} else {
					h.Validator = []byte{1, 2, 3}
				}
			}, nil), fmt.Sprintf("block %d with a corrupted Validator field (same hash)", next)
		case 3:
			b, s.label = w.tamper(next, func(h *types.Header) { h.Number = new(big.Int).Lsh(big.NewInt(1), 63) }, nil), "number 2^63 on the head"
		case 4:
			b, s.label = w.tamper(next, func(h *types.Header) { h.ParentHash = w.randHash("hash"); h.Number = new(big.Int).SetUint64(top + 2) }, nil), "unknown parent, number head+2"
		case 5:
			b, s.label = w.tamper(next, func(h *types.Header) { h.Time += 1 << 40 }, nil), "time far in the future"
		case 6:
			b, s.label = w.tamper(next, nil, &types.Body{}), fmt.Sprintf("block %d without its transactions", next)
		case 7:
			b, s.label, s.twice = w.full[next], fmt.Sprintf("valid block %d, twice", next), true
			s.fault = "duplicate-delivery"
		case 8:
			b, s.label = w.tamper(next, func(h *types.Header) { h.Signature = []byte{}; h.Certificate = w.r.C.Bytes("cert", 70) }, nil), fmt.Sprintf("block %d with empty signature and junk certificate (same hash)", next)
		}
		s.payload = enc(b)
	case you.TxMsg:
		switch r.C.Intn("hostile-txs", 5) {
		case 0:
			tx := types.NewTransaction(0, common.Address{1}, big.NewInt(1), 21000, big.NewInt(1), nil)
			s.label, s.payload = "unsigned transaction", enc([]*types.Transaction{tx})
		case 1:
			var txs []*types.Transaction
			for i := 0; i < 300; i++ {
				txs = append(txs, w.spareTxs[0])
			}
			s.label, s.payload = "one transaction 300 times", enc(txs)
		case 2:
			tx := types.NewTransaction(0, common.Address{1}, big.NewInt(1), 21000, big.NewInt(1), make([]byte, 40*1024))
			s.label, s.payload = "transaction with 40 KiB of data, unsigned", enc([]*types.Transaction{tx})
		case 3:
			s.label, s.payload = "empty list", enc([]*types.Transaction{})
		case 4:
			// a signature whose values are out of range: patch V,R,S of a real transaction's encoding
			raw := enc(w.spareTxs[0])
			bad, how := networld.Mutate(r.C, raw)
			s.label, s.payload = "list holding a corrupted transaction ("+how+")", append(lenPrefixList(len(bad)), bad...)
		}
	case you.BlockHeadersMsg:
		s.fault = "unrequested-delivery"
		switch r.C.Intn("hostile-headers", 4) {
		case 0:
			var hs []*types.Header
			for i := 0; i < 192; i++ {
				hs = append(hs, w.full[next].Header())
			}
			s.label, s.payload = "192 copies of one header", enc(hs)
		case 1:
			s.label, s.payload = "empty", enc([]*types.Header{})
		case 2:
			h := types.CopyHeader(w.full[next].Header())
			h.Number = new(big.Int).Lsh(big.NewInt(1), 70)
			s.label, s.payload = "header with number 2^70", enc([]*types.Header{h})
		case 3:
			var hs []*types.Header
			for i := len(w.full) - 1; i >= 1; i-- {
				hs = append(hs, w.full[i].Header())
			}
			s.label, s.payload = "the whole chain, falling", enc(hs)
		}
	case you.BlockBodiesMsg:
		s.fault = "unrequested-delivery"
		if r.C.Chance("empty", 1, 2) {
			s.label, s.payload = "empty", enc([]*types.Body{})
		} else {
			s.label, s.payload = "100 empty bodies", enc(make([]types.Body, 100))
		}
	case you.NodeDataMsg:
		s.fault = "unrequested-delivery"
		if r.C.Chance("big", 1, 2) {
			s.label, s.payload = "one blob of 200 KiB", enc([][]byte{make([]byte, 200*1024)})
		} else {
			var blobs [][]byte
			for i := 0; i < 50; i++ {
				blobs = append(blobs, r.C.Bytes("blob", 40))
			}
			s.label, s.payload = "50 junk blobs", enc(blobs)
		}
	case you.ReceiptsMsg:
		s.fault = "unrequested-delivery"
		s.label, s.payload = "100 empty receipt lists", enc(make([][]*types.Receipt, 100))
	case you.ConsensusMsg:
		switch r.C.Intn("hostile-consensus", 3) {
		case 0:
			s.label, s.payload = "empty byte string", enc([]byte{})
		case 1:
			s.label, s.payload = "100 KiB of zeros", enc(make([]byte, 100*1024))
		case 2:
			s.label, s.payload = "a list where a byte string is expected", enc([]interface{}{[]byte{1}, []byte{2}})
		}
	case you.StatusMsg:
		s.fault = "second-status"
		s.label, s.payload = "a second status message claiming another chain", enc(&you.SimStatusData{ProtocolVersion: 99, NetworkId: 1, Height: maxU64(), CurrentBlock: w.randHash("hash"), GenesisBlock: w.randHash("hash2")})
	default:
		s.label, s.payload = "junk bytes", r.C.Bytes("junk", 1+r.C.Intn("len", 64))
	}
	return s
}

// fieldHostile gives one header field a value of the right type and a hostile meaning: what the
// header verification looks at before (hashed fields) and after (Validator, Signature,
// Certificate are not hashed) it checks the proposer's signature.
func (w *world) fieldHostile(h *types.Header) string {
	c := w.r.C
	junk := func(label string, n int) []byte { return c.Bytes(label, n) }
	cut := func(b []byte) []byte {
		if len(b) == 0 {
			return []byte{1}
		}
		return append([]byte{}, b[:c.Intn("cut", len(b))]...)
	}
	switch c.Intn("header-field", 20) {
	case 18:
		h.Number = new(big.Int).Add(h.Number, big.NewInt(int64(300+c.Intn("ahead", 2000))))
		return "a Number some hundred blocks ahead"
	case 19:
		h.Number = new(big.Int).Lsh(big.NewInt(1), uint(20+c.Intn("bits", 44)))
		return "a Number that is a large power of two"
	case 0:
		h.Consensus = cut(h.Consensus)
		return "truncated Consensus"
	case 1:
		h.Consensus = junk("consensus", 1+c.Intn("len", 300))
		return "junk Consensus"
	case 2:
		h.Consensus = []byte{}
		return "empty Consensus"
	case 3:
		h.CurrVersion = params.YouVersion(50 + c.Intn("version", 200))
		return "unknown CurrVersion"
	case 4:
		h.Signature = cut(h.Signature)
		return "truncated Signature"
	case 5:
		h.Signature = append(append([]byte{}, h.Signature...), 0x01)
		return "Signature of 66 bytes"
	case 6:
		h.Signature = append([]byte{}, h.Signature...)
		if len(h.Signature) == 65 {
			h.Signature[64] = byte(2 + c.Intn("v", 250))
		}
		return "Signature with an out-of-range recovery id"
	case 7:
		h.Validator = cut(h.Validator)
		return "truncated Validator (same hash)"
	case 8:
		h.Validator = junk("validator", 1+c.Intn("len", 700))
		return "junk Validator (same hash)"
	case 9:
		h.Validator = []byte{}
		return "empty Validator (same hash)"
	case 10:
		h.Certificate = junk("certificate", 1+c.Intn("len", 700))
		return "junk Certificate (same hash)"
	case 11:
		h.MixDigest = common.Hash{}
		return "zero MixDigest"
	case 12:
		h.Extra = make([]byte, 5000)
		return "5000 bytes of Extra"
	case 13:
		h.SlashData = junk("slash", 1+c.Intn("len", 200))
		return "junk SlashData"
	case 14:
		h.ChtRoot, h.BltRoot = junk("cht", 32), junk("blt", 32)
		return "CHT and BLT roots on an ordinary block"
	case 15:
		h.GasLimit = 0
		return "GasLimit 0"
	case 16:
		h.Time = 1
		return "Time 1 (older than the parent)"
	default:
		h.NextVersion, h.NextApprovals, h.NextVoteBefore, h.NextSwitchOn = params.YouVersion(9), maxU64(), maxU64(), maxU64()
		return "an upgrade proposal with 2^64-1 everywhere"
	}
}

func lenPrefixList(l int) []byte {
	if l <= 55 {
		return []byte{0xc0 + byte(l)}
	}
	var lb []byte
	for x := l; x > 0; x >>= 8 {
		lb = append([]byte{byte(x)}, lb...)
	}
	return append([]byte{0xf7 + byte(len(lb))}, lb...)
}

// announceConflict reports whether the message (if it decodes as an announcement) names a block
// hash that another connection has announced before: two sources for one hash make the fetcher
// pick one with the unseeded math/rand (fetcher.go:286). It records the hashes otherwise.
func (w *world) announceConflict(c *conn, payload []byte) bool {
	var a you.NewBlockHashesData
	if err := wireDecode(payload, &a); err != nil {
		return false
	}
	for _, e := range a {
		if s, ok := w.announced[e.Hash]; ok && s != c.slot {
			return true
		}
	}
	if c.announces+len(a) > 900 { // stay below maxKnownBlocks: beyond it the peer's known set evicts at random
		return true
	}
	for _, e := range a {
		w.announced[e.Hash] = c.slot
	}
	c.announces += len(a)
	return false
}
