package c11world

import (
	"bytes"
	"fmt"

	"verifsim/simdisk"

	"github.com/youchainhq/go-youchain/common"
	"github.com/youchainhq/go-youchain/core"
	"github.com/youchainhq/go-youchain/core/rawdb"
	"github.com/youchainhq/go-youchain/core/types"
)

// view is what one oracle pass saw.
type view struct {
	head   *node
	headH  common.Hash
	roots  [3]common.Hash
	dig    string
	ok     bool // no violation in this pass
	canonN map[uint64]common.Hash
}

// checkChain is the C11 consistency oracle, evaluated on a running chain object and the disk it
// sits on. tag is "live" (node that never crashed) or "crash" (restarted prefix image: right
// after the restart, after the interrupted offer was imported again, and after the further
// block); for crash images the class carries the ordering window of the crash point as a
// suffix (cx.fam, see windowFamily). where is concrete context for violation details.
//
// It encodes exactly the property statement:
//   - for all n <= head number: canonical hash, header and body exist, number matches,
//     parent(n) == canonical(n-1);
//   - every canonical block is byte-identical to a VALID generated block (hence no block that is
//     invalid by construction is canonical: not a tampered header, not tampered votes/signature
//     under the same hash, not a body that does not match the header);
//   - the head's state opens, its three roots are the head header's, and the accounts and
//     validator records read from it are those the builder's state has after the same block;
//   - every tx-lookup entry of a generated transaction points to a block that is canonical at its
//     number (and not above the head) and contains the transaction at the recorded index.
func (cx *world) checkChain(tag, where string, ch *core.BlockChain, disk *simdisk.Disk) *view {
	r := cx.r
	v := &view{ok: true, canonN: map[uint64]common.Hash{}}
	bad := func(class, format string, a ...interface{}) {
		v.ok = false
		r.Report(tag+"-"+class+cx.fam, "%s: %s", where, fmt.Sprintf(format, a...))
	}
	head := ch.CurrentBlock()
	v.headH = head.Hash()
	v.head = cx.byHash[v.headH]
	hn := head.NumberU64()
	if hh := ch.CurrentHeader(); hh.Hash() != head.Hash() {
		bad("head-header-differs", "CurrentHeader %s(%d) != CurrentBlock %s(%d)", cx.nameOf(hh.Hash()), hh.Number.Uint64(), cx.nameOf(head.Hash()), hn)
	}
	var prev common.Hash
	for n := uint64(0); n <= hn; n++ {
		hash := rawdb.ReadCanonicalHash(disk, n)
		if hash == (common.Hash{}) {
			bad("canon-hash-missing", "no canonical hash at %d (head %s at %d)", n, cx.nameOf(v.headH), hn)
			break
		}
		v.canonN[n] = hash
		hdr := ch.GetHeaderByNumber(n)
		if hdr == nil {
			bad("canon-header-missing", "canonical %s at %d has no header", cx.nameOf(hash), n)
			break
		}
		if hdr.Hash() != hash {
			bad("canon-header-hash", "header stored for canonical %s at %d hashes to %s", cx.nameOf(hash), n, shortHash(hdr.Hash()))
		}
		if hdr.Number.Uint64() != n {
			bad("canon-number-mismatch", "canonical %s at %d carries number %d", cx.nameOf(hash), n, hdr.Number.Uint64())
		}
		blk := ch.GetBlockByNumber(n)
		if blk == nil {
			bad("canon-body-missing", "canonical %s at %d has no body", cx.nameOf(hash), n)
			break
		}
		if n > 0 && hdr.ParentHash != prev {
			bad("canon-link-broken", "canonical(%d)=%s has parent %s but canonical(%d)=%s (head %s at %d)", n, cx.nameOf(hash), cx.nameOf(hdr.ParentHash), n-1, cx.nameOf(prev), cx.nameOf(v.headH), hn)
		}
		// no invalid block canonical: the stored block is exactly a valid generated block
		vn := cx.byHash[hash]
		switch {
		case vn == nil:
			bad("invalid-block-canonical", "canonical(%d)=%s is not a valid generated block", n, cx.nameOf(hash))
		case !bytes.Equal(encHeader(hdr), vn.hdrRLP):
			bad("invalid-block-canonical", "canonical(%d)=%s: stored header (votes/signature/certificate) differs from the valid block's", n, vn.name)
		case !bytes.Equal(encHeader(blk.Header()), vn.hdrRLP):
			bad("invalid-block-canonical", "canonical(%d)=%s: the header of the block GetBlockByNumber returns (votes/signature/certificate) differs from the valid block's (header in the database matches: %v)", n, vn.name, bytes.Equal(encHeader(rawdb.ReadHeader(disk, hash, n)), vn.hdrRLP))
		case types.DeriveSha(blk.Transactions()) != hdr.TxHash:
			onDisk := "missing"
			if body := rawdb.ReadBody(disk, hash, n); body != nil {
				onDisk = fmt.Sprint(types.DeriveSha(types.Transactions(body.Transactions)) == hdr.TxHash)
			}
			bad("invalid-block-canonical", "canonical(%d)=%s: the body GetBlockByNumber returns does not match the header's transaction root (body in the database matches: %s)", n, vn.name, onDisk)
		}
		prev = hash
	}
	if prev != v.headH && v.ok {
		bad("head-not-canonical", "canonical(%d)=%s but head is %s", hn, cx.nameOf(prev), cx.nameOf(v.headH))
	}
	// head state
	st, err := ch.State()
	if err != nil {
		bad("head-state-missing", "state of head %s (%d) does not open: %v", cx.nameOf(v.headH), hn, err)
	} else {
		a, b, c := st.IntermediateRoot(false)
		v.roots = [3]common.Hash{a, b, c}
		if a != head.Root() || b != head.ValRoot() || c != head.StakingRoot() {
			bad("head-state-roots", "roots of opened head state differ from header of %s", cx.nameOf(v.headH))
		}
		v.dig = cx.digest(st)
		if v.head != nil && v.dig != v.head.dig {
			bad("head-state-content", "accounts/validators read from the state of head %s differ from the builder's state after the same block (missing or wrong trie nodes)", v.head.name)
		}
	}
	// tx lookups
	missing := int64(0)
	for _, tx := range cx.txs {
		th := tx.Hash()
		bh, bn, idx := rawdb.ReadTxLookupEntry(disk, th)
		if bh == (common.Hash{}) {
			continue
		}
		canon := rawdb.ReadCanonicalHash(disk, bn)
		switch {
		case bn > hn:
			bad("txlookup-above-head", "lookup of tx %s points to %s at %d, above the head %s at %d (canonical(%d)=%s)", shortHash(th), cx.nameOf(bh), bn, cx.nameOf(v.headH), hn, bn, cx.nameOf(canon))
		case canon != bh:
			bad("txlookup-displaced", "lookup of tx %s points to %s at %d but canonical(%d)=%s (head %s at %d)", shortHash(th), cx.nameOf(bh), bn, bn, cx.nameOf(canon), cx.nameOf(v.headH), hn)
		default:
			body := rawdb.ReadBody(disk, bh, bn)
			if body == nil || int(idx) >= len(body.Transactions) || body.Transactions[idx].Hash() != th {
				bad("txlookup-wrong-content", "lookup of tx %s points to %s at %d index %d, which does not hold that transaction", shortHash(th), cx.nameOf(bh), bn, idx)
			}
		}
	}
	// diagnostic only (the property does not state the converse): canonical transactions without entry
	for n := uint64(1); n <= hn; n++ {
		if vn := cx.byHash[v.canonN[n]]; vn != nil {
			for _, tx := range vn.blk.Transactions() {
				if bh, _, _ := rawdb.ReadTxLookupEntry(disk, tx.Hash()); bh == (common.Hash{}) {
					missing++
				}
			}
		}
	}
	if missing > 0 {
		r.Count("diag."+tag+".canonical-tx-without-lookup", missing)
	}
	return v
}

// isAncestor reports whether a is an ancestor of (or equal to) d in the generated tree.
func isAncestor(a, d *node) bool {
	for n := d; n != nil; n = n.parent {
		if n == a {
			return true
		}
	}
	return false
}
