// Package c11world decides property C11: the canonical chain stays consistent and hash-linked
// under any import order or crash. A tree of fully valid blocks (trunk + competing side
// branches, each with its own forged quorum) plus invalid variants is offered to a real
// core.BlockChain through InsertChain under a seeded schedule; for sampled offers every
// database-write prefix is restarted through the real constructors and must be consistent and
// must converge with the never-crashed node.
package c11world

import (
	"bytes"
	"fmt"
	"sort"
	"time"

	"verifsim/kit"
	"verifsim/simdisk"
	"verifsim/worlds/chainkit"
	"verifsim/worlds/chainworld"

	"github.com/youchainhq/go-youchain/common"
	"github.com/youchainhq/go-youchain/core/rawdb"
	"github.com/youchainhq/go-youchain/core/types"
	"github.com/youchainhq/go-youchain/logging"
)

func init() {
	logging.Root().SetHandler(logging.DiscardHandler())
	kit.Register(&kit.Check{
		Prop: "C11", Name: "chain", World: "CHAIN", Level: "fault_enumeration",
		Rule: "one run = one seeded TREE of fully valid blocks (trunk of 5-40 blocks with transfers built by the real worker over the forge engine; 0-3 side branches of seeded fork point and length, " +
			"each built by a builder node of its own opened on the common prefix, so that competing blocks at one height each carry a genuine precommit quorum; the same transaction may live in competing blocks; " +
			"optionally a valid future-dated tail), plus INVALID variants made by tampering valid blocks (wrong state root, wrong tx root, body not matching the header under the SAME hash [drop/swap/add], sub-quorum votes under the same hash, " +
			"foreign proposer signature under the same hash, wrong parent, far-future timestamp, timestamp not after parent, protocol-version fields), and a seeded OFFER SCHEDULE that presents them to the real InsertChain of a full node on a write-logging simulated disk: " +
			"in order, child before parent, duplicated, in groups of 1..n, with an already known prefix in front, interleaved between branches, invalid blocks alone or inside a group, clock ticks that let the future-block ticker import. " +
			"Fault = crash-point ENUMERATION: for seeded offers (reorganising offers preferred) every write index k next to a block/receipt/lookup/canonical-hash/head-marker write, one interior point per run of state-trie writes and k=W " +
			"(all of them unless the per-offer cap forces a stratified sample) is turned into the durable image Prefix(k) and restarted through NewVRFServer/SetupGenesisBlock/NewBlockChain (loadLastState/repair)/staking. " +
			"Oracle after every offer on the live node and on every restarted image, and again after the image imported the interrupted offer and after one further valid block: for all n<=head the canonical hash, header and body exist, number matches, parent(n)=canonical(n-1); " +
			"every canonical block is byte-identical (header incl. votes/signature, body vs tx root) to a valid generated block (=> no invalid block canonical); the head state opens, has the header's three roots and yields the builder's account/validator values; " +
			"every tx-lookup entry of a generated transaction points to a block canonical at its number, not above the head, holding that transaction. Non-wedging: image + interrupted offer again + one further valid block (child of the live head) must have the head hash, roots and state content of the live node (the reference that never crashed and received the same calls in the same order). " +
			"Violation classes of crash images carry the ordering window of the crash point (@pre-head: everything of the block durable except the head switch; @head-switch: inside the head-header/canonical-hash/head-block writes; @post-head: head switched inside a reorg, follow-up lookup writes lost; @other). " +
			"A panic escaping from InsertChain or from the restart is a violation named after the panicking function; the dead node is replaced by a restart on its durable image and the run goes on. " +
			"Because WriteBlockWithState flushes its three tries in Go map order, crash points are numbered by logical writes (a run of state-trie batches = one write, plus one point inside it). " +
			"Non-trivial = at least one fault fired (crash image, out-of-order/duplicate/batched/invalid/fork offer, reorg).",
		Real: []string{"core.BlockChain (InsertChain, insertChain dispatch, insertSidechain, verifyAllSideChainBlocks, WriteBlockWithState/WithoutState, reorg, insert, loadLastState, repair, procFutureBlocks ticker on the fake clock)",
			"core.HeaderChain, BlockValidator, StateProcessor, core/rawdb accessors, core/state + trie database over the simulated disk", "ucon.Server as verifier (VerifyHeaders/VerifySeal/VerifySideChainHeader, real VRF/BLS/secp256k1)",
			"staking module (EndBlock hooks) on every node", "miner.worker + core.TxPool on the builder nodes (real block-building path)", "core.SetupGenesisBlock, ucon.NewVRFServer on every restart"},
		Stub: []string{"consensus rounds: the forge signs proposer credentials and precommit quorums with validator keys the simulator holds (ForgeEngine overrides GetValMainAddress/Prepare/Seal only)",
			"p2p/downloader/fetcher: the simulator calls InsertChain directly (groupings are the ones a downloader or fetcher could produce)", "quic-go API stub (p2p never runs)", "LevelDB: simdisk (one Put/Delete/batch = one atomic durable write)"},
		FaultsNotInjected: []string{"torn writes inside a batch / lost-after-ack writes: the property's crash model is process death, not power loss",
			"crash of the builder nodes: they only manufacture blocks", "concurrent InsertChain callers: production serialises them on chainMu",
			"disk write errors: every rawdb write error ends in logging.Crit = process exit = a crash point already enumerated"},
		Assumptions: []string{"archive full node (params.ArchiveNode); fast-sync (InsertHeaderChain/InsertReceiptChain, onFastSyncing), light-client pruning and SetHead are not driven",
			"ACoCHT/certificate rounds (every 32768 blocks) are out of reach", "fork choice is taken as implemented (first seen at equal height, longer chain replaces; getWriteState/CompareBlocks is dead code): the reference receives the same calls in the same order, order-independence is not demanded",
			"the oracle reads at most 60 canonical blocks, 8 client accounts, the validator records and the reward pool account of the head state"},
		QuickBudget: 45 * time.Second, ThoroughBudget: 15 * time.Minute,
		MinRuns:    8,
		Exec:       runC11,
		PanicClass: kit.PanicInRepo("chain-panic"),
		// reach probes every batch is expected to hit (listed in the evidence as probes_never_hit otherwise)
		ExpectedProbes: []string{"crash after block data before state commit", "crash after head marker before tx lookups", "crash after the last write of an offer", "crash after tx lookups before head marker", "crash before deleting lookups of dropped transactions", "crash between canonical hash and head-block marker", "crash between head-header marker and canonical hash", "crash between receipts and head marker", "crash between state commit and head marker", "crash during reorg", "crash inside state commit", "crash while storing a side chain without state", "further block became head", "future block imported by ticker", "future block queued", "invalid block rejected", "offer fully enumerated", "offer sampled", "restart repaired head (loadLastState rewound)", "side chain became canonical", "side chain stored without becoming canonical"},
	})
}

var probeNames = []string{
	"crash during reorg", "crash between state commit and head marker", "crash after tx lookups before head marker",
	"crash between receipts and head marker", "crash between head-header marker and canonical hash",
	"crash between canonical hash and head-block marker", "crash after head marker before tx lookups",
	"crash before deleting lookups of dropped transactions", "crash inside state commit", "crash after block data before state commit",
	"crash while storing a side chain without state", "crash after the last write of an offer",
	"restart repaired head (loadLastState rewound)", "side chain became canonical", "side chain stored without becoming canonical",
	"invalid block rejected", "future block queued", "future block imported by ticker", "further block became head",
	"offer fully enumerated", "offer sampled", "invalid variant stored in the database (not canonical)",
}

// offer is one stimulus of the node under test: one InsertChain call, or one clock tick.
type offer struct {
	idx        int
	kind       string // "blocks" | "tick"
	blocks     types.Blocks
	tags       []string       // trace names per block ("" = name of the valid block)
	requeue    []*types.Block // tick: what the future queue held (imported one by one, ascending)
	desc       string
	label      string
	invalid    []string // kinds of invalid variants contained
	sideStored bool
}

type cursor struct {
	br   *branch
	next int
}

type sched struct {
	cur       []*cursor
	at        int
	delivered map[*node]bool
}

func runC11(r *kit.Run) {
	setup := chainworld.DefaultSetup(r.C)
	chainworld.Run(r, setup, func(w *chainworld.World) {
		logging.SimCrit = func(msg string, ctx []interface{}) {
			r.Fail("logging-crit", "the code under test called logging.Crit (process exit): %s %v", msg, ctx)
		}
		cx := initWorld(r, w, setup)
		for _, p := range probeNames {
			r.Stats["probe."+p] += 0 // a probe that never fires shows up as 0 in the evidence
		}
		defer cx.stopBuilders()
		cx.budget, cx.maxEnum = 40, 24
		if r.Tier == "thorough" {
			cx.budget, cx.maxEnum = 150, 60
		}
		cx.budget0 = cx.budget
		cx.planTree()
		if err := cx.buildTree(); err != nil {
			r.Report("build-failed", "%v", err)
			return
		}
		if r.C.Chance("future-tail", 1, 4) {
			cx.buildFutureTail()
		}
		r.Count("size.blocks", int64(len(cx.nodes)-1))
		r.Count("size.branches", int64(len(cx.branches)))

		disk := simdisk.New()
		live, err := chainkit.NewImporter(disk, w.Genesis, kit.Wait)
		if err != nil {
			panic("c11world: importer: " + err.Error())
		}
		cx.live = &sut{im: live, disk: disk}
		defer func() { cx.stopSut(cx.live) }()
		cx.runSchedule()
		if cx.leaked {
			// a node died in a panic and can never be stopped cleanly (its InsertChain holds the
			// chain lock and wait group for ever): end the run by the abort path, which lets the
			// bubble be torn down with that goroutine left behind. Violations are already recorded.
			cx.stopSut(cx.live)
			cx.live = nil
			cx.stopBuilders()
			cx.branches = nil
			r.Abort()
		}
	})
}

func (cx *world) markDelivered(n *node) {
	if cx.sch != nil {
		cx.sch.delivered[n] = true
	}
}

// runSchedule draws and executes the offer schedule.
func (cx *world) runSchedule() {
	r, c := cx.r, cx.r.C
	s := &sched{delivered: map[*node]bool{cx.nodes[0]: true}}
	cx.sch = s
	for _, br := range cx.branches {
		s.cur = append(s.cur, &cursor{br: br})
	}
	maxOffers := 10 + c.Intn("max-offers", 9)
	ready := func(cu *cursor) bool { return cu.next < len(cu.br.own) && s.delivered[cu.br.forkAt] }
	chunkSize := func() int {
		n := 1 + c.Weighted("chunk", []int{5, 4, 3, 2, 1, 1})
		if c.Chance("big-chunk", 1, 8) {
			n = 4 + c.Intn("chunk-big", 9)
		}
		return n
	}
	take := func(cu *cursor, from, n int) []*node {
		if from >= len(cu.br.own) {
			return nil
		}
		to := from + n
		if to > len(cu.br.own) {
			to = len(cu.br.own)
		}
		return cu.br.own[from:to]
	}
	for len(cx.offers) < maxOffers {
		// blocks that reached the node as "further valid block" count as delivered
		for _, cu := range s.cur {
			for cu.next < len(cu.br.own) && s.delivered[cu.br.own[cu.next]] {
				cu.next++
			}
		}
		// current cursor must be ready; else move to the first ready one
		if !ready(s.cur[s.at]) {
			found := false
			for i, cu := range s.cur {
				if ready(cu) {
					s.at, found = i, true
					break
				}
			}
			if !found {
				break
			}
		}
		cu := s.cur[s.at]
		tickW := 0
		if cx.futureFrom != 0 {
			tickW = 3
		}
		act := c.Weighted("act", []int{10, 4, 3, 3, 5, 6, tickW, 1})
		switch act {
		case 1: // interleave: continue on another branch
			var others []int
			for i, o := range s.cur {
				if i != s.at && ready(o) {
					others = append(others, i)
				}
			}
			if len(others) > 0 {
				s.at = others[c.Intn("switch-to", len(others))]
				cu = s.cur[s.at]
			}
			fallthrough
		case 0: // next blocks of the current branch, in order
			ns := take(cu, cu.next, chunkSize())
			cu.next += len(ns)
			cx.offerNodes(ns, "in-order", true)
		case 2: // child before parent
			d := 1 + c.Intn("skip", 2)
			ns := take(cu, cu.next+d, chunkSize())
			if len(ns) == 0 {
				ns = take(cu, cu.next, 1)
				cu.next += len(ns)
				cx.offerNodes(ns, "in-order", true)
				break
			}
			r.Fault("offer.out-of-order")
			cx.offerNodes(ns, "out-of-order", false)
		case 3: // duplicate of an earlier offer
			var prev []*offer
			for _, o := range cx.offers {
				if o.kind == "blocks" {
					prev = append(prev, o)
				}
			}
			if len(prev) == 0 {
				ns := take(cu, cu.next, 1)
				cu.next += len(ns)
				cx.offerNodes(ns, "in-order", true)
				break
			}
			lo := 0
			if len(prev) > 4 {
				lo = len(prev) - 4
			}
			o := prev[lo+c.Intn("dup-which", len(prev)-lo)]
			r.Fault("offer.duplicate")
			cx.offerBlocks(&offer{kind: "blocks", blocks: o.blocks, tags: o.tags, label: "duplicate", invalid: o.invalid})
		case 4: // group that starts with already known blocks (the common ancestor in front)
			back := 1 + c.Intn("overlap-back", 3)
			n := chunkSize()
			if cu.br.id != 0 && cu.next > 0 && c.Chance("growing-prefix", 1, 2) {
				// all side blocks the node already stores (plus, possibly, the common ancestor)
				// in front of ONE new side block: what a downloader delivers that re-requests
				// from the fork point
				back = cu.next + c.Intn("growing-plus-ancestor", 2)
				n = 1
			}
			ns := take(cu, cu.next, n)
			cu.next += len(ns)
			var pre []*node
			for a := ns[0].parent; a != nil && a.id != 0 && len(pre) < back; a = a.parent {
				pre = append([]*node{a}, pre...)
			}
			if len(pre) > 0 {
				r.Fault("offer.known-prefix")
			}
			cx.offerNodes(append(pre, ns...), "known-prefix", true)
		case 5: // invalid variant
			cx.offerInvalid(cu)
		case 6: // clock tick: the future-block ticker runs
			cx.offerTick()
		case 7: // two unlinked blocks in one call
			a := take(cu, cu.next, 1)
			b := take(cu, cu.next+2, 1)
			if len(a) == 0 || len(b) == 0 {
				cu.next += len(a)
				cx.offerNodes(a, "in-order", true)
				break
			}
			r.Fault("offer.non-contiguous")
			cx.offerNodes([]*node{a[0], b[0]}, "non-contiguous", false)
		}
	}
	// let queued future blocks mature
	for i := 0; i < 4 && len(cx.queued) > 0; i++ {
		cx.offerTick()
	}
	head := cx.live.im.Chain.CurrentBlock()
	r.Logf("end: head=%s(%d) offers=%d restarts=%d", cx.nameOf(head.Hash()), head.NumberU64(), len(cx.offers), cx.budget0-cx.budget)
}

func (cx *world) offerNodes(ns []*node, label string, deliver bool) {
	if len(ns) == 0 {
		return
	}
	o := &offer{kind: "blocks", label: label}
	for _, n := range ns {
		o.blocks = append(o.blocks, n.blk)
		o.tags = append(o.tags, "")
	}
	// competing block at a height where a sibling is already known
	for _, n := range ns {
		for _, sib := range n.parent.children {
			if sib != n && cx.sch.delivered[sib] {
				cx.r.Fault("offer.fork")
				goto done
			}
		}
	}
done:
	if deliver {
		for _, n := range ns {
			cx.sch.delivered[n] = true
		}
	}
	cx.offerBlocks(o)
}

// offerInvalid offers an invalid variant: alone, behind valid predecessors in one group, or —
// when it carries the hash of the valid block — in front of that block's valid successors.
func (cx *world) offerInvalid(cu *cursor) {
	r, c := cx.r, cx.r.C
	if len(cx.laterChildren) > 0 {
		// the child of an invalid block that was refused in an earlier offer arrives on its own
		cv := cx.laterChildren[0]
		cx.laterChildren = cx.laterChildren[1:]
		o := &offer{kind: "blocks", label: "invalid", invalid: []string{cv.kind}, blocks: types.Blocks{cv.blk}, tags: []string{cv.name}}
		r.Fault("offer.invalid." + cv.kind)
		r.Probe("child of a refused invalid block offered later")
		cx.offerBlocks(o)
		return
	}
	var t *node
	var pre, post []*node
	known, ofHead := false, false
	if c.Chance("variant-of-known", 1, 3) || cu.next >= len(cu.br.own) {
		var ds []*node
		for _, n := range cx.nodes[1:] {
			if cx.sch.delivered[n] {
				ds = append(ds, n)
			}
		}
		if len(ds) == 0 {
			ns := cu.br.own[cu.next : cu.next+1]
			cu.next++
			cx.offerNodes(ns, "in-order", true)
			return
		}
		t = ds[c.Intn("variant-known-which", len(ds))]
		if hn := cx.byHash[cx.live.im.Chain.CurrentBlock().Hash()]; hn != nil && hn != cx.nodes[0] && c.Chance("variant-of-head", 1, 2) {
			// a competitor of the current head: what is built on it would extend the chain
			t = hn
			ofHead = true
			r.Probe("invalid variant of the current head")
		}
		known = true
	} else {
		j := c.Weighted("variant-ahead", []int{4, 2, 1})
		if cu.next+j >= len(cu.br.own) {
			j = len(cu.br.own) - 1 - cu.next
		}
		t = cu.br.own[cu.next+j]
		pre = cu.br.own[cu.next : cu.next+j]
	}
	var v *variant
	for try := 0; try < 4 && v == nil; try++ {
		kind := variantKinds[c.Intn("variant-kind", len(variantKinds))]
		if ofHead && c.Chance("variant-of-head-late-failure", 2, 3) {
			// a competitor of the head that only the post-execution validation refuses
			kind = []string{"gas-used", "receipt-root", "bloom"}[c.Intn("late-failure-kind", 3)]
		}
		v, _ = cx.makeVariant(t, kind)
	}
	if v == nil {
		return
	}
	if v.sameHash && c.Chance("variant-with-successors", 1, 2) {
		for _, ch := range t.children {
			if ch.br == t.br {
				post = append(post, ch)
				for _, g := range ch.children {
					if g.br == t.br && c.Chance("variant-two-successors", 1, 2) {
						post = append(post, g)
					}
					break
				}
				break
			}
		}
	}
	o := &offer{kind: "blocks", label: "invalid", invalid: []string{v.kind}}
	for _, n := range pre {
		o.blocks = append(o.blocks, n.blk)
		o.tags = append(o.tags, "")
		cx.sch.delivered[n] = true
	}
	if !known {
		cu.next += len(pre)
	}
	o.blocks = append(o.blocks, v.blk)
	o.tags = append(o.tags, v.name)
	for _, n := range post {
		o.blocks = append(o.blocks, n.blk)
		o.tags = append(o.tags, "")
	}
	if !v.sameHash && (ofHead || c.Chance("variant-with-child-on-it", 1, 2)) {
		if cv, ok := cx.childOnVariant(v); ok {
			if ofHead || c.Chance("variant-child-later", 1, 2) {
				cx.laterChildren = append(cx.laterChildren, cv)
			} else {
				o.blocks = append(o.blocks, cv.blk)
				o.tags = append(o.tags, cv.name)
				o.invalid = append(o.invalid, cv.kind)
				r.Probe("child of an invalid block offered with it")
			}
		}
	}
	r.Fault("offer.invalid." + v.kind)
	cx.offerBlocks(o)
	if len(cx.laterChildren) > 0 && (ofHead || c.Chance("variant-child-right-after", 1, 2)) {
		// the child follows at once (while the refused variant is still a competitor of the head)
		cx.offerInvalid(cu)
	}
}

func (cx *world) offerTick() {
	o := &offer{kind: "tick", label: "tick"}
	q := append([]*types.Block(nil), cx.queued...)
	sort.SliceStable(q, func(i, j int) bool { return q[i].NumberU64() < q[j].NumberU64() })
	o.requeue = q
	cx.offerBlocks(o)
}

// offerBlocks executes one stimulus on the live node, runs the oracle, and possibly the
// crash-point enumeration of this stimulus.
func (cx *world) offerBlocks(o *offer) {
	r, c := cx.r, cx.r.C
	o.idx = len(cx.offers)
	cx.offers = append(cx.offers, o)
	if o.kind == "tick" {
		o.desc = fmt.Sprintf("tick(5s) queue=%s", cx.names(o.requeue, nil))
	} else {
		o.desc = fmt.Sprintf("%s %s", o.label, cx.names(o.blocks, o.tags))
		if len(o.blocks) > 1 {
			r.Fault("offer.batch")
		}
	}
	live := cx.live.im.Chain
	beforeH := live.CurrentBlock().Hash()
	before := cx.byHash[beforeH]
	cx.live.disk.Rebase()
	var err error
	if o.kind == "tick" {
		time.Sleep(5 * time.Second)
		kit.Wait()
		r.SimTime += 5 * time.Second
	} else {
		err = cx.insert(cx.live, o.blocks)
	}
	r.Steps++
	if cx.live.dead {
		// the import killed the process: what is durable is what a restart finds
		r.Logf("offer %d: %s -> PANIC; restarting the node on its durable image", o.idx, o.desc)
		r.FP("offer", o.label, "panic")
		cx.reviveLive()
		cx.checkChain("live", fmt.Sprintf("after offer %d %s killed the process and the node was restarted", o.idx, o.desc), cx.live.im.Chain, cx.live.disk)
		return
	}
	W := cx.live.disk.LogLen()
	after := cx.checkChain("live", fmt.Sprintf("after offer %d %s", o.idx, o.desc), live, cx.live.disk)
	if o.kind == "tick" && after.head != nil && before != nil && after.headH != beforeH {
		// "the interrupted blocks" of a ticker-driven import are the blocks the ticker made
		// canonical, whatever the harness's mirror of the future queue believed (the mirror can
		// miss a block that the node's block cache already knew): add them to what is offered
		// again after a crash of this stimulus
		have := map[common.Hash]bool{}
		for _, b := range o.requeue {
			have[b.Hash()] = true
		}
		for n := after.head; n != nil && !isAncestor(n, before); n = n.parent {
			if !have[n.blk.Hash()] {
				have[n.blk.Hash()] = true
				o.requeue = append(o.requeue, n.blk)
				r.Probe("ticker imported a block the queue mirror had missed")
			}
		}
		sort.SliceStable(o.requeue, func(i, j int) bool { return o.requeue[i].NumberU64() < o.requeue[j].NumberU64() })
	}
	// what happened
	move := "none"
	reorged := false
	switch {
	case after.headH == beforeH:
	case before != nil && after.head != nil && isAncestor(before, after.head):
		move = "extend"
	default:
		move = "reorg"
		reorged = true
		r.Fault("reorg")
		r.Probe("side chain became canonical")
	}
	stored := 0
	for _, b := range o.blocks {
		if live.HasBlock(b.Hash(), b.NumberU64()) {
			stored++
		}
	}
	o.sideStored = W > 0 && move == "none" && o.kind == "blocks"
	if o.sideStored {
		r.Probe("side chain stored without becoming canonical")
	}
	if len(o.invalid) > 0 && err != nil {
		r.Probe("invalid block rejected")
	}
	// diagnostic, outside the property's statement: an invalid variant that carries the hash of
	// a valid block was written to the database (side-chain path: verifyAllSideChainBlocks
	// checks neither the proposer signature nor the transaction root); it is not canonical, but
	// HasBlock is now true for that hash and the valid block is never stored
	for i, b := range o.blocks {
		if o.tags[i] == "" || cx.byHash[b.Hash()] == nil {
			continue
		}
		if hdr := rawdb.ReadHeader(cx.live.disk, b.Hash(), b.NumberU64()); hdr != nil {
			body := rawdb.ReadBody(cx.live.disk, b.Hash(), b.NumberU64())
			vn := cx.byHash[b.Hash()]
			if !bytes.Equal(encHeader(hdr), vn.hdrRLP) || (body != nil && types.DeriveSha(types.Transactions(body.Transactions)) != hdr.TxHash) {
				r.Probe("invalid variant stored in the database (not canonical)")
				r.Logf("  note: %s is stored under the hash of valid %s", o.tags[i], vn.name)
			}
		}
	}
	cx.trackQueue(o, err)
	r.Logf("offer %d: %s -> %s head=%s(%d) move=%s writes=%d stored=%d/%d queue=%d ok=%v", o.idx, o.desc, errClass(err), cx.nameOf(after.headH), live.CurrentBlock().NumberU64(), move, cx.logicalWrites(W), stored, len(o.blocks), len(cx.queued), after.ok)
	if err != nil {
		r.Logf("  err: %v", err)
	}
	r.FP("offer", o.label, errClass(err), move, fmt.Sprint(len(o.blocks)), fmt.Sprint(after.ok))
	// crash-point enumeration of this stimulus
	if W == 0 || cx.budget <= 0 {
		return
	}
	num, den := 1, 3
	if reorged {
		num, den = 4, 5
	} else if o.sideStored || o.kind == "tick" {
		num, den = 2, 3
	}
	if r.Tier == "thorough" { // enumerate more of the offers
		num, den = 2, 3
		if reorged {
			num, den = 9, 10
		} else if o.sideStored || o.kind == "tick" {
			num, den = 4, 5
		}
	}
	if !c.Chance("crash-enum", num, den) {
		return
	}
	if len(cx.laterChildren) > 0 {
		// the enumeration imports one further valid block on the live node (the reference), which
		// would move the head before the child of this offer's refused block arrives
		r.Logf("  enumeration skipped: the child of this offer's invalid block follows")
		return
	}
	if o.kind == "tick" && cx.queueUnsure {
		r.Logf("  enumeration skipped: future queue content not known exactly")
		return
	}
	cx.enumerate(o, W, reorged, after)
}

// trackQueue mirrors which offered blocks the live node holds in its future-block queue
// (insertChain: ErrFutureBlock within the hard limit, or unknown ancestor whose parent is
// queued), so that a crash during a ticker-driven import can be followed by importing "the
// interrupted blocks" again.
func (cx *world) trackQueue(o *offer, err error) {
	live := cx.live.im.Chain
	now := uint64(time.Now().Unix())
	inQ := map[common.Hash]bool{}
	for _, b := range cx.queued {
		inQ[b.Hash()] = true
	}
	grew := false
	if o.kind == "blocks" {
		for i, b := range o.blocks {
			if live.HasBlock(b.Hash(), b.NumberU64()) {
				continue
			}
			fut := b.Time() > now+10
			if !fut && !inQ[b.ParentHash()] {
				break // rejected here (or skipped); the rest of the group was not looked at
			}
			if fut && b.Time() > now+30 {
				break
			}
			if o.tags[i] != "" {
				cx.queueUnsure = true // an invalid variant sits in the future queue
			}
			if !inQ[b.Hash()] {
				inQ[b.Hash()] = true
				cx.queued = append(cx.queued, b)
				grew = true
			}
		}
	}
	if grew {
		cx.r.Probe("future block queued")
	}
	// drop what has been imported meanwhile
	var keep []*types.Block
	for _, b := range cx.queued {
		if live.HasBlock(b.Hash(), b.NumberU64()) {
			if o.kind == "tick" {
				cx.r.Probe("future block imported by ticker")
			}
			continue
		}
		keep = append(keep, b)
	}
	cx.queued = keep
}

// reviveLive replaces the live node, which died in a panic, by a restart on its durable image.
func (cx *world) reviveLive() {
	r := cx.r
	r.Fault("crash.panic")
	disk := cx.live.disk.Restart()
	im, err := chainkit.NewImporter(disk, cx.w.Genesis, kit.Wait)
	if err != nil {
		r.Fail("crash-restart-failed", "restart after a panic during import failed: %v", err)
	}
	cx.live = &sut{im: im, disk: disk}
	cx.queued = nil
}

// logicalWrites counts the offer's writes with every run of state batches as one (see segment).
func (cx *world) logicalWrites(W int) int {
	kinds := make([]string, W)
	for i := range kinds {
		kinds[i] = cx.entryKind(i)
	}
	return len(segments(kinds))
}
