package c11world

import (
	"errors"
	"fmt"
	"runtime/debug"
	"sort"
	"strings"
	"time"

	"verifsim/kit"
	"verifsim/simdisk"
	"verifsim/worlds/chainkit"

	"github.com/youchainhq/go-youchain/core/rawdb"
	"github.com/youchainhq/go-youchain/core/types"
)

// entryKind classifies write-log entry i of the live disk by the database keys it writes
// (schema: core/rawdb/schema.go). All trie-node, code and preimage writes are "state": the
// order in which WriteBlockWithState flushes its three tries is Go map order
// (core/blockchain.go:810), so nothing that is logged may distinguish them.
func (cx *world) entryKind(i int) string {
	set := map[string]bool{}
	cx.live.disk.EntryOps(i, func(key string, val []byte, del bool) {
		set[keyKind(key, del)] = true
	})
	var ks []string
	for k := range set {
		ks = append(ks, k)
	}
	sort.Strings(ks)
	return strings.Join(ks, "+")
}

func keyKind(key string, del bool) string {
	switch {
	case key == "LastBlock":
		return "head-block"
	case key == "LastHeader":
		return "head-header"
	case len(key) == 32 || strings.HasPrefix(key, "secure-key-"):
		return "state"
	case len(key) == 10 && key[0] == 'h' && key[9] == 'n':
		return "canon"
	case len(key) == 41 && key[0] == 'h':
		return "header"
	case len(key) == 33 && key[0] == 'H':
		return "hdr-number"
	case len(key) == 41 && key[0] == 'b':
		return "body"
	case len(key) == 41 && key[0] == 'r':
		return "receipts"
	case len(key) == 33 && key[0] == 'l':
		if del {
			return "lookup-del"
		}
		return "lookup"
	}
	return "other"
}

// segment is one logical write of an offer: one non-state log entry, or one maximal run of
// state (trie node / preimage) batches. WriteBlockWithState flushes its three tries in Go map
// order (core/blockchain.go:810) and an unchanged trie flushes nothing unless it happens to
// come first and carries the preimages, so the NUMBER of physical state batches per block is
// not a function of the seed; the sequence of segments is.
type segment struct {
	kind       string
	start, end int // physical log entries [start, end)
}

// point is one crash point: the durable image holds the physical writes [0, k).
type point struct {
	k    int
	seg  int  // index of the last (partly) durable segment
	mid  bool // inside a run of state batches: some but not all of them durable
	prev string
	next string
}

func (pt point) String() string {
	if pt.mid {
		return fmt.Sprintf("%d.5", pt.seg)
	}
	return fmt.Sprint(pt.seg + 1)
}

func segments(kinds []string) []segment {
	var segs []segment
	for i := 0; i < len(kinds); {
		j := i + 1
		if kinds[i] == "state" {
			for j < len(kinds) && kinds[j] == "state" {
				j++
			}
		}
		segs = append(segs, segment{kind: kinds[i], start: i, end: j})
		i = j
	}
	return segs
}

// crashPoints enumerates the crash points of an offer: after every logical write (block body,
// header, state commit, receipts+lookups batch, lookup put/delete, canonical hash, head
// markers), and inside every state commit that consists of more than one physical batch. If
// that exceeds the cap, a seeded stratified sample of it.
func (cx *world) crashPoints(segs []segment, cap int) (pts []point, full bool) {
	c := cx.r.C
	for i, sg := range segs {
		next := "end"
		if i+1 < len(segs) {
			next = segs[i+1].kind
		}
		if sg.kind == "state" && sg.end-sg.start > 1 {
			pts = append(pts, point{k: sg.start + 1, seg: i, mid: true, prev: "state", next: "state"})
		}
		pts = append(pts, point{k: sg.end, seg: i, prev: sg.kind, next: next})
	}
	if len(pts) <= cap {
		return pts, true
	}
	var out []point
	for i := 0; i < cap; i++ {
		lo, hi := i*len(pts)/cap, (i+1)*len(pts)/cap
		out = append(out, pts[lo+c.Intn("crash-sample", hi-lo)])
	}
	return out, false
}

// pickX finds "one further valid block": a valid block whose parent is the live node's head —
// the next tree block on a branch through the head if there is one, else a block freshly
// built by the builder of the branch whose tip the head is.
func (cx *world) pickX(h *node) (*node, string) {
	if h == nil {
		return nil, "head is not a tree block"
	}
	limit := uint64(time.Now().Unix()) + 10
	for _, ch := range h.children {
		if ch.blk.Time() <= limit {
			return ch, ""
		}
	}
	if h.br == nil || h.br.tip() != h {
		return nil, "only future-dated children"
	}
	if h.br.b.Chain.CurrentBlock().Hash() != h.blk.Hash() {
		return nil, "builder head moved"
	}
	if h.blk.Time() >= limit {
		return nil, "head is future-dated"
	}
	n, err := cx.buildNext(h.br, 0)
	if err != nil {
		cx.r.Logf("  X: build failed: %v", err)
		return nil, "build failed"
	}
	if n.blk.Time() > limit {
		return nil, "built block is future-dated"
	}
	return n, ""
}

// sut is one node under test (the live node or a restarted image).
type sut struct {
	im   *chainkit.Importer
	disk *simdisk.Disk
	dead bool // a panic escaped from InsertChain: the process is dead, locks are held for ever
}

var errPanicked = errors.New("PANIC in InsertChain (process died)")

// insert calls InsertChain the way production does: the downloader with a batch of consecutive
// blocks (you/downloader/downloader.go:1433 importBlockResults), the fetcher with a single
// announced/propagated block (you/handler.go:159), the consensus commit path with a single
// block (you/ucon_handler.go:189) and the future-block ticker (core/blockchain.go:1372). A panic that escapes
// from the code under test is a process death: it is reported as a violation (class named
// after the panicking function), the node is marked dead and its goroutines are told to quit.
// The call runs on a helper goroutine so that the simulator survives it.
func (cx *world) insert(s *sut, bs types.Blocks) error {
	if s.dead {
		return errPanicked
	}
	type res struct {
		err   error
		pv    interface{}
		stack string
	}
	ch := make(chan res, 1)
	go func() {
		defer func() {
			if v := recover(); v != nil {
				ch <- res{pv: v, stack: string(debug.Stack())}
			}
		}()
		ch <- res{err: s.im.Chain.InsertChain(bs)}
	}()
	out := <-ch
	kit.Wait()
	if out.pv == nil {
		return out.err
	}
	s.dead = true
	cx.leaked = true
	if cx.r.HasClass("logging-crit") {
		cx.r.Abort()
	}
	fn, frames := repoFrames(out.stack)
	if fn == "" {
		panic(fmt.Sprintf("c11world: harness panic during InsertChain: %v\n%s", out.pv, out.stack))
	}
	cx.r.Report("panic-in-"+fn, "InsertChain(%s) panicked: %v | %s", cx.names(bs, nil), out.pv, frames)
	cx.r.Logf("  PANIC in %s: %v", fn, out.pv)
	s.disk.Freeze()
	// tell the dead node's goroutines to quit; Stop itself never returns (the wait group and
	// chainMu of the interrupted InsertChain are held for ever)
	go func() { s.im.Stk.Stop(); s.im.Chain.Stop() }()
	kit.Wait()
	return errPanicked
}

// repoFrames extracts the panicking function and a short frame list, provided the frame that
// panicked (the first non-runtime frame below runtime.gopanic) lies in the code under test
// (/repo, or the scratch copy of it under mutant.sh); otherwise fn is "" (harness bug).
func repoFrames(stack string) (fn string, frames string) {
	lines := strings.Split(stack, "\n")
	var out []string
	seenPanic, decided := false, false
	for i := 1; i < len(lines); i++ {
		ln := strings.TrimSpace(lines[i])
		if !strings.HasPrefix(ln, "/") {
			continue
		}
		if strings.Contains(ln, "/runtime/panic.go") {
			seenPanic = true
			continue
		}
		if !seenPanic || strings.Contains(ln, "/runtime/") || strings.Contains(ln, "/src/") {
			continue
		}
		j := strings.Index(ln, "/repo/")
		inRepo := j >= 0 && !strings.Contains(ln, "/verif/sim/")
		if !decided {
			decided = true
			if !inRepo {
				return "", ""
			}
		}
		if !inRepo {
			continue
		}
		if k := strings.Index(ln, " +0x"); k > 0 {
			ln = ln[:k]
		}
		out = append(out, ln[j+len("/repo/"):])
		if fn == "" {
			f := strings.TrimSpace(lines[i-1])
			if k := strings.LastIndex(f, "("); k > 0 {
				f = f[:k]
			}
			if k := strings.LastIndex(f, "/"); k >= 0 {
				f = f[k+1:]
			}
			fn = f
		}
		if len(out) >= 7 {
			break
		}
	}
	return fn, strings.Join(out, " < ")
}

func (cx *world) stopSut(s *sut) {
	if s != nil && !s.dead {
		s.im.Stop(kit.Wait)
	}
}

func errClass(err error) string {
	if err == nil {
		return "ok"
	}
	s := err.Error()
	for _, p := range []string{"non contiguous", "VerifyYouVersionState failed", "future block", "transaction root hash mismatch",
		"invalid merkle root", "invalid validator root", "invalid staking root", "invalid gas used", "invalid bloom", "invalid receipt root",
		"unknown ancestor", "invalid sealer", "invalid consensus data", "missing parent", "open trie error", "older block time", "verifyBlsVotes", "invalid aggregated"} {
		if strings.Contains(s, p) {
			return p
		}
	}
	if len(s) > 40 {
		s = s[:40]
	}
	return s
}

// enumerate performs crash-point enumeration for offer o, whose W database writes the live
// disk has just logged: the live node (which never crashes) first receives one further valid
// block X and thereby becomes the reference; then every selected prefix image is restarted
// through the real constructors, checked, given the interrupted offer again, then X, and must
// end with the reference's head and state.
func (cx *world) enumerate(o *offer, W int, reorged bool, after *view) {
	r := cx.r
	kinds := make([]string, W)
	for i := range kinds {
		kinds[i] = cx.entryKind(i)
	}
	capN := cx.maxEnum
	if cx.budget < capN {
		capN = cx.budget
	}
	x, why := cx.pickX(after.head)
	if x == nil {
		r.Logf("  enumeration skipped: no further valid block (%s)", why)
		r.Count("diag.enum-skipped-no-x", 1)
		return
	}
	segs := segments(kinds)
	pts, full := cx.crashPoints(segs, capN)
	logDisk := cx.live.disk // the disk whose write log holds the offer (kept if the live node dies below)
	errX := cx.insert(cx.live, types.Blocks{x.blk})
	cx.markDelivered(x)
	if cx.live.dead {
		cx.reviveLive()
	}
	ref := cx.checkChain("live", fmt.Sprintf("after further block %s following offer %d", x.name, o.idx), cx.live.im.Chain, cx.live.disk)
	r.Logf("  reference: further block %s -> %s head=%s(%d); %d logical writes, %d crash points (full=%v): %s", x.name, errClass(errX), cx.nameOf(ref.headH), cx.live.im.Chain.CurrentBlock().NumberU64(), len(segs), len(pts), full, segString(segs))
	if ref.headH == x.blk.Hash() {
		r.Probe("further block became head")
	}
	if full {
		r.Probe("offer fully enumerated")
	} else {
		r.Probe("offer sampled")
	}
	for _, pt := range pts {
		cx.crashAt(logDisk, o, pt, len(segs), x, ref, reorged)
	}
}

func segString(segs []segment) string {
	var b strings.Builder
	for i, sg := range segs {
		if i > 0 {
			b.WriteByte(' ')
		}
		b.WriteString(sg.kind)
	}
	return b.String()
}

func (cx *world) crashAt(logDisk *simdisk.Disk, o *offer, pt point, nseg int, x *node, ref *view, reorged bool) {
	r := cx.r
	k, prevK, nextK := pt.k, pt.prev, pt.next
	where := fmt.Sprintf("offer %d %s, process killed after logical write %s of %d (last durable write: %s; first lost write: %s)", o.idx, o.desc, pt, nseg, prevK, nextK)
	img := logDisk.Prefix(k)
	cx.budget--
	r.Fault("crash.prefix")
	r.Steps++
	// reach probes for the ordering windows of WriteBlockWithState / reorg / insert
	switch {
	case nextK == "end":
		r.Probe("crash after the last write of an offer")
	case prevK == "state" && nextK == "state":
		r.Probe("crash inside state commit")
	case (prevK == "header" || prevK == "hdr-number" || prevK == "body") && (nextK == "state" || nextK == "header" || nextK == "hdr-number"):
		r.Probe("crash after block data before state commit")
	case nextK == "head-header" && prevK == "state":
		r.Probe("crash between state commit and head marker")
	case nextK == "head-header" && strings.Contains(prevK, "lookup"):
		r.Probe("crash after tx lookups before head marker")
	case nextK == "head-header":
		r.Probe("crash between receipts and head marker")
	case prevK == "head-header" && nextK == "canon":
		r.Probe("crash between head-header marker and canonical hash")
	case prevK == "canon" && nextK == "head-block":
		r.Probe("crash between canonical hash and head-block marker")
	case prevK == "head-block" && strings.Contains(nextK, "lookup"):
		r.Probe("crash after head marker before tx lookups")
	case strings.Contains(nextK, "lookup-del"):
		r.Probe("crash before deleting lookups of dropped transactions")
	}
	if reorged {
		r.Probe("crash during reorg")
	}
	if o.sideStored {
		r.Probe("crash while storing a side chain without state")
	}
	cx.fam = "@" + windowFamily(prevK, nextK)
	defer func() { cx.fam = "" }()
	im, err, pv, stack := cx.restart(img)
	if pv != nil {
		fn, frames := repoFrames(stack)
		if fn == "" {
			panic(fmt.Sprintf("c11world: harness panic during restart: %v\n%s", pv, stack))
		}
		cx.leaked = true
		r.Report("crash-restart-panic"+cx.fam, "%s: restart through NewVRFServer/NewBlockChain panicked in %s: %v | %s", where, fn, pv, frames)
		r.Logf("  p=%s [%s|%s] RESTART PANIC in %s: %v", pt, prevK, nextK, fn, pv)
		return
	}
	if err != nil {
		r.Report("crash-restart-failed"+cx.fam, "%s: restart through NewVRFServer/NewBlockChain failed: %v", where, err)
		r.Logf("  p=%s [%s|%s] RESTART FAILED: %v", pt, prevK, nextK, err)
		return
	}
	s := &sut{im: im, disk: img}
	defer cx.stopSut(s)
	marker := rawdb.ReadHeadBlockHash(img)
	rewound := marker != im.Chain.CurrentBlock().Hash()
	if rewound {
		r.Probe("restart repaired head (loadLastState rewound)")
	}
	v1 := cx.checkChain("crash", where, im.Chain, img)
	// the interrupted blocks again
	var e1 error
	if o.kind == "tick" {
		for _, b := range o.requeue {
			if e := cx.insert(s, types.Blocks{b}); e != nil && e1 == nil {
				e1 = e
			}
		}
	} else {
		e1 = cx.insert(s, o.blocks)
	}
	v2 := cx.checkChain("crash", where+", after the offer was imported again", im.Chain, img)
	// one further valid block
	e2 := cx.insert(s, types.Blocks{x.blk})
	v3 := cx.checkChain("crash", where+", after the offer and further block "+x.name+" were imported", im.Chain, img)
	match := v3.headH == ref.headH
	// the interrupted import only extended the head (no reorg): a different history from the
	// known non-atomic head switch of a reorg, so it gets its own class
	ext := ""
	if !reorged {
		ext = ":extend"
	}
	if !match {
		r.Report("crash-wedged-head"+ext+cx.fam, "%s: after importing the offer again (%s) and further block %s (%s) the head is %s(%d), the never-crashed node has %s", where, errClass(e1), x.name, errClass(e2), cx.nameOf(v3.headH), im.Chain.CurrentBlock().NumberU64(), cx.nameOf(ref.headH))
	} else if v3.roots != ref.roots || v3.dig != ref.dig {
		match = false
		r.Report("crash-wedged-state"+ext+cx.fam, "%s: same head %s as the never-crashed node but different state (roots equal=%v)", where, cx.nameOf(v3.headH), v3.roots == ref.roots)
	}
	r.Logf("  p=%s [%s|%s] restart head=%s rewound=%v ok=%v; again->%s head=%s ok=%v; %s->%s head=%s match=%v", pt, prevK, nextK,
		cx.nameOf(v1.headH), rewound, v1.ok, errClass(e1), cx.nameOf(v2.headH), v2.ok, x.name, errClass(e2), cx.nameOf(v3.headH), match)
	out := "ok"
	if !v1.ok || !v2.ok || !v3.ok || !match {
		out = "viol"
	}
	r.FP("crash", prevK, nextK, fmt.Sprint(rewound), out)
}

// windowFamily names the ordering window a crash point falls into, from the kinds of the last
// durable and the first lost write (the write order of WriteBlockWithState / reorg / insert):
// "head-switch" = inside the three writes of the head switch (head-header marker, canonical
// hash, head-block marker); "pre-head" = everything of the block is durable except the head
// switch; "post-head" = the head was switched inside a reorg and the follow-up lookup
// writes/deletions are lost; "other" = block data, state commit, between blocks, end of offer.
func windowFamily(prev, next string) string {
	isLookup := func(k string) bool { return strings.Contains(k, "lookup") || k == "receipts" }
	switch {
	case prev == "head-header" || prev == "canon":
		return "head-switch"
	case next == "head-header":
		return "pre-head"
	case (prev == "head-block" || prev == "lookup" || prev == "lookup-del") && isLookup(next):
		return "post-head"
	}
	return "other"
}

// restart opens a node on a durable image through the real constructors; a panic of the code
// under test during start-up is caught (the restart clause of the property failed).
func (cx *world) restart(img *simdisk.Disk) (im *chainkit.Importer, err error, pv interface{}, stack string) {
	defer func() {
		if v := recover(); v != nil {
			pv, stack = v, string(debug.Stack())
		}
	}()
	im, err = chainkit.NewImporter(img, cx.w.Genesis, kit.Wait)
	return
}
