package c11world

import (
	"fmt"
	"sort"
	"strings"
	"time"

	"verifsim/kit"
	"verifsim/worlds/chainkit"

	"github.com/youchainhq/go-youchain/common"
	"github.com/youchainhq/go-youchain/core"
	"github.com/youchainhq/go-youchain/core/rawdb"
	"github.com/youchainhq/go-youchain/core/types"
)

// entryKind classifies write-log entry i of the live disk by the database keys it writes
// (schema: core/rawdb/schema.go). All trie-node, code and preimage writes are "state": the
// order in which WriteBlockWithState flushes its three tries is Go map order
// (core/blockchain.go:810), so nothing that is logged may distinguish them.
func (cx *world) entryKind(i int) string {
	set := map[string]bool{}
	cx.disk.EntryOps(i, func(key string, val []byte, del bool) {
		set[keyKind(key, del)] = true
	})
	var ks []string
	for k := range set {
		ks = append(ks, k)
	}
	sort.Strings(ks)
	return strings.Join(ks, "+")
}

func keyKind(key string, del bool) string {
	switch {
	case key == "LastBlock":
		return "head-block"
	case key == "LastHeader":
		return "head-header"
	case len(key) == 32 || strings.HasPrefix(key, "secure-key-"):
		return "state"
	case len(key) == 10 && key[0] == 'h' && key[9] == 'n':
		return "canon"
	case len(key) == 41 && key[0] == 'h':
		return "header"
	case len(key) == 33 && key[0] == 'H':
		return "hdr-number"
	case len(key) == 41 && key[0] == 'b':
		return "body"
	case len(key) == 41 && key[0] == 'r':
		return "receipts"
	case len(key) == 33 && key[0] == 'l':
		if del {
			return "lookup-del"
		}
		return "lookup"
	}
	return "other"
}

// crashPoints selects the write indexes k (image = first k writes of the offer) to restart on:
// every k next to a non-state write (block, receipts, lookups, canonical hash, head markers —
// where the ordering windows are), one seeded interior point per run of state-trie writes,
// and k = W (crash right after the last write). If that exceeds the cap, a seeded stratified
// sample of it.
func (cx *world) crashPoints(kinds []string, cap int) (ks []int, full bool) {
	c := cx.r.C
	W := len(kinds)
	pick := map[int]bool{W: true}
	runStart := -1
	for i := 0; i <= W; i++ {
		isState := i < W && kinds[i] == "state"
		if isState && runStart < 0 {
			runStart = i
		}
		if !isState && runStart >= 0 {
			// state run [runStart, i): interior crash points k in (runStart, i)
			if n := i - runStart - 1; n > 0 {
				pick[runStart+1+c.Intn("state-interior", n)] = true
			}
			runStart = -1
		}
	}
	for k := 1; k <= W; k++ {
		if kinds[k-1] != "state" || (k < W && kinds[k] != "state") {
			pick[k] = true
		}
	}
	for k := range pick {
		if k >= 1 {
			ks = append(ks, k)
		}
	}
	sort.Ints(ks)
	if len(ks) <= cap {
		return ks, true
	}
	// stratified sample of size cap
	var out []int
	for i := 0; i < cap; i++ {
		lo, hi := i*len(ks)/cap, (i+1)*len(ks)/cap
		out = append(out, ks[lo+c.Intn("crash-sample", hi-lo)])
	}
	return out, false
}

// pickX finds "one further valid block": a valid block whose parent is the live node's head —
// the next tree block on a branch through the head if there is one, else a block freshly
// built by the builder of the branch whose tip the head is.
func (cx *world) pickX(h *node) (*node, string) {
	if h == nil {
		return nil, "head is not a tree block"
	}
	limit := uint64(time.Now().Unix()) + 10
	for _, ch := range h.children {
		if ch.blk.Time() <= limit {
			return ch, ""
		}
	}
	if h.br == nil || h.br.tip() != h {
		return nil, "only future-dated children"
	}
	if h.br.b.Chain.CurrentBlock().Hash() != h.blk.Hash() {
		return nil, "builder head moved"
	}
	if h.blk.Time() >= limit {
		return nil, "head is future-dated"
	}
	n, err := cx.buildNext(h.br, 0)
	if err != nil {
		cx.r.Logf("  X: build failed: %v", err)
		return nil, "build failed"
	}
	if n.blk.Time() > limit {
		return nil, "built block is future-dated"
	}
	return n, ""
}

func (cx *world) insert(ch *core.BlockChain, bs types.Blocks) error {
	err := ch.InsertChain(bs)
	kit.Wait()
	return err
}

func errClass(err error) string {
	if err == nil {
		return "ok"
	}
	s := err.Error()
	for _, p := range []string{"non contiguous", "VerifyYouVersionState failed", "future block", "transaction root hash mismatch",
		"invalid merkle root", "invalid validator root", "invalid staking root", "invalid gas used", "invalid bloom", "invalid receipt root",
		"unknown ancestor", "invalid sealer", "invalid consensus data", "missing parent", "open trie error", "older block time", "verifyBlsVotes", "invalid aggregated"} {
		if strings.Contains(s, p) {
			return p
		}
	}
	if len(s) > 40 {
		s = s[:40]
	}
	return s
}

// enumerate performs crash-point enumeration for offer o, whose W database writes the live
// disk has just logged: the live node (which never crashes) first receives one further valid
// block X and thereby becomes the reference; then every selected prefix image is restarted
// through the real constructors, checked, given the interrupted offer again, then X, and must
// end with the reference's head and state.
func (cx *world) enumerate(o *offer, W int, reorged bool, after *view) {
	r := cx.r
	kinds := make([]string, W)
	for i := range kinds {
		kinds[i] = cx.entryKind(i)
	}
	capN := cx.maxEnum
	if cx.budget < capN {
		capN = cx.budget
	}
	x, why := cx.pickX(after.head)
	if x == nil {
		r.Logf("  enumeration skipped: no further valid block (%s)", why)
		r.Count("diag.enum-skipped-no-x", 1)
		return
	}
	ks, full := cx.crashPoints(kinds, capN)
	errX := cx.insert(cx.live.Chain, types.Blocks{x.blk})
	cx.markDelivered(x)
	ref := cx.checkChain("live", fmt.Sprintf("after further block %s following offer %d", x.name, o.idx), cx.live.Chain, cx.disk)
	r.Logf("  reference: further block %s -> %s head=%s(%d); %d writes, %d crash points (full=%v) kinds=%s", x.name, errClass(errX), cx.nameOf(ref.headH), cx.live.Chain.CurrentBlock().NumberU64(), W, len(ks), full, compressKinds(kinds))
	if ref.headH == x.blk.Hash() {
		r.Probe("further block became head")
	}
	if full {
		r.Probe("offer fully enumerated")
	} else {
		r.Probe("offer sampled")
	}
	for _, k := range ks {
		cx.crashAt(o, k, kinds, x, ref, reorged)
	}
}

func compressKinds(kinds []string) string {
	var b strings.Builder
	for i := 0; i < len(kinds); {
		j := i
		for j < len(kinds) && kinds[j] == kinds[i] {
			j++
		}
		if b.Len() > 0 {
			b.WriteByte(' ')
		}
		if j-i > 1 {
			fmt.Fprintf(&b, "%s*%d", kinds[i], j-i)
		} else {
			b.WriteString(kinds[i])
		}
		i = j
	}
	return b.String()
}

func (cx *world) crashAt(o *offer, k int, kinds []string, x *node, ref *view, reorged bool) {
	r := cx.r
	W := len(kinds)
	prevK, nextK := kinds[k-1], "end"
	if k < W {
		nextK = kinds[k]
	}
	where := fmt.Sprintf("offer %d %s, process killed after write %d of %d (last durable write: %s; first lost write: %s)", o.idx, o.desc, k, W, prevK, nextK)
	img := cx.disk.Prefix(k)
	cx.budget--
	r.Fault("crash.prefix")
	r.Steps++
	// reach probes for the ordering windows of WriteBlockWithState / reorg / insert
	switch {
	case nextK == "end":
		r.Probe("crash after the last write of an offer")
	case prevK == "state" && nextK == "state":
		r.Probe("crash inside state commit")
	case (prevK == "header" || prevK == "hdr-number" || prevK == "body") && (nextK == "state" || nextK == "header" || nextK == "hdr-number"):
		r.Probe("crash after block data before state commit")
	case nextK == "head-header" && prevK == "state":
		r.Probe("crash between state commit and head marker")
	case nextK == "head-header" && strings.Contains(prevK, "lookup"):
		r.Probe("crash after tx lookups before head marker")
	case nextK == "head-header":
		r.Probe("crash between receipts and head marker")
	case prevK == "head-header" && nextK == "canon":
		r.Probe("crash between head-header marker and canonical hash")
	case prevK == "canon" && nextK == "head-block":
		r.Probe("crash between canonical hash and head-block marker")
	case prevK == "head-block" && strings.Contains(nextK, "lookup"):
		r.Probe("crash after head marker before tx lookups")
	case strings.Contains(nextK, "lookup-del"):
		r.Probe("crash before deleting lookups of dropped transactions")
	}
	if reorged {
		r.Probe("crash during reorg")
	}
	if o.sideStored {
		r.Probe("crash while storing a side chain without state")
	}
	im, err := chainkit.NewImporter(img, cx.w.Genesis, kit.Wait)
	if err != nil {
		r.Report("crash-restart-failed", "%s: restart through NewVRFServer/NewBlockChain failed: %v", where, err)
		r.Logf("  k=%d [%s|%s] RESTART FAILED: %v", k, prevK, nextK, err)
		return
	}
	defer im.Stop(kit.Wait)
	marker := rawdb.ReadHeadBlockHash(img)
	rewound := marker != im.Chain.CurrentBlock().Hash()
	if rewound {
		r.Probe("restart repaired head (loadLastState rewound)")
	}
	v1 := cx.checkChain("crash", where, im.Chain, img)
	// the interrupted blocks again
	var e1 error
	if o.kind == "tick" {
		for _, b := range o.requeue {
			if e := cx.insert(im.Chain, types.Blocks{b}); e != nil && e1 == nil {
				e1 = e
			}
		}
	} else {
		e1 = cx.insert(im.Chain, o.blocks)
	}
	v2 := cx.checkChain("reoffer", where+", after the offer was imported again", im.Chain, img)
	// one further valid block
	e2 := cx.insert(im.Chain, types.Blocks{x.blk})
	v3 := cx.checkChain("reoffer", where+", after the offer and further block "+x.name+" were imported", im.Chain, img)
	match := v3.headH == ref.headH
	if !match {
		r.Report("crash-wedged-head", "%s: after importing the offer again (%s) and further block %s (%s) the head is %s(%d), the never-crashed node has %s", where, errClass(e1), x.name, errClass(e2), cx.nameOf(v3.headH), im.Chain.CurrentBlock().NumberU64(), cx.nameOf(ref.headH))
	} else if v3.roots != ref.roots || v3.dig != ref.dig {
		match = false
		r.Report("crash-wedged-state", "%s: same head %s as the never-crashed node but different state (roots equal=%v)", where, cx.nameOf(v3.headH), v3.roots == ref.roots)
	}
	r.Logf("  k=%d [%s|%s] restart head=%s rewound=%v ok=%v; again->%s head=%s ok=%v; %s->%s head=%s match=%v", k, prevK, nextK,
		cx.nameOf(v1.headH), rewound, v1.ok, errClass(e1), cx.nameOf(v2.headH), v2.ok, x.name, errClass(e2), cx.nameOf(v3.headH), match)
	out := "ok"
	if !v1.ok || !v2.ok || !v3.ok || !match {
		out = "viol"
	}
	r.FP("crash", prevK, nextK, fmt.Sprint(rewound), out)
}

var _ = common.Hash{}
