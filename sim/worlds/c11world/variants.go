package c11world

import (
	"fmt"
	"time"

	"verifsim/worlds/chainkit"

	"github.com/youchainhq/go-youchain/common"
	"github.com/youchainhq/go-youchain/consensus/ucon"
	"github.com/youchainhq/go-youchain/core/types"
	"github.com/youchainhq/go-youchain/crypto"
	"github.com/youchainhq/go-youchain/params"
)

// variant is a block that is INVALID by construction, made by tampering a valid tree block.
// Variants whose tampered field lies outside the header hash (votes, proposer signature, body)
// carry the SAME hash as the valid block they were made from.
type variant struct {
	kind     string
	name     string
	of       *node
	blk      *types.Block
	sameHash bool
}

var variantKinds = []string{
	"state-root",   // header.Root changed, re-sealed with a full quorum
	"tx-root",      // header.TxHash changed, re-sealed
	"body-drop",    // same header, last transaction removed from the body
	"body-swap",    // same header, two transactions swapped in the body
	"body-add",     // same header, an extra transaction appended to the body
	"sub-quorum",   // same header hash, votes dropped below the protocol quorum
	"bad-sig",      // same header hash, proposer signature by another key
	"wrong-parent", // parent hash replaced (unknown hash, or a block of another branch), re-sealed
	"far-future",   // timestamp far beyond the allowed window, re-sealed
	"old-time",     // timestamp not after the parent's, re-sealed
	"version",      // protocol-version state fields violated, re-sealed
	"gas-used",     // header.GasUsed off by one, re-sealed: only the post-execution validation sees it
	"receipt-root", // header.ReceiptHash changed, re-sealed: only the post-execution validation sees it
	"bloom",        // header.Bloom changed, re-sealed: only the post-execution validation sees it
}

// makeVariant builds an invalid variant of valid node t; ok=false if this kind does not apply.
func (cx *world) makeVariant(t *node, kind string) (*variant, bool) {
	c := cx.r.C
	h := t.blk.Header()
	txs := t.blk.Transactions()
	v := &variant{kind: kind, of: t}
	var err error
	switch kind {
	case "state-root":
		h.Root[0] ^= 0x5a
		v.blk, err = cx.reseal(t, h, txs)
	case "tx-root":
		h.TxHash[3] ^= 0x11
		v.blk, err = cx.reseal(t, h, txs)
	case "body-drop":
		if len(txs) == 0 {
			return nil, false
		}
		v.blk = t.blk.WithBody(&types.Body{Transactions: txs[:len(txs)-1]})
		v.sameHash = true
	case "body-swap":
		if len(txs) < 2 {
			return nil, false
		}
		cp := append(types.Transactions{}, txs...)
		cp[0], cp[len(cp)-1] = cp[len(cp)-1], cp[0]
		v.blk = t.blk.WithBody(&types.Body{Transactions: cp})
		v.sameHash = true
	case "body-add":
		from := c.Intn("var-add-from", chainkit.NClients)
		extra := makeTx(from, 1_000_000+uint64(len(cx.variants)), common.Address{0xee}, 7, 1)
		cp := append(append(types.Transactions{}, txs...), extra)
		v.blk = t.blk.WithBody(&types.Body{Transactions: cp})
		v.sameHash = true
		cx.noteTx(extra)
	case "sub-quorum":
		fc, e := chainkit.NewCtx(t.br.b.Chain, t.num(), roundIndex(h))
		if e != nil {
			return nil, false
		}
		hh := h.Hash()
		need := chainkit.Quorum(fc.YP.ValidatorThreshold)
		var keep []*chainkit.SignedVote
		sum := uint64(0)
		for _, k := range cx.vkeys {
			sv0 := chainkit.StakeOf(fc, k)
			if sv0 == nil || sv0.Status != params.ValidatorOnline || sv0.Kind() != params.KindChamber {
				continue
			}
			sv, ok := chainkit.Vote(fc, k, uint32(ucon.Precommit), hh, fc.YP.ValidatorThreshold)
			if !ok {
				continue
			}
			if sum+uint64(sv.Weight)+10 >= need {
				continue
			}
			keep = append(keep, sv)
			sum += uint64(sv.Weight)
		}
		h.Validator, h.Certificate, err = chainkit.Pack(fc.Index, keep)
		if err == nil {
			v.blk = t.blk.WithSeal(h)
		}
		v.sameHash = true
	case "bad-sig":
		other := cx.vkeys[0]
		if p := proposerOf(h); p != nil && p.Addr == other.Addr {
			other = cx.vkeys[1]
		}
		h.Signature, err = crypto.Sign(h.Hash().Bytes(), other.Priv)
		if err == nil {
			v.blk = t.blk.WithSeal(h)
		}
		v.sameHash = true
	case "wrong-parent":
		var alt *node
		for _, n := range cx.nodes {
			// a block of another branch at the parent's height whose post-state differs from the
			// real parent's: executed on it, the block cannot arrive at its own header's roots.
			// (Found by the thorough tier: two branches of empty blocks can have identical
			// post-states; re-sealed on such a sibling the block is VALID, not an invalid variant.)
			if n != t.parent && n.num()+1 == t.num() &&
				(n.blk.Root() != t.parent.blk.Root() || n.blk.ValRoot() != t.parent.blk.ValRoot()) {
				alt = n
				break
			}
		}
		if alt != nil && c.Chance("var-parent-known", 1, 2) {
			h.ParentHash = alt.blk.Hash()
		} else {
			h.ParentHash[5] ^= 0x77
		}
		v.blk, err = cx.reseal(t, h, txs)
	case "far-future":
		h.Time = uint64(time.Now().Unix()) + 1000 + uint64(c.Intn("var-far", 5000))
		v.blk, err = cx.reseal(t, h, txs)
	case "old-time":
		h.Time = t.parent.blk.Time()
		v.blk, err = cx.reseal(t, h, txs)
	case "version":
		switch c.Intn("var-version-how", 3) {
		case 0:
			h.CurrVersion++
		case 1:
			h.NextApprovals = 1
		default:
			h.NextVersion = h.CurrVersion
			h.NextVoteBefore = 3
		}
		v.blk, err = cx.reseal(t, h, txs)
	case "gas-used":
		h.GasUsed++
		v.blk, err = cx.reseal(t, h, txs)
	case "receipt-root":
		h.ReceiptHash[7] ^= 0x21
		v.blk, err = cx.reseal(t, h, txs)
	case "bloom":
		h.Bloom[11] ^= 0x04
		v.blk, err = cx.reseal(t, h, txs)
	default:
		return nil, false
	}
	if err != nil || v.blk == nil {
		cx.r.Logf("  variant %s of %s: cannot build: %v", kind, t.name, err)
		return nil, false
	}
	if !v.sameHash && cx.byHash[v.blk.Hash()] != nil {
		return nil, false
	}
	v.name = fmt.Sprintf("%s~%s", t.name, kind)
	cx.variants = append(cx.variants, v)
	cx.varByHash[v.blk.Hash()] = append(cx.varByHash[v.blk.Hash()], v)
	for _, tx := range v.blk.Transactions() {
		cx.noteTx(tx)
	}
	return v, true
}

// childOnVariant re-seals a valid child of v.of onto the invalid variant v (same content, parent
// hash = the variant's hash): executed on the variant's announced state it would be a perfectly
// good block, but its parent is invalid, so it must never become canonical either. A node that
// kept the refused variant around (in its database or caches) might accept it.
func (cx *world) childOnVariant(v *variant) (*variant, bool) {
	if v.sameHash {
		return nil, false
	}
	var ch *node
	for _, c := range v.of.children {
		if c.br == v.of.br {
			ch = c
			break
		}
	}
	if ch == nil {
		return nil, false
	}
	h := ch.blk.Header()
	h.ParentHash = v.blk.Hash()
	blk, err := cx.reseal(ch, h, ch.blk.Transactions())
	if err != nil || blk == nil || cx.byHash[blk.Hash()] != nil {
		return nil, false
	}
	cv := &variant{kind: "child-of-invalid", of: ch, blk: blk, name: fmt.Sprintf("%s~on-%s", ch.name, v.name)}
	cx.variants = append(cx.variants, cv)
	cx.varByHash[blk.Hash()] = append(cx.varByHash[blk.Hash()], cv)
	return cv, true
}
