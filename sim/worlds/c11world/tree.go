package c11world

import (
	"crypto/sha256"
	"encoding/hex"
	"fmt"
	"math/big"
	"time"

	"verifsim/kit"
	"verifsim/simdisk"
	"verifsim/worlds/chainkit"
	"verifsim/worlds/chainworld"

	"github.com/youchainhq/go-youchain/common"
	"github.com/youchainhq/go-youchain/consensus/ucon"
	"github.com/youchainhq/go-youchain/core/state"
	"github.com/youchainhq/go-youchain/core/types"
	"github.com/youchainhq/go-youchain/crypto"
	"github.com/youchainhq/go-youchain/params"
	"github.com/youchainhq/go-youchain/rlp"
)

// node is one VALID block of the generated tree (node 0 is genesis).
type node struct {
	id       int
	name     string // short stable trace name: G, T5, A7, ...
	blk      *types.Block
	parent   *node
	children []*node
	br       *branch
	dig      string // digest of the accounts/validators the oracle reads, in the state after this block
	hdrRLP   []byte // full header encoding (including the fields outside the hash)
}

func (n *node) num() uint64 { return n.blk.NumberU64() }

// branch is one linear run of blocks produced by one builder node.
type branch struct {
	id     int
	name   string
	b      *chainkit.Builder
	forkAt *node   // last block shared with the parent branch (genesis node for a fork at 0)
	own    []*node // blocks built by this branch's builder, ascending
	mine   bool    // builder created by this world (stopped by it)
}

func (b *branch) tip() *node {
	if len(b.own) == 0 {
		return b.forkAt
	}
	return b.own[len(b.own)-1]
}

// brPlan is the seeded plan of one branch.
type brPlan struct {
	parent int    // index of the parent branch (-1 for the trunk)
	fork   uint64 // number of the last shared block
	length int
	disk   *simdisk.Disk // snapshot of the parent's builder disk taken when its head was the fork block
}

type senderNonce struct {
	a common.Address
	n uint64
}

// world is the state of one C11 run.
type world struct {
	r     *kit.Run
	w     *chainworld.World
	setup chainworld.Setup
	vkeys []*chainkit.ValKey

	nodes    []*node
	byHash   map[common.Hash]*node
	branches []*branch
	plans    []*brPlan

	txs     []*types.Transaction // every transaction that was ever put into any block (valid or variant)
	txSeen  map[common.Hash]bool
	bySN    map[senderNonce][]*types.Transaction
	digAccs []common.Address
	digVals []common.Address

	variants []*variant
	// laterChildren: children re-sealed onto an invalid variant, to be offered in a later offer
	laterChildren []*variant
	varByHash     map[common.Hash][]*variant
	futureFrom    uint64 // unix time of the earliest future-dated block (0 = none)

	// node under test
	live    *sut
	leaked  bool           // some node died in a panic and could not be stopped
	queued  []*types.Block // blocks the live node holds in its future queue (harness view)
	offers  []*offer
	budget  int // restarts left
	budget0 int
	maxEnum int // per-offer cap of restarted images

	fam         string // "@<window family>" while a crash image is being checked, else ""
	sch         *sched
	queueUnsure bool // an invalid variant entered the future queue: its content is not mirrored exactly
}

func shortHash(h common.Hash) string { return hex.EncodeToString(h[:4]) }

// nameOf gives a short stable name for a block hash.
func (cx *world) nameOf(h common.Hash) string {
	if n := cx.byHash[h]; n != nil {
		return n.name
	}
	if vs := cx.varByHash[h]; len(vs) > 0 {
		return vs[0].name
	}
	return "?" + shortHash(h)
}

func (cx *world) names(bs types.Blocks, tags []string) string {
	s := "["
	for i, b := range bs {
		if i > 0 {
			s += " "
		}
		if tags != nil && tags[i] != "" {
			s += tags[i]
		} else {
			s += cx.nameOf(b.Hash())
		}
	}
	return s + "]"
}

// digest reads the accounts and validator records the oracle looks at; a missing trie node
// shows up as a zero value or as the state's sticky error.
func (cx *world) digest(st *state.StateDB) string {
	h := sha256.New()
	for _, a := range cx.digAccs {
		fmt.Fprintf(h, "%x:%v:%d;", a[:4], st.GetBalance(a), st.GetNonce(a))
	}
	for _, a := range cx.digVals {
		v := st.GetValidatorByMainAddr(a)
		if v == nil {
			fmt.Fprintf(h, "%x:nil;", a[:4])
			continue
		}
		fmt.Fprintf(h, "%x:%v:%v:%v:%v:%d;", a[:4], v.Token, v.Stake, v.RewardsTotal, v.RewardsDistributable, v.Status)
	}
	if err := st.Error(); err != nil {
		fmt.Fprintf(h, "ERR")
	}
	return hex.EncodeToString(h.Sum(nil))[:16]
}

func encHeader(h *types.Header) []byte {
	b, err := rlp.EncodeToBytes(h)
	if err != nil {
		panic(err)
	}
	return b
}

// addNode registers a freshly built valid block.
func (cx *world) addNode(br *branch, blk *types.Block) *node {
	parent := cx.byHash[blk.ParentHash()]
	if parent == nil {
		panic("c11world: built block with unknown parent")
	}
	n := &node{id: len(cx.nodes), blk: blk, parent: parent, br: br, hdrRLP: encHeader(blk.Header())}
	n.name = fmt.Sprintf("%s%d", br.name, blk.NumberU64())
	parent.children = append(parent.children, n)
	cx.nodes = append(cx.nodes, n)
	cx.byHash[blk.Hash()] = n
	br.own = append(br.own, n)
	st, err := br.b.Chain.StateAt(blk.Root(), blk.ValRoot(), blk.StakingRoot())
	if err != nil {
		panic("c11world: builder cannot open its own state: " + err.Error())
	}
	n.dig = cx.digest(st)
	for _, tx := range blk.Transactions() {
		cx.noteTx(tx)
	}
	return n
}

func (cx *world) noteTx(tx *types.Transaction) {
	if cx.txSeen[tx.Hash()] {
		return
	}
	cx.txSeen[tx.Hash()] = true
	cx.txs = append(cx.txs, tx)
	from, err := types.Sender(chainkit.Signer(), tx)
	if err == nil {
		k := senderNonce{from, tx.Nonce()}
		cx.bySN[k] = append(cx.bySN[k], tx)
	}
}

// makeTx signs a plain transfer of client `from` with an explicit nonce.
func makeTx(from int, nonce uint64, to common.Address, amount int64, gasPrice int64) *types.Transaction {
	tx := types.NewTransaction(nonce, to, big.NewInt(amount), 21000, big.NewInt(gasPrice), nil)
	stx, err := types.SignTx(tx, chainkit.Signer(), chainkit.ClientKey(from))
	if err != nil {
		panic(err)
	}
	return stx
}

// genTxs draws the transactions of the next block of br: fresh transfers, or — on side
// branches — transactions that another branch already carries at the same (sender, nonce)
// (so that the same transaction hash lives in competing blocks).
func (cx *world) genTxs(br *branch) []*types.Transaction {
	c := cx.r.C
	k := c.Intn("ntx", 4)
	var txs []*types.Transaction
	used := map[common.Address]uint64{}
	// The worker orders the transactions of different senders by gas price and breaks ties in
	// Go map order (pending is a map): all transactions of one block get pairwise distinct gas
	// prices, so that the block is a function of the seed.
	prices := map[int64]bool{}
	for j := 0; j < k; j++ {
		from := c.Intn("from", chainkit.NClients)
		fa := chainworld.ClientAddr(from)
		nonce := br.b.Pool.Nonce(fa) + used[fa]
		var tx *types.Transaction
		if cands := cx.bySN[senderNonce{fa, nonce}]; len(cands) > 0 && c.Chance("share-tx", 1, 2) {
			if t := cands[c.Intn("share-which", len(cands))]; !prices[t.GasPrice().Int64()] {
				tx = t
			}
		}
		if tx == nil {
			gp := int64(1 + c.Intn("gp", 40))
			for prices[gp] {
				gp++
			}
			tx = makeTx(from, nonce, chainworld.ClientAddr(c.Intn("to", chainkit.NClients)), int64(1+c.Intn("amt", 1000)), gp)
		}
		prices[tx.GasPrice().Int64()] = true
		used[fa]++
		txs = append(txs, tx)
	}
	return txs
}

// buildNext lets br's builder build one block (through the real worker path) on its head.
func (cx *world) buildNext(br *branch, gap time.Duration) (*node, error) {
	c := cx.r.C
	if gap > 0 {
		time.Sleep(gap)
		cx.r.SimTime += gap
	}
	txs := cx.genTxs(br)
	if len(txs) > 0 {
		for i, e := range br.b.Pool.AddRemotesSync(txs) {
			if e != nil {
				cx.r.Logf("  submit %s tx%d: %v", br.name, i, e)
			}
		}
		br.b.Settle(kit.Wait)
	}
	br.b.Engine.StartIndex = uint32(1 + c.Weighted("start-index", []int{8, 1, 1}))
	br.b.Engine.ProposerOrder = nil
	if c.Chance("proposer-order", 1, 4) {
		br.b.Engine.ProposerOrder = c.Perm("proposer-perm", len(cx.vkeys))
	}
	var blk *types.Block
	var err error
	if !br.b.Miner.Mining() {
		blk, err = br.b.Start(kit.Wait)
	} else {
		blk, err = br.b.Build(kit.Wait)
	}
	if err != nil {
		return nil, err
	}
	n := cx.addNode(br, blk)
	cx.r.Steps++
	return n, nil
}

func gapFor(c *kit.Chooser) time.Duration {
	return time.Second + time.Duration(c.Intn("block-gap-ms", 2000))*time.Millisecond
}

// planTree draws the shape: trunk length and side branches (parent, fork point, length).
func (cx *world) planTree() {
	c := cx.r.C
	L := 5 + c.Intn("trunk-len", 9)
	if c.Chance("long-trunk", 1, 6) {
		L = 5 + c.Intn("trunk-len-long", 36)
	}
	cx.plans = []*brPlan{{parent: -1, fork: 0, length: L}}
	nb := c.Weighted("n-branches", []int{2, 6, 4, 2})
	total := L
	for i := 1; i <= nb; i++ {
		p := 0
		if i > 1 && c.Chance("nested-branch", 1, 4) {
			p = 1 + c.Intn("nested-parent", i-1)
		}
		pp := cx.plans[p]
		first := pp.fork + 1 // first own block of the parent
		last := pp.fork + uint64(pp.length)
		// depth below the parent's end at which this branch forks
		d := 1 + c.Weighted("fork-depth", []int{5, 4, 3, 2, 1})
		if c.Chance("deep-fork", 1, 8) {
			d = 1 + c.Intn("fork-depth-deep", 20)
		}
		fork := uint64(0)
		if last > uint64(d) {
			fork = last - uint64(d)
		}
		if fork >= last {
			fork = last - 1
		}
		// a fork point below the parent's own blocks is a fork off an ancestor branch
		for p != 0 && fork < cx.plans[p].fork+1 {
			p = cx.plans[p].parent
		}
		pp = cx.plans[p]
		last = pp.fork + uint64(pp.length)
		_ = first
		depth := int(last - fork)
		// length relative to what it competes with: shorter, equal, longer
		var ln int
		switch c.Weighted("branch-len", []int{3, 3, 3, 2, 1}) {
		case 0:
			ln = depth + 1
		case 1:
			ln = depth
		case 2:
			ln = depth - 1
		case 3:
			ln = depth + 2 + c.Intn("branch-extra", 3)
		default:
			ln = 1 + c.Intn("branch-len-any", depth+3)
		}
		if ln < 1 {
			ln = 1
		}
		if total+ln > 60 {
			ln = 60 - total
		}
		if ln < 1 {
			break
		}
		total += ln
		cx.plans = append(cx.plans, &brPlan{parent: p, fork: fork, length: ln})
	}
}

// buildTree builds the trunk with the world's builder and every side branch with a builder of
// its own that is opened (through the real constructors) on a snapshot of the parent builder's
// disk taken when the parent's head was the fork block: the side builder's chain holds exactly
// the common prefix and then builds different blocks on it.
func (cx *world) buildTree() error {
	r := cx.r
	names := []string{"T", "A", "B", "C", "D"}
	for i, pl := range cx.plans {
		br := &branch{id: i, name: names[i]}
		if pl.parent < 0 {
			br.b = cx.w.B
			br.forkAt = cx.nodes[0]
		} else {
			var disk *simdisk.Disk
			if pl.fork == 0 {
				disk = simdisk.NewNoLog()
				br.forkAt = cx.nodes[0]
			} else {
				disk = pl.disk
				pb := cx.branches[pl.parent]
				for n := pb.tip(); n != nil; n = n.parent {
					if n.num() == pl.fork {
						br.forkAt = n
						break
					}
				}
			}
			if disk == nil || br.forkAt == nil {
				panic("c11world: no snapshot for planned fork")
			}
			b, err := chainkit.NewBuilder(disk, cx.w.Genesis, cx.vkeys, cx.setup.PoolCfg)
			if err != nil {
				return fmt.Errorf("side builder: %v", err)
			}
			kit.Wait()
			br.b, br.mine = b, true
			if b.Chain.CurrentBlock().Hash() != br.forkAt.blk.Hash() {
				return fmt.Errorf("side builder opened at %s, want %s", shortHash(b.Chain.CurrentBlock().Hash()), br.forkAt.name)
			}
		}
		cx.branches = append(cx.branches, br)
		r.Logf("branch %s: fork after %s, %d blocks", br.name, br.forkAt.name, pl.length)
		for j := 0; j < pl.length; j++ {
			n, err := cx.buildNext(br, gapFor(r.C))
			if err != nil {
				return fmt.Errorf("build %s block %d: %v", br.name, j, err)
			}
			r.Logf("  built %s idx=%d txs=%d time=%d %s", n.name, roundIndex(n.blk.Header()), len(n.blk.Transactions()), n.blk.Time(), shortHash(n.blk.Hash()))
			for ci := i + 1; ci < len(cx.plans); ci++ {
				if cp := cx.plans[ci]; cp.parent == i && cp.fork == n.num() && cp.disk == nil {
					cp.disk = br.b.Disk.Restart()
				}
			}
		}
	}
	return nil
}

func roundIndex(h *types.Header) uint32 {
	cd, err := ucon.GetConsensusDataFromHeader(h)
	if err != nil {
		return 0
	}
	return cd.RoundIndex
}

func proposerOf(h *types.Header) *chainkit.ValKey {
	cd, err := ucon.GetConsensusDataFromHeader(h)
	if err != nil {
		return nil
	}
	pub, err := cd.GetPublicKey()
	if err != nil {
		return nil
	}
	return chainkit.KeyByAddr(crypto.PubkeyToAddress(*pub))
}

// reseal completes a (modified) header the way an honest network would: proposer signature
// and a full precommit quorum over the NEW header hash, from the look-back data of the chain of
// the branch the original block belongs to.
func (cx *world) reseal(of *node, h *types.Header, txs types.Transactions) (*types.Block, error) {
	c, err := chainkit.NewCtx(of.br.b.Chain, h.Number.Uint64(), roundIndex(h))
	if err != nil {
		return nil, err
	}
	prop := proposerOf(h)
	if prop == nil {
		return nil, fmt.Errorf("no proposer key")
	}
	blk := types.NewBlockWithHeader(h).WithBody(&types.Body{Transactions: txs})
	sealed, _, err := chainkit.SealHonest(c, blk, prop, cx.vkeys)
	return sealed, err
}

// buildFutureTail appends 1-2 VALID blocks whose timestamps are ahead of the clock by more
// than the allowed window (but less than the hard limit), by re-sealing the worker's block
// with a shifted timestamp inside the forge engine (block time does not enter execution).
func (cx *world) buildFutureTail() {
	c := cx.r.C
	br := cx.branches[c.Intn("future-branch", len(cx.branches))]
	ahead := uint64(11 + c.Intn("future-ahead", 10))
	at := uint64(time.Now().Unix()) + ahead
	if tp := br.tip().blk.Time(); at <= tp {
		at = tp + 1
	}
	br.b.Engine.Tamper = func(fc *chainkit.Ctx, honest *types.Block, votes []*chainkit.SignedVote) *types.Block {
		h := honest.Header()
		h.Time = at
		prop := proposerOf(h)
		sealed, _, err := chainkit.SealHonest(fc, honest.WithSeal(h), prop, cx.vkeys)
		if err != nil {
			return nil
		}
		return sealed
	}
	n, err := cx.buildNext(br, 0)
	br.b.Engine.Tamper = nil
	if err != nil {
		cx.r.Logf("future tail: build failed: %v", err)
		return
	}
	cx.futureFrom = n.blk.Time()
	cx.r.Logf("  built %s (future: time=%d, now+%d) %s", n.name, n.blk.Time(), ahead, shortHash(n.blk.Hash()))
	if c.Chance("future-second", 1, 2) {
		if n2, err := cx.buildNext(br, 0); err == nil {
			cx.r.Logf("  built %s (future child: time=%d) %s", n2.name, n2.blk.Time(), shortHash(n2.blk.Hash()))
		}
	}
}

func (cx *world) stopBuilders() {
	for _, br := range cx.branches {
		if br.mine && br.b != nil {
			br.b.Stop(kit.Wait)
		}
	}
}

func initWorld(r *kit.Run, w *chainworld.World, setup chainworld.Setup) *world {
	cx := &world{r: r, w: w, setup: setup, byHash: map[common.Hash]*node{}, txSeen: map[common.Hash]bool{},
		bySN: map[senderNonce][]*types.Transaction{}, varByHash: map[common.Hash][]*variant{}}
	for _, v := range w.Vals {
		cx.vkeys = append(cx.vkeys, v.Key)
		cx.digVals = append(cx.digVals, v.Key.Addr)
	}
	for i := 0; i < chainkit.NClients; i++ {
		cx.digAccs = append(cx.digAccs, chainworld.ClientAddr(i))
	}
	for _, v := range w.Vals {
		cx.digAccs = append(cx.digAccs, v.Key.Coinbase)
	}
	cx.digAccs = append(cx.digAccs, params.Versions[params.YouV5].RewardsPoolAddress)
	g := w.B.Chain.Genesis()
	gn := &node{id: 0, name: "G", blk: g, hdrRLP: encHeader(g.Header())}
	st, err := w.B.Chain.StateAt(g.Root(), g.ValRoot(), g.StakingRoot())
	if err != nil {
		panic(err)
	}
	gn.dig = cx.digest(st)
	cx.nodes = []*node{gn}
	cx.byHash[g.Hash()] = gn
	return cx
}
