package voterworld

import (
	"time"

	"verifsim/kit"
)

func init() {
	kit.Register(&kit.Check{
		Prop: "C03", Name: "voter", World: "VOTER", Level: "exploration", Share: 3,
		Rule: "one run = ONE real ucon.Server (real Voter/VotesWrapper/VoteDB/BlsVerifier/MessageHandler/Proposal/SortitionManager and the real look-back code) started with the real StartMining on a synthetic " +
			"look-back chain (5-9 validators with seeded stakes in a real StateDB, some offline or House; committee sizes T and Tcert scaled to a seeded fraction of the online stake; synthetic heights so that " +
			"certificate rounds 32768/65536 are reached), inside a synctest bubble with the event mux and the timers owned by the simulator. The simulator plays every other validator with real keys " +
			"(sortition proofs, BLS signatures), the proposer (real proposal frames), the clock (step timer, round-index timeout) and the network: per context and vote kind a subset of validators is chosen by " +
			"subset-sum over the real seat counts so that the tally lands exactly on / one below / just above floor(0.685*T) (floor(0.585*Tcert) for certificate votes) or everybody votes; Byzantine frames are " +
			"inserted (equivocation before/after the first vote was counted, exact duplicates, stale round, old index, future round/index, credential of another step, inflated seat count, frame signer != vote " +
			"signer, unknown block, non-member/offline/House sender, BLS signature over another hash, time stamp far ahead), the winning proposal may be lost on the way to the node while an honest minority votes for the " +
			"competitor, honest actions are reordered and frames overtake pending mux deliveries (in particular between the engine moving to the next index/round and its Voter being told). " +
			"Every frame enters through the real MessageHandler.HandleMsg. Oracle = shadow tally per (round, index, kind): sender -> (first hash, weight verified by the simulator with VrfVerifySortition, " +
			"equivocated?), fed only with votes handled while the engine was in that context; checked on every output: own Precommit(B) => prevote tally(B) >= quorum; own Certificate(B) => precommit tally(B) >= quorum; " +
			"CommitEvent(B) => precommit tally(B) >= quorum (and certificate tally(B) >= certificate quorum in certificate rounds); RoundIndexChangeEvent(h) => next-index tally(h) >= quorum; packed sets " +
			"(CommitEvent and the sealed header.Validator/Certificate) contain only counted votes for B, no equivocator, no duplicate signer, verified weights, total >= quorum; the header sealed by the real " +
			"Server.commit (PackVotes -> ValidatorsToByte -> WithSeal) and every header rewritten by Server.updateBlockHeader is accepted by VerifySideChainHeader of an independent, never started ucon.Server; " +
			"in fault-free runs conversely a counted quorum makes the engine escalate within the same stimulus. Quorums are computed as floor(T*685/1000) / floor(Tcert*585/1000) from the protocol table. " +
			"Non-trivial = at least one Byzantine frame or reordering fired.",
		Real: []string{"consensus/ucon.Server started by StartMining (un-networked): Voter (updateContext, processVoteMsg, judgeVoteCount, vote, commit, PackVotes), VotesWrapper/VoteSta, VoteDB, VoteBLSMgr/BlsVerifier, " +
			"MessageHandler.HandleMsg (decode, signature recovery, judger, future-message cache), Proposal/PriorityManager, SortitionManager, look-back functions (verifySortition, getLookbackStakeInfo, GetLookBackValidator), " +
			"TimerManager bodies (H3), Server.commit / NextRound / updateBlockHeader", "independent verifier: VerifySideChainHeader/verifyVotes on a second ucon.Server", "core/state validator sets (StateDB, NewVldReader)", "real VRF sortition, BLS, secp256k1, RLP"},
		Stub: []string{"consensus.ChainReader: synthetic look-back chain (headers by number/hash with seed, ValRoot and protocol thresholds; committed blocks appended on top)", "consensus.MineInserter: verify with the independent verifier, append, UpdateContextForNewBlock (what BlockChain.insertChain does)",
			"p2p / ProtocolManager: frames are handed to Server.HandleMsg by the simulator; the engine's own gossip (SendMessageEvent/TransferMessageEvent) is observed, not delivered", "miner: the validator under test never proposes itself",
			"event mux delivery schedule (H1) and timer loop (H3) owned by the simulator; Voter deliveries call the real updateContext/processVoteMsg function values (H6) so that panics are attributable"},
		FaultsNotInjected: []string{"crash/restart of the validator under test: C02 (NET, VOTEDB)", "corrupted frames: C14 monitors in NET", "House-kind escalation: dead code in this version (voter.go:311 returns for non-chamber validators); House senders are injected and must never count",
			"reordering of mux events among themselves (they keep posting order; only frames and timers move relative to them)", "the same (round, index) entered twice after a same-height reorg"},
		Assumptions: []string{"one fault per Byzantine frame", "T=3400 for the certificate committee would make uint32(float64(T)*0.585) differ from floor(T*585/1000) by one; committee sizes drawn here are below 3400"},
		QuickBudget: 40 * time.Second, ThoroughBudget: 12 * time.Minute,
		MinRuns:    30,
		Exec:       Run,
		PanicClass: kit.PanicInRepo("engine-panic"),
		// reach probes every batch is expected to hit (listed in the evidence as probes_never_hit otherwise)
		ExpectedProbes: []string{"Byzantine frame while the voter lags behind the engine", "certificate commit", "certificate tally exactly at quorum", "commit event", "equivocation after the quorum was crossed", "equivocator's first vote already counted", "evidence emitted", "future vote cached", "future vote delivered after context change", "header update event", "index change by votes", "old-context precommit recorded", "own certificate vote", "own precommit", "round-index timeout", "second vote of one kind in one context", "stored header votes updated", "tally exactly at quorum", "tally one above quorum", "tally one below quorum", "tally reaches exactly the quorum"},
	})
}
