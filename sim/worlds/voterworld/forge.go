package voterworld

import (
	"fmt"
	"math/big"

	"verifsim/worlds/chainkit"

	"github.com/youchainhq/go-youchain/bls"
	"github.com/youchainhq/go-youchain/common"
	"github.com/youchainhq/go-youchain/consensus/ucon"
	"github.com/youchainhq/go-youchain/core/types"
	"github.com/youchainhq/go-youchain/crypto"
	secp256k1VRF "github.com/youchainhq/go-youchain/crypto/vrf/secp256k1"
	"github.com/youchainhq/go-youchain/params"
	"github.com/youchainhq/go-youchain/rlp"
)

// The simulator plays every validator but the one under test. It holds their keys
// (chainkit.Keys) and builds votes and proposals from exported primitives only
// (VrfSortition, VrfVerifySortition, BLS manager, ucon.Sign, RLP). It can sign anything: it is
// the Byzantine party.

var (
	codePriority, codeBlock, codePrevote, codePrecommit, codeNext, codeCert = ucon.SimMsgCodes()
)

func codeOf(k ucon.VoteType) ucon.MsgType { return ucon.VoteTypeToMsgCode(k) }

func kindName(k ucon.VoteType) string {
	switch k {
	case ucon.Prevote:
		return "prevote"
	case ucon.Precommit:
		return "precommit"
	case ucon.NextIndex:
		return "next"
	case ucon.Certificate:
		return "cert"
	}
	return fmt.Sprintf("kind%d", k)
}

// lookBack is what determines credentials of one vote kind in one round: the look-back seed,
// validator set and committee size (voter.go:534, sortition_verifier.go getLookbackStakeInfo).
type lookBack struct {
	seed      common.Hash
	set       *valSet
	threshold uint64
}

func lbNumber(num, cfg uint64) uint64 {
	if num > cfg {
		return num - cfg
	}
	return 0
}

// lookBackFor computes the look-back data independently of the engine, from the protocol
// table: ordinary votes use SeedLookBack/StakeLookBack and ValidatorThreshold, certificate
// votes look back ACoCHTFrequency (seed) and 2*ACoCHTFrequency (stake) and use CertValThreshold.
func (c *synthChain) lookBackFor(round uint64, kind ucon.VoteType) *lookBack {
	seedNum, stakeNum, th := lbNumber(round, c.yp.SeedLookBack), lbNumber(round, c.yp.StakeLookBack), c.yp.ValidatorThreshold
	if kind == ucon.Certificate {
		seedNum, stakeNum, th = lbNumber(round, params.ACoCHTFrequency), lbNumber(round, 2*params.ACoCHTFrequency), c.yp.CertValThreshold
	}
	return &lookBack{seed: c.seedAt(seedNum), set: c.setAt(stakeNum), threshold: th}
}

func isCertRound(round uint64) bool { return round > 0 && round%params.ACoCHTFrequency == 0 }

// credential is one validator's sortition result for (round, index, kind).
type credential struct {
	key    *chainkit.ValKey
	idx    uint32 // index in the look-back validator set (what SingleVote.VoterIdx must carry)
	member bool
	proof  []byte
	weight uint32 // seats won (0 = not selected)
}

type credKey struct {
	round uint64
	index uint32
	kind  ucon.VoteType
	key   int
}

type forge struct {
	chain *synthChain
	creds map[credKey]*credential
}

func newForge(c *synthChain) *forge { return &forge{chain: c, creds: map[credKey]*credential{}} }

// cred computes (and caches) key's credential. Non-members get no proof.
func (f *forge) cred(key *chainkit.ValKey, round uint64, index uint32, kind ucon.VoteType) *credential {
	ck := credKey{round, index, kind, key.Idx}
	if c, ok := f.creds[ck]; ok {
		return c
	}
	lb := f.chain.lookBackFor(round, kind)
	c := &credential{key: key}
	if i, ok := lb.set.vals.GetIndex(key.Addr); ok {
		c.member, c.idx = true, uint32(i)
		v, _ := lb.set.vals.GetByIndex(i)
		if lb.set.total.Sign() > 0 {
			_, c.proof, c.weight = ucon.VrfSortition(key.VrfSk, lb.seed, index, uint32(kind), lb.threshold, v.Stake, lb.set.total)
		}
	}
	f.creds[ck] = c
	return c
}

// verifiedWeight is the oracle's own credential check: the weight a vote may contribute is
// the claimed count iff ucon.VrfVerifySortition accepts (proof, claimed) for the signer's key,
// the look-back seed, (index, step = message kind) and the look-back stake; else 0.
func (f *forge) verifiedWeight(signer *chainkit.ValKey, round uint64, index uint32, kind ucon.VoteType, proof []byte, claimed uint32) uint32 {
	lb := f.chain.lookBackFor(round, kind)
	i, ok := lb.set.vals.GetIndex(signer.Addr)
	if !ok || lb.set.total.Sign() == 0 || len(proof) == 0 {
		return 0
	}
	v, _ := lb.set.vals.GetByIndex(i)
	pk, err := secp256k1VRF.NewVRFVerifier(&signer.Priv.PublicKey)
	if err != nil {
		return 0
	}
	okv, err := ucon.VrfVerifySortition(pk, lb.seed, index, uint32(kind), proof, claimed, lb.threshold, v.Stake, lb.set.total)
	if err != nil || !okv {
		return 0
	}
	return claimed
}

// voteSpec describes a vote frame to build; the zero value of the fault fields is an honest vote.
type voteSpec struct {
	signer *chainkit.ValKey // owner of the credential and of the BLS signature
	kind   ucon.VoteType    // message code
	round  uint64
	index  uint32
	hash   common.Hash
	prio   common.Hash

	credKind    ucon.VoteType    // credential taken from this kind (0 = kind): wrong-kind fault
	inflate     uint32           // added to the claimed seat count: inflated-weight fault
	frameSigner *chainkit.ValKey // signs the frame (nil = signer): sender-mismatch fault
	sigHash     *common.Hash     // BLS-sign this hash instead of `hash`: bad-signature fault
	idxOverride *uint32          // VoterIdx to claim (non-members have none)
	tsAhead     uint64           // seconds added to the time stamp
	tag         string
}

// voteTruth is what the simulator knows about a vote frame it built.
type voteTruth struct {
	id          int
	spec        voteSpec
	frame       []byte
	payloadKey  common.Hash
	frameSigner *chainkit.ValKey
	claimed     uint32
	verified    uint32 // weight verified by the simulator itself (0 = credential does not verify)
	eligible    bool   // signer is an online chamber member with stake in the look-back set
	sigOK       bool   // BLS signature and VoterIdx are the signer's for (hash, round, index)
	tsOK        bool
}

// countable: the vote is a well-formed vote of a committee member with verified credentials.
func (t *voteTruth) countable() bool {
	return t.frameSigner == t.spec.signer && t.eligible && t.sigOK && t.verified > 0 && t.tsOK
}

func (t *voteTruth) String() string {
	s := t.spec
	return fmt.Sprintf("#%d %s %s r%d/i%d %s claimed=%d verified=%d%s", t.id, s.signer.Name(), kindName(s.kind), s.round, s.index, hname(s.hash), t.claimed, t.verified, tagStr(s.tag))
}

func tagStr(t string) string {
	if t == "" {
		return ""
	}
	return " [" + t + "]"
}

func hname(h common.Hash) string {
	if h == (common.Hash{}) {
		return "∅"
	}
	return fmt.Sprintf("%x", h[:3])
}

// buildVote builds the frame for spec. now is the simulated unix time.
func (f *forge) buildVote(s voteSpec, now uint64) *voteTruth {
	ck := s.kind
	if s.credKind != 0 {
		ck = s.credKind
	}
	cr := f.cred(s.signer, s.round, s.index, ck)
	lbSet := f.chain.lookBackFor(s.round, s.kind).set
	claimed := cr.weight + s.inflate
	idx := cr.idx
	sigOK := cr.member
	if mi, ok := lbSet.vals.GetIndex(s.signer.Addr); ok {
		// the index must be the signer's in the set of the MESSAGE kind
		idx = uint32(mi)
	} else {
		sigOK = false
	}
	if s.idxOverride != nil {
		idx = *s.idxOverride
		if mi, ok := lbSet.vals.GetIndex(s.signer.Addr); !ok || uint32(mi) != idx {
			sigOK = false
		}
	}
	signHash := s.hash
	if s.sigHash != nil {
		signHash = *s.sigHash
		if signHash != s.hash {
			sigOK = false
		}
	}
	sig := s.signer.BlsSk.Sign(chainkit.VotePayload(signHash, s.round, s.index))
	proof := cr.proof
	if proof == nil {
		proof = []byte{}
	}
	msg := &ucon.BlockHashWithVotes{
		Priority: s.prio, BlockHash: s.hash, Round: new(big.Int).SetUint64(s.round), RoundIndex: s.index,
		Vote:      &ucon.SingleVote{VoterIdx: idx, Votes: claimed, Signature: sig.Compress().Bytes(), Proof: proof},
		Timestamp: now + s.tsAhead,
	}
	payload, err := rlp.EncodeToBytes(msg)
	if err != nil {
		panic(err)
	}
	fs := s.frameSigner
	if fs == nil {
		fs = s.signer
	}
	t := &voteTruth{spec: s, frameSigner: fs, claimed: claimed, sigOK: sigOK, tsOK: s.tsAhead == 0,
		eligible: lbSet.eligible(s.signer), payloadKey: payloadKey(codeOf(s.kind), payload)}
	t.verified = f.verifiedWeight(s.signer, s.round, s.index, s.kind, proof, claimed)
	t.frame = signFrame(fs, codeOf(s.kind), payload)
	return t
}

func payloadKey(code ucon.MsgType, payload []byte) common.Hash {
	return crypto.Keccak256Hash([]byte{byte(code)}, payload)
}

// signFrame wraps a payload as MessageHandler.sendMsg does (msg_handler.go:145).
func signFrame(k *chainkit.ValKey, code ucon.MsgType, payload []byte) []byte {
	sig, err := ucon.Sign(k.Priv, append(append([]byte{}, payload...), byte(code)))
	if err != nil {
		panic(err)
	}
	m := &ucon.Message{Code: code, Payload: payload, Signature: sig}
	b, err := m.Encode()
	if err != nil {
		panic(err)
	}
	return b
}

// proposal is a block the simulator-proposer made for (round, index).
type proposal struct {
	block     *types.Block
	proposer  *chainkit.ValKey
	round     uint64
	index     uint32
	prio      common.Hash
	prioFrame []byte
	blkFrame  []byte
	delivered bool // the block frame was handled while the engine was in (round, index)
}

// propose builds a block on the current head for (round, index) proposed by key, with the
// proposer credential, the thresholds of the protocol table and both proposal frames
// (consensus.go:721 Prepare, :698 Seal, proposal.go gossipPriority/gossipBlock). nil if key
// wins no proposer seat.
func (f *forge) propose(key *chainkit.ValKey, round uint64, index uint32, salt byte, now uint64) *proposal {
	c := f.chain
	lb := c.lookBackFor(round, ucon.Prevote)
	i, ok := lb.set.vals.GetIndex(key.Addr)
	if !ok || !lb.set.eligible(key) {
		return nil
	}
	v, _ := lb.set.vals.GetByIndex(i)
	value, proof, j := ucon.VrfSortition(key.VrfSk, lb.seed, index, ucon.UConStepProposal, c.yp.ProposerThreshold, v.Stake, lb.set.total)
	if j == 0 {
		return nil
	}
	bigRound := new(big.Int).SetUint64(round)
	seed, _ := ucon.ComputeSeed(key.VrfSk, bigRound, index, lb.seed)
	cd := &ucon.BlockConsensusData{
		Round: bigRound, RoundIndex: index, Seed: seed, SortitionProof: proof,
		Priority: ucon.VrfComputePriority(value, j), SubUsers: j,
		ProposerThreshold: c.yp.ProposerThreshold, ValidatorThreshold: c.yp.ValidatorThreshold, CertValThreshold: c.yp.CertValThreshold,
	}
	if err := cd.SetSignature(key.Priv); err != nil {
		panic(err)
	}
	cons, err := rlp.EncodeToBytes(cd)
	if err != nil {
		panic(err)
	}
	parent := c.CurrentHeader()
	t := now
	if t <= parent.Time {
		t = parent.Time + 1
	}
	h := &types.Header{
		ParentHash: parent.Hash(), Number: new(big.Int).SetUint64(round), Time: t, Coinbase: key.Coinbase,
		ValRoot: c.main.root, GasRewards: big.NewInt(0), Subsidy: big.NewInt(0), GasLimit: 8_000_000,
		CurrVersion: c.yp.Version, MixDigest: types.UConMixHash, Consensus: cons, Extra: []byte{salt},
	}
	// NewBlock fills TxHash/ReceiptHash/Bloom, which are inside the header hash: sign the
	// header as it is after assembly (engine.Seal signs block.Header() and uses WithSeal).
	blk := types.NewBlock(h, nil, nil)
	sealed := blk.Header()
	sig, err := crypto.Sign(sealed.Hash().Bytes(), key.Priv)
	if err != nil {
		panic(err)
	}
	sealed.Signature = sig
	blk = blk.WithSeal(sealed)
	p := &proposal{block: blk, proposer: key, round: round, index: index, prio: cd.Priority}
	pm := ucon.ConsensusCommon{Round: bigRound, RoundIndex: index, Step: ucon.UConStepProposal, Priority: cd.Priority,
		SortitionProof: proof, SubUsers: j, BlockHash: blk.Hash(), ParentHash: blk.ParentHash(), Timestamp: now}
	pp, err := rlp.EncodeToBytes(pm)
	if err != nil {
		panic(err)
	}
	p.prioFrame = signFrame(key, codePriority, pp)
	bp, err := rlp.EncodeToBytes(blk)
	if err != nil {
		panic(err)
	}
	p.blkFrame = signFrame(key, codeBlock, bp)
	return p
}

// sealNetwork seals a proposed block the way the rest of the network would have (every
// eligible validator's precommit — and certificate vote in a certificate round — aggregated):
// the block another node committed first.
func (f *forge) sealNetwork(p *proposal, index uint32, voters []*chainkit.ValKey) *types.Block {
	hh := p.block.Hash()
	section := func(kind ucon.VoteType) ([]ucon.SingleVote, []byte) {
		var votes []ucon.SingleVote
		var sigs []bls.Signature
		set := f.chain.lookBackFor(p.round, kind).set
		for _, k := range voters {
			cr := f.cred(k, p.round, index, kind)
			if cr.weight == 0 || !set.eligible(k) {
				continue
			}
			votes = append(votes, ucon.SingleVote{VoterIdx: cr.idx, Votes: cr.weight, Proof: cr.proof})
			sigs = append(sigs, k.BlsSk.Sign(chainkit.VotePayload(hh, p.round, index)))
		}
		if len(sigs) == 0 {
			return votes, []byte{}
		}
		agg, err := chainkit.BlsMgr.Aggregate(sigs)
		if err != nil {
			panic(err)
		}
		return votes, agg.Compress().Bytes()
	}
	uv := &ucon.UconValidators{RoundIndex: index, MCAggrSig: []byte{}, CCAggrSig: []byte{}}
	uv.ChamberCommitters, uv.SCAggrSig = section(ucon.Precommit)
	uc := &ucon.UconValidators{RoundIndex: index}
	if isCertRound(p.round) {
		uc.ChamberCerts, uc.CCAggrSig = section(ucon.Certificate)
	}
	h := p.block.Header()
	var err error
	if h.Validator, err = uv.ValidatorsToByte(); err != nil {
		panic(err)
	}
	if h.Certificate, err = uc.ValidatorsToByte(); err != nil {
		panic(err)
	}
	return p.block.WithSeal(h)
}
