package voterworld

import (
	"encoding/binary"
	"errors"
	"fmt"
	"math/big"
	"sync"

	"verifsim/worlds/chainkit"

	"github.com/youchainhq/go-youchain/common"
	"github.com/youchainhq/go-youchain/consensus/ucon"
	"github.com/youchainhq/go-youchain/core/rawdb"
	"github.com/youchainhq/go-youchain/core/state"
	"github.com/youchainhq/go-youchain/core/types"
	"github.com/youchainhq/go-youchain/crypto"
	"github.com/youchainhq/go-youchain/params"
	"github.com/youchainhq/go-youchain/rlp"
	"github.com/youchainhq/go-youchain/youdb"
)

// The look-back chain of the VOTER world. The engine under test is a real ucon.Server; what
// it reads from its chain (consensus.ChainReader) is served from here: headers by number and
// hash, validator sets by ValRoot, protocol parameters. Headers below the starting height are
// synthetic (a seed, a validator-set root, the protocol thresholds); blocks the engine commits
// or the simulated network delivers are appended on top. Validator sets are real
// state.Validators held in a real StateDB and read back through the real state.NewVldReader,
// exactly as core.BlockChain.GetVldReader does. Because block numbers are synthetic, round
// 32768 (a certificate round, params.ACoCHTFrequency) is reachable.

// valSpec is one member of a synthetic validator set.
type valSpec struct {
	Key    *chainkit.ValKey
	Stake  uint64
	Role   params.ValidatorRole
	Status uint8
}

// valSet is a committed validator set.
type valSet struct {
	specs []valSpec
	root  common.Hash
	vals  *state.Validators
	total *big.Int // online chamber stake
}

func (vs *valSet) spec(k *chainkit.ValKey) *valSpec {
	for i := range vs.specs {
		if vs.specs[i].Key == k {
			return &vs.specs[i]
		}
	}
	return nil
}

// eligible: what a vote's sender must be to count at all (msg_handler.go judger: known, not
// offline, stake > 0, chamber kind).
func (vs *valSet) eligible(k *chainkit.ValKey) bool {
	sp := vs.spec(k)
	if sp == nil || sp.Status == params.ValidatorOffline || sp.Stake == 0 {
		return false
	}
	kind, _ := params.KindOfRole(sp.Role)
	return kind == params.KindChamber
}

type synthChain struct {
	mu     sync.Mutex
	yp     *params.YouParams
	cache  state.Database
	salt   uint64
	base   uint64 // the highest synthetic height (head at start)
	head   uint64
	t0     uint64 // time stamp of header `base`
	byNum  map[uint64]*types.Header
	byHash map[common.Hash]*types.Header
	blocks map[common.Hash]*types.Block
	main   *valSet // validator set of every height > 0
	cert   *valSet // validator set of height 0 (certificate stake look-back of rounds <= 65536)

	updated []*types.Header // UpdateExistedHeader calls since the last drain
}

func newSynthChain(yp *params.YouParams, salt, base, t0 uint64, mainSpecs, certSpecs []valSpec) *synthChain {
	c := &synthChain{yp: yp, salt: salt, base: base, head: base, t0: t0,
		cache:  state.NewDatabase(youdb.NewMemDatabase()),
		byNum:  map[uint64]*types.Header{},
		byHash: map[common.Hash]*types.Header{},
		blocks: map[common.Hash]*types.Block{},
	}
	c.main = c.commitSet(mainSpecs)
	c.cert = c.commitSet(certSpecs)
	return c
}

// commitSet writes a validator set into a real StateDB (as core.Genesis.ToBlock does) and
// commits its trie, so that state.NewVldReader can open it by root.
func (c *synthChain) commitSet(specs []valSpec) *valSet {
	st, err := state.New(common.Hash{}, common.Hash{}, common.Hash{}, c.cache)
	if err != nil {
		panic("voterworld: state.New: " + err.Error())
	}
	for _, sp := range specs {
		token := new(big.Int).Mul(new(big.Int).SetUint64(sp.Stake), params.StakeUint)
		st.CreateValidator(sp.Key.Name(), sp.Key.Coinbase, sp.Key.Coinbase, sp.Role, sp.Key.MainPub, sp.Key.BlsPub,
			token, new(big.Int).SetUint64(sp.Stake), 0, 0, 0, sp.Status)
	}
	root, valRoot, stakingRoot := st.IntermediateRoot(true)
	if _, _, _, err := st.Commit(true); err != nil {
		panic("voterworld: state commit: " + err.Error())
	}
	st.Database().TrieDB().Commit(root, true)
	st.Database().TrieDB().Commit(valRoot, true)
	st.Database().TrieDB().Commit(stakingRoot, true)
	rd, err := state.NewVldReader(valRoot, c.cache, false)
	if err != nil {
		panic("voterworld: NewVldReader: " + err.Error())
	}
	stat, err := rd.GetValidatorsStat()
	if err != nil {
		panic("voterworld: GetValidatorsStat: " + err.Error())
	}
	return &valSet{specs: specs, root: valRoot, vals: rd.GetValidators(), total: new(big.Int).Set(stat.GetStakeByKind(params.KindChamber))}
}

func (c *synthChain) setAt(n uint64) *valSet {
	if n == 0 {
		return c.cert
	}
	return c.main
}

func (c *synthChain) seedAt(n uint64) common.Hash {
	var b [16]byte
	binary.BigEndian.PutUint64(b[:8], c.salt)
	binary.BigEndian.PutUint64(b[8:], n)
	return crypto.Keccak256Hash([]byte("voterworld-seed"), b[:])
}

// synthetic builds the synthetic header of height n <= base.
func (c *synthChain) synthetic(n uint64) *types.Header {
	cd := &ucon.BlockConsensusData{
		Round: new(big.Int).SetUint64(n), RoundIndex: 1, Seed: c.seedAt(n), SortitionProof: []byte{}, SubUsers: 1,
		Signature:         []byte{},
		ProposerThreshold: c.yp.ProposerThreshold, ValidatorThreshold: c.yp.ValidatorThreshold, CertValThreshold: c.yp.CertValThreshold,
	}
	cons, err := rlp.EncodeToBytes(cd)
	if err != nil {
		panic(err)
	}
	var nb [8]byte
	binary.BigEndian.PutUint64(nb[:], n)
	t := c.t0
	if d := c.base - n; d < t {
		t -= d
	} else {
		t = 1
	}
	return &types.Header{
		ParentHash: crypto.Keccak256Hash([]byte("voterworld-parent"), nb[:]),
		Number:     new(big.Int).SetUint64(n), Time: t,
		ValRoot:    c.setAt(n).root,
		GasRewards: big.NewInt(0), Subsidy: big.NewInt(0), GasLimit: 8_000_000,
		CurrVersion: c.yp.Version, MixDigest: types.UConMixHash, Consensus: cons,
		Extra: []byte{}, SlashData: []byte{}, ChtRoot: []byte{}, BltRoot: []byte{}, Validator: []byte{}, Signature: []byte{}, Certificate: []byte{},
	}
}

func (c *synthChain) headerByNumber(n uint64) *types.Header {
	if h, ok := c.byNum[n]; ok {
		return h
	}
	if n > c.base {
		return nil
	}
	h := c.synthetic(n)
	c.byNum[n] = h
	c.byHash[h.Hash()] = h
	return h
}

// appendBlock makes block the canonical block of its height (height must be head+1).
func (c *synthChain) appendBlock(b *types.Block) error {
	c.mu.Lock()
	defer c.mu.Unlock()
	if b.NumberU64() != c.head+1 {
		return fmt.Errorf("voterworld: block %d does not extend head %d", b.NumberU64(), c.head)
	}
	if b.ParentHash() != c.headerByNumber(c.head).Hash() {
		return errors.New("voterworld: unknown ancestor")
	}
	h := b.Header()
	c.byNum[h.Number.Uint64()] = h
	c.byHash[h.Hash()] = h
	c.blocks[h.Hash()] = b
	c.head = h.Number.Uint64()
	return nil
}

func (c *synthChain) drainUpdated() []*types.Header {
	c.mu.Lock()
	defer c.mu.Unlock()
	u := c.updated
	c.updated = nil
	return u
}

// ---- consensus.ChainReader (also chainkit.LookBackChain) ----

func (c *synthChain) VersionForRound(round uint64) (*params.YouParams, error) { return c.yp, nil }
func (c *synthChain) VersionForRoundWithParents(round uint64, parents []*types.Header) (*params.YouParams, error) {
	return c.yp, nil
}
func (c *synthChain) CurrentHeader() *types.Header {
	c.mu.Lock()
	defer c.mu.Unlock()
	return c.headerByNumber(c.head)
}
func (c *synthChain) GetHeader(hash common.Hash, number uint64) *types.Header {
	c.mu.Lock()
	defer c.mu.Unlock()
	c.headerByNumber(number) // materialise a synthetic header so that it can be found by hash
	if h := c.byHash[hash]; h != nil && h.Number.Uint64() == number {
		return h
	}
	return nil
}
func (c *synthChain) GetHeaderByNumber(number uint64) *types.Header {
	c.mu.Lock()
	defer c.mu.Unlock()
	return c.headerByNumber(number)
}
func (c *synthChain) GetHeaderByHash(hash common.Hash) *types.Header {
	c.mu.Lock()
	defer c.mu.Unlock()
	return c.byHash[hash]
}
func (c *synthChain) GetBlock(hash common.Hash, number uint64) *types.Block {
	c.mu.Lock()
	defer c.mu.Unlock()
	if b := c.blocks[hash]; b != nil && b.NumberU64() == number {
		return b
	}
	return nil
}
func (c *synthChain) GetBlockByNumber(number uint64) *types.Block {
	c.mu.Lock()
	defer c.mu.Unlock()
	if h := c.byNum[number]; h != nil {
		return c.blocks[h.Hash()]
	}
	return nil
}
func (c *synthChain) GetVldReader(valRoot common.Hash) (state.ValidatorReader, error) {
	return state.NewVldReader(valRoot, c.cache, false) // core/blockchain.go:1185
}
func (c *synthChain) GetAcReader() rawdb.AcReader { return nil }
func (c *synthChain) UpdateExistedHeader(header *types.Header) {
	c.mu.Lock()
	defer c.mu.Unlock()
	// core/blockchain.go:1622: the stored header (same number and hash) is replaced
	cp := types.CopyHeader(header)
	c.byHash[cp.Hash()] = cp
	if cur := c.byNum[cp.Number.Uint64()]; cur != nil && cur.Hash() == cp.Hash() {
		c.byNum[cp.Number.Uint64()] = cp
	}
	c.updated = append(c.updated, cp)
}
