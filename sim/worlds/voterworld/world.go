// Package voterworld is the VOTER world, the workhorse part of the check for C03: ONE real
// ucon.Server (real Voter, VotesWrapper, VoteDB, BlsVerifier, MessageHandler, Proposal,
// SortitionManager, look-back code and TimerManager bodies) started with the real StartMining
// on a synthetic look-back chain (chain.go), un-networked, inside a synctest bubble. The event
// mux is owned by the simulator (hook H1), timers are polled by the simulator (hook H3). The
// simulator plays every other validator (it holds their keys: it is the Byzantine party), the
// proposer, the network and the clock. A shadow tally of what was delivered decides every
// escalation the engine makes.
package voterworld

import (
	crand "crypto/rand"
	"fmt"
	"math/big"
	"runtime/debug"
	"sort"
	"sync"
	"time"

	"verifsim/kit"
	"verifsim/simdisk"
	"verifsim/worlds/chainkit"

	"github.com/youchainhq/go-youchain/common"
	"github.com/youchainhq/go-youchain/consensus/ucon"
	"github.com/youchainhq/go-youchain/core"
	"github.com/youchainhq/go-youchain/core/types"
	"github.com/youchainhq/go-youchain/event"
	"github.com/youchainhq/go-youchain/logging"
	"github.com/youchainhq/go-youchain/params"
	"github.com/youchainhq/go-youchain/rlp"
	"github.com/youchainhq/go-youchain/staking"
)

func init() {
	logging.Root().SetHandler(logging.DiscardHandler())
	params.InitNetworkId(params.NetworkIdForTestCase)
}

// msgSame is ucon's (unexported) msgSame status: what Voter.eventLoop passes for a VoteMsgEvent
// (voter.go:382).
const msgSame = ucon.MsgReceivedStatus(2)

type config struct {
	nVals     int
	specs     []valSpec // main set (specs[0] is the validator under test)
	certSpecs []valSpec
	T, Tcert  uint64
	Tprop     uint64
	base      uint64 // chain head at start; first round is base+1
	nCtx      int    // contexts (round, index) to play
	maxSteps  int
	stepMs    int
	timeoutMs int
	// fault knobs in percent per opportunity (0 = off)
	byz     int // a Byzantine frame is inserted before the next honest action
	reorder int // a frame overtakes a pending mux delivery
	shuffle int // honest actions are taken out of order
	// C02 part only: process faults of the validator under test, percent per generator action
	restart     int
	maxRestarts int
}

func (c *config) clean() bool { return c.byz == 0 && c.reorder == 0 && c.shuffle == 0 }

func drawConfig(c *kit.Chooser, mode string) *config {
	cfg := &config{maxSteps: 200}
	cfg.nVals = 5 + c.Intn("nvals", 5) // 5..9
	keys := chainkit.Keys()
	var online uint64
	for i := 0; i < cfg.nVals; i++ {
		sp := valSpec{Key: keys[i], Stake: uint64(3 + 3*c.Intn("stake", 16)), Role: params.RoleSenator, Status: params.ValidatorOnline}
		if i == 0 {
			sp.Role = params.RoleChancellor
		}
		// a few members that must never count: offline, or House kind
		if i >= 4 && c.Chance("offline", 1, 8) {
			sp.Status = params.ValidatorOffline
		} else if i >= 4 && c.Chance("house", 1, 8) {
			sp.Role = params.RoleHouse
		}
		if sp.Status == params.ValidatorOnline && sp.Role != params.RoleHouse {
			online += sp.Stake
		}
		cfg.specs = append(cfg.specs, sp)
	}
	// committee size: a seeded fraction of the online chamber stake, so that seat counts are
	// small integers with enough variety for subset sums to land on the quorum boundary
	cfg.T = online * uint64(25+c.Intn("T-pct", 66)) / 100
	if cfg.T < 10 {
		cfg.T = 10
	}
	cfg.Tprop = online / 8
	if cfg.Tprop < 2 {
		cfg.Tprop = 2
	}
	// certificate look-back set (height 0): same members, possibly other stakes
	var certOnline uint64
	other := c.Chance("cert-set-differs", 1, 2)
	for _, sp := range cfg.specs {
		cs := sp
		if other {
			cs.Stake = uint64(3 + 3*c.Intn("cert-stake", 16))
		}
		if cs.Status == params.ValidatorOnline && cs.Role != params.RoleHouse {
			certOnline += cs.Stake
		}
		cfg.certSpecs = append(cfg.certSpecs, cs)
	}
	cfg.Tcert = certOnline * uint64(25+c.Intn("Tcert-pct", 66)) / 100
	if cfg.Tcert < 10 {
		cfg.Tcert = 10
	}
	// where the run starts: 0 = an ordinary height; the others reach certificate rounds
	switch c.Weighted("base", []int{3, 3, 3, 1}) {
	case 0:
		cfg.base = uint64(40 + c.Intn("base-height", 2000))
		if isCertRound(cfg.base + 1) {
			cfg.base++
		}
	case 1:
		cfg.base = params.ACoCHTFrequency - 1 // first round is the certificate round 32768
	case 2:
		cfg.base = params.ACoCHTFrequency - 2 // second round is the certificate round
	case 3:
		cfg.base = 2*params.ACoCHTFrequency - 1 // certificate round 65536
	}
	cfg.nCtx = 2 + c.Intn("contexts", 3)
	cfg.stepMs = 500
	cfg.timeoutMs = 3000 + 100*c.Intn("timeout-extra", 5)
	if c.Chance("faulty", 85, 100) {
		cfg.byz = 10 + 10*c.Intn("byz-rate", 4)
		cfg.reorder = 10 * c.Intn("reorder-rate", 4)
		cfg.shuffle = 10 * c.Intn("shuffle-rate", 4)
	}
	if mode == "C02" {
		// the same streams, plus crash/restart and pause/resume of the validator under test
		cfg.restart = 2 + c.Intn("restart-rate", 4)
		cfg.maxRestarts = 3
		cfg.maxSteps = 260
	}
	return cfg
}

type ctxKey struct {
	round uint64
	index uint32
}

func (k ctxKey) String() string { return fmt.Sprintf("r%d/i%d", k.round, k.index) }

type muxItem struct {
	ev   interface{}
	subs []*event.TypeMuxSubscription
	next int
	desc string
}

type commitRec struct {
	block *types.Block
	err   error
}

type world struct {
	mode       string // "C03": the tally oracle reports; "C02": the own-vote history oracle reports
	r          *kit.Run
	c          *kit.Chooser
	cfg        *config
	disk       *simdisk.Disk
	inc        int // incarnation of the validator under test
	hist       *history
	life       int  // 1 + number of restarts so far (for traces)
	afterFault bool // the next plan follows a restart/resume
	// stall: swarm option. 0 = off, -1 = not drawn yet; k > 0: in every round the network's votes
	// stay below the quorums for round indexes 1..k (the same block is carried from index to index
	// while the validator's per-index vote stores are recycled)
	stall      int
	stallDrawn bool
	armed      bool // a crash at the next disk write is armed
	nRestarts  int
	yp         *params.YouParams
	chain      *synthChain
	fg         *forge
	srv        *ucon.Server
	ver        *ucon.Server // independent verifier (never started)
	mux        *event.TypeMux
	me         *chainkit.ValKey
	peers      []*chainkit.ValKey // members of the main set other than me
	outs       []*chainkit.ValKey // keys that are members of no set

	obMu    sync.Mutex
	outbox  []interface{}
	pending []*muxItem
	commits []commitRec

	mhCtx, voterCtx ctxKey // last context delivered to the MessageHandler / the Voter
	mhSet, voterSet bool
	visited         map[ctxKey]bool // contexts the Voter has been in

	or      *oracle
	truths  map[common.Hash]*voteTruth // by payload key
	sent    []*voteTruth               // every vote frame handled so far
	nextID  int
	props   map[common.Hash]*proposal
	plan    *plan
	ctxSeen int
	stop    bool
	start   time.Time
	unknown int // counter for unknown block hashes
}

// Run is one simulated execution of the C03 part.
func Run(r *kit.Run) { runMode(r, "C03") }

// RunC02 is one simulated execution of the C02 part: the same generated streams plus
// crash/restart and pause/resume of the validator under test, judged by the history of its own votes.
func RunC02(r *kit.Run) { runMode(r, "C02") }

func runMode(r *kit.Run, mode string) {
	cfg := drawConfig(r.C, mode)
	oldRand := crand.Reader
	crand.Reader = kit.NewStream(r.Seed, r.Index)
	oldTimers := ucon.SimTimers
	ucon.SimTimers = true
	// scaled protocol table for this run (process-global; restored below). The certificate
	// committee size is read from params.Versions by the engine (sortition_verifier.go:105).
	oldYP := params.Versions[params.YouV5]
	yp := oldYP
	yp.ValidatorThreshold, yp.CertValThreshold, yp.ProposerThreshold = cfg.T, cfg.Tcert, cfg.Tprop
	yp.ConsensusStepInterval = time.Duration(cfg.stepMs) * time.Millisecond
	yp.ConsensusTimeout = time.Duration(cfg.timeoutMs) * time.Millisecond
	params.Versions[params.YouV5] = yp
	defer func() {
		crand.Reader = oldRand
		ucon.SimTimers = oldTimers
		params.Versions[params.YouV5] = oldYP
		logging.SimCrit = nil
	}()
	w := &world{mode: mode, r: r, c: r.C, cfg: cfg, yp: &yp}
	err := kit.Bubble(w.run)
	if err != nil {
		panic(fmt.Sprintf("voterworld: %v", err))
	}
}

type critExit struct{}

func (w *world) run() {
	r, cfg := w.r, w.cfg
	w.start = time.Now()
	logging.SimCrit = func(msg string, ctx []interface{}) {
		r.Report("logging-crit", "the engine called logging.Crit (process exit): %s %v", msg, ctx)
		w.stop = true
		panic(critExit{})
	}
	t0 := uint64(time.Now().Unix()) - 1
	w.chain = newSynthChain(w.yp, r.Seed^(r.Index<<20)^0x5eed, cfg.base, t0, cfg.specs, cfg.certSpecs)
	w.fg = newForge(w.chain)
	w.or = newOracle(w)
	w.truths = map[common.Hash]*voteTruth{}
	w.props = map[common.Hash]*proposal{}
	w.visited = map[ctxKey]bool{}
	keys := chainkit.Keys()
	w.me = keys[0]
	for _, sp := range cfg.specs[1:] {
		w.peers = append(w.peers, sp.Key)
	}
	w.outs = keys[cfg.nVals:]
	r.Logf("config vals=%d T=%d Tcert=%d Tprop=%d base=%d contexts=%d byz=%d reorder=%d shuffle=%d timeout=%dms", cfg.nVals, cfg.T, cfg.Tcert, cfg.Tprop, cfg.base, cfg.nCtx, cfg.byz, cfg.reorder, cfg.shuffle, cfg.timeoutMs)
	for i, sp := range cfg.specs {
		r.Logf("  %s stake=%d cert-stake=%d role=%d status=%d", sp.Key.Name(), sp.Stake, cfg.certSpecs[i].Stake, sp.Role, sp.Status)
	}
	r.Logf("  quorum=%d cert-quorum=%d online-stake=%v cert-online-stake=%v", w.or.qPos(), w.or.qCert(), w.chain.main.total, w.chain.cert.total)

	var err error
	if w.ver, err = ucon.NewVRFServer(simdisk.NewNoLog()); err != nil {
		panic(err)
	}
	w.hist = newHistory(w)
	if w.mode == "C02" {
		w.disk = simdisk.New() // with write log: crash points at the k-th write
	} else {
		w.disk = simdisk.NewNoLog()
	}
	w.boot()
	defer w.shutdown()

	for int(r.Steps) < cfg.maxSteps && !w.stop {
		overtake := false
		if len(w.pending) > 0 {
			chance := cfg.reorder
			if chance > 0 && w.voterSet && w.engineCtx() != w.voterCtx {
				chance = 50 // the engine has moved on and its voter has not been told yet: the window worth exploring
			}
			if chance == 0 || !w.c.Chance("overtake", chance, 100) {
				w.deliverNext()
				continue
			}
			overtake = true
		}
		if w.processFault() {
			continue
		}
		act := w.nextAction(overtake)
		if act == nil {
			if len(w.pending) > 0 {
				w.deliverNext()
				continue
			}
			break
		}
		if overtake {
			r.Fault("schedule.reorder")
			r.Logf("-- %s overtakes pending %s", act.desc, w.pending[0].desc)
		}
		w.exec(act)
	}
	r.SimTime = time.Since(w.start)
}

func (w *world) shutdown() {
	done := make(chan struct{})
	go func() {
		defer close(done)
		defer func() { recover() }()
		w.srv.Stop()
		w.mux.Stop()
	}()
	kit.Wait()
	time.Sleep(time.Second)
	kit.Wait()
}

func (w *world) drain() []interface{} {
	w.obMu.Lock()
	defer w.obMu.Unlock()
	evs := w.outbox
	w.outbox = nil
	return evs
}

func (w *world) now() uint64 { return uint64(time.Now().Unix()) }

func (w *world) engineCtx() ctxKey {
	round, index := w.srv.SimContext()
	return ctxKey{round.Uint64(), index}
}

// stimulus runs f on a fresh goroutine (so that a panic of the code under test is caught and
// classified), waits for quiescence and hands everything the engine posted to the oracle.
func (w *world) stimulus(what string, in *voteTruth, f func()) {
	w.r.Steps++
	done := make(chan interface{}, 1)
	go func() {
		defer func() {
			v := recover()
			if _, ok := v.(critExit); ok {
				v = nil
			}
			if v != nil {
				if _, ok := v.(*kit.BubblePanic); !ok {
					v = &kit.BubblePanic{Val: v, Stack: string(debug.Stack())}
				}
			}
			done <- v
		}()
		f()
	}()
	kit.Wait()
	select {
	case pv := <-done:
		if pv != nil {
			panic(pv)
		}
	default:
		w.r.Logf("stimulus %s still blocked at quiescence", what)
		w.r.Probe("stimulus-blocked")
	}
	w.observe(w.drain(), in)
	if w.armed && w.disk.Frozen() {
		w.armed = false
		w.r.Fault("crash.at-next-vote-record")
		w.r.Logf("CRASH inside %s: the process died right after disk write %d (what was posted afterwards never left the node)", what, w.disk.LogLen())
		w.restart()
	}
}

// boot starts the validator under test on w.disk exactly as a node does at start-up
// (NewVRFServer, SetValKey, StartMining: ucon.go:100,111,159).
func (w *world) boot() {
	var err error
	w.inc++
	w.life++
	inc, disk := w.inc, w.disk
	if w.srv, err = ucon.NewVRFServer(disk); err != nil {
		panic(err)
	}
	if err = w.srv.SetValKey(w.me.Priv, w.me.BlsSkRaw); err != nil {
		panic(err)
	}
	w.mux = new(event.TypeMux)
	w.mux.SimAttach(func(ev interface{}) {
		// events emitted after the disk froze, or by a dead incarnation, never happened
		if disk.Frozen() || w.inc != inc {
			return
		}
		w.obMu.Lock()
		w.outbox = append(w.outbox, ev)
		w.obMu.Unlock()
	})
	if err = w.srv.StartMining(w.chain, inserter{w}, w.mux); err != nil {
		panic("voterworld: StartMining: " + err.Error())
	}
	kit.Wait()
	// the first context event was posted before the subscribers existed; hand it out in order
	w.observe(w.drain(), nil)
	for len(w.pending) > 0 {
		w.deliverNext()
	}
}

// restart: the process of the validator under test is gone; a new one starts on the durable
// image of its disk. Nothing in memory survives: vote tallies, latches, caches, pending events.
func (w *world) restart() {
	old := w.srv
	w.disk.Freeze()
	w.inc++ // silences the dead incarnation's mux
	done := make(chan struct{})
	go func() {
		defer close(done)
		defer func() { recover() }()
		old.Stop()
		w.mux.Stop()
	}()
	kit.Wait()
	w.drain()
	w.pending, w.commits = nil, nil
	d := time.Duration(100+w.c.Intn("down-ms", 3000)) * time.Millisecond
	time.Sleep(d)
	kit.Wait()
	w.disk = w.disk.Restart()
	w.mhSet, w.voterSet = false, false
	w.visited = map[ctxKey]bool{}
	w.or.forgetAll()
	w.plan = nil
	w.nRestarts++
	w.afterFault = true
	w.r.Logf("RESTART after %v on the durable image (life %d)", d, w.life+1)
	w.r.FP("restart")
	w.r.Probe("validator restarted")
	w.boot()
}

// processFault injects (C02 part only) a crash/restart or a pause/resume of the validator under
// test at a quiescent point, or arms a crash at its next disk write (= its next vote record,
// voter.go:425, i.e. between the record and the gossip of the vote).
func (w *world) processFault() bool {
	cfg, c := w.cfg, w.c
	if cfg.restart == 0 || w.nRestarts >= cfg.maxRestarts || w.armed || !c.Chance("process-fault", cfg.restart, 100) {
		return false
	}
	switch c.Weighted("process-fault-kind", []int{2, 3, 3}) {
	case 0:
		// node.Pause/Resume (e.g. while the downloader syncs): Server.Resume re-enters the round
		// at index 1 (ucon.go:263)
		w.r.Fault("engine.pause-resume")
		w.r.Logf("PAUSE/RESUME (engine was in %s)", w.engineCtx())
		w.r.FP("resume")
		w.nRestarts++
		w.stimulus("pause", nil, func() { w.srv.Pause() })
		w.stimulus("resume", nil, func() { w.srv.Resume() })
		w.afterFault = true
		w.plan = nil // the network moves on to another block for the re-entered context
		return true
	case 1:
		w.r.Fault("crash.quiescent")
		w.r.Logf("CRASH at a quiescent point (engine was in %s)", w.engineCtx())
		w.restart()
		return true
	default:
		w.armed = true
		w.disk.CrashAt(w.disk.LogLen() + 1)
		w.r.Logf("(crash armed at the next disk write)")
		return false
	}
}

// inserter is the engine's consensus.MineInserter: what ProtocolManager does with a block the
// engine committed — verify and insert it into the chain, which then tells the engine about
// the new head (core/blockchain.go:422). The verification is the oracle's: an independent
// ucon.Server that never mined.
type inserter struct{ w *world }

func (in inserter) Insert(block *types.Block) error {
	w := in.w
	err := w.or.verifySealed(block, "commit")
	w.commits = append(w.commits, commitRec{block, err})
	if err != nil {
		// The violation is recorded; the run ends here. (Returning the error would send the
		// engine into Voter.removeMarkedBlock, which is outside this property.)
		w.stop = true
		return nil
	}
	if e := w.chain.appendBlock(block); e != nil {
		w.r.Logf("   inserter: %v", e)
		return nil
	}
	w.srv.UpdateContextForNewBlock(block)
	return nil
}

// deliverNext hands the oldest pending mux event to its next subscriber. Events keep their
// posting order and an event reaches its subscribers in registration order (as TypeMux.Post
// does); what the simulator varies is where network frames and timers land in between.
func (w *world) deliverNext() {
	it := w.pending[0]
	i := it.next
	it.next++
	if it.next >= len(it.subs) {
		w.pending = w.pending[1:]
	}
	switch ev := it.ev.(type) {
	case ucon.ContextChangeEvent:
		ck := ctxKey{ev.Round.Uint64(), ev.RoundIndex}
		switch i {
		case 0: // MessageHandler.eventLoop -> updateContext (msg_handler.go:139)
			w.r.Logf("deliver %s -> handler", it.desc)
			w.mhCtx, w.mhSet = ck, true
			w.stimulus(it.desc, nil, func() { it.subs[0].SimDeliver(ev) })
		case 1: // Proposal.eventLoop -> updateContext (proposal.go:78)
			w.r.Logf("deliver %s -> proposal", it.desc)
			w.stimulus(it.desc, nil, func() { it.subs[1].SimDeliver(ev) })
		case 2: // Voter.eventLoop -> updateContext (voter.go:380), called as a function value (H6)
			w.r.Logf("deliver %s -> voter", it.desc)
			if !w.voterSet || w.voterCtx != ck {
				w.or.enterContext(ck, ev.Certificate)
			}
			w.voterCtx, w.voterSet = ck, true
			w.visited[ck] = true
			w.or.curStep = ev.Step
			w.stimulus(it.desc, nil, func() { w.srv.SimVoter().SimUpdateContext()(ev) })
		}
	case ucon.VoteMsgEvent:
		// Voter.eventLoop -> processVoteMsg(ev, msgSame) (voter.go:382): a cached future vote
		var t *voteTruth
		if ev.Msg != nil && ev.Msg.VotesData != nil {
			if p, err := rlp.EncodeToBytes(ev.Msg.VotesData); err == nil {
				t = w.truths[payloadKey(codeOf(ev.VType), p)]
			}
		}
		if t == nil {
			panic("voterworld: cached vote message of unknown origin")
		}
		w.r.Logf("deliver cached %s -> voter", t)
		w.r.Probe("future vote delivered after context change")
		w.or.applyVote(t, true)
		w.stimulus(it.desc, t, func() { w.srv.SimVoter().SimProcessVoteMsg()(ev, msgSame) })
	default:
		w.r.Logf("deliver %s -> sub%d", it.desc, i)
		w.stimulus(it.desc, nil, func() { it.subs[i].SimDeliver(it.ev) })
	}
	w.afterServerEvents()
}

// afterServerEvents looks at what the engine's own loop did with Commit/Update events.
func (w *world) afterServerEvents() {
	cs := w.commits
	w.commits = nil
	for _, c := range cs {
		w.r.Logf("   INSERT block %d %s -> verifier: %v", c.block.NumberU64(), hname(c.block.Hash()), c.err)
	}
	for _, h := range w.chain.drainUpdated() {
		w.or.headerUpdated(h)
	}
}

func describe(ev interface{}) string {
	switch e := ev.(type) {
	case ucon.ContextChangeEvent:
		return fmt.Sprintf("Context(r%v/i%d step%d cert=%v)", e.Round, e.RoundIndex, e.Step, e.Certificate)
	case ucon.CommitEvent:
		return fmt.Sprintf("Commit(r%v/i%d %s)", e.Round, e.RoundIndex, hname(e.Block.Hash()))
	case ucon.RoundIndexChangeEvent:
		return fmt.Sprintf("IndexChange(r%v/i%d %s)", e.Round, e.RoundIndex, hname(e.BlockHash))
	case ucon.UpdateExistedHeaderEvent:
		return fmt.Sprintf("UpdateHeader(r%v/i%d %s votes=%d)", e.Round, e.RoundIndex, hname(e.BlockHash), len(e.ChamberPrecommits))
	case ucon.VoteMsgEvent:
		return "CachedVote"
	case ucon.PriorityMsgEvent:
		return "CachedPriority"
	case ucon.ProposedBlockMsgEvent:
		return "CachedBlock"
	}
	return fmt.Sprintf("%T", ev)
}

// observe processes what the engine posted during one stimulus, in program order: the oracle
// checks every output, deliverable events are queued for their real subscribers.
func (w *world) observe(evs []interface{}, in *voteTruth) {
	o := w.or
	o.beginStimulus(in)
	for _, ev := range evs {
		switch e := ev.(type) {
		case ucon.SendMessageEvent:
			if k := ucon.MsgCodeToVoteType(e.Code); k != ucon.VoteNone {
				w.hist.emitted(k, e.Payload)
				o.ownVote(k, e.Payload)
			}
		case ucon.CommitEvent:
			o.commitEvent(e)
			w.enqueue(e)
		case ucon.RoundIndexChangeEvent:
			o.indexChange(e)
			w.enqueue(e)
		case ucon.UpdateExistedHeaderEvent:
			o.updateEvent(e)
			w.enqueue(e)
		case ucon.ContextChangeEvent, ucon.VoteMsgEvent, ucon.PriorityMsgEvent, ucon.ProposedBlockMsgEvent:
			w.enqueue(e)
		case ucon.TransferMessageEvent:
			w.r.Count("relayed", 1)
		case staking.Evidence:
			w.r.Probe("evidence emitted")
			w.r.Logf("   EVIDENCE type=%v", e.Type)
			w.r.FP("evidence")
		case core.ChainHeadEvent, ucon.MessageEvent, ucon.BlockProposalEvent:
		default:
			w.r.Logf("   (event %T ignored)", ev)
		}
	}
	o.endStimulus()
}

func (w *world) enqueue(ev interface{}) {
	subs := w.mux.SimSubscribers(ev)
	if _, ok := ev.(ucon.ContextChangeEvent); ok && len(subs) != 3 {
		panic(fmt.Sprintf("voterworld: expected 3 subscribers of ContextChangeEvent (handler, proposal, voter), got %d", len(subs)))
	}
	if len(subs) == 0 {
		return
	}
	w.pending = append(w.pending, &muxItem{ev: ev, subs: subs, desc: describe(ev)})
}

// ---- actions ----

type actKind int

const (
	aVote actKind = iota
	aDup
	aPriority
	aBlock
	aTick
	aNetBlock
)

type action struct {
	kind  actKind
	spec  voteSpec
	dup   *voteTruth
	prop  *proposal
	index uint32 // aNetBlock: the round index the network committed at
	desc  string
	byz   string // fault kind to count when the action fires ("" = honest)
}

func (w *world) exec(a *action) {
	r := w.r
	switch a.kind {
	case aVote, aDup:
		var t *voteTruth
		if a.kind == aDup {
			t = a.dup
		} else {
			t = w.fg.buildVote(a.spec, w.now())
			w.nextID++
			t.id = w.nextID
			w.truths[t.payloadKey] = t
		}
		if a.byz != "" {
			r.Fault(a.byz)
		}
		counted := w.or.applyVote(t, false)
		var herr error
		w.or.inErr = &herr
		w.stimulus(a.desc, t, func() { herr = w.srv.HandleMsg(t.frame, time.Now()) })
		w.or.inErr = nil
		if a.kind != aDup {
			w.sent = append(w.sent, t)
		}
		r.Logf("frame %s%s -> model:%s err=%v", t, dupStr(a.kind == aDup), counted, herr)
		r.FP("vote", kindName(t.spec.kind), a.byz, counted)
	case aPriority:
		var herr error
		w.stimulus(a.desc, nil, func() { herr = w.srv.HandleMsg(a.prop.prioFrame, time.Now()) })
		r.Logf("frame priority %s by %s r%d/i%d prio=%x -> err=%v", hname(a.prop.block.Hash()), a.prop.proposer.Name(), a.prop.round, a.prop.index, a.prop.prio[:3], herr)
		r.FP("priority")
	case aBlock:
		var herr error
		inCtx := w.mhSet && w.mhCtx == ctxKey{a.prop.round, a.prop.index}
		w.stimulus(a.desc, nil, func() { herr = w.srv.HandleMsg(a.prop.blkFrame, time.Now()) })
		if inCtx && herr == nil {
			a.prop.delivered = true
		}
		r.Logf("frame block %s by %s r%d/i%d -> err=%v", hname(a.prop.block.Hash()), a.prop.proposer.Name(), a.prop.round, a.prop.index, herr)
		r.FP("block")
	case aTick:
		w.tick()
	case aNetBlock:
		blk := w.fg.sealNetwork(a.prop, a.index, append([]*chainkit.ValKey{w.me}, w.peers...))
		// harness self-check: what the forge seals must be what the real verifier accepts, else
		// later header updates are judged against a header that never was valid
		if verr := w.or.verifyForged(blk); verr != nil {
			// all honest votes together miss a quorum: nobody can have committed this block
			r.Logf("network block %d %s: the whole network's votes do not make a valid seal (%v); time passes instead", blk.NumberU64(), hname(blk.Hash()), verr)
			w.tick()
			return
		}
		r.Logf("network block %d %s arrives (committed elsewhere at index %d)", blk.NumberU64(), hname(blk.Hash()), a.index)
		r.FP("netblock")
		if err := w.chain.appendBlock(blk); err != nil {
			panic(err)
		}
		// core/blockchain.go:422: the import path tells the engine about the new head
		w.stimulus(a.desc, nil, func() { w.srv.UpdateContextForNewBlock(blk) })
	}
}

func dupStr(d bool) string {
	if d {
		return " (exact duplicate)"
	}
	return ""
}

// tick advances simulated time by one step interval and runs the due timer bodies (H3).
func (w *world) tick() {
	time.Sleep(time.Duration(w.cfg.stepMs) * time.Millisecond)
	kit.Wait()
	tm := w.srv.SimTimer()
	fired := false
	w.stimulus("timer-step", nil, func() { fired = tm.SimTryStep() })
	w.r.Logf("tick +%dms step-fired=%v", w.cfg.stepMs, fired)
	w.r.FP("tick")
	to := false
	w.stimulus("timer-timeout", nil, func() { to = tm.SimTryTimeout() })
	if to {
		w.r.Logf("TIMEOUT -> engine context %s", w.engineCtx())
		w.r.FP("timeout")
		w.r.Probe("round-index timeout")
	}
}

func bigU(x uint64) *big.Int { return new(big.Int).SetUint64(x) }

func sortedAddrs(m ucon.VotesInfoForBlockHash) []common.Address {
	as := make([]common.Address, 0, len(m))
	for a := range m {
		as = append(as, a)
	}
	sort.Slice(as, func(i, j int) bool { return string(as[i][:]) < string(as[j][:]) })
	return as
}
