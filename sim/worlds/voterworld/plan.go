package voterworld

import (
	"encoding/binary"
	"fmt"

	"verifsim/worlds/chainkit"

	"github.com/youchainhq/go-youchain/common"
	"github.com/youchainhq/go-youchain/consensus/ucon"
	"github.com/youchainhq/go-youchain/crypto"
)

// The generator. For every consensus context (round, index) the engine enters, the simulator
// draws a plan: the honest part of the network proposes one (sometimes two) blocks, time
// steps on, and for every vote kind a subset of the other validators votes for the target
// block — the subset is chosen by subset-sum over the real sortition seat counts so that the
// tally lands exactly on, one below or just above the quorum, or everybody votes. Byzantine
// frames (the simulator holds the keys) are inserted between honest actions, honest actions
// may be taken out of order, and frames may overtake pending mux deliveries (time never does).

type subsetMode int

const (
	modeAll subsetMode = iota
	modeExact
	modeBelow
	modeAbove
)

func (m subsetMode) String() string { return [...]string{"all", "exact", "below", "above"}[m] }

type plan struct {
	ck         ctxKey
	cert       bool
	props      []*proposal
	target     *proposal // the block the honest network votes for (nil: none)
	alt        common.Hash
	altProp    *proposal // the competing proposal, if alt is one
	q          []*action
	activeKind ucon.VoteType
	byzLeft    int
	closing    int
	closeTicks int
	closeInit  bool
	elig       []*chainkit.ValKey // eligible peers (online chamber members, not the validator under test)
}

func (p *plan) targetHash() common.Hash {
	if p.target == nil {
		return common.Hash{}
	}
	return p.target.block.Hash()
}

func (p *plan) targetPrio() common.Hash {
	if p.target == nil {
		return common.Hash{}
	}
	return p.target.prio
}

func (w *world) unknownHash() common.Hash {
	w.unknown++
	var b [8]byte
	binary.BigEndian.PutUint64(b[:], uint64(w.unknown))
	return crypto.Keccak256Hash([]byte("voterworld-unknown-block"), b[:])
}

// pickSubset chooses voters among cands (with their seat counts) for a wanted total.
func pickSubset(cands []*credential, need int64, mode subsetMode) []*credential {
	n := len(cands)
	if mode == modeAll || n == 0 {
		return cands
	}
	best, bestSum := -1, int64(-1)
	for mask := 0; mask < 1<<uint(n); mask++ {
		var s int64
		for i := 0; i < n; i++ {
			if mask&(1<<uint(i)) != 0 {
				s += int64(cands[i].weight)
			}
		}
		better := false
		switch mode {
		case modeExact: // sum == need, else the smallest sum above
			if s >= need && (best < 0 || s < bestSum) {
				better = true
			}
		case modeBelow: // the largest sum <= need-1
			if s <= need-1 && s > bestSum {
				better = true
			}
		case modeAbove: // the smallest sum >= need+1
			if s >= need+1 && (best < 0 || s < bestSum) {
				better = true
			}
		}
		if better {
			best, bestSum = mask, s
		}
	}
	if best < 0 {
		if mode == modeBelow {
			return nil
		}
		return cands // the quorum is out of reach: everybody votes
	}
	var out []*credential
	for i := 0; i < n; i++ {
		if best&(1<<uint(i)) != 0 {
			out = append(out, cands[i])
		}
	}
	return out
}

func containsCred(l []*credential, c *credential) bool {
	for _, x := range l {
		if x == c {
			return true
		}
	}
	return false
}

func sumWeights(cs []*credential) (s uint64) {
	for _, c := range cs {
		s += uint64(c.weight)
	}
	return
}

func (w *world) voteAction(k *chainkit.ValKey, kind ucon.VoteType, ck ctxKey, hash, prio common.Hash) *action {
	return &action{kind: aVote, spec: voteSpec{signer: k, kind: kind, round: ck.round, index: ck.index, hash: hash, prio: prio},
		desc: fmt.Sprintf("%s %s %s", k.Name(), kindName(kind), hname(hash))}
}

func tickAction() *action { return &action{kind: aTick, desc: "tick"} }

// buildPlan draws the plan for the context the engine has just entered.
func (w *world) buildPlan(ck ctxKey, prev *plan) *plan {
	c, cfg := w.c, w.cfg
	p := &plan{ck: ck, cert: isCertRound(ck.round), activeKind: ucon.Prevote, byzLeft: 14}
	afterFault := w.afterFault
	w.afterFault = false
	set := w.chain.lookBackFor(ck.round, ucon.Prevote).set
	for _, k := range w.peers {
		if set.eligible(k) {
			p.elig = append(p.elig, k)
		}
	}
	// --- proposals: the first eligible peer that wins a proposer seat; sometimes a competitor
	carry := prev != nil && prev.ck.round == ck.round && prev.target != nil && !cfg.clean() && c.Chance("carry-block-over", 1, 3)
	if carry {
		p.target = prev.target // the network keeps voting for the block of the previous index
		w.r.Logf("plan %s: network re-votes block %s of index %d", ck, hname(p.targetHash()), prev.target.index)
	} else {
		want := 1
		if !cfg.clean() && c.Chance("second-proposal", 1, 3) {
			want = 2
		}
		for _, k := range p.elig {
			if len(p.props) >= want {
				break
			}
			if pr := w.fg.propose(k, ck.round, ck.index, byte(4*w.ctxSeen+len(p.props)), w.now()); pr != nil {
				p.props = append(p.props, pr)
				w.props[pr.block.Hash()] = pr
			}
		}
		for _, pr := range p.props {
			if p.target == nil || ucon.CompareCommonHash(pr.prio, p.target.prio) > 0 {
				p.target = pr
			}
		}
		// Message loss: the winning proposal never reaches this node (it only knows the
		// competitor), while the rest of the network votes for the winner.
		lost := len(p.props) == 2 && c.Chance("winning-proposal-lost", 1, 4) && !afterFault
		if lost {
			w.r.Fault("net.proposal-lost")
			w.r.Logf("plan %s: the proposal frames of %s are lost on the way to this node", ck, hname(p.target.block.Hash()))
		}
		// the best proposal travels first (the engine relays/keeps only what is the maximum so far)
		for _, pr := range p.props {
			if pr == p.target && !lost {
				p.q = append(p.q, &action{kind: aPriority, prop: pr, desc: "priority " + hname(pr.block.Hash())}, &action{kind: aBlock, prop: pr, desc: "block " + hname(pr.block.Hash())})
			}
		}
		for _, pr := range p.props {
			if pr != p.target {
				p.q = append(p.q, &action{kind: aPriority, prop: pr, desc: "priority " + hname(pr.block.Hash())}, &action{kind: aBlock, prop: pr, desc: "block " + hname(pr.block.Hash())})
				p.alt, p.altProp = pr.block.Hash(), pr
			}
		}
	}
	if p.alt == (common.Hash{}) {
		p.alt = w.unknownHash()
	}
	// an honest minority that saw the competitor first votes for it (two hashes in one tally)
	minority := p.altProp != nil && c.Chance("minority-votes-competitor", 1, 2)
	p.q = append(p.q, tickAction(), tickAction()) // step 1, step 2 (own prevote)
	if p.target == nil {
		w.r.Logf("plan %s: nobody wins a proposer seat", ck)
		p.closing = 1 + c.Intn("closing-noblock", 1) // next-index votes
		return p
	}
	// --- votes
	th, tp := p.targetHash(), p.targetPrio()
	modes := []int{3, 3, 3, 1}
	reached := true       // does the previous kind's plan reach its quorum (then the validator under test joins in)
	ownPrevotes := !carry // at step 2 the validator prevotes the best proposal of THIS index
	kinds := []ucon.VoteType{ucon.Prevote, ucon.Precommit}
	if p.cert {
		kinds = append(kinds, ucon.Certificate)
	}
	for ki, kind := range kinds {
		mode := subsetMode(c.Weighted("subset-"+kindName(kind), modes))
		if w.stall == 0 && !w.stallDrawn {
			w.stallDrawn = true
			if c.Chance("stalled-rounds", 1, 5) {
				w.stall = 4 + c.Intn("stall-indexes", 3)
				w.r.Probe("stalled-rounds-run")
			}
		}
		if w.stall > 0 && int(ck.index) <= w.stall && !afterFault {
			mode = modeBelow
		}
		if afterFault {
			mode = modeAll // after a restart/resume the network votes the (different) block to a quorum
		}
		var cands []*credential
		eligSet := w.chain.lookBackFor(ck.round, kind).set
		for _, k := range w.peers {
			if cr := w.fg.cred(k, ck.round, ck.index, kind); cr.weight > 0 && eligSet.eligible(k) {
				cands = append(cands, cr)
			}
		}
		q := int64(w.or.quorumFor(kind))
		own := int64(0)
		if (ki == 0 && ownPrevotes) || (ki > 0 && reached) {
			if eligSet.eligible(w.me) {
				own = int64(w.fg.cred(w.me, ck.round, ck.index, kind).weight)
			}
		}
		chosen := pickSubset(cands, q-own, mode)
		total := int64(sumWeights(chosen)) + own
		reached = total >= q
		w.r.Logf("plan %s %s: mode=%s voters=%d/%d weight=%d(+own %d) quorum=%d", ck, kindName(kind), mode, len(chosen), len(cands), total-own, own, q)
		if ki == 1 {
			p.q = append(p.q, tickAction(), tickAction()) // step 3, step 4
		}
		if ki == 2 {
			p.q = append(p.q, tickAction()) // step 5
		}
		for _, cr := range chosen {
			p.q = append(p.q, w.voteAction(cr.key, kind, ck, th, tp))
		}
		if minority {
			for _, cr := range cands {
				if !containsCred(chosen, cr) {
					p.q = append(p.q, w.voteAction(cr.key, kind, ck, p.alt, p.altProp.prio))
				}
			}
		}
	}
	p.closing = c.Weighted("closing", []int{3, 2, 2})
	if w.stall > 0 && int(ck.index) <= w.stall && !afterFault {
		p.closing = 1 // the index ends with next-index votes: the round goes on at the next index
	}
	return p
}

// nextAction is the generator: the next thing the outside world does to the engine.
func (w *world) nextAction(overtake bool) *action {
	c, cfg := w.c, w.cfg
	ek := w.engineCtx()
	// The window between the engine moving on (Server.roundIndex/currentRound already changed by a
	// timeout, an index change or a new head) and the Voter/MessageHandler being told: frames for
	// the context the voter is still in are "current" for it.
	if overtake && w.plan != nil && w.plan.ck != ek && w.voterSet && w.voterCtx == w.plan.ck && cfg.byz > 0 && c.Chance("frame-in-window", 1, 2) {
		w.plan.activeKind = []ucon.VoteType{ucon.Prevote, ucon.Precommit}[c.Intn("window-kind", 2)]
		if a := w.genByz(w.plan); a != nil {
			w.r.Probe("Byzantine frame while the voter lags behind the engine")
			return a
		}
	}
	if w.plan == nil || w.plan.ck != ek {
		if w.ctxSeen >= cfg.nCtx+w.nRestarts {
			return nil
		}
		w.ctxSeen++
		w.plan = w.buildPlan(ek, w.plan)
	}
	p := w.plan
	if cfg.byz > 0 && p.byzLeft > 0 && c.Chance("byzantine", cfg.byz, 100) {
		if a := w.genByz(p); a != nil {
			p.byzLeft--
			return a
		}
	}
	if len(p.q) == 0 {
		if overtake {
			return nil // closing actions advance time or import a block: after the pending deliveries
		}
		return w.closingAction(p)
	}
	j := 0
	if cfg.shuffle > 0 && len(p.q) > 1 && c.Chance("out-of-order", cfg.shuffle, 100) {
		j = 1 + c.Intn("pick", min(len(p.q)-1, 5))
		w.r.Fault("schedule.reorder")
	}
	a := p.q[j]
	if overtake && a.kind == aTick {
		// Simulated time never passes while a mux delivery is pending (in production the posting
		// goroutine delivers within micro- to milliseconds); only network frames squeeze in.
		return nil
	}
	p.q = append(p.q[:j], p.q[j+1:]...)
	if a.kind == aVote {
		p.activeKind = a.spec.kind
	}
	return a
}

// closingAction ends a context the engine has not left by committing: 0 = let it time out,
// 1 = the network votes for the next index (then time), 2 = another node's commit arrives.
func (w *world) closingAction(p *plan) *action {
	if !p.closeInit {
		p.closeInit = true
		switch p.closing {
		case 1:
			// honest nodes ask for the next index with the empty hash at step 4 (voter.go:274)
			for _, k := range p.elig {
				if w.fg.cred(k, p.ck.round, p.ck.index, ucon.NextIndex).weight > 0 {
					p.q = append(p.q, w.voteAction(k, ucon.NextIndex, p.ck, common.Hash{}, common.Hash{}))
				}
			}
			if len(p.q) > 0 {
				a := p.q[0]
				p.q = p.q[1:]
				p.activeKind = ucon.NextIndex
				return a
			}
		case 2:
			var pr *proposal
			if p.target != nil && p.target.round == p.ck.round {
				pr = p.target
			}
			if pr != nil && w.chain.head+1 == pr.round {
				return &action{kind: aNetBlock, prop: pr, index: p.ck.index, desc: "network block"}
			}
		}
	}
	p.closeTicks++
	if p.closeTicks > 12 {
		return nil
	}
	return tickAction()
}

// genByz draws one Byzantine frame. Index 0 of the kind list is the harmless one.
func (w *world) genByz(p *plan) *action {
	c := w.c
	if len(p.elig) == 0 {
		return nil
	}
	ck, kind := p.ck, p.activeKind
	pick := func(label string) *chainkit.ValKey { return p.elig[c.Intn(label, len(p.elig))] }
	tgt, prio := p.targetHash(), p.targetPrio()
	if p.target == nil {
		tgt = p.alt
	}
	mk := func(s voteSpec, fault, note string) *action {
		s.tag = note
		return &action{kind: aVote, spec: s, byz: fault, desc: fmt.Sprintf("%s %s %s [%s]", s.signer.Name(), kindName(s.kind), hname(s.hash), note)}
	}
	base := func(k *chainkit.ValKey) voteSpec {
		return voteSpec{signer: k, kind: kind, round: ck.round, index: ck.index, hash: tgt, prio: prio}
	}
	switch c.Weighted("byz-kind", []int{2, 5, 2, 2, 3, 2, 3, 2, 2, 2, 1, 1}) {
	case 0: // exact duplicate of a frame already handled in this context
		var cands []*voteTruth
		for _, t := range w.sent {
			if t.spec.round == ck.round && t.spec.index == ck.index {
				cands = append(cands, t)
			}
		}
		if len(cands) > 8 {
			cands = cands[len(cands)-8:]
		}
		if len(cands) == 0 {
			return nil
		}
		t := cands[c.Intn("dup-of", len(cands))]
		return &action{kind: aDup, dup: t, byz: "byz.duplicate", desc: "duplicate of #" + fmt.Sprint(t.id)}
	case 1: // equivocation: same kind, another hash
		ct := w.or.ctxs[ck]
		var counted []*chainkit.ValKey
		if ct != nil {
			for _, k := range p.elig {
				if e := ct.votes[kind][k.Addr]; e != nil && !e.equivocated {
					counted = append(counted, k)
				}
			}
		}
		if len(counted) > 0 && c.Chance("equivocate-after-counted", 2, 3) {
			k := counted[c.Intn("equivocator", len(counted))]
			first := ct.votes[kind][k.Addr].hash
			s := base(k)
			s.hash, s.prio = p.alt, common.Hash{}
			if first == p.alt {
				s.hash, s.prio = tgt, prio
			}
			return mk(s, "byz.equivocation", "equivocation: second vote")
		}
		// first vote for another hash now; the honest vote still queued becomes the second one
		var queued []*chainkit.ValKey
		for _, a := range p.q {
			if a.kind == aVote && a.spec.kind == kind {
				queued = append(queued, a.spec.signer)
			}
		}
		if len(queued) == 0 {
			return nil
		}
		s := base(queued[c.Intn("equivocator", len(queued))])
		s.hash, s.prio = p.alt, common.Hash{}
		return mk(s, "byz.equivocation", "equivocation: first vote, other hash")
	case 2: // stale round
		if ck.round <= 1 {
			return nil
		}
		s := base(pick("stale-signer"))
		s.round, s.index = ck.round-1, 1
		if li, ok := w.lastIndex()[ck.round-1]; ok {
			s.index = li
		}
		s.kind = []ucon.VoteType{ucon.Precommit, ucon.Precommit, ucon.Precommit, ucon.Prevote, ucon.NextIndex}[c.Intn("stale-kind", 5)]
		if h := w.chain.GetHeaderByNumber(ck.round - 1); h != nil && w.chain.GetBlock(h.Hash(), ck.round-1) != nil {
			s.hash = h.Hash() // the block committed in that round
		}
		return mk(s, "byz.stale-round", "stale round")
	case 3: // old round index
		if ck.index <= 1 {
			return nil
		}
		s := base(pick("old-signer"))
		s.index = ck.index - 1
		s.kind = []ucon.VoteType{ucon.Precommit, ucon.Precommit, ucon.Prevote, ucon.NextIndex}[c.Intn("old-kind", 4)]
		return mk(s, "byz.old-index", "old round index")
	case 4: // future context
		s := base(pick("future-signer"))
		if c.Chance("future-round", 1, 3) {
			s.round, s.index = ck.round+1, 1
		} else {
			s.index = ck.index + 1
		}
		s.kind = []ucon.VoteType{ucon.NextIndex, ucon.NextIndex, ucon.Prevote, ucon.Precommit}[c.Intn("future-kind", 4)]
		if s.kind == ucon.NextIndex && c.Chance("next-empty", 1, 2) {
			s.hash, s.prio = common.Hash{}, common.Hash{}
		}
		return mk(s, "byz.future", "future context")
	case 5: // credential of another step inside this kind of message
		s := base(pick("wrongkind-signer"))
		var alts []ucon.VoteType
		for _, k := range []ucon.VoteType{ucon.Prevote, ucon.Precommit, ucon.NextIndex} {
			if k != kind {
				alts = append(alts, k)
			}
		}
		s.credKind = alts[c.Intn("cred-kind", len(alts))]
		return mk(s, "byz.wrong-kind", "credential of "+kindName(s.credKind))
	case 6: // more seats claimed than the sortition gives
		s := base(pick("inflate-signer"))
		s.inflate = 1 + uint32(c.Intn("inflate-by", int(w.or.quorumFor(kind))+1))
		return mk(s, "byz.inflated-weight", fmt.Sprintf("claims +%d seats", s.inflate))
	case 7: // frame signed by somebody else
		if len(p.elig) < 2 {
			return nil
		}
		s := base(pick("mismatch-voter"))
		if s.frameSigner = pick("mismatch-sender"); s.frameSigner == s.signer {
			s.frameSigner = p.elig[(indexOfKey(p.elig, s.signer)+1)%len(p.elig)]
		}
		return mk(s, "byz.sender-mismatch", "frame signed by "+s.frameSigner.Name())
	case 8: // valid vote for a block nobody proposed to this node
		s := base(pick("unknown-signer"))
		s.hash, s.prio = w.unknownHash(), common.Hash{}
		return mk(s, "byz.unknown-block", "unknown block")
	case 9: // not a committee member: outsider key, offline member or House member
		var cands []*chainkit.ValKey
		set := w.chain.lookBackFor(ck.round, kind).set
		for _, k := range w.peers {
			if !set.eligible(k) {
				cands = append(cands, k)
			}
		}
		cands = append(cands, w.outs[:2]...)
		k := cands[c.Intn("non-member", len(cands))]
		s := base(k)
		if set.spec(k) == nil {
			i := uint32(c.Intn("claimed-index", set.vals.Len()+2))
			s.idxOverride = &i
		}
		return mk(s, "byz.non-member", "not an online chamber member")
	case 10: // BLS signature over something else
		s := base(pick("badsig-signer"))
		h := w.unknownHash()
		s.sigHash = &h
		return mk(s, "byz.bad-signature", "BLS signature over another hash")
	default: // time stamp far ahead
		s := base(pick("ts-signer"))
		s.tsAhead = 3600
		return mk(s, "byz.future-timestamp", "time stamp +1h")
	}
}

func indexOfKey(l []*chainkit.ValKey, k *chainkit.ValKey) int {
	for i, x := range l {
		if x == k {
			return i
		}
	}
	return 0
}

// lastIndex: the highest round index the voter visited per round.
func (w *world) lastIndex() map[uint64]uint32 {
	m := map[uint64]uint32{}
	for ck := range w.visited {
		if ck.index > m[ck.round] {
			m[ck.round] = ck.index
		}
	}
	return m
}
