package voterworld

import (
	"time"

	"verifsim/kit"
)

func init() {
	kit.Register(&kit.Check{
		Prop: "C02", Name: "voter", World: "VOTER", Level: "exploration", Share: 2,
		Rule: "the streams of the VOTER world (see C03/voter: ONE real ucon.Server started with StartMining on a synthetic look-back chain; the simulator plays all other validators with real keys — it is the " +
			"Byzantine party and may hold any share of the stake —, the proposer, the clock and the network; quorums for a block, competing proposals, equivocations, stale/future/old-index votes, inflated and " +
			"wrong-kind credentials, lost proposals, round-index timeouts, index changes by next-index quorums, new rounds, certificate rounds 32768/65536) PLUS process faults of the validator under test: " +
			"crash at a quiescent point, crash right after its next disk write (= its next vote record, i.e. between VoteDB.Put and the gossip of the vote; what is posted after the crash never leaves the node), " +
			"restart through NewVRFServer/SetValKey/StartMining on the durable image of the simulated disk (nothing in memory survives: a new Voter, tallies and latches lost, VoteDB restored), and Pause/Resume " +
			"(Server.Resume re-enters the round at index 1). After every restart or resume the network proposes a DIFFERENT block for the re-entered context and votes it to a quorum, so that only the persisted " +
			"vote latch stands between the validator and a conflicting vote. Oracle (history, survives restarts): every SendMessageEvent of a vote kind that left a live process is decoded; per (round, index) " +
			"never two different block hashes for Prevote, Precommit or Certificate and never more than two NextIndex votes. Non-trivial = at least one fault fired.",
		Real: []string{"as C03/voter: consensus/ucon.Server started by StartMining incl. Voter.vote -> VoteDB.UpdateVoteData -> SendMessageEvent, Voter.updateContext -> VoteDB.UpdateContext, NewVoteDB on the durable image, Server.Pause/Resume"},
		Stub: []string{"as C03/voter (synthetic look-back chain, inserter, network, timers/mux schedule owned by the simulator)"},
		FaultsNotInjected: []string{"torn or lost-after-ack writes (crash model: the process dies, completed puts survive)", "restart of the chain database (the synthetic chain keeps its head across restarts)",
			"crash at writes other than vote records (the engine under test writes nothing else)"},
		Assumptions: []string{"a vote whose record reached the disk but whose message never left the node is not held against the node"},
		QuickBudget: 40 * time.Second, ThoroughBudget: 12 * time.Minute,
		MinRuns:    30,
		Exec:       RunC02,
		PanicClass: kit.PanicInRepo("engine-panic"),
		// reach probes every batch is expected to hit (listed in the evidence as probes_never_hit otherwise)
		ExpectedProbes: []string{"Byzantine frame while the voter lags behind the engine", "certificate commit", "certificate tally exactly at quorum", "commit event", "equivocation after the quorum was crossed", "equivocator's first vote already counted", "evidence emitted", "future vote cached", "future vote delivered after context change", "header update event", "index change by votes", "old-context precommit recorded", "own certificate vote", "own precommit", "round-index timeout", "second vote of one kind in one context", "stored header votes updated", "tally exactly at quorum", "tally one above quorum", "tally one below quorum", "tally reaches exactly the quorum", "validator restarted", "vote repeated by a later incarnation"},
	})
}
