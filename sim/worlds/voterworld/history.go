package voterworld

import (
	"fmt"

	"github.com/youchainhq/go-youchain/common"
	"github.com/youchainhq/go-youchain/consensus/ucon"
	"github.com/youchainhq/go-youchain/rlp"
)

// history is C02's oracle over the votes the validator under test signs and hands to the
// network (every SendMessageEvent of a vote kind that left a live process): the signed-vote
// history survives restarts of the validator; per (round, index) it must never contain two
// different block hashes for prevote, precommit or certificate, and never more than two
// next-index votes.
type histKey struct {
	round uint64
	index uint32
	kind  ucon.VoteType
}

type history struct {
	w     *world
	votes map[histKey][]common.Hash
	inc   map[histKey][]int // life (1 + restarts) that emitted each vote
}

func newHistory(w *world) *history {
	return &history{w: w, votes: map[histKey][]common.Hash{}, inc: map[histKey][]int{}}
}

func voteKindTitle(k ucon.VoteType) string { return ucon.VoteTypeToString(k) }

func (h *history) emitted(kind ucon.VoteType, payload []byte) {
	w, r := h.w, h.w.r
	v := new(ucon.BlockHashWithVotes)
	if err := rlp.DecodeBytes(payload, v); err != nil || v.Round == nil || v.Vote == nil {
		return // the tally oracle files this
	}
	k := histKey{v.Round.Uint64(), v.RoundIndex, kind}
	prev := h.votes[k]
	h.votes[k] = append(prev, v.BlockHash)
	h.inc[k] = append(h.inc[k], w.life)
	if len(prev) > 0 {
		r.Probe("second vote of one kind in one context")
		if h.inc[k][0] != w.life {
			r.Probe("vote repeated by a later incarnation")
		}
	}
	if w.mode != "C02" {
		return
	}
	if kind == ucon.NextIndex {
		if len(prev)+1 > 2 {
			r.Report("next-index-excess", "the validator signed %d next-index votes in (round %d, index %d): %s (lives %v)", len(prev)+1, k.round, k.index, hashList(h.votes[k]), h.inc[k])
		}
		return
	}
	for i, ph := range prev {
		if ph != v.BlockHash {
			r.Report("conflicting-votes:"+voteKindTitle(kind), "the validator signed two %s votes in (round %d, index %d): %s (life %d) and %s (life %d)",
				voteKindTitle(kind), k.round, k.index, hname(ph), h.inc[k][i], hname(v.BlockHash), w.life)
			break
		}
	}
}

func hashList(hs []common.Hash) string {
	s := ""
	for i, h := range hs {
		if i > 0 {
			s += ", "
		}
		s += hname(h)
	}
	return fmt.Sprintf("[%s]", s)
}
