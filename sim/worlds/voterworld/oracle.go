package voterworld

import (
	"fmt"
	"math/big"

	"github.com/youchainhq/go-youchain/common"
	"github.com/youchainhq/go-youchain/consensus/ucon"
	"github.com/youchainhq/go-youchain/core/state"
	"github.com/youchainhq/go-youchain/core/types"
	"github.com/youchainhq/go-youchain/params"
	"github.com/youchainhq/go-youchain/rlp"
)

// The oracle: a shadow tally (reference model) of the votes delivered to the engine.
//
//	per (round, index), per vote kind:  sender -> (first hash, VERIFIED weight, equivocated?)
//
// A vote enters the tally iff it is countable (voteTruth.countable: frame signer == vote
// signer, online chamber member with stake, BLS signature and index are the signer's, the
// simulator itself verified the sortition proof for exactly the claimed seat count with
// ucon.VrfVerifySortition) AND it was handled while the engine was in that context. The
// weight is the verified count, never the claimed one. A second vote of the same sender and
// kind for a different hash makes the sender an equivocator: from then on it contributes 0
// (next-index votes excepted: an honest node may send two of them, the second is ignored).
// The quorum is computed from the protocol table: floor(T*685/1000), floor(Tcert*585/1000).

type entry struct {
	hash        common.Hash
	weight      uint32
	equivocated bool
}

type ctxTally struct {
	cert      bool
	votes     map[ucon.VoteType]map[common.Address]*entry
	own       map[ucon.VoteType]common.Hash // kinds the validator under test voted in this context
	committed bool
	peak      map[peakKey]uint64                    // highest tally a (kind, hash) ever had in this context
	taint     map[peakKey]map[common.Address]uint32 // unverifiable seat counts the engine accepted while it was ahead of its voter
	lost      map[common.Hash]bool                  // commits announced on a quorum that had been reached and was lost again
}

type peakKey struct {
	kind ucon.VoteType
	hash common.Hash
}

// packedSets is what a CommitEvent carried (the decision snapshot): voter index -> seat count.
type packedSets struct {
	vk        ctxKey
	pre, cert map[uint32]uint32
}

type addRec struct {
	ck   ctxKey
	kind ucon.VoteType
	hash common.Hash
}

type oracle struct {
	w       *world
	ctxs    map[ctxKey]*ctxTally
	curStep uint32
	in      *voteTruth
	inErr   *error // HandleMsg's result for `in` (valid when the stimulus has ended)
	lenient *voteTruth
	added   []addRec
	packed  map[common.Hash]*packedSets // last CommitEvent per block
}

func newOracle(w *world) *oracle {
	return &oracle{w: w, ctxs: map[ctxKey]*ctxTally{}, packed: map[common.Hash]*packedSets{}}
}

const classLostQuorum = "certificate-commit-on-lost-quorum"

// classLenient: escalations explained by seat counts that do not verify but were accepted while
// the engine (Server.currentRound/roundIndex) was already ahead of its Voter's context
// (sortition_verifier.go:206 forgives failed sortition checks of votes older than the ENGINE's context).
const classLenient = "unverified-vote-counted-while-engine-ahead"

func (o *oracle) taintWeight(vk ctxKey, kind ucon.VoteType, hash common.Hash) (s uint64) {
	if ct := o.ctxs[vk]; ct != nil {
		for _, w := range ct.taint[peakKey{kind, hash}] {
			s += uint64(w)
		}
	}
	return
}

// classify picks the class of a "tally below quorum" violation: the specific one if the seat
// counts accepted through the leniency window explain the engine's escalation.
func (o *oracle) classify(generic string, vk ctxKey, kind ucon.VoteType, hash common.Hash, have, q uint64) string {
	if tw := o.taintWeight(vk, kind, hash); tw > 0 && have+tw >= q {
		return classLenient
	}
	return generic
}

// report files a violation of the tally oracle. In the C02 part (same streams, other oracle)
// the tally still runs — the generator steers by it — but its verdicts are only logged.
func (o *oracle) report(class, format string, a ...interface{}) {
	if o.w.mode != "C03" {
		o.w.r.Logf("   (tally oracle, not judged in this part: %s)", class)
		return
	}
	o.w.r.Report(class, format, a...)
}

// forgetAll: the validator restarted; a new Voter has no tallies.
func (o *oracle) forgetAll() {
	o.ctxs = map[ctxKey]*ctxTally{}
	o.packed = map[common.Hash]*packedSets{}
	o.added, o.in, o.lenient = nil, nil, nil
}

func (o *oracle) qPos() uint64  { return o.w.cfg.T * 685 / 1000 }
func (o *oracle) qCert() uint64 { return o.w.cfg.Tcert * 585 / 1000 }

func (o *oracle) ctx(ck ctxKey) *ctxTally {
	ct := o.ctxs[ck]
	if ct == nil {
		ct = &ctxTally{cert: isCertRound(ck.round), votes: map[ucon.VoteType]map[common.Address]*entry{}, own: map[ucon.VoteType]common.Hash{},
			peak: map[peakKey]uint64{}, lost: map[common.Hash]bool{}, taint: map[peakKey]map[common.Address]uint32{}}
		o.ctxs[ck] = ct
	}
	return ct
}

func (o *oracle) enterContext(ck ctxKey, cert bool) {
	ct := o.ctx(ck)
	if ct.cert != cert {
		o.report("certificate-flag-wrong", "context %s: engine says certificate=%v, round %% %d == 0 is %v", ck, cert, params.ACoCHTFrequency, ct.cert)
	}
	o.w.r.FP("ctx", fmt.Sprint(ck.index), fmt.Sprint(cert))
}

func (o *oracle) weight(ck ctxKey, kind ucon.VoteType, hash common.Hash) uint64 {
	ct := o.ctxs[ck]
	if ct == nil {
		return 0
	}
	var s uint64
	for _, e := range ct.votes[kind] {
		if e.hash == hash && !e.equivocated {
			s += uint64(e.weight)
		}
	}
	return s
}

func (o *oracle) quorumFor(kind ucon.VoteType) uint64 {
	if kind == ucon.Certificate {
		return o.qCert()
	}
	return o.qPos()
}

// applyVote moves the model for a vote frame that is about to be handled. cached = the vote
// comes out of the handler's future-message cache (Voter.eventLoop passes msgSame). The
// dispatch mirrors which context the engine's two parties are in: the MessageHandler judges
// old/same/future against the last context it was told, the Voter counts a "same" vote only
// if it is in that context too, and precommits of contexts it has left are still recorded
// (for header updates).
func (o *oracle) applyVote(t *voteTruth, cached bool) string {
	w := o.w
	vk := ctxKey{t.spec.round, t.spec.index}
	o.lenient = nil
	if !t.countable() {
		// a vote that is fine except that its seat count does not verify, for the context the
		// voter is still in while the engine has moved on: remembered for classification only
		if !cached && t.frameSigner == t.spec.signer && t.eligible && t.sigOK && t.tsOK && t.verified == 0 && t.claimed > 0 &&
			w.voterSet && w.voterCtx == vk && w.engineCtx() != vk {
			o.lenient = t
		}
		return "rejected"
	}
	status := "future"
	switch {
	case cached:
		status = "same"
	case !w.mhSet:
	case vk.round < w.mhCtx.round, vk.round == w.mhCtx.round && vk.index < w.mhCtx.index:
		status = "old"
	case vk == w.mhCtx:
		status = "same"
	}
	switch status {
	case "same":
		if !w.voterSet || w.voterCtx != vk {
			return "dropped(voter in another context)"
		}
		return o.count(vk, t)
	case "old":
		if t.spec.kind != ucon.Precommit {
			return "old-ignored"
		}
		if w.voterSet && w.voterCtx == vk {
			return o.count(vk, t) // the handler is ahead of the voter: same wrapper
		}
		if w.visited[vk] {
			w.r.Probe("old-context precommit recorded")
			return "old:" + o.count(vk, t)
		}
		return "old-ignored"
	}
	w.r.Probe("future vote cached")
	return "future"
}

func (o *oracle) count(vk ctxKey, t *voteTruth) string {
	ct := o.ctx(vk)
	kind := t.spec.kind
	m := ct.votes[kind]
	if m == nil {
		m = map[common.Address]*entry{}
		ct.votes[kind] = m
	}
	addr := t.spec.signer.Addr
	e := m[addr]
	if e == nil {
		m[addr] = &entry{hash: t.spec.hash, weight: t.verified}
		o.added = append(o.added, addRec{vk, kind, t.spec.hash})
		o.notePeak(vk, kind, t.spec.hash)
		return "counted"
	}
	if e.hash == t.spec.hash {
		return "duplicate"
	}
	if kind == ucon.NextIndex {
		return "second-next-ignored"
	}
	if e.equivocated {
		return "equivocator-again"
	}
	if o.weight(vk, kind, e.hash) >= o.quorumFor(kind) {
		o.w.r.Probe("equivocation after the quorum was crossed")
	}
	e.equivocated = true
	o.w.r.Probe("equivocator's first vote already counted")
	return "equivocation"
}

func (o *oracle) notePeak(vk ctxKey, kind ucon.VoteType, hash common.Hash) {
	ct := o.ctx(vk)
	if have := o.weight(vk, kind, hash); have > ct.peak[peakKey{kind, hash}] {
		ct.peak[peakKey{kind, hash}] = have
	}
}

func (o *oracle) beginStimulus(in *voteTruth) {
	o.in = in
	if t := o.lenient; t != nil && t == in && o.inErr != nil && *o.inErr == nil {
		vk := ctxKey{t.spec.round, t.spec.index}
		ct := o.ctx(vk)
		if e := ct.votes[t.spec.kind][t.spec.signer.Addr]; e == nil {
			pk := peakKey{t.spec.kind, t.spec.hash}
			if ct.taint[pk] == nil {
				ct.taint[pk] = map[common.Address]uint32{}
			}
			if _, ok := ct.taint[pk][t.spec.signer.Addr]; !ok {
				ct.taint[pk][t.spec.signer.Addr] = t.claimed
				o.w.r.Probe("unverifiable vote accepted while the engine is ahead of its voter")
				o.w.r.Logf("   (engine in %s, voter in %s: vote #%d with unverifiable seat count %d was not rejected)", o.w.engineCtx(), vk, t.id, t.claimed)
			}
		}
	}
	o.lenient = nil
}

// ownVote: the validator under test signed a vote (SendMessageEvent).
func (o *oracle) ownVote(kind ucon.VoteType, payload []byte) {
	w, r := o.w, o.w.r
	v := new(ucon.BlockHashWithVotes)
	if err := rlp.DecodeBytes(payload, v); err != nil || v.Round == nil || v.Vote == nil {
		o.report("own-vote-malformed", "the engine emitted an undecodable %s vote: %v", kindName(kind), err)
		return
	}
	vk := ctxKey{v.Round.Uint64(), v.RoundIndex}
	verified := w.fg.verifiedWeight(w.me, vk.round, vk.index, kind, v.Vote.Proof, v.Vote.Votes)
	r.Logf("   OWN %s %s %s claimed=%d verified=%d", kindName(kind), vk, hname(v.BlockHash), v.Vote.Votes, verified)
	r.FP("own", kindName(kind))
	if !w.voterSet || vk != w.voterCtx {
		o.report("own-vote-outside-context", "own %s vote for %s while the voter is in %s", kindName(kind), vk, w.voterCtx)
	}
	ct := o.ctx(vk)
	m := ct.votes[kind]
	if m == nil {
		m = map[common.Address]*entry{}
		ct.votes[kind] = m
	}
	if e := m[w.me.Addr]; e == nil {
		m[w.me.Addr] = &entry{hash: v.BlockHash, weight: verified}
		o.added = append(o.added, addRec{vk, kind, v.BlockHash})
		o.notePeak(vk, kind, v.BlockHash)
	} else if e.hash != v.BlockHash && kind != ucon.NextIndex {
		e.equivocated = true // C02's business; here it only means: contributes nothing
	}
	if _, ok := ct.own[kind]; !ok {
		ct.own[kind] = v.BlockHash
	}
	q := o.qPos()
	switch kind {
	case ucon.Precommit:
		r.Probe("own precommit")
		have := o.weight(vk, ucon.Prevote, v.BlockHash)
		if have == q {
			r.Probe("tally exactly at quorum")
		}
		if have < q {
			o.report(o.classify("precommit-without-counted-quorum", vk, ucon.Prevote, v.BlockHash, have, q), "own precommit for %s in %s: prevotes counted for that block weigh %d, quorum floor(%d*0.685) = %d | %s",
				hname(v.BlockHash), vk, have, w.cfg.T, q, o.dump(vk, ucon.Prevote))
		}
	case ucon.Certificate:
		r.Probe("own certificate vote")
		have := o.weight(vk, ucon.Precommit, v.BlockHash)
		if have < q {
			o.report(o.classify("certificate-vote-without-counted-quorum", vk, ucon.Precommit, v.BlockHash, have, q), "own certificate vote for %s in %s: precommits counted for that block weigh %d, quorum %d | %s",
				hname(v.BlockHash), vk, have, q, o.dump(vk, ucon.Precommit))
		}
	}
}

// checkSet checks a packed vote set against the tally: only counted votes for `hash`, no
// equivocator, no duplicate signer, the verified weights, total >= quorum.
func (o *oracle) checkSet(what string, vk ctxKey, kind ucon.VoteType, hash common.Hash, addrs []common.Address, votes []*ucon.SingleVote) {
	ct := o.ctx(vk)
	set := o.w.chain.lookBackFor(vk.round, kind).set
	seenIdx := map[uint32]bool{}
	seenAddr := map[common.Address]bool{}
	var sum uint64
	for i, a := range addrs {
		sv := votes[i]
		if v, ok := set.vals.GetByIndex(int(sv.VoterIdx)); !ok || v.MainAddress() != a {
			o.report("commit-packs-uncounted-vote", "%s %s set for %s in %s: vote filed under %s carries voter index %d, which is not that validator's", what, kindName(kind), hname(hash), vk, o.name(a), sv.VoterIdx)
			continue
		}
		if seenAddr[a] || seenIdx[sv.VoterIdx] {
			o.report("commit-packs-duplicate-signer", "%s %s set for %s in %s lists signer %s (index %d) twice", what, kindName(kind), hname(hash), vk, o.name(a), sv.VoterIdx)
			continue
		}
		seenAddr[a], seenIdx[sv.VoterIdx] = true, true
		e := ct.votes[kind][a]
		switch {
		case e == nil && ct.taint[peakKey{kind, hash}][a] == sv.Votes && sv.Votes > 0:
			o.report(classLenient, "%s %s set for %s in %s contains the vote of %s with the unverifiable seat count %d, accepted while the engine was ahead of its voter | %s",
				what, kindName(kind), hname(hash), vk, o.name(a), sv.Votes, o.dump(vk, kind))
		case e == nil || e.hash != hash:
			o.report("commit-packs-uncounted-vote", "%s %s set for %s in %s contains a vote of %s (claimed weight %d) that was never counted for this block | %s",
				what, kindName(kind), hname(hash), vk, o.name(a), sv.Votes, o.dump(vk, kind))
		case e.equivocated:
			o.report("commit-packs-equivocator", "%s %s set for %s in %s contains the vote of equivocator %s (weight %d) | %s",
				what, kindName(kind), hname(hash), vk, o.name(a), sv.Votes, o.dump(vk, kind))
		case sv.Votes != e.weight:
			o.report("commit-packs-wrong-weight", "%s %s set for %s in %s: %s packed with weight %d, verified weight %d", what, kindName(kind), hname(hash), vk, o.name(a), sv.Votes, e.weight)
		default:
			sum += uint64(e.weight)
		}
	}
	if q := o.quorumFor(kind); sum < q && !ct.lost[hash] {
		o.report(o.classify("commit-set-below-quorum", vk, kind, hash, sum, q), "%s %s set for %s in %s: legitimately packed weight %d < quorum %d | %s", what, kindName(kind), hname(hash), vk, sum, q, o.dump(vk, kind))
	}
}

func (o *oracle) name(a common.Address) string {
	for _, sp := range o.w.cfg.specs {
		if sp.Key.Addr == a {
			return sp.Key.Name()
		}
	}
	return fmt.Sprintf("%x", a[:3])
}

func (o *oracle) dump(vk ctxKey, kind ucon.VoteType) string {
	ct := o.ctxs[vk]
	if ct == nil {
		return "tally: -"
	}
	s := "tally " + kindName(kind) + ":"
	for _, sp := range o.w.cfg.specs {
		if e := ct.votes[kind][sp.Key.Addr]; e != nil {
			eq := ""
			if e.equivocated {
				eq = "(EQUIVOCATED)"
			}
			s += fmt.Sprintf(" %s->%s:%d%s", sp.Key.Name(), hname(e.hash), e.weight, eq)
		}
	}
	return s
}

func splitVotes(m ucon.VotesInfoForBlockHash) ([]common.Address, []*ucon.SingleVote) {
	as := sortedAddrs(m)
	vs := make([]*ucon.SingleVote, len(as))
	for i, a := range as {
		vs[i] = m[a]
	}
	return as, vs
}

// commitEvent: the Voter announced a commit (voter.go:711).
func (o *oracle) commitEvent(e ucon.CommitEvent) {
	w, r := o.w, o.w.r
	vk := ctxKey{e.Round.Uint64(), e.RoundIndex}
	hash := e.Block.Hash()
	ct := o.ctx(vk)
	pc, q := o.weight(vk, ucon.Precommit, hash), o.qPos()
	r.Logf("   COMMIT-EVENT %s %s precommit-weight=%d/%d packed=%d certs=%d", vk, hname(hash), pc, q, len(e.ChamberPrecommits), len(e.ChamberCerts))
	r.Probe("commit event")
	r.FP("commit", fmt.Sprint(ct.cert))
	if pc == q {
		r.Probe("tally exactly at quorum")
	}
	if !w.voterSet || vk != w.voterCtx {
		o.report("commit-outside-context", "commit for %s while the voter is in %s", vk, w.voterCtx)
	}
	if pk := ct.peak[peakKey{ucon.Precommit, hash}]; pc < q && ct.cert && pk >= q {
		// the precommit quorum had been reached (and remembered) but equivocators were removed since
		ct.lost[hash] = true
		o.report(classLostQuorum, "certificate context %s: commit of %s announced when the certificate quorum arrived, although the precommits counted for the block had fallen from %d to %d (quorum floor(%d*0.685) = %d) after an equivocator's weight was removed | %s",
			vk, hname(hash), pk, pc, w.cfg.T, q, o.dump(vk, ucon.Precommit))
	} else if pc < q {
		o.report(o.classify("commit-without-counted-quorum", vk, ucon.Precommit, hash, pc, q), "commit of %s in %s: precommits counted for that block weigh %d, quorum floor(%d*0.685) = %d | %s", hname(hash), vk, pc, w.cfg.T, q, o.dump(vk, ucon.Precommit))
	}
	ps := &packedSets{vk: vk, pre: map[uint32]uint32{}, cert: map[uint32]uint32{}}
	for _, sv := range e.ChamberPrecommits {
		ps.pre[sv.VoterIdx] = sv.Votes
	}
	for _, sv := range e.ChamberCerts {
		ps.cert[sv.VoterIdx] = sv.Votes
	}
	o.packed[hash] = ps
	as, vs := splitVotes(e.ChamberPrecommits)
	o.checkSet("CommitEvent", vk, ucon.Precommit, hash, as, vs)
	if len(e.HousePrecommits) > 0 {
		o.report("commit-packs-uncounted-vote", "CommitEvent for %s in %s carries %d House precommits; no House vote is ever countable", hname(hash), vk, len(e.HousePrecommits))
	}
	if ct.cert {
		r.Probe("certificate commit")
		cw, qc := o.weight(vk, ucon.Certificate, hash), o.qCert()
		if cw == qc {
			r.Probe("certificate tally exactly at quorum")
		}
		if pk := ct.peak[peakKey{ucon.Certificate, hash}]; cw < qc && pk >= qc {
			ct.lost[hash] = true
			o.report(classLostQuorum, "certificate context %s: commit of %s announced when the precommit quorum arrived, although the certificate votes counted for the block had fallen from %d to %d (quorum floor(%d*0.585) = %d) after an equivocator's weight was removed | %s",
				vk, hname(hash), pk, cw, w.cfg.Tcert, qc, o.dump(vk, ucon.Certificate))
		} else if cw < qc {
			o.report(o.classify("commit-without-certificate-quorum", vk, ucon.Certificate, hash, cw, qc), "commit of %s in certificate context %s: certificate votes counted for that block weigh %d, quorum floor(%d*0.585) = %d | %s", hname(hash), vk, cw, w.cfg.Tcert, qc, o.dump(vk, ucon.Certificate))
		}
		as, vs := splitVotes(e.ChamberCerts)
		o.checkSet("CommitEvent", vk, ucon.Certificate, hash, as, vs)
	} else if len(e.ChamberCerts) > 0 {
		o.report("commit-packs-uncounted-vote", "CommitEvent for %s in non-certificate context %s carries certificate votes", hname(hash), vk)
	}
	ct.committed = true
}

// indexChange: the Voter asks for the next round index on a next-index quorum (voter.go:362).
func (o *oracle) indexChange(e ucon.RoundIndexChangeEvent) {
	r := o.w.r
	vk := ctxKey{e.Round.Uint64(), e.RoundIndex}
	have, q := o.weight(vk, ucon.NextIndex, e.BlockHash), o.qPos()
	r.Logf("   INDEX-CHANGE %s %s next-weight=%d/%d", vk, hname(e.BlockHash), have, q)
	r.Probe("index change by votes")
	r.FP("index-change")
	if have < q {
		o.report(o.classify("index-change-without-counted-quorum", vk, ucon.NextIndex, e.BlockHash, have, q), "round-index change of %s for %s: next-index votes counted for that hash weigh %d, quorum %d | %s", vk, hname(e.BlockHash), have, q, o.dump(vk, ucon.NextIndex))
	}
}

// updateEvent: late precommits for an already committed block (voter.go:591, :213). Diagnostic only.
func (o *oracle) updateEvent(e ucon.UpdateExistedHeaderEvent) {
	r := o.w.r
	vk := ctxKey{e.Round.Uint64(), e.RoundIndex}
	ct := o.ctx(vk)
	r.Logf("   UPDATE-EVENT %s %s votes=%d", vk, hname(e.BlockHash), len(e.ChamberPrecommits))
	r.Probe("header update event")
	for _, a := range sortedAddrs(e.ChamberPrecommits) {
		en := ct.votes[ucon.Precommit][a]
		if en == nil || en.hash != e.BlockHash || en.equivocated {
			r.Probe("header update carries a vote the model did not count")
		}
	}
}

// lookBackReaders gathers the verifier's inputs for a header from the chain, independently of
// the engine under test.
func (o *oracle) lookBackReaders(num uint64) (seedHeader *types.Header, vld state.ValidatorReader, certHeader *types.Header, certVld state.ValidatorReader, err error) {
	c := o.w.chain
	seedHeader = c.GetHeaderByNumber(lbNumber(num, c.yp.SeedLookBack))
	stakeHeader := c.GetHeaderByNumber(lbNumber(num, c.yp.StakeLookBack))
	if seedHeader == nil || stakeHeader == nil {
		return nil, nil, nil, nil, fmt.Errorf("look-back header missing")
	}
	if vld, err = c.GetVldReader(stakeHeader.ValRoot); err != nil {
		return
	}
	if isCertRound(num) {
		certHeader = c.GetHeaderByNumber(lbNumber(num, params.ACoCHTFrequency))
		cs := c.GetHeaderByNumber(lbNumber(num, 2*params.ACoCHTFrequency))
		if certHeader == nil || cs == nil {
			return nil, nil, nil, nil, fmt.Errorf("certificate look-back header missing")
		}
		certVld, err = c.GetVldReader(cs.ValRoot)
	}
	return
}

// verifySealed offers a sealed block to the independent verifier and checks the packed sets of
// the header against the tally.
func (o *oracle) verifySealed(block *types.Block, what string) error {
	w := o.w
	h := block.Header()
	num := h.Number.Uint64()
	parent := w.chain.GetHeader(h.ParentHash, num-1)
	if parent == nil {
		panic("voterworld: committed block without known parent")
	}
	seedHeader, vld, certHeader, certVld, err := o.lookBackReaders(num)
	if err != nil {
		panic("voterworld: " + err.Error())
	}
	verr := w.ver.VerifySideChainHeader(&w.yp.CaravelParams, seedHeader, vld, certHeader, certVld, block, []*types.Block{types.NewBlockWithHeader(parent)})
	if verr != nil {
		cls := "commit-does-not-verify"
		if what == "update" {
			cls = "updated-header-does-not-verify"
		} else if ps := o.packed[block.Hash()]; ps != nil && o.ctx(ps.vk).lost[block.Hash()] {
			cls = classLostQuorum // the consequence of the commit already reported under this class
		} else if ps != nil && (o.taintWeight(ps.vk, ucon.Precommit, block.Hash()) > 0 || o.taintWeight(ps.vk, ucon.Certificate, block.Hash()) > 0) {
			cls = classLenient
		}
		o.report(cls, "the header of block %d %s assembled by the engine (%s) is rejected by an independent verifier: %v", num, hname(block.Hash()), what, verr)
	}
	if what == "commit" {
		// what PackVotes produced, against the tally
		if uv, e := ucon.ExtractUconValidators(h, params.LookBackPos); e != nil {
			o.report("commit-does-not-verify", "header.Validator of block %d does not decode: %v", num, e)
		} else {
			ps := o.packed[block.Hash()]
			if ps == nil || ps.vk != (ctxKey{num, uv.RoundIndex}) {
				o.report("sealed-header-differs-from-commit", "block %d %s sealed for round index %d without a matching CommitEvent", num, hname(block.Hash()), uv.RoundIndex)
			} else {
				o.checkPacked(ps.vk, "precommit", block.Hash(), uv.ChamberCommitters, ps.pre)
				if len(uv.HouseCommitters) > 0 || len(uv.ChamberCerts) > 0 {
					o.report("sealed-header-differs-from-commit", "header.Validator of block %d carries House or certificate votes", num)
				}
				uc, e := ucon.ExtractUconValidators(h, params.LookBackCert)
				if e != nil {
					o.report("commit-does-not-verify", "header.Certificate of block %d does not decode: %v", num, e)
				} else {
					o.checkPacked(ps.vk, "certificate", block.Hash(), uc.ChamberCerts, ps.cert)
				}
			}
		}
	}
	return verr
}

// checkPacked: what PackVotes put into the header must be exactly the decision snapshot of the
// CommitEvent (which was checked against the tally when it was announced): same signers, same
// seat counts, nobody twice.
// verifyForged: a block sealed by the simulator's own forge (all honest votes). A rejection
// means the whole network's votes do not reach the quorum (possible with few validators) — then
// the block simply could not have been committed elsewhere — or a harness bug.
func (o *oracle) verifyForged(block *types.Block) error {
	w := o.w
	h := block.Header()
	num := h.Number.Uint64()
	parent := w.chain.GetHeader(h.ParentHash, num-1)
	seedHeader, vld, certHeader, certVld, err := o.lookBackReaders(num)
	if parent == nil || err != nil {
		panic("voterworld: forged block without look-back data")
	}
	return w.ver.VerifySideChainHeader(&w.yp.CaravelParams, seedHeader, vld, certHeader, certVld, block, []*types.Block{types.NewBlockWithHeader(parent)})
}

func (o *oracle) checkPacked(vk ctxKey, kind string, hash common.Hash, list []ucon.SingleVote, want map[uint32]uint32) {
	seen := map[uint32]bool{}
	for _, sv := range list {
		votes, ok := want[sv.VoterIdx]
		switch {
		case seen[sv.VoterIdx]:
			o.report("commit-packs-duplicate-signer", "sealed header of %s (%s): %s set lists voter index %d twice", hname(hash), vk, kind, sv.VoterIdx)
		case !ok:
			o.report("sealed-header-differs-from-commit", "sealed header of %s (%s): %s set contains voter index %d, which the CommitEvent did not carry", hname(hash), vk, kind, sv.VoterIdx)
		case votes != sv.Votes:
			o.report("sealed-header-differs-from-commit", "sealed header of %s (%s): %s vote of index %d has weight %d, CommitEvent had %d", hname(hash), vk, kind, sv.VoterIdx, sv.Votes, votes)
		}
		seen[sv.VoterIdx] = true
	}
	if len(seen) != len(want) {
		o.report("sealed-header-differs-from-commit", "sealed header of %s (%s): %s set has %d signers, CommitEvent had %d", hname(hash), vk, kind, len(seen), len(want))
	}
}

// headerUpdated: the engine rewrote the vote set of a stored header (ucon.go:562).
func (o *oracle) headerUpdated(h *types.Header) {
	w := o.w
	w.r.Probe("stored header votes updated")
	w.r.FP("header-updated")
	blk := w.chain.GetBlock(h.Hash(), h.Number.Uint64())
	if blk == nil {
		blk = types.NewBlockWithHeader(h)
	}
	err := o.verifySealed(blk.WithSeal(h), "update")
	w.r.Logf("   HEADER-UPDATE block %d %s -> verifier: %v", h.Number.Uint64(), hname(h.Hash()), err)
}

// endStimulus: boundary probes, and in fault-free configurations the converse direction: a
// quorum counted in the voter's context must make the engine escalate in the same stimulus.
func (o *oracle) endStimulus() {
	w, r := o.w, o.w.r
	added := o.added
	o.added = nil
	for _, a := range added {
		have, q := o.weight(a.ck, a.kind, a.hash), o.quorumFor(a.kind)
		if have+1 == q {
			r.Probe("tally one below quorum")
		}
		if have == q {
			r.Probe("tally reaches exactly the quorum")
		}
		if have == q+1 {
			r.Probe("tally one above quorum")
		}
	}
	if !w.cfg.clean() || !w.voterSet {
		return
	}
	vk := w.voterCtx
	ct := o.ctx(vk)
	ownW := func(k ucon.VoteType) uint32 { return w.fg.cred(w.me, vk.round, vk.index, k).weight }
	known := func(h common.Hash) bool { p := w.props[h]; return p != nil && p.delivered }
	for _, a := range added {
		if a.ck != vk || a.hash == (common.Hash{}) {
			continue
		}
		q := o.qPos()
		switch a.kind {
		case ucon.Prevote:
			if _, voted := ct.own[ucon.Precommit]; o.weight(vk, ucon.Prevote, a.hash) >= q && !voted && ownW(ucon.Precommit) > 0 {
				o.report("no-precommit-on-counted-quorum", "fault-free run: prevotes for %s in %s weigh %d >= quorum %d and the validator holds %d precommit seats, but it did not precommit | %s",
					hname(a.hash), vk, o.weight(vk, ucon.Prevote, a.hash), q, ownW(ucon.Precommit), o.dump(vk, ucon.Prevote))
			}
		case ucon.Precommit, ucon.Certificate:
			if o.weight(vk, ucon.Precommit, a.hash) < q {
				continue
			}
			if ct.cert {
				if _, voted := ct.own[ucon.Certificate]; !voted && ownW(ucon.Certificate) > 0 {
					o.report("no-certificate-vote-on-counted-quorum", "fault-free run: precommits for %s in certificate context %s weigh %d >= quorum %d and the validator holds %d certificate seats, but it did not vote", hname(a.hash), vk, o.weight(vk, ucon.Precommit, a.hash), q, ownW(ucon.Certificate))
				}
				if o.weight(vk, ucon.Certificate, a.hash) < o.qCert() {
					continue
				}
			}
			if known(a.hash) && !ct.committed {
				o.report("no-commit-on-counted-quorum", "fault-free run: precommits for the known block %s in %s weigh %d >= quorum %d (certificate context: %v) but no commit was announced | %s",
					hname(a.hash), vk, o.weight(vk, ucon.Precommit, a.hash), q, ct.cert, o.dump(vk, ucon.Precommit))
			}
		}
	}
}

var _ = big.NewInt
