// Package chainworld is the CHAIN world: one builder node (real miner.worker over real
// TxPool/BlockChain/staking with the forge engine) and several importer nodes (un-started real
// ucon.Server as verifier + real BlockChain + staking) on simulated disks inside one synctest
// bubble. Blocks carry genuine proposer credentials and genuine precommit quorums signed by
// validator keys the simulator holds.
package chainworld

import (
	crand "crypto/rand"
	"fmt"
	"math/big"
	"time"

	"verifsim/kit"
	"verifsim/simdisk"
	"verifsim/worlds/chainkit"

	"github.com/youchainhq/go-youchain/common"
	"github.com/youchainhq/go-youchain/core"
	"github.com/youchainhq/go-youchain/core/types"
	"github.com/youchainhq/go-youchain/crypto"
	"github.com/youchainhq/go-youchain/logging"
	"github.com/youchainhq/go-youchain/params"
)

func init() {
	logging.Root().SetHandler(logging.DiscardHandler())
}

// World is one CHAIN simulation.
type World struct {
	R       *kit.Run
	Genesis *core.Genesis
	Vals    []chainkit.GenVal
	B       *chainkit.Builder
	Blocks  []*types.Block // blocks built so far (Blocks[0] is block 1)
	Nonces  map[common.Address]uint64
	Crit    []string
}

// Setup describes the validator set and pool limits of a run.
type Setup struct {
	NVals   int
	Stakes  []uint64
	Offline []bool // genesis status per validator
	House   []bool // genesis role House per validator
	PoolCfg core.TxPoolConfig
}

// DefaultSetup draws a validator set: 4-7 validators, mostly online chamber members.
func DefaultSetup(c *kit.Chooser) Setup {
	s := Setup{NVals: 4 + c.Intn("nvals", 4), PoolCfg: core.DefaultTxPoolConfig}
	for i := 0; i < s.NVals; i++ {
		s.Stakes = append(s.Stakes, uint64(50000+10000*c.Intn("stake", 8)))
		s.Offline = append(s.Offline, i >= 4 && c.Chance("offline", 1, 3))
		s.House = append(s.House, i >= 4 && c.Chance("house", 1, 4))
	}
	return s
}

// Run executes f inside a bubble with a started builder. Everything f creates must be stopped
// before it returns (use w.Stop for importers it registers).
func Run(r *kit.Run, setup Setup, f func(w *World)) {
	oldRand := crand.Reader
	crand.Reader = kit.NewStream(r.Seed, r.Index)
	defer func() {
		crand.Reader = oldRand
		logging.SimCrit = nil
	}()
	err := kit.Bubble(func() {
		w := &World{R: r, Nonces: map[common.Address]uint64{}}
		logging.SimCrit = func(msg string, ctx []interface{}) {
			w.Crit = append(w.Crit, fmt.Sprintf("%s %v", msg, ctx))
			r.Report("logging-crit", "the code under test called logging.Crit (process exit): %s %v", msg, ctx)
			panic(critExit{})
		}
		keys := chainkit.Keys()
		for i := 0; i < setup.NVals; i++ {
			role := params.RoleSenator
			if i == 0 {
				role = params.RoleChancellor
			}
			if setup.House[i] {
				role = params.RoleHouse
			}
			st := params.ValidatorOnline
			if setup.Offline[i] {
				st = params.ValidatorOffline
			}
			w.Vals = append(w.Vals, chainkit.GenVal{Key: keys[i], Stake: setup.Stakes[i], Role: role, Status: st})
		}
		w.Genesis = chainkit.MakeGenesis(w.Vals, params.YouV5)
		var vkeys []*chainkit.ValKey
		for _, v := range w.Vals {
			vkeys = append(vkeys, v.Key)
		}
		b, err := chainkit.NewBuilder(simdisk.NewNoLog(), w.Genesis, vkeys, setup.PoolCfg)
		if err != nil {
			panic("chainworld: builder: " + err.Error())
		}
		w.B = b
		kit.Wait()
		defer func() {
			b.Stop(kit.Wait)
			time.Sleep(10 * time.Second) // let tickers observe their quit channels
			kit.Wait()
		}()
		f(w)
	})
	if err != nil {
		panic(fmt.Sprintf("chainworld: %v", err))
	}
}

type critExit struct{}

// NextBlock advances simulated time by at least a second and lets the builder build a block
// from whatever its pool holds.
func (w *World) NextBlock() (*types.Block, error) {
	time.Sleep(time.Second + time.Duration(w.R.C.Intn("block-gap-ms", 3000))*time.Millisecond)
	var blk *types.Block
	var err error
	if len(w.Blocks) == 0 && !w.B.Miner.Mining() {
		blk, err = w.B.Start(kit.Wait)
	} else {
		blk, err = w.B.Build(kit.Wait)
	}
	if err != nil {
		return nil, err
	}
	w.Blocks = append(w.Blocks, blk)
	w.R.SimTime += time.Second
	return blk, nil
}

// Transfer builds a signed plain transfer from client i.
func (w *World) Transfer(from int, to common.Address, amount *big.Int, gasPrice int64) *types.Transaction {
	key := chainkit.ClientKey(from)
	addr := crypto.PubkeyToAddress(key.PublicKey)
	n := w.Nonces[addr]
	w.Nonces[addr] = n + 1
	tx := types.NewTransaction(n, to, amount, 21000, big.NewInt(gasPrice), nil)
	stx, err := types.SignTx(tx, chainkit.Signer(), key)
	if err != nil {
		panic(err)
	}
	return stx
}

// ClientAddr is the address of client i.
func ClientAddr(i int) common.Address {
	return crypto.PubkeyToAddress(chainkit.ClientKey(i).PublicKey)
}

// Submit adds transactions to the builder's pool (as remote transactions) and settles.
func (w *World) Submit(txs ...*types.Transaction) []error {
	errs := w.B.Pool.AddRemotesSync(txs)
	w.B.Settle(kit.Wait)
	return errs
}

// Commitments is what every node must reproduce for a block.
func Commitments(h *types.Header) string {
	return fmt.Sprintf("root=%x val=%x staking=%x receipts=%x bloom=%x gas=%d rewards=%v subsidy=%v slash=%x",
		h.Root[:4], h.ValRoot[:4], h.StakingRoot[:4], h.ReceiptHash[:4], h.Bloom[:4], h.GasUsed, h.GasRewards, h.Subsidy, h.SlashData)
}
