// Package c05world is part 2 of C05 in the CHAIN world: a Byzantine validator really
// equivocates (two different same-kind votes in one round/index, signed with its own keys);
// the evidence must be accepted by block builder and block validator alike, penalise that
// validator exactly once and never take more than the configured fraction.
package c05world

import (
	"fmt"
	"math/big"
	"time"

	"verifsim/kit"
	"verifsim/simdisk"
	"verifsim/worlds/chainkit"
	"verifsim/worlds/chainworld"

	"github.com/youchainhq/go-youchain/common"
	"github.com/youchainhq/go-youchain/consensus/ucon"
	"github.com/youchainhq/go-youchain/core/state"
	"github.com/youchainhq/go-youchain/core/types"
	"github.com/youchainhq/go-youchain/crypto"
	"github.com/youchainhq/go-youchain/params"
	"github.com/youchainhq/go-youchain/rlp"
	"github.com/youchainhq/go-youchain/staking"
)

func init() {
	kit.Register(&kit.Check{
		Prop: "C05", Name: "real-equivocation", World: "CHAIN", Level: "exploration", Share: 2,
		Rule: "part 2 of C05: on a real chain grown by the real block-building path (miner.worker + staking over the forge engine) a Byzantine validator signs two different hashes of one vote kind in one " +
			"(round, index) with its own BLS key; the evidence (built exactly as the engine's detector builds it) is submitted through the mux, with seeded faults: duplicated submission, several evidences " +
			"against the same validator in one block, evidence for a round other than the parent height (late/early), forged signature, wrong signer index, re-submission in the following blocks. " +
			"Oracle: a correct, timely evidence is confirmed by the builder (block carries slash data), every importer accepts that block unchanged, the validator is expelled and set offline, PenaltyTo grows by " +
			"exactly the amount the validator (tokens + unfinished withdrawals) loses, that amount is > 0 and <= the configured fraction of its tokens, and it happens exactly once however often the " +
			"evidence is repeated; untimely or invalid evidence changes nothing. Non-trivial = at least one evidence fault fired.",
		Real:        []string{"staking (evidence intake, slashing/replaySlashing, processDoubleSignV5, doPenalize/takePenalty)", "miner.worker (EndBlock isSeal=true)", "core.BlockChain import (EndBlock isSeal=false)", "core/state", "BLS"},
		Stub:        []string{"consensus rounds: forge engine (genuine credentials and quorums signed with validator keys the simulator holds)"},
		QuickBudget: 25 * time.Second, ThoroughBudget: 8 * time.Minute,
		MinRuns:        6,
		Exec:           run,
		ExpectedProbes: []string{"block-with-slash-data", "equivocation-punished-once"},
		PanicClass:     kit.PanicInRepo("chain-panic"),
	})
}

type valSnap struct {
	token, stake *big.Int
	status       uint8
	expelled     bool
	exists       bool
}

func (v valSnap) String() string {
	if !v.exists {
		return "<no such validator>"
	}
	return fmt.Sprintf("token=%v stake=%v status=%d expelled=%v", v.token, v.stake, v.status, v.expelled)
}

func snapVal(st *state.StateDB, a common.Address) valSnap {
	v := st.GetValidatorByMainAddr(a)
	if v == nil {
		return valSnap{}
	}
	return valSnap{token: new(big.Int).Set(v.Token), stake: new(big.Int).Set(v.Stake), status: v.Status, expelled: v.Expelled, exists: true}
}

func pendingWithdrawals(st *state.StateDB, a common.Address) *big.Int {
	sum := new(big.Int)
	if q := st.GetWithdrawQueue(); q != nil {
		for _, r := range q.Records {
			if r.Validator == a && r.Finished == 0 {
				sum.Add(sum, r.FinalBalance)
			}
		}
	}
	return sum
}

func run(r *kit.Run) {
	c := r.C
	setup := chainworld.DefaultSetup(c)
	chainworld.Run(r, setup, func(w *chainworld.World) {
		im, err := chainkit.NewImporter(simdisk.NewNoLog(), w.Genesis, kit.Wait)
		if err != nil {
			panic(err)
		}
		defer im.Stop(kit.Wait)
		yp := params.Versions[params.YouV5]
		penaltyTo := yp.PenaltyTo
		slashed := map[common.Address]bool{}
		nBlocks := 4 + c.Intn("blocks", 8)
		type planned struct {
			ev     staking.Evidence
			target common.Address
			round  uint64
			valid  bool
			what   string
		}
		var carry []planned // evidences to re-submit later (late)
		// the Byzantine minority: one or two validators (never all of them: with no online
		// validator left the chain has no proposer and nothing is left to check)
		nByz := 1 + c.Intn("nbyz", 2)
		byzSet := c.Perm("byz-perm", len(w.Vals))[:nByz]
		for bn := 0; bn < nBlocks; bn++ {
			head := w.B.Chain.CurrentBlock()
			round := head.NumberU64() // evidence for the round that decided the current head is due in the next block
			var plans []planned
			if round >= 1 && c.Chance("equivocate", 2, 3) {
				// the Byzantine validator: an online chamber member of the look-back set of `round`
				ctx, err := chainkit.NewCtx(w.B.Chain, round, 1+uint32(c.Intn("ev-index", 2)))
				if err != nil {
					panic(err)
				}
				byz := w.Vals[byzSet[c.Intn("byz", nByz)]].Key
				if v := chainkit.StakeOf(ctx, byz); v != nil {
					idx, _ := ctx.Vals.GetIndex(byz.Addr)
					kind := []ucon.VoteType{ucon.Precommit, ucon.Prevote}[c.Intn("ev-kind", 2)]
					h1 := crypto.Keccak256Hash([]byte(fmt.Sprintf("block-a-%d-%d", round, r.Index)))
					h2 := crypto.Keccak256Hash([]byte(fmt.Sprintf("block-b-%d-%d", round, r.Index)))
					sign := func(h common.Hash, rnd uint64) []byte {
						return byz.BlsSk.Sign(chainkit.VotePayload(h, rnd, ctx.Index)).Compress().Bytes()
					}
					mk := func(rnd uint64, signerIdx uint32, s1, s2 []byte) staking.Evidence {
						return staking.NewEvidence(staking.EvidenceDoubleSignV5{Round: rnd, RoundIndex: ctx.Index, SignerIdx: signerIdx, VoteType: uint8(kind),
							Signs: []*staking.SignInfo{{Hash: h1, Sign: s1}, {Hash: h2, Sign: s2}}})
					}
					good := mk(round, uint32(idx), sign(h1, round), sign(h2, round))
					switch c.Weighted("ev-fault", []int{6, 2, 2, 2, 2, 2}) {
					case 0:
						plans = append(plans, planned{good, byz.Addr, round, true, "timely"})
					case 1:
						r.Fault("evidence.duplicated")
						plans = append(plans, planned{good, byz.Addr, round, true, "timely"}, planned{good, byz.Addr, round, true, "duplicate"})
					case 2:
						r.Fault("evidence.second-evidence-same-validator")
						h3 := crypto.Keccak256Hash([]byte(fmt.Sprintf("block-c-%d-%d", round, r.Index)))
						other := staking.NewEvidence(staking.EvidenceDoubleSignV5{Round: round, RoundIndex: ctx.Index, SignerIdx: uint32(idx), VoteType: uint8(kind),
							Signs: []*staking.SignInfo{{Hash: h1, Sign: sign(h1, round)}, {Hash: h3, Sign: sign(h3, round)}}})
						plans = append(plans, planned{good, byz.Addr, round, true, "timely"}, planned{other, byz.Addr, round, true, "second evidence"})
					case 3:
						r.Fault("evidence.forged-signature")
						bad := sign(h2, round+7) // signature over another round's payload
						if c.Chance("reuse-first-signature", 1, 2) {
							bad = sign(h1, round) // the first entry's signature listed again for another hash
						}
						plans = append(plans, planned{mk(round, uint32(idx), sign(h1, round), bad), byz.Addr, round, false, "forged signature"})
					case 4:
						r.Fault("evidence.wrong-signer-index")
						wrong := uint32((idx + 1) % ctx.Vals.Len())
						plans = append(plans, planned{mk(round, wrong, sign(h1, round), sign(h2, round)), byz.Addr, round, false, "wrong signer index"})
					case 5:
						r.Fault("evidence.late")
						carry = append(carry, planned{good, byz.Addr, round, false, "late (round != parent height)"})
					}
				}
			}
			// late evidences from earlier rounds are (re)submitted now
			for _, p := range carry {
				if p.round < round {
					plans = append(plans, p)
				}
			}
			var keep []planned
			for _, p := range carry {
				if p.round >= round {
					keep = append(keep, p)
				}
			}
			carry = keep
			if c.Chance("resubmit-old", 1, 4) && len(plans) == 0 && bn > 1 {
				r.Fault("evidence.none")
			}
			for _, p := range plans {
				w.B.PostEvidence(p.ev, kit.Wait)
				r.Logf("evidence submitted: target=%x round=%d (%s)", p.target[:4], p.round, p.what)
			}
			// pre-state of every targeted validator
			pre, _ := w.B.Chain.State()
			type before struct {
				v  valSnap
				wd *big.Int
			}
			befores := map[common.Address]before{}
			for _, p := range plans {
				befores[p.target] = before{snapVal(pre, p.target), pendingWithdrawals(pre, p.target)}
			}
			prePenalty := pre.GetBalance(penaltyTo)
			if c.Chance("with-tx", 1, 2) {
				w.Submit(w.Transfer(c.Intn("from", chainkit.NClients), chainworld.ClientAddr(c.Intn("to", chainkit.NClients)), big.NewInt(1000), 1))
			}
			blk, err := w.NextBlock()
			if err != nil {
				r.Report("build-failed", "block %d: %v", round+1, err)
				return
			}
			r.FP("block", fmt.Sprint(len(plans)), fmt.Sprint(len(blk.Header().SlashData) > 0))
			ierr := im.Chain.InsertChain(types.Blocks{blk})
			kit.Wait()
			if ierr != nil || im.Chain.CurrentBlock().Hash() != blk.Hash() {
				r.Report("builder-validator-disagree", "block %d built with slash data %x was not accepted by the importer: err=%v head=%d", blk.NumberU64(), blk.Header().SlashData, ierr, im.Chain.CurrentBlock().NumberU64())
				return
			}
			post, _ := w.B.Chain.State()
			ipost, _ := im.Chain.State()
			// which validators should have been slashed by this block?
			expect := map[common.Address]bool{}
			for _, p := range plans {
				// every equivocation (one per round here) is punishable once, also when the
				// validator was already expelled for an earlier one
				if p.valid && p.round == round && befores[p.target].v.exists {
					expect[p.target] = true
				}
			}
			var confirmed []staking.Evidence
			if sd := blk.Header().SlashData; len(sd) > 0 {
				if err := rlp.DecodeBytes(sd, &confirmed); err != nil {
					r.Report("slash-data-undecodable", "block %d: %v", blk.NumberU64(), err)
				}
				r.Probe("block-with-slash-data")
			}
			totalLoss := new(big.Int)
			for a, b := range befores {
				after := snapVal(post, a)
				iafter := snapVal(ipost, a)
				if after.String() != iafter.String() {
					r.Report("builder-validator-disagree", "validator %x after block %d: builder {%v} importer {%v}", a[:4], blk.NumberU64(), after, iafter)
				}
				lossTok := new(big.Int)
				if after.exists {
					lossTok.Sub(b.v.token, after.token)
				}
				lossWd := new(big.Int).Sub(b.wd, pendingWithdrawals(post, a))
				loss := new(big.Int).Add(lossTok, lossWd)
				if expect[a] {
					bound := new(big.Int).Div(new(big.Int).Mul(b.v.token, new(big.Int).SetUint64(yp.PenaltyFractionForDoubleSign)), big.NewInt(100))
					switch {
					case (loss.Sign() <= 0 && b.v.token.Sign() > 0) || !after.expelled || after.status != params.ValidatorOffline:
						r.Report("equivocation-not-punished", "validator %x really signed two different votes in (round %d): evidence was submitted in time but after block %d: loss=%v expelled=%v status=%d slashData=%d bytes",
							a[:4], round, blk.NumberU64(), loss, after.expelled, after.status, len(blk.Header().SlashData))
					case loss.Cmp(bound) > 0:
						r.Report("punished-more-than-once-or-beyond-fraction", "validator %x lost %v in block %d, more than one penalty of %d%% of its tokens %v", a[:4], loss, blk.NumberU64(), yp.PenaltyFractionForDoubleSign, b.v.token)
					default:
						r.Probe("equivocation-punished-once")
						slashed[a] = true
					}
					totalLoss.Add(totalLoss, loss)
				} else if loss.Sign() != 0 || (after.expelled && !b.v.expelled) {
					r.Report("punished-without-valid-timely-evidence", "validator %x lost %v / expelled=%v in block %d although no valid evidence for round %d against it was submitted (only untimely, duplicate-of-earlier or invalid ones)", a[:4], loss, after.expelled, blk.NumberU64(), round)
				}
			}
			gain := new(big.Int).Sub(post.GetBalance(penaltyTo), prePenalty)
			if gain.Cmp(totalLoss) != 0 && len(befores) > 0 {
				r.Report("penalty-not-conserved", "block %d: validators lost %v in total but the penalty account grew by %v", blk.NumberU64(), totalLoss, gain)
			}
		}
	})
}
