package c14chainworld

import (
	"encoding/binary"
	"encoding/json"
	"fmt"
	"math/big"
	"strings"

	"verifsim/simdisk"

	"github.com/youchainhq/go-youchain/common"
	"github.com/youchainhq/go-youchain/consensus/ucon"
	"github.com/youchainhq/go-youchain/core/rawdb"
	"github.com/youchainhq/go-youchain/core/state"
	"github.com/youchainhq/go-youchain/core/types"
	"github.com/youchainhq/go-youchain/params"
	"github.com/youchainhq/go-youchain/rlp"
	"github.com/youchainhq/go-youchain/staking"
)

// nested is a typed byte string found inside an accepted value (a transaction's staking
// message, a message's typed payload, a header's consensus fields, an evidence's data ...):
// it is checked with the codec of its own type.
type nested struct {
	typ  string
	data []byte
}

// decoded is what one real decoder made of one byte string.
type decoded struct {
	accepted bool
	err      error
	re       []byte        // the accepted value re-encoded with the real encoder
	reErr    error         // the real encoder refused the accepted value
	view     func() string // renders the accepted value through a serialisation that is NOT rlp (JSON, Dump)
	nested   []nested      // typed byte strings inside the accepted value
}

// codec is one record type: how the node decodes it (the real typed decoder, called the way
// the cited production caller calls it) and how the node encodes it.
type codec struct {
	name   string
	caller string // the production decode site imitated
	dec    func(b []byte) decoded
}

func jsonView(v interface{}) string {
	b, err := json.Marshal(v)
	if err != nil {
		return "json-error: " + err.Error()
	}
	return string(b)
}

func rej(err error) decoded { return decoded{err: err} }

func acc(v interface{}, view func() string, n ...nested) decoded {
	re, err := rlp.EncodeToBytes(v)
	return decoded{accepted: true, re: re, reErr: err, view: view, nested: n}
}

// generic: rlp.DecodeBytes into a fresh value of the real type, rlp.EncodeToBytes back.
func plain(name, caller string, fresh func() interface{}, view func(v interface{}) string, nest func(v interface{}) []nested) *codec {
	return &codec{name: name, caller: caller, dec: func(b []byte) decoded {
		v := fresh()
		if err := rlp.DecodeBytes(b, v); err != nil {
			return rej(err)
		}
		vw := func() string { return jsonView(v) }
		if view != nil {
			vw = func() string { return view(v) }
		}
		var n []nested
		if nest != nil {
			n = nest(v)
		}
		return acc(v, vw, n...)
	}}
}

// ---- record layout of core/rawdb/schema.go (the key functions are unexported) ----

func numKey(prefix byte, num uint64, hash common.Hash) []byte {
	k := make([]byte, 0, 41)
	k = append(k, prefix)
	var n [8]byte
	binary.BigEndian.PutUint64(n[:], num)
	k = append(k, n[:]...)
	return append(k, hash.Bytes()...)
}
func headerKey(num uint64, hash common.Hash) []byte   { return numKey('h', num, hash) }
func bodyKey(num uint64, hash common.Hash) []byte     { return numKey('b', num, hash) }
func receiptsKey(num uint64, hash common.Hash) []byte { return numKey('r', num, hash) }
func lookupKey(hash common.Hash) []byte               { return append([]byte{'l'}, hash.Bytes()...) }

var (
	scratchHash = common.HexToHash("0xc14c14c14c14c14c14c14c14c14c14c14c14c14c14c14c14c14c14c14c14c14c1")
	scratchNum  = uint64(7)

	stakingAddr = params.StakingModuleAddress

	// value prefixes of the validator trie (core/state/statedb_val.go:42-45) and of the
	// staking trie (core/state/statedb_staking.go:37)
	pfxVal     = []byte("valinfo-")
	pfxIndex   = []byte("valindex")
	pfxStat    = []byte("valstat")
	pfxQueue   = []byte("valubds")
	pfxPending = []byte("pendingr")
)

// onScratch stores b under key on a fresh simulated disk and hands the disk to read: the
// rawdb accessors are the node's real decoders of the stored record types.
func onScratch(key, b []byte, read func(d *simdisk.Disk) decoded) decoded {
	d := simdisk.NewNoLog()
	if err := d.Put(key, b); err != nil {
		panic(err)
	}
	return read(d)
}

func txNested(txs []*types.Transaction) (n []nested) {
	for _, tx := range txs {
		if to := tx.To(); to != nil && *to == stakingAddr {
			n = append(n, nested{"staking-message", tx.Data()})
		}
	}
	return n
}

func headerNested(h *types.Header) (n []nested) {
	if len(h.Consensus) > 0 {
		n = append(n, nested{"consensus-data", h.Consensus})
	}
	if len(h.Validator) > 0 {
		n = append(n, nested{"vote-container", h.Validator})
	}
	if len(h.Certificate) > 0 {
		n = append(n, nested{"certificate-container", h.Certificate})
	}
	if len(h.SlashData) > 0 {
		n = append(n, nested{"slash-data", h.SlashData})
	}
	return n
}

func headerView(h *types.Header) string {
	if h.Number == nil || h.GasRewards == nil || h.Subsidy == nil {
		return fmt.Sprintf("header with nil number fields: %+v", *h)
	}
	return jsonView(h)
}

func txsView(txs []*types.Transaction) string {
	var sb strings.Builder
	for _, tx := range txs {
		sb.WriteString(jsonView(tx))
		sb.WriteByte('\n')
	}
	return sb.String()
}

// storedReceiptView renders what the STORAGE form of receipts keeps. The storage form is lossy
// by design (core/types/receipt.go receiptStorageRLP, log.go rlpStorageLog): a receipt's
// BlockHash, BlockNumber and TransactionIndex and a log's Removed flag are derived fields that
// are not stored, and PostState/Status share one field. They are left out of the comparison of
// an in-memory receipt with its stored form; everything else must survive.
func storedReceiptView(rcs types.Receipts) string {
	var sb strings.Builder
	for i, rc := range rcs {
		fmt.Fprintf(&sb, "rc%d post=%x status=%d cum=%d bloom=%x tx=%x contract=%x gas=%d", i, rc.PostState, rc.Status, rc.CumulativeGasUsed, rc.Bloom.Bytes(), rc.TxHash, rc.ContractAddress, rc.GasUsed)
		for j, l := range rc.Logs {
			fmt.Fprintf(&sb, " log%d{%x %x data=%x}", j, l.Address, l.Topics, l.Data)
		}
		sb.WriteByte('\n')
	}
	return sb.String()
}

func receiptsNested(rcs types.Receipts) (n []nested) {
	slashing := common.StringToHash(staking.LogTopicSlashing)
	for _, rc := range rcs {
		for _, l := range rc.Logs {
			if l.Address == stakingAddr && len(l.Topics) > 0 && l.Topics[0] == slashing {
				n = append(n, nested{"slash-log-v5", l.Data})
			}
		}
	}
	return n
}

var payloadNames = map[staking.ActionType]string{
	staking.ValidatorCreate: "create", staking.ValidatorUpdate: "update", staking.ValidatorDeposit: "deposit",
	staking.ValidatorWithDraw: "withdraw", staking.ValidatorChangeStatus: "status", staking.ValidatorSettle: "settle",
	staking.DelegationAdd: "dlg-add", staking.DelegationSub: "dlg-sub", staking.DelegationSettle: "dlg-settle",
}

// payloadTypes lists the typed payload codecs in a fixed order.
var payloadOrder = []staking.ActionType{staking.ValidatorCreate, staking.ValidatorUpdate, staking.ValidatorDeposit, staking.ValidatorWithDraw,
	staking.ValidatorChangeStatus, staking.ValidatorSettle, staking.DelegationAdd, staking.DelegationSub, staking.DelegationSettle}

func freshPayload(a staking.ActionType) interface{} {
	switch a {
	case staking.ValidatorCreate:
		return &staking.TxCreateValidator{}
	case staking.ValidatorUpdate:
		return &staking.TxUpdateValidator{}
	case staking.ValidatorDeposit:
		return &staking.TxValidatorDeposit{}
	case staking.ValidatorWithDraw:
		return &staking.TxValidatorWithdraw{}
	case staking.ValidatorChangeStatus:
		return &staking.TxValidatorChangeStatus{}
	case staking.ValidatorSettle:
		return &staking.TxValidatorSettle{}
	case staking.DelegationAdd, staking.DelegationSub:
		return &staking.TxDelegation{}
	case staking.DelegationSettle:
		return &staking.TxDelegationSettle{}
	}
	return nil
}

func statView(s *state.ValidatorsStat) string {
	for _, k := range []params.ValidatorKind{params.KindValidator, params.KindChamber, params.KindHouse} {
		if s.Kinds[k] == nil {
			return "stat with a nil kind entry"
		}
	}
	for _, k := range []params.ValidatorRole{params.RoleChancellor, params.RoleSenator, params.RoleHouse} {
		if s.Roles[k] == nil {
			return "stat with a nil role entry"
		}
	}
	d := s.Dump()
	var sb strings.Builder
	for _, k := range []params.ValidatorKind{params.KindValidator, params.KindChamber, params.KindHouse} {
		fmt.Fprintf(&sb, "kind%d=%+v ", k, d.Kinds[k])
	}
	for _, k := range []params.ValidatorRole{params.RoleChancellor, params.RoleSenator, params.RoleHouse} {
		fmt.Fprintf(&sb, "role%d=%+v ", k, d.Roles[k])
	}
	return sb.String()
}

func validatorView(v *state.Validator) string {
	// Validator.MarshalJSON adds the main address derived from the public key
	return jsonView(v)
}

func buildCodecs() (list []*codec, byName map[string]*codec) {
	add := func(c *codec) { list = append(list, c) }

	// -- chain objects in their wire/hash form --
	add(plain("header", "rlp.DecodeBytes into types.Header (p2p block/header messages, fetcher, downloader)",
		func() interface{} { return new(types.Header) },
		func(v interface{}) string { return headerView(v.(*types.Header)) },
		func(v interface{}) []nested { return headerNested(v.(*types.Header)) }))
	add(&codec{name: "block", caller: "types.Block.DecodeRLP (block messages handed to BlockChain.InsertChain)", dec: func(b []byte) decoded {
		blk := new(types.Block)
		if err := rlp.DecodeBytes(b, blk); err != nil {
			return rej(err)
		}
		hdr := blk.Header()
		n := append(headerNested(hdr), txNested(blk.Transactions())...)
		return acc(blk, func() string { return headerView(hdr) + "\n" + txsView(blk.Transactions()) }, n...)
	}})
	add(&codec{name: "transaction", caller: "types.Transaction.DecodeRLP (transaction messages handed to TxPool.AddRemotes)", dec: func(b []byte) decoded {
		tx := new(types.Transaction)
		if err := rlp.DecodeBytes(b, tx); err != nil {
			return rej(err)
		}
		return acc(tx, func() string { return jsonView(tx) }, txNested([]*types.Transaction{tx})...)
	}})
	add(&codec{name: "receipt", caller: "types.Receipt.DecodeRLP (consensus form: receipt trie, receipts messages of fast sync)", dec: func(b []byte) decoded {
		rc := new(types.Receipt)
		if err := rlp.DecodeBytes(b, rc); err != nil {
			return rej(err)
		}
		return acc(rc, func() string { return storedReceiptView(types.Receipts{rc}) }, receiptsNested(types.Receipts{rc})...)
	}})

	// -- stored records, through the rawdb accessors --
	add(&codec{name: "disk-header", caller: "rawdb.ReadHeader (core/rawdb/accessors_chain.go:173-183, rlp.Decode on a reader)", dec: func(b []byte) decoded {
		return onScratch(headerKey(scratchNum, scratchHash), b, func(d *simdisk.Disk) decoded {
			h := rawdb.ReadHeader(d, scratchHash, scratchNum)
			if h == nil {
				return rej(fmt.Errorf("ReadHeader returned nil"))
			}
			return acc(h, func() string { return headerView(h) }, headerNested(h)...)
		})
	}})
	add(&codec{name: "disk-body", caller: "rawdb.ReadBody (core/rawdb/accessors_chain.go:242-252, rlp.Decode on a reader)", dec: func(b []byte) decoded {
		return onScratch(bodyKey(scratchNum, scratchHash), b, func(d *simdisk.Disk) decoded {
			body := rawdb.ReadBody(d, scratchHash, scratchNum)
			if body == nil {
				return rej(fmt.Errorf("ReadBody returned nil"))
			}
			return acc(body, func() string { return txsView(body.Transactions) }, txNested(body.Transactions)...)
		})
	}})
	add(&codec{name: "disk-receipts", caller: "rawdb.ReadReceipts (core/rawdb/accessors_chain.go:272-290)", dec: func(b []byte) decoded {
		return onScratch(receiptsKey(scratchNum, scratchHash), b, func(d *simdisk.Disk) decoded {
			rcs := rawdb.ReadReceipts(d, scratchHash, scratchNum)
			if rcs == nil {
				return rej(fmt.Errorf("ReadReceipts returned nil"))
			}
			// re-encoded the way rawdb.WriteReceipts does
			st := make([]*types.ReceiptForStorage, len(rcs))
			for i, rc := range rcs {
				st[i] = (*types.ReceiptForStorage)(rc)
			}
			return acc(st, func() string { return storedReceiptView(rcs) }, receiptsNested(rcs)...)
		})
	}})
	add(&codec{name: "tx-lookup", caller: "rawdb.ReadTxLookupEntry (core/rawdb/accessors_indexes.go:28)", dec: func(b []byte) decoded {
		return onScratch(lookupKey(scratchHash), b, func(d *simdisk.Disk) decoded {
			bh, num, idx := rawdb.ReadTxLookupEntry(d, scratchHash)
			if bh == (common.Hash{}) {
				return rej(fmt.Errorf("ReadTxLookupEntry returned the zero entry"))
			}
			e := rawdb.TxLookupEntry{BlockHash: bh, BlockIndex: num, Index: idx}
			return acc(e, func() string { return fmt.Sprintf("%x/%d/%d", bh, num, idx) })
		})
	}})
	add(&codec{name: "vote-db-record", caller: "ucon.ReadVoteData (consensus/ucon/vote_cache.go:195)", dec: func(b []byte) decoded {
		addr := common.BytesToAddress([]byte{0xc1, 0x4c})
		return onScratch(ucon.AddrTypeKey(addr, ucon.Precommit, 1), b, func(d *simdisk.Disk) decoded {
			v := ucon.ReadVoteData(d, addr, ucon.Precommit, 1)
			if v == nil {
				return rej(fmt.Errorf("ReadVoteData returned nil"))
			}
			return acc(v, func() string { return jsonView(v) })
		})
	}})

	// -- state records (leaves of the three tries, blobs) --
	add(plain("account", "state.StateDB.getStateObject (core/state/statedb.go:524: rlp.DecodeBytes into state.Account)",
		func() interface{} { return new(state.Account) }, nil, nil))
	add(&codec{name: "storage-slot", caller: "stateObject.GetCommittedState (core/state/state_object.go:204: rlp.Split of the slot value)", dec: func(b []byte) decoded {
		_, content, _, err := rlp.Split(b)
		if err != nil {
			return rej(err)
		}
		v := common.BytesToHash(content)
		// written by updateTrie as rlp(bytes.TrimLeft(value, "\x00"))
		trimmed := strings.TrimLeft(string(v[:]), "\x00")
		return acc([]byte(trimmed), func() string { return fmt.Sprintf("%x", v) })
	}})
	add(plain("validator", "state.StateDB.getValidator (core/state/statedb_val.go:390)",
		func() interface{} { return new(state.Validator) },
		func(v interface{}) string { return validatorView(v.(*state.Validator)) }, nil))
	add(plain("validators-stat", "state.StateDB.loadValidatorsStat (core/state/statedb_val.go:245-250: NewValidatorsStat, then rlp.DecodeBytes)",
		func() interface{} { return state.NewValidatorsStat() },
		func(v interface{}) string { return statView(v.(*state.ValidatorsStat)) }, nil))
	add(plain("validator-index", "state.StateDB.getValidatorsIndex (core/state/statedb_val.go:209-210: NewValidatorIndex, then rlp.DecodeBytes)",
		func() interface{} { return state.NewValidatorIndex() },
		func(v interface{}) string { return fmt.Sprintf("%x", v.(*state.ValidatorIndex).List()) }, nil))
	add(plain("withdraw-queue", "state.StateDB.getWithdrawQueue (core/state/statedb_val.go:476-481: NewWithdrawQueue, then rlp.DecodeBytes)",
		func() interface{} { return state.NewWithdrawQueue() }, nil, nil))
	add(plain("staking-record", "state.StateDB.getStakingRecord / ForEachStakingRecord (core/state/statedb_staking.go:165, 240: rlp.DecodeBytes into state.Record)",
		func() interface{} { return new(state.Record) }, nil, nil))
	add(plain("pending-relationship", "state.StateDB.loadPendingRelationship (core/state/statedb_staking.go:47; the record type is unexported: decoded into its exported shape, a list of 40-byte arrays)",
		func() interface{} { return new([]*[40]byte) },
		func(v interface{}) string {
			var sb strings.Builder
			for _, x := range *(v.(*[]*[40]byte)) {
				fmt.Fprintf(&sb, "%x ", x[:])
			}
			return sb.String()
		}, nil))
	add(plain("delegations-blob", "stateObject.loadDelegations (core/state/state_object.go:530: rlp.DecodeBytes into common.SortedAddresses)",
		func() interface{} { return new(common.SortedAddresses) }, nil, nil))

	// -- staking messages --
	add(&codec{name: "staking-message", caller: "staking.TxConverter.ApplyMessage (staking/tx_converter.go:82)", dec: func(b []byte) decoded {
		var m staking.Message
		if err := rlp.DecodeBytes(b, &m); err != nil {
			return rej(err)
		}
		var n []nested
		if name, ok := payloadNames[m.Action]; ok {
			n = append(n, nested{"staking-payload:" + name, m.Payload})
		}
		return acc(&m, func() string { return jsonView(&m) }, n...)
	}})
	for _, a := range payloadOrder {
		a := a
		add(plain("staking-payload:"+payloadNames[a], "staking handler of the action (staking/handler.go, delegation_handler.go: rlp.DecodeBytes(payload, &tx))",
			func() interface{} { return freshPayload(a) }, nil, nil))
	}

	// -- slash data and evidences --
	add(&codec{name: "slash-data", caller: "staking.replaySlashing (staking/slash.go:58: rlp.DecodeBytes(header.SlashData, &[]Evidence))", dec: func(b []byte) decoded {
		var evs []staking.Evidence
		if err := rlp.DecodeBytes(b, &evs); err != nil {
			return rej(err)
		}
		var n []nested
		var sb strings.Builder
		for i := range evs {
			fmt.Fprintf(&sb, "%q:%x ", evs[i].Type, evs[i].Data)
			switch evs[i].Type {
			case staking.EvidenceTypeDoubleSignV5:
				n = append(n, nested{"evidence:doublesign-v5", evs[i].Data})
			case staking.EvidenceTypeInactive:
				n = append(n, nested{"evidence:inactive", evs[i].Data})
			case staking.EvidenceTypeDoubleSign:
				n = append(n, nested{"evidence:doublesign-legacy", evs[i].Data})
			}
		}
		// staking.slashing encodes the slice of values (staking/slash.go:150)
		view := sb.String()
		return acc(evs, func() string { return view }, n...)
	}})
	add(plain("evidence:doublesign-v5", "staking.processDoubleSignV5 (staking/slash_youv5.go:114)",
		func() interface{} { return new(staking.EvidenceDoubleSignV5) }, nil, nil))
	add(plain("evidence:inactive", "staking.replaySlashing (staking/slash.go:77)",
		func() interface{} { return new(staking.EvidenceInactive) }, nil, nil))
	add(plain("evidence:doublesign-legacy", "staking.processDoubleSign (staking/slash.go:272)",
		func() interface{} { return new(staking.EvidenceDoubleSign) },
		func(v interface{}) string {
			e := v.(*staking.EvidenceDoubleSign)
			return fmt.Sprintf("round=%v index=%d signs=%d", e.Round, e.RoundIndex, len(e.Signs))
		}, nil))
	add(plain("slash-log-v5", "rlp data of the module's 'slashing' log (staking/slash_youv5.go:99, 210; decoded by clients into the exported staking.SlashDataV5)",
		func() interface{} { return new(staking.SlashDataV5) }, nil, nil))

	// -- consensus fields of the header --
	add(&codec{name: "consensus-data", caller: "ucon.ExtractConsensusData (consensus/ucon/block_consensus_data.go:106)", dec: func(b []byte) decoded {
		cd, err := ucon.ExtractConsensusData(&types.Header{Consensus: b})
		if err != nil {
			return rej(err)
		}
		re, eerr := ucon.PrepareConsensusData(nil, cd)
		return decoded{accepted: true, re: re, reErr: eerr, view: func() string { return jsonView(cd) }}
	}})
	uv := func(name string, lb params.LookBackType, set func(h *types.Header, b []byte)) *codec {
		return &codec{name: name, caller: "ucon.ExtractUconValidators (consensus/ucon/ucon_validators.go:84)", dec: func(b []byte) decoded {
			h := &types.Header{}
			set(h, b)
			v, err := ucon.ExtractUconValidators(h, lb)
			if err != nil {
				return rej(err)
			}
			if v == nil {
				return decoded{accepted: true, reErr: fmt.Errorf("ExtractUconValidators returned (nil, nil)"), view: func() string { return "nil" }}
			}
			re, eerr := v.ValidatorsToByte()
			return decoded{accepted: true, re: re, reErr: eerr, view: func() string { return jsonView(v) }}
		}}
	}
	add(uv("vote-container", params.LookBackStake, func(h *types.Header, b []byte) { h.Validator = b }))
	add(uv("certificate-container", params.LookBackCert, func(h *types.Header, b []byte) { h.Certificate = b }))

	byName = map[string]*codec{}
	for _, c := range list {
		if byName[c.name] != nil {
			panic("duplicate codec " + c.name)
		}
		byName[c.name] = c
	}
	return list, byName
}

var codecList, codecs = buildCodecs()

var _ = big.NewInt
