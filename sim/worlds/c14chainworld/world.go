package c14chainworld

import (
	"bytes"
	"encoding/hex"
	"fmt"
	"runtime"
	"runtime/debug"
	"strings"

	"verifsim/kit"
	"verifsim/simdisk"
	"verifsim/worlds/chainkit"
	"verifsim/worlds/stakechainworld"

	"github.com/youchainhq/go-youchain/common"
	"github.com/youchainhq/go-youchain/core"
	"github.com/youchainhq/go-youchain/core/rawdb"
	"github.com/youchainhq/go-youchain/core/state"
	"github.com/youchainhq/go-youchain/core/types"
	"github.com/youchainhq/go-youchain/local"
	"github.com/youchainhq/go-youchain/rlp"
	"github.com/youchainhq/go-youchain/trie"
)

var (
	emptyRoot = common.HexToHash("56e81f171bcc55a6ff8345e692c0f86e5b48e01b996cadc001622fb5e363b421")
	inRepo    = kit.PanicInRepo("in-repo")
)

const (
	maxSamplesPerType = 160
	allocLimit        = 64 << 20 // a decode of an input below 1 MiB must stay below this
	inputLimit        = 1 << 20
)

// stakingTx is a real staking-module transaction of the history with the client that sent it.
type stakingTx struct {
	tx   *types.Transaction
	from int
}

type world struct {
	r *kit.Run
	c *kit.Chooser
	h *stakechainworld.History

	seen       map[string]struct{} // typ \x00 bytes: records already checked on the emit side
	seenAccept map[string]struct{}
	pool       map[string][][]byte // real encodings per type: the corpus of the corrupter
	reached    map[string]bool
	roots      map[common.Hash]bool // state roots / storage roots already enumerated

	prevDisk, curDisk *simdisk.Disk // images of the builder's disk after the last but one / the last block
	checked           int           // blocks checked so far
	slashBlocks       []*types.Block
	stakingTxs        []stakingTx
	tail              string // appended to the detail of a reported panic (the bytes involved)
}

func newWorld(r *kit.Run) *world {
	return &world{r: r, c: r.C, seen: map[string]struct{}{}, seenAccept: map[string]struct{}{}, pool: map[string][][]byte{},
		reached: map[string]bool{}, roots: map[common.Hash]bool{}}
}

// ---- panic containment for direct decoder calls ----

func trimStack(st string) string {
	if i := strings.Index(st, "\npanic("); i >= 0 {
		rest := st[i+1:]
		for k := 0; k < 2; k++ {
			if j := strings.IndexByte(rest, '\n'); j >= 0 {
				rest = rest[j+1:]
			}
		}
		return rest
	}
	return st
}

// guard runs f and returns a panic of f with the stack of the panicking frames.
func guard(f func()) (pv interface{}, stack string) {
	defer func() {
		if v := recover(); v != nil {
			pv, stack = v, trimStack(string(debug.Stack()))
		}
	}()
	f()
	return nil, ""
}

func repoFrames(stack string) string {
	var out []string
	for _, ln := range strings.Split(stack, "\n") {
		ln = strings.TrimSpace(ln)
		if j := strings.Index(ln, "/repo/"); j >= 0 && !strings.Contains(ln, "/verif/") {
			if i := strings.Index(ln, " +0x"); i > 0 {
				ln = ln[:i]
			}
			out = append(out, ln[j+len("/repo/"):])
			if len(out) >= 6 {
				break
			}
		}
	}
	return strings.Join(out, " < ")
}

// repoFunc names the function of the repository in which a panic happened (the first frame of
// the panicking stack that lies in the repository), without the module path and arguments.
func repoFunc(stack string) string {
	lines := strings.Split(stack, "\n")
	for i := 1; i < len(lines); i++ {
		ln := strings.TrimSpace(lines[i])
		if strings.HasPrefix(ln, "/") && strings.Contains(ln, "/repo/") && !strings.Contains(ln, "/verif/") {
			fn := strings.TrimSpace(lines[i-1])
			if j := strings.LastIndex(fn, "("); j > 0 {
				fn = fn[:j]
			}
			fn = strings.TrimPrefix(fn, "github.com/youchainhq/go-youchain/")
			if j := strings.LastIndex(fn, "/"); j >= 0 {
				fn = fn[j+1:]
			}
			return fn
		}
	}
	return "unknown"
}

// panicked turns a caught panic into a violation when it happened in code of the repository;
// anything else is harness trouble and is raised again.
func (w *world) panicked(class string, pv interface{}, stack string, format string, a ...interface{}) {
	if inRepo(pv, stack) == "" {
		panic(fmt.Sprintf("c14chainworld: harness panic (%s): %v\n%s", class, pv, stack))
	}
	for _, fam := range []string{"rejected-record-panic:", "accepted-record-panic:", "restart-panic:"} {
		if strings.HasPrefix(class, fam) {
			// Diagnostic, not a violation: a node that panics while READING ITS OWN DATABASE after a
			// stored record was corrupted is outside what C14 states (decoders never panic; the
			// consensus/sync MESSAGE handlers reject rather than crash). In every case seen the
			// record's decoder behaved (refused, or accepted a well-formed record holding another
			// value) and the panic is the reader's deliberate or accidental reaction to a corrupt
			// local database (state_object.go loadDelegations panics by design; statedb_val.go
			// GetValidatorsForUpdate tests a nil *Validator through an interface; getWithdrawQueue
			// returns a half-decoded queue). Counted per class so that the numbers stay visible.
			w.r.Probe("diag." + class)
			w.r.Logf("  note (outside C14's statement): %s: panic: %v | %s", fmt.Sprintf(format, a...), pv, repoFrames(stack))
			return
		}
	}
	w.r.Report(class, "%s: panic: %v | %s%s", fmt.Sprintf(format, a...), pv, repoFrames(stack), w.tail)
}

func hx(b []byte) string {
	if len(b) <= 600 {
		return hex.EncodeToString(b)
	}
	return fmt.Sprintf("%s…(%d bytes)", hex.EncodeToString(b[:600]), len(b))
}

func firstDiff(a, b []byte) int {
	for i := 0; i < len(a) && i < len(b); i++ {
		if a[i] != b[i] {
			return i
		}
	}
	return min(len(a), len(b))
}

// decode calls the real decoder of typ on b with panic containment and, when measure is set,
// with the allocation measured around the call.
func (w *world) decode(c *codec, b []byte, measure bool, how string) (d decoded, ok bool) {
	var m0, m1 runtime.MemStats
	if measure {
		runtime.ReadMemStats(&m0)
	}
	pv, stack := guard(func() { d = c.dec(b) })
	if measure {
		runtime.ReadMemStats(&m1)
		if grew := m1.TotalAlloc - m0.TotalAlloc; grew > allocLimit && len(b) < inputLimit {
			w.r.Report("decoder-allocation:"+c.name, "decoding a %d-byte %s (%s) allocated %d bytes | input %s", len(b), c.name, how, grew, hx(b))
		}
	}
	if pv != nil {
		w.panicked("decoder-panic:"+c.name, pv, stack, "the decoder of %s [%s] on %s bytes %s", c.name, c.caller, how, hx(b))
		return d, false
	}
	return d, true
}

func (w *world) render(c *codec, d decoded, how string) (string, bool) {
	if d.view == nil {
		return "", true
	}
	var s string
	pv, stack := guard(func() { s = d.view() })
	if pv != nil {
		w.panicked("accepted-value-panics:"+c.name, pv, stack, "rendering (JSON/Dump) a %s value the decoder accepted from %s bytes", c.name, how)
		return "", false
	}
	return s, true
}

func (w *world) addSample(typ string, b []byte) {
	if typ == "storage-slot" {
		return // not a record type of the property; its reader documents leniency (GetCommittedState keeps the last 32 bytes)
	}
	if len(w.pool[typ]) < maxSamplesPerType {
		w.pool[typ] = append(w.pool[typ], append([]byte(nil), b...))
	}
}

// emit is the EMIT-SIDE oracle for one byte string the real code produced (stored on the
// simulated disk, or the encoding of an object of the chain): the real decoder accepts it, the
// real encoder gives back exactly those bytes, and decode(encode(v)) renders like v.
func (w *world) emit(typ string, data []byte, where string) {
	c := codecs[typ]
	if c == nil {
		panic("c14chainworld: no codec " + typ)
	}
	key := typ + "\x00" + string(data)
	if _, dup := w.seen[key]; dup {
		return
	}
	w.seen[key] = struct{}{}
	w.r.Count("emit."+typ, 1)
	if !w.reached[typ] {
		w.reached[typ] = true
		w.r.Probe("emit:" + typ)
	}
	w.addSample(typ, data)
	d, ok := w.decode(c, data, false, "emitted ("+where+")")
	if !ok {
		return
	}
	if !d.accepted && userSupplied(typ) {
		// the data field of a transaction is whatever its sender put there (the generator sends
		// garbage and mismatched payloads too): the node included the transaction and its handler
		// refused the message; nothing was emitted by the node's encoder
		w.r.Count("emit-user-payload-refused."+typ, 1)
		return
	}
	if !d.accepted {
		w.r.Report("emit-undecodable:"+typ, "%s: a %s produced by the node is refused by its own decoder [%s]: %v | bytes %s", where, typ, c.caller, d.err, hx(data))
		return
	}
	if d.reErr != nil {
		w.r.Report("emit-unencodable:"+typ, "%s: a %s decoded from the node's own bytes cannot be encoded again: %v | bytes %s", where, typ, d.reErr, hx(data))
		return
	}
	if !bytes.Equal(d.re, data) {
		w.r.Report("emit-not-canonical:"+typ, "%s: a %s produced by the node decodes [%s] and re-encodes to different bytes (first difference at offset %d of %d/%d) | emitted %s | re-encoded %s",
			where, typ, c.caller, firstDiff(d.re, data), len(data), len(d.re), hx(data), hx(d.re))
		return
	}
	// value level: decode(encode(v)) is v, seen through a serialisation that is not rlp
	if v1, ok := w.render(c, d, "emitted"); ok && v1 != "" {
		if d2, ok := w.decode(c, d.re, false, "re-encoded"); ok && d2.accepted {
			if v2, ok := w.render(c, d2, "re-encoded"); ok && v1 != v2 {
				w.r.Report("roundtrip-mismatch:"+typ, "%s: a %s decoded from its own encoding is a different value: %s vs %s", where, typ, clip(v1, 700), clip(v2, 700))
			}
		}
	}
	for _, n := range d.nested {
		w.emit(n.typ, n.data, where+" > "+n.typ)
	}
}

// item is one node of an RLP tree (for comparing what went in with what comes out).
type item struct {
	list bool
	str  []byte
	kids []*item
}

func parseItems(b []byte, depth int) (items []*item, ok bool) {
	for len(b) > 0 {
		kind, content, rest, err := rlp.Split(b)
		if err != nil || depth > 12 {
			return nil, false
		}
		it := &item{}
		if kind == rlp.List {
			it.list = true
			if it.kids, ok = parseItems(content, depth+1); !ok {
				return nil, false
			}
		} else {
			it.str = content
		}
		items = append(items, it)
		b = rest
	}
	return items, true
}

// sameTree compares two RLP trees: "" if shape and contents agree, else "arity" (a list has a
// different number of elements, or a list stands where a string stands) or "content" (same
// shape, a string differs).
func sameTree(a, b *item) string {
	if a.list != b.list || len(a.kids) != len(b.kids) {
		return "arity"
	}
	if !a.list {
		if !bytes.Equal(a.str, b.str) {
			return "content"
		}
		return ""
	}
	res := ""
	for i := range a.kids {
		switch sameTree(a.kids[i], b.kids[i]) {
		case "arity":
			return "arity"
		case "content":
			res = "content"
		}
	}
	return res
}

// family names HOW an accepted input differs from its re-encoding, so that the class of an
// accepted non-canonical input names the kind of leniency (one record type can have several):
// trailing-bytes (the re-encoding is a prefix of the input: bytes behind the value are ignored),
// encoding (the same RLP tree in a non-minimal encoding), arity (list elements are ignored or
// merged), content (a field's bytes are normalised or lost), malformed (the input is not one
// well-formed RLP item at all).
func family(in, out []byte) string {
	if len(out) < len(in) && bytes.Equal(in[:len(out)], out) {
		return "trailing-bytes"
	}
	a, ok1 := parseItems(in, 0)
	b, ok2 := parseItems(out, 0)
	if !ok1 || !ok2 || len(a) != 1 || len(b) != 1 {
		return "malformed"
	}
	if d := sameTree(a[0], b[0]); d != "" {
		return d
	}
	return "encoding"
}

// userSupplied reports whether byte strings of the type are chosen by a transaction's sender
// rather than produced by the node's own encoder.
func userSupplied(typ string) bool {
	return typ == "staking-message" || strings.HasPrefix(typ, "staking-payload:")
}

func clip(s string, n int) string {
	if len(s) <= n {
		return s
	}
	return s[:n] + "…"
}

// corrupt is the ACCEPT-SIDE oracle for one corrupted byte string: the real decoder of the
// record type must not panic, must not allocate wildly, and whatever it accepts must re-encode
// to exactly the corrupted bytes.
func (w *world) corrupt(typ string, orig, mut []byte, label string) (accepted bool) {
	w.r.Fault(label + "@" + typ)
	return w.accept(typ, orig, mut, label)
}

func (w *world) accept(typ string, orig, mut []byte, label string) (accepted bool) {
	c := codecs[typ]
	w.r.Count("corrupt."+typ, 1)
	key := typ + "\x00" + string(mut)
	if _, dup := w.seenAccept[key]; dup {
		return false
	}
	w.seenAccept[key] = struct{}{}
	d, ok := w.decode(c, mut, true, "corrupted ("+label+")")
	if !ok {
		return false
	}
	if !d.accepted {
		w.r.Count("corrupt-rejected."+typ, 1)
		return false
	}
	w.r.Probe("corrupt-accepted:" + typ)
	if orig != nil && bytes.Equal(mut, orig) {
		w.r.Count("corrupt-unchanged."+typ, 1)
		return true // the corrupter returned the input unchanged
	}
	if d.reErr != nil {
		w.r.Report("accepted-unencodable:"+typ, "a corrupted %s (%s) is accepted by [%s] but the value cannot be encoded: %v | original %s | corrupted %s", typ, label, c.caller, d.reErr, hx(orig), hx(mut))
		return true
	}
	if !bytes.Equal(d.re, mut) {
		w.r.Report("accepted-noncanonical:"+typ+":"+family(mut, d.re), "a corrupted %s (%s) is ACCEPTED by [%s] but re-encodes to different bytes (first difference at offset %d; %d bytes in, %d bytes out) | original %s | corrupted %s | re-encoded %s",
			typ, label, c.caller, firstDiff(d.re, mut), len(mut), len(d.re), hx(orig), hx(mut), hx(d.re))
		w.r.Logf("  accepted-noncanonical %s %s", typ, label)
		return true
	}
	w.r.Probe("corrupt-accepted-canonically:" + typ)
	w.render(c, d, "corrupted ("+label+")")
	for _, n := range d.nested {
		// the typed byte strings inside an accepted container go to their own decoder, as the
		// node's handlers do
		w.accept(n.typ, nil, n.data, label+" inside "+typ)
	}
	return true
}

// ---- per block: chain objects, stored records, state ----

func (w *world) chain() *core.BlockChain { return w.h.Builder.Chain }

func (w *world) get(disk *simdisk.Disk, key []byte, what string) []byte {
	v, err := disk.Get(key)
	if err != nil || len(v) == 0 {
		w.r.Report("emit-missing-record:"+what, "the builder's disk has no %s record under key %x", what, key)
		return nil
	}
	return v
}

func (w *world) onBuilt(h *stakechainworld.History, n int, blk *types.Block) {
	w.h = h
	w.checkBlock(blk)
	w.prevDisk, w.curDisk = w.curDisk, h.Builder.Disk.Restart()
}

func mustEnc(v interface{}) []byte {
	b, err := rlp.EncodeToBytes(v)
	if err != nil {
		panic(fmt.Sprintf("c14chainworld: encode %T: %v", v, err))
	}
	return b
}

func (w *world) checkBlock(blk *types.Block) {
	r, disk := w.r, w.h.Builder.Disk
	hash, num := blk.Hash(), blk.NumberU64()
	where := fmt.Sprintf("block %d", num)
	w.checked++
	r.Steps++

	// stored records of the block
	if raw := w.get(disk, headerKey(num, hash), "disk-header"); raw != nil {
		w.emit("disk-header", raw, where+" header record")
	}
	if raw := w.get(disk, bodyKey(num, hash), "disk-body"); raw != nil {
		w.emit("disk-body", raw, where+" body record")
	}
	if raw := w.get(disk, receiptsKey(num, hash), "disk-receipts"); raw != nil {
		w.emit("disk-receipts", raw, where+" receipts record")
	}
	signer := chainkit.Signer()
	for i, tx := range blk.Transactions() {
		if raw := w.get(disk, lookupKey(tx.Hash()), "tx-lookup"); raw != nil {
			w.emit("tx-lookup", raw, fmt.Sprintf("%s tx %d lookup record", where, i))
			bh, bn, bi := rawdb.ReadTxLookupEntry(disk, tx.Hash())
			if bh != hash || bn != num || bi != uint64(i) {
				r.Report("roundtrip-mismatch:tx-lookup", "%s tx %d: the stored lookup entry reads back as (%x, %d, %d), written for (%x, %d, %d)", where, i, bh[:4], bn, bi, hash[:4], num, i)
			}
		}
		if to := tx.To(); to != nil && *to == stakingAddr {
			if from, err := types.Sender(signer, tx); err == nil {
				for ci := 0; ci < w.h.NClients(); ci++ {
					if w.clientAddr(ci) == from {
						w.stakingTxs = append(w.stakingTxs, stakingTx{tx, ci})
					}
				}
			}
		}
	}

	// the in-memory objects of the builder in their wire forms
	w.emit("block", mustEnc(blk), where+" wire form")
	w.emit("header", mustEnc(blk.Header()), where+" header wire form")
	for i, tx := range blk.Transactions() {
		w.emit("transaction", mustEnc(tx), fmt.Sprintf("%s tx %d wire form", where, i))
	}

	// in-memory value against what the stored records decode to
	if stored := rawdb.ReadBlock(disk, hash, num); stored == nil {
		r.Report("emit-undecodable:disk-block", "%s: rawdb.ReadBlock returns nil for the block the builder just wrote", where)
	} else {
		if stored.Hash() != hash {
			r.Report("hash-mismatch:block", "%s: the stored block hashes to %x, the built block to %x", where, stored.Hash(), hash)
		}
		if a, b := headerView(blk.Header()), headerView(stored.Header()); a != b {
			r.Report("roundtrip-mismatch:disk-header", "%s: built header %s, stored header reads back as %s", where, clip(a, 800), clip(b, 800))
		}
		if a, b := txsView(blk.Transactions()), txsView(stored.Transactions()); a != b {
			r.Report("roundtrip-mismatch:disk-body", "%s: built transactions %s, stored body reads back as %s", where, clip(a, 800), clip(b, 800))
		}
		// one encoding, one hash: the decoded copy of the wire form hashes like the original
		var back types.Block
		if err := rlp.DecodeBytes(mustEnc(blk), &back); err == nil {
			if back.Hash() != hash {
				r.Report("hash-mismatch:block", "%s: decode(encode(block)) hashes to %x, the block to %x", where, back.Hash(), hash)
			}
			for i, tx := range back.Transactions() {
				if tx.Hash() != blk.Transactions()[i].Hash() {
					r.Report("hash-mismatch:transaction", "%s tx %d: decode(encode(tx)) hashes to %x, the transaction to %x", where, i, tx.Hash(), blk.Transactions()[i].Hash())
				}
			}
		}
	}

	// receipts: consensus form of every stored receipt, the receipt root, and the receipts an
	// execution of the block produces in memory against what storage gives back
	stored := rawdb.ReadReceipts(disk, hash, num)
	for i, rc := range stored {
		w.emit("receipt", mustEnc(rc), fmt.Sprintf("%s receipt %d consensus form", where, i))
		if len(rc.Logs) > 0 && !w.reached["receipt-with-logs"] {
			w.reached["receipt-with-logs"] = true
			r.Probe("emit:receipt-with-logs")
		}
	}
	if len(stored) > 0 {
		if got := types.DeriveSha(stored); got != blk.ReceiptHash() {
			r.Report("hash-mismatch:receipts", "%s: the stored receipts hash to %x, the header commits to %x", where, got, blk.ReceiptHash())
		}
		w.reexecReceipts(blk, stored, where)
	}

	if len(blk.Header().SlashData) > 0 {
		w.slashBlocks = append(w.slashBlocks, blk)
	}
	w.scanState(blk.Header(), where)
}

func (w *world) clientAddr(i int) common.Address {
	return chainkitAddr(w.h.ClientKey(i))
}

// reexecReceipts executes the block on its parent state the way insertChain does
// (core/blockchain.go: StakingRootForNewBlock, StateAt, Processor.Process) and compares the
// receipts produced in memory with the stored ones, on the fields the storage form keeps.
func (w *world) reexecReceipts(blk *types.Block, stored types.Receipts, where string) {
	chain := w.chain()
	parent := chain.GetBlock(blk.ParentHash(), blk.NumberU64()-1)
	if parent == nil {
		return
	}
	yp, err := chain.VersionForRound(blk.NumberU64())
	if err != nil {
		return
	}
	st, err := chain.StateAt(parent.Root(), parent.ValRoot(), core.StakingRootForNewBlock(yp.StakingTrieFrequency, parent.Header()))
	if err != nil {
		return
	}
	var res *types.ProcessResult
	var perr error
	ok, bp := w.h.Do(func() {
		res, perr = chain.Processor().Process(yp, blk, st, *chain.GetVMConfig(), local.FakeRecorder())
	})
	if bp != nil {
		panic(bp) // executing an honest block panics: not this check's fault model (C06); surfaces through PanicClass
	}
	if !ok || perr != nil || res == nil {
		w.r.Probe("re-execution-failed")
		w.r.Logf("  %s: re-execution for in-memory receipts failed: ok=%v err=%v", where, ok, perr)
		return
	}
	w.r.Count("emit.receipts-in-memory", int64(len(res.Recs)))
	if a, b := storedReceiptView(res.Recs), storedReceiptView(stored); a != b {
		w.r.Report("roundtrip-mismatch:disk-receipts", "%s: the receipts an execution of the block produces differ from what the stored record decodes to (stored fields only) | in memory %s | from storage %s", where, clip(a, 900), clip(b, 900))
	}
}

// scanState enumerates every leaf of the three tries of one block's post-state plus the
// storage tries and delegation blobs hanging off the accounts, raw (state.Database by root).
func (w *world) scanState(hdr *types.Header, where string) {
	r := w.r
	st, err := w.chain().StateAt(hdr.Root, hdr.ValRoot, hdr.StakingRoot)
	if err != nil {
		r.Report("emit-state-unreadable", "%s: %v", where, err)
		return
	}
	db := st.Database()
	iter := func(name string, root common.Hash, f func(t state.Trie, k, v []byte)) {
		if w.roots[root] {
			return
		}
		w.roots[root] = true
		t, err := db.OpenTrie(root)
		if err != nil {
			r.Report("emit-state-unreadable", "%s: open %s trie %x: %v", where, name, root[:4], err)
			return
		}
		it := trie.NewIterator(t.NodeIterator(nil))
		for it.Next() {
			f(t, it.Key, append([]byte(nil), it.Value...))
		}
		if it.Err != nil {
			r.Report("emit-state-unreadable", "%s: iterate %s trie: %v", where, name, it.Err)
		}
	}
	iter("account", hdr.Root, func(_ state.Trie, k, v []byte) {
		w.emit("account", v, fmt.Sprintf("%s account leaf %x", where, k[:4]))
		var acc state.Account
		if rlp.DecodeBytes(v, &acc) != nil {
			return
		}
		if acc.Root != emptyRoot && acc.Root != (common.Hash{}) && !w.roots[acc.Root] {
			w.roots[acc.Root] = true
			if stt, err := db.OpenStorageTrie(common.BytesToHash(k), acc.Root); err == nil {
				sit := trie.NewIterator(stt.NodeIterator(nil))
				for sit.Next() {
					w.emit("storage-slot", append([]byte(nil), sit.Value...), fmt.Sprintf("%s storage of %x", where, k[:4]))
				}
			}
		}
		if len(acc.DelegationsHash) > 0 {
			if blob, err := db.DelegationBytes(common.BytesToHash(acc.DelegationsHash)); err == nil {
				w.emit("delegations-blob", blob, fmt.Sprintf("%s delegation list of %x", where, k[:4]))
			} else {
				r.Report("emit-missing-record:delegations-blob", "%s: delegation blob %x of account %x: %v", where, acc.DelegationsHash, k[:4], err)
			}
		}
	})
	iter("validator", hdr.ValRoot, func(_ state.Trie, k, v []byte) {
		loc := fmt.Sprintf("%s validator-trie leaf %x", where, k[:4])
		switch {
		case bytes.HasPrefix(v, pfxVal):
			w.emit("validator", v[len(pfxVal):], loc)
		case bytes.HasPrefix(v, pfxIndex):
			w.emit("validator-index", v[len(pfxIndex):], loc)
		case bytes.HasPrefix(v, pfxStat):
			w.emit("validators-stat", v[len(pfxStat):], loc)
		case bytes.HasPrefix(v, pfxQueue):
			w.emit("withdraw-queue", v[len(pfxQueue):], loc)
			var q state.WithdrawQueue
			if rlp.DecodeBytes(v[len(pfxQueue):], &q) == nil && len(q.Records) > 0 && !w.reached["withdraw-queue-nonempty"] {
				w.reached["withdraw-queue-nonempty"] = true
				r.Probe("emit:withdraw-queue-nonempty")
			}
		default:
			r.Report("emit-unknown-record:validator-trie", "%s: leaf with an unknown prefix: %s", loc, hx(v))
		}
	})
	iter("staking", hdr.StakingRoot, func(t state.Trie, k, v []byte) {
		loc := fmt.Sprintf("%s staking-trie leaf %x", where, k[:4])
		if bytes.HasPrefix(v, pfxPending) {
			w.emit("pending-relationship", v[len(pfxPending):], loc)
			return
		}
		w.emit("staking-record", v, loc)
	})
}

// scanDisk classifies every key of the builder's disk by the layout of core/rawdb/schema.go and
// checks the typed records that were not reached through the chain (none are expected).
func (w *world) scanDisk() {
	disk := w.h.Builder.Disk
	for _, k := range disk.Keys() {
		v, _ := disk.Get([]byte(k))
		switch {
		case len(k) == 41 && k[0] == 'h':
			w.r.Count("disk.header", 1)
			w.emit("disk-header", v, "disk scan")
		case len(k) == 41 && k[0] == 'b':
			w.r.Count("disk.body", 1)
			w.emit("disk-body", v, "disk scan")
		case len(k) == 41 && k[0] == 'r':
			w.r.Count("disk.receipts", 1)
			w.emit("disk-receipts", v, "disk scan")
		case len(k) == 33 && k[0] == 'l':
			w.r.Count("disk.tx-lookup", 1)
			w.emit("tx-lookup", v, "disk scan")
		case len(k) == 23 && k[0] == 'v':
			w.r.Count("disk.vote-db-record", 1)
			w.emit("vote-db-record", v, "disk scan")
		case len(k) == 10 && k[0] == 'h' && k[9] == 'n', len(k) == 33 && k[0] == 'H':
			w.r.Count("disk.fixed-width-index", 1) // canonical hash / number index: raw 32 / 8 bytes, no codec
		case len(k) == 32:
			w.r.Count("disk.hash-keyed", 1) // trie nodes, code, delegation blobs (reached through the tries)
		case strings.HasPrefix(k, "secure-key-"):
			w.r.Count("disk.preimage", 1)
		default:
			w.r.Count("disk.other", 1)
		}
	}
}
