// Package c14chainworld is the second part of the check of C14 (RLP encoding is canonical,
// round-trips, and decoding hostile bytes is safe): the DISK and CHAIN seams, with values
// produced by real histories. The first part (worlds/networld/c14.go) covers the consensus
// wire of the NET world.
//
// One run = one history of the staking-chain simulation (worlds/stakechainworld: real
// miner.worker/TxPool/staking over the forge engine; transfers, contracts, every staking
// action, delegations, evidences, penalties, withdraw queue activity) followed by
//   - the EMIT-SIDE oracle over every typed record the real code wrote to the simulated disk
//     and every object of the chain (world.go), and
//   - the ACCEPT-SIDE oracle under corruption (handlers.go): the real typed decoders, the
//     staking handlers behind the state processor, the slash-data replay path and a restart of
//     a verifying node on a disk image with one corrupted record.
package c14chainworld

import (
	"time"

	"verifsim/kit"
	"verifsim/worlds/stakechainworld"

	"github.com/youchainhq/go-youchain/logging"
)

func init() {
	logging.Root().SetHandler(logging.DiscardHandler())

	var probes []string
	for _, c := range codecList {
		// every record type of the table is listed: a type the histories never produce shows up
		// under probes_never_hit instead of being skipped silently
		probes = append(probes, "emit:"+c.name)
	}
	probes = append(probes, "emit:receipt-with-logs", "emit:withdraw-queue-nonempty")
	for _, t := range []string{"header", "block", "transaction", "receipt", "disk-header", "disk-body", "disk-receipts", "tx-lookup", "account", "validator",
		"validators-stat", "validator-index", "withdraw-queue", "staking-record", "delegations-blob", "staking-message", "slash-data", "evidence:doublesign-v5",
		"consensus-data", "vote-container"} {
		probes = append(probes, "corrupt-accepted:"+t)
	}
	probes = append(probes, "corrupted-staking-message-applied", "hostile-message-applied-in-block", "block-with-corrupted-slash-data-accepted")

	kit.Register(&kit.Check{
		Prop: "C14", Name: "chain-seams", World: "CHAIN", Level: "exploration",
		Rule: "one run = a seeded history of 20-40 blocks (thorough 30-65) of the staking-chain simulation (generator of C06/C07: transfers, contract creations/calls, every staking action valid and invalid, delegations, double-sign evidences, penalties, withdraw queue, scaled staking periods), then: " +
			"O1 EMIT SIDE, fault-free: every typed record on the builder's simulated disk (header, body, receipts in storage form, tx lookup entries) and every object of the chain (block/header/transaction wire form, receipts in consensus form, every staking message and its typed payload per action, slash data and every evidence in it, header consensus data and vote/certificate containers, slash log data) and every leaf of the account, validator and staking tries of EVERY block's post-state (accounts, validator records, statistics, validator index, withdraw queue, staking records, pending relationships), storage slots and delegation blobs is decoded with the node's own typed decoder (called like the cited production caller) and re-encoded with the node's encoder: bytes identical, decode(encode(v)) renders identically through JSON/Dump, stored block/receipts equal the in-memory block and the receipts of a re-execution on the stored fields, one hash per object; " +
			"O2 ACCEPT SIDE, the fault: real encodings corrupted by networld.Mutate (bit flips, truncation, extension, size-field attacks up to 2^63, non-canonical encodings, canonical encodings of the wrong shape) or, one time in six, by a value shift of a small-integer field (flag/status/role/action: the canonical encoding of a slightly different value) go to the real typed decoder of their record type: no panic (decoder-panic:<type>), no allocation above 64 MiB for inputs below 1 MiB (decoder-allocation:<type>), and whatever is accepted re-encodes to exactly the corrupted bytes (accepted-noncanonical:<type>:<how the re-encoding differs: trailing-bytes|encoding|arity|content|malformed>; nested typed payloads of accepted containers are followed); " +
			"O3 handlers: corrupted staking messages signed by the real sender through StateProcessor.ApplyTransaction on a scratch state, corrupted messages whose payload still decodes submitted to the real pool and built into blocks until the staking period has ended (take-effect path), blocks with corrupted slash data / evidence blobs through Processor.Process + ValidateState, and restarts of a verifying node (chainkit.NewImporter) on the disk image of the last block but one with ONE corrupted record (chain record or trie leaf value inside a well-formed node or delegation blob) followed by the read accessors and the import of the last block: refusals (error, nil, logging.Crit) are fine, a panic is a violation (handler-panic:*, restart-panic:<type>, rejected-record-panic:<type> when the record's own decoder refuses the corrupted bytes, accepted-record-panic:<type> when it accepts them and the node computes on a well-formed record of a different value; a panic on the worker's goroutine is kit's process-crash:<function>). " +
			"Non-trivial = at least one corrupted record reached a decoder.",
		Real: []string{"rlp", "core/types codecs (Header, Block, Transaction, Receipt, ReceiptForStorage, Log)", "core/rawdb accessors and record layout", "core/state codecs (Account, Validator, ValidatorsStat, ValidatorIndex, WithdrawQueue, Record, pending relationships, delegation lists)",
			"staking.Message and the typed Tx* payloads, staking.Evidence/EvidenceDoubleSignV5/SlashDataV5", "staking.TxConverter and handlers behind core.StateProcessor.ApplyTransaction, take-effect at the period end", "staking.replaySlashing behind Processor.Process, BlockValidator.ValidateState",
			"ucon.ExtractConsensusData / ExtractUconValidators", "core.NewBlockChain/loadLastState and the chain/state read accessors on a corrupted image", "the whole staking-chain simulation (see C06/chain)"},
		Stub: []string{"as C06/chain (forge engine for consensus rounds, InsertChain called directly, scaled params.Versions[YouV5])", "a corrupted trie leaf is written as a well-formed leaf node around the corrupted value under the old node hash (the trie database does not re-hash nodes it reads)",
			"pending-relationship records are decoded into the exported shape of their unexported type"},
		FaultsNotInjected: []string{"corruption of trie node structure (branch/extension/leaf encoding itself): C13/C19's subject; the trie panics by design on an undecodable node",
			"values the histories never produce (legacy double-sign evidence, inactivity evidence, certificate votes, VoteDB records of a voting engine: listed as never-hit probes; the NET part covers vote records)",
			"more than one corrupted record per restart"},
		Assumptions: []string{"narrow, honest claim as in the NET part: a simulator explores the records real histories produce and mutations of them, not the codec's whole input space",
			"storage form of receipts is lossy by design (derived fields BlockHash/BlockNumber/TransactionIndex and Log.Removed are not stored): value comparison on the stored fields only",
			"storage slots are emit-side only (their reader documents leniency: the last 32 bytes of whatever the slot holds)"},
		QuickBudget: 40 * time.Second, ThoroughBudget: 10 * time.Minute, MinRuns: 8,
		Exec:           runChainSeams,
		ExpectedProbes: probes,
		PanicClass:     kit.PanicInRepo("decoder-panic"),
	})
}

func runChainSeams(r *kit.Run) {
	w := newWorld(r)
	bias := r.C.Intn("generator-bias", 2)
	stakechainworld.RunHistory(r, bias, 20, 40, w.onBuilt, w.atEnd)
}
