package c14chainworld

import (
	"bytes"
	"crypto/ecdsa"
	"encoding/hex"
	"fmt"
	"math/big"
	"strings"

	"verifsim/kit"
	"verifsim/simdisk"
	"verifsim/worlds/chainkit"
	"verifsim/worlds/stakechainworld"

	"github.com/youchainhq/go-youchain/common"
	"github.com/youchainhq/go-youchain/core"
	"github.com/youchainhq/go-youchain/core/rawdb"
	"github.com/youchainhq/go-youchain/core/state"
	"github.com/youchainhq/go-youchain/core/types"
	"github.com/youchainhq/go-youchain/crypto"
	"github.com/youchainhq/go-youchain/local"
	"github.com/youchainhq/go-youchain/rlp"
	"github.com/youchainhq/go-youchain/staking"
	"github.com/youchainhq/go-youchain/trie"
)

func chainkitAddr(k *ecdsa.PrivateKey) common.Address { return crypto.PubkeyToAddress(k.PublicKey) }

const gasHostile = 1600000 // enough for a validator creation (stakechainworld gasCreate)

func (w *world) thorough() bool { return w.r.Tier == "thorough" }

func (w *world) atEnd(h *stakechainworld.History) {
	w.h = h
	r := w.r
	if len(h.Blocks) == 0 {
		r.Probe("no-block-built")
		return
	}
	r.Logf("== history of %d blocks; emit side reached %d record types", len(h.Blocks), len(w.reached))
	w.corruptDecoders()
	w.hostileMessagesInBlocks()
	w.scanDisk()
	if im, _ := w.openNode(h.Builder.Disk.Restart(), "none", "verifying node on a copy of the builder's disk"); im != nil {
		alive := w.hostileStakingTxs(im)
		alive = alive && w.corruptedSlashData(im)
		w.closeNode(im, alive)
	}
	w.restartsOnCorruptedDisk()
	w.summary()
}

func (w *world) summary() {
	var names []string
	for _, c := range codecList {
		if w.reached[c.name] {
			names = append(names, fmt.Sprintf("%s=%d", c.name, w.r.Stats["emit."+c.name]))
		}
	}
	w.r.Logf("== emit side: %s", strings.Join(names, " "))
}

// ---- ACCEPT SIDE 1: the typed decoders on corrupted copies of real records ----

func (w *world) poolTypes() (ts []string) {
	for _, c := range codecList {
		if len(w.pool[c.name]) > 0 {
			ts = append(ts, c.name)
		}
	}
	return ts
}

func (w *world) corruptDecoders() {
	ts := w.poolTypes()
	if len(ts) == 0 {
		return
	}
	n := 260
	if w.thorough() {
		n = 900
	}
	for i := 0; i < n; i++ {
		typ := ts[w.c.Intn("corrupt-type", len(ts))]
		sample := w.pool[typ][w.c.Intn("corrupt-sample", len(w.pool[typ]))]
		mut, label := mutate(w.c, sample)
		acc := w.corrupt(typ, sample, mut, label)
		w.r.Logf("  corrupt %s %s -> accepted=%v", typ, label, acc)
		w.r.FP("corrupt", typ, label, fmt.Sprint(acc))
	}
}

// ---- ACCEPT SIDE 2: corrupted staking messages through the real state processor ----

// openNode opens a verifying full node (chainkit.NewImporter: NewVRFServer, SetupGenesisBlock,
// NewBlockChain, staking module) on disk. A refusal (error, logging.Crit) returns nil.
func (w *world) openNode(disk *simdisk.Disk, typ, what string) (*chainkit.Importer, string) {
	var im *chainkit.Importer
	var err error
	ok, bp := w.h.Do(func() { im, err = chainkit.NewImporter(disk, w.h.Genesis, kit.Wait) })
	switch {
	case bp != nil:
		w.h.Abandon(nil)
		w.panicked("restart-panic:"+typ, bp.Val, bp.Stack, "opening a %s (NewVRFServer/SetupGenesisBlock/NewBlockChain/staking.Start)", what)
		return nil, "open-panic"
	case !ok:
		w.h.Abandon(nil)
		w.r.Logf("  open %s: refused with logging.Crit: %s", what, w.h.LastCrit())
		return nil, "open-crit"
	case err != nil:
		w.h.Abandon(nil)
		w.r.Logf("  open %s: refused: %v", what, err)
		return nil, "open-refused"
	}
	return im, ""
}

func (w *world) closeNode(im *chainkit.Importer, alive bool) {
	if !alive {
		w.h.Abandon(func() { im.Stop(func() {}) })
		return
	}
	if ok, bp := w.h.Do(func() { im.Stop(kit.Wait) }); !ok || bp != nil {
		w.h.Abandon(nil)
	}
}

// hostileStakingTxs sends corrupted staking messages, signed by the sender of the real message
// they were made from, through the real state processor (StateProcessor.ApplyTransaction ->
// ApplyMessageEntry -> staking.TxConverter.ApplyMessage -> handler) on a scratch state opened
// on the node's head, the way miner/worker.go commitTransaction and insertChain apply
// transactions. A refusal or a failed receipt is fine; a panic is a violation.
func (w *world) hostileStakingTxs(im *chainkit.Importer) (alive bool) {
	if len(w.stakingTxs) == 0 {
		return true
	}
	r, c, chain := w.r, w.c, im.Chain
	head := chain.CurrentBlock()
	number := head.NumberU64() + 1
	yp, err := chain.VersionForRound(number)
	if err != nil {
		return true
	}
	vmCfg, err := core.PrepareVMConfig(chain, number, *chain.GetVMConfig())
	if err != nil {
		return true
	}
	signer := chainkit.Signer()
	n := 30
	if w.thorough() {
		n = 90
	}
	for k := 0; k < n; k++ {
		src := w.stakingTxs[c.Intn("hostile-src", len(w.stakingTxs))]
		data, label, name := w.hostileMessage(src.tx.Data())
		if data == nil {
			continue
		}
		accepted := w.corrupt("staking-message", src.tx.Data(), data, label)
		st, err := chain.StateAt(head.Root(), head.ValRoot(), core.StakingRootForNewBlock(yp.StakingTrieFrequency, head.Header()))
		if err != nil {
			r.Logf("  hostile staking tx: head state: %v", err)
			return true
		}
		key := w.h.ClientKey(src.from)
		from := chainkitAddr(key)
		tx, err := types.SignTx(types.NewTransaction(st.GetNonce(from), stakingAddr, new(big.Int), gasHostile, big.NewInt(1), data), signer, key)
		if err != nil {
			panic(err)
		}
		coinbase := head.Coinbase()
		header := &types.Header{ParentHash: head.Hash(), Number: new(big.Int).SetUint64(number), Time: head.Time() + 1, Coinbase: coinbase,
			GasLimit: core.CalcGasLimit(head), GasRewards: new(big.Int), Subsidy: new(big.Int)}
		if err := core.ProcessYouVersionState(head.Header(), header); err != nil {
			return true
		}
		gp := new(core.GasPool).AddGas(header.GasLimit)
		st.Prepare(tx.Hash(), common.Hash{}, 0)
		var rc *types.Receipt
		var aerr error
		ok, bp := w.h.Do(func() {
			rc, _, aerr = chain.Processor().ApplyTransaction(tx, signer, st, chain, header, &coinbase, &header.GasUsed, header.GasRewards, gp, vmCfg, local.FakeRecorder())
			if aerr == nil {
				st.IntermediateRoot(true)
			}
		})
		out := ""
		switch {
		case bp != nil:
			w.panicked("handler-panic:staking-"+name, bp.Val, bp.Stack, "applying a transaction to the staking module whose message was corrupted (%s) through StateProcessor.ApplyTransaction | message %s | made from %s", label, hx(data), hx(src.tx.Data()))
			return false
		case !ok:
			r.Logf("  hostile staking tx %s %s: logging.Crit: %s", name, label, w.h.LastCrit())
			r.Report("handler-crit:staking-"+name, "applying a transaction to the staking module whose message was corrupted (%s) ends the process in logging.Crit: %s | message %s", label, w.h.LastCrit(), hx(data))
			return false
		case aerr != nil:
			out = "refused"
		case rc.Status == types.ReceiptStatusSuccessful:
			out = "applied"
			r.Probe("corrupted-staking-message-applied")
		default:
			out = "failed"
		}
		r.Count("hostile-staking-tx."+out, 1)
		r.Logf("  hostile staking tx %s %s decoder-accepted=%v -> %s", name, label, accepted, out)
		r.FP("hostile", name, label, out)
	}
	return true
}

// hostileMessage makes a corrupted staking message from a real one: the whole message
// corrupted, or its typed payload corrupted and wrapped again into a well-formed message of
// the same action (so that the handler's own decoder sees the corruption).
func (w *world) hostileMessage(real []byte) (data []byte, label, name string) {
	var m staking.Message
	if err := rlp.DecodeBytes(real, &m); err != nil {
		mut, l := mutate(w.c, real)
		return mut, l, "undecodable"
	}
	name = payloadNames[m.Action]
	if name == "" {
		name = "unknown-action"
	}
	if w.c.Chance("hostile-outer", 1, 3) {
		mut, l := mutate(w.c, real)
		return mut, l, name
	}
	mut, l := mutate(w.c, m.Payload)
	return mustEnc(&staking.Message{Action: m.Action, Payload: mut}), l + "+payload", name
}

// hostileMessagesInBlocks puts corrupted staking messages whose typed payload STILL DECODES
// (fields of the wrong length or shape) into real blocks: submitted to the builder's pool,
// included by the real worker, applied by the handlers and taken into effect by the
// end-of-period processing (which decodes the stored transaction again, errors ignored:
// staking/take_effect_handler.go:75-206). A panic on the worker's goroutine kills the process
// (kit reports it as process-crash); the blocks go through the emit-side checks like all others.
func (w *world) hostileMessagesInBlocks() {
	if len(w.stakingTxs) == 0 || w.h.Dead() {
		return
	}
	r, c := w.r, w.c
	var sent []*types.Transaction
	var names []string
	for k := 0; k < 3; k++ {
		src := w.stakingTxs[c.Intn("deep-src", len(w.stakingTxs))]
		var m staking.Message
		if rlp.DecodeBytes(src.tx.Data(), &m) != nil || payloadNames[m.Action] == "" {
			continue
		}
		name := payloadNames[m.Action]
		pc := codecs["staking-payload:"+name]
		var mut []byte
		label := ""
		for try := 0; try < 10; try++ {
			x, l := mutate(c, m.Payload)
			if bytes.Equal(x, m.Payload) {
				continue
			}
			if d, ok := w.decode(pc, x, false, "corrupted ("+l+")"); ok && d.accepted {
				mut, label = x, l
				break
			}
		}
		if mut == nil {
			continue
		}
		data := mustEnc(&staking.Message{Action: m.Action, Payload: mut})
		w.corrupt("staking-message", src.tx.Data(), data, label+"+payload")
		desc := fmt.Sprintf("hostile %s message (%s, payload still decodes)", name, label)
		if tx := w.h.Submit(src.from, &stakingAddr, 0, gasHostile, data, desc); tx != nil {
			sent = append(sent, tx)
			names = append(names, name)
			r.Fault("hostile-message-in-block:" + name)
		}
	}
	if len(sent) == 0 {
		return
	}
	// until the end of the staking period has passed (pending records take effect there)
	for b := 0; b < int(w.h.PeriodLength())+1; b++ {
		blk := w.h.NextBlock()
		if blk == nil {
			break
		}
		r.Logf("-- extra block %d txs=%d", blk.NumberU64(), len(blk.Transactions()))
		w.onBuilt(w.h, int(blk.NumberU64()), blk)
	}
	for i, tx := range sent {
		rc, _, num, _ := rawdb.ReadReceipt(w.h.Builder.Disk, tx.Hash())
		out := "not-included"
		if rc != nil {
			out = fmt.Sprintf("included in block %d status=%d", num, rc.Status)
			if rc.Status == types.ReceiptStatusSuccessful {
				r.Probe("hostile-message-applied-in-block")
			}
		}
		r.Logf("  hostile %s message: %s", names[i], out)
	}
}

// ---- ACCEPT SIDE 3: corrupted slash data through the importer's replay/verify path ----

// corruptedSlashData executes real blocks that carry slash data, with the slash data (or one
// evidence blob inside it) corrupted, the way insertChain does: Processor.Process (EndBlock,
// isSeal=false -> staking.replaySlashing -> processEvidences) and Validator.ValidateState on the
// parent state. The block must be rejected or the evidence ignored; a panic is a violation.
func (w *world) corruptedSlashData(im *chainkit.Importer) (alive bool) {
	if len(w.slashBlocks) == 0 {
		return true
	}
	r, c, chain := w.r, w.c, im.Chain
	rounds := 4
	if w.thorough() {
		rounds = 12
	}
	for k := 0; k < rounds; k++ {
		blk := w.slashBlocks[c.Intn("slash-block", len(w.slashBlocks))]
		hdr := blk.Header()
		orig := hdr.SlashData
		var mut []byte
		label := ""
		var evs []staking.Evidence
		if c.Chance("slash-inner", 1, 2) && rlp.DecodeBytes(orig, &evs) == nil && len(evs) > 0 {
			i := c.Intn("slash-evidence", len(evs))
			x, l := mutate(c, evs[i].Data)
			// a fresh slice of fresh values (Evidence carries caches that must not be copied)
			out := make([]staking.Evidence, len(evs))
			for j := range evs {
				out[j].Type, out[j].Data = evs[j].Type, evs[j].Data
			}
			out[i].Data = x
			mut, label = mustEnc(out), l+"+evidence"
		} else {
			mut, label = mutate(c, orig)
		}
		w.corrupt("slash-data", orig, mut, label)
		hdr.SlashData = mut
		tb := types.NewBlockWithHeader(hdr).WithBody(blk.Body())
		num := blk.NumberU64()
		parent := chain.GetBlock(blk.ParentHash(), num-1)
		yp, err := chain.VersionForRound(num)
		if parent == nil || err != nil {
			continue
		}
		st, err := chain.StateAt(parent.Root(), parent.ValRoot(), core.StakingRootForNewBlock(yp.StakingTrieFrequency, parent.Header()))
		if err != nil {
			continue
		}
		var perr, verr error
		ok, bp := w.h.Do(func() {
			var res *types.ProcessResult
			res, perr = chain.Processor().Process(yp, tb, st, *chain.GetVMConfig(), local.FakeRecorder())
			if perr == nil {
				verr = chain.Validator().ValidateState(tb, parent, st, res.Recs, res.UsedGas)
			}
		})
		out := ""
		switch {
		case bp != nil:
			w.panicked("handler-panic:slash-replay", bp.Val, bp.Stack, "executing block %d with corrupted slash data (%s) through Processor.Process/replaySlashing | slash data %s | original %s", num, label, hx(mut), hx(orig))
			return false
		case !ok:
			r.Report("handler-crit:slash-replay", "executing block %d with corrupted slash data (%s) ends the process in logging.Crit: %s | slash data %s", num, label, w.h.LastCrit(), hx(mut))
			return false
		case perr != nil:
			out = "rejected-by-process"
		case verr != nil:
			out = "rejected-by-validate-state"
		default:
			out = "accepted"
			if !bytes.Equal(mut, orig) {
				r.Probe("block-with-corrupted-slash-data-accepted")
			}
		}
		r.Count("slash-replay."+out, 1)
		r.Logf("  block %d slash data %s -> %s", num, label, out)
		r.FP("slash", label, out)
	}
	return true
}

// ---- ACCEPT SIDE 4: restart on a disk image with ONE corrupted record ----

// target is one stored record: the typed byte string inside it and how to store a replacement.
type target struct {
	typ  string
	desc string
	key  []byte
	orig []byte                  // what the record type's decoder sees
	wrap func(mut []byte) []byte // the stored value holding mut instead of orig
}

func ident(b []byte) []byte { return b }

// leafNode finds the trie node on disk (hash-keyed) that is the leaf [compact key, value] and
// returns its key and a function that rebuilds the node around a replacement value. Trie
// nodes are read back without a hash check, so a corrupted leaf VALUE inside a well-formed node
// reaches the record decoders of core/state the way a disk error inside a record would.
func leafNode(disk *simdisk.Disk, value []byte) (key []byte, wrap func([]byte) []byte, ok bool) {
	for _, k := range disk.Keys() {
		if len(k) != 32 {
			continue
		}
		blob, _ := disk.Get([]byte(k))
		if len(blob) <= len(value) || !bytes.Contains(blob, value) {
			continue
		}
		content, rest, err := rlp.SplitList(blob)
		if err != nil || len(rest) != 0 {
			continue
		}
		kpart, rest, err := rlp.SplitString(content)
		if err != nil {
			continue
		}
		val, rest, err := rlp.SplitString(rest)
		if err != nil || len(rest) != 0 || !bytes.Equal(val, value) {
			continue
		}
		kp := append([]byte(nil), kpart...)
		return []byte(k), func(nv []byte) []byte { return mustEnc([]interface{}{kp, nv}) }, true
	}
	return nil, nil, false
}

// targets lists the records of the image that a restart experiment may corrupt: the stored
// records of the head block and of one older block, and the leaves of the head state.
func (w *world) targets(disk *simdisk.Disk, head *types.Block) (chainRecs, valLeaves, accLeaves, stkLeaves []target) {
	c := w.c
	rec := func(typ, desc string, key []byte) {
		if v, err := disk.Get(key); err == nil && len(v) > 0 {
			chainRecs = append(chainRecs, target{typ: typ, desc: desc, key: key, orig: v, wrap: ident})
		}
	}
	hn := head.NumberU64()
	rec("disk-header", fmt.Sprintf("header record of head block %d", hn), headerKey(hn, head.Hash()))
	rec("disk-body", fmt.Sprintf("body record of head block %d", hn), bodyKey(hn, head.Hash()))
	rec("disk-receipts", fmt.Sprintf("receipts record of head block %d", hn), receiptsKey(hn, head.Hash()))
	if hn > 0 {
		on := uint64(c.Intn("restart-older-block", int(hn)))
		if oh := rawdb.ReadCanonicalHash(disk, on); oh != (common.Hash{}) {
			rec("disk-header", fmt.Sprintf("header record of block %d (head %d)", on, hn), headerKey(on, oh))
			rec("disk-body", fmt.Sprintf("body record of block %d (head %d)", on, hn), bodyKey(on, oh))
		}
	}
	for _, blk := range w.h.Blocks {
		if blk.NumberU64() <= hn && len(blk.Transactions()) > 0 {
			tx := blk.Transactions()[0]
			rec("tx-lookup", fmt.Sprintf("lookup record of tx 0 of block %d", blk.NumberU64()), lookupKey(tx.Hash()))
			break
		}
	}

	// leaves of the head state, enumerated on the builder (same content as the image)
	st, err := w.chain().StateAt(head.Root(), head.ValRoot(), head.StakingRoot())
	if err != nil {
		return
	}
	db := st.Database()
	leaves := func(root common.Hash, f func(v []byte)) {
		t, err := db.OpenTrie(root)
		if err != nil {
			return
		}
		it := trie.NewIterator(t.NodeIterator(nil))
		for it.Next() {
			f(append([]byte(nil), it.Value...))
		}
	}
	leaf := func(list *[]target, typ, desc string, value []byte, pfx int) {
		key, wrapNode, ok := leafNode(disk, value)
		if !ok {
			return
		}
		prefix := append([]byte(nil), value[:pfx]...)
		*list = append(*list, target{typ: typ, desc: desc, key: key, orig: value[pfx:], wrap: func(mut []byte) []byte {
			return wrapNode(append(append([]byte(nil), prefix...), mut...))
		}})
	}
	leaves(head.ValRoot(), func(v []byte) {
		switch {
		case bytes.HasPrefix(v, pfxVal):
			leaf(&valLeaves, "validator", "validator record of the head state", v, len(pfxVal))
		case bytes.HasPrefix(v, pfxIndex):
			leaf(&valLeaves, "validator-index", "validator index of the head state", v, len(pfxIndex))
		case bytes.HasPrefix(v, pfxStat):
			leaf(&valLeaves, "validators-stat", "validators statistics of the head state", v, len(pfxStat))
		case bytes.HasPrefix(v, pfxQueue):
			leaf(&valLeaves, "withdraw-queue", "withdraw queue of the head state", v, len(pfxQueue))
		}
	})
	nacc := 0
	leaves(head.Root(), func(v []byte) {
		var acc state.Account
		if rlp.DecodeBytes(v, &acc) != nil {
			return
		}
		if len(acc.DelegationsHash) > 0 {
			leaf(&accLeaves, "account", "account record (a delegator) of the head state", v, 0)
			hk := acc.DelegationsHash
			if blob, err := disk.Get(hk); err == nil && len(blob) > 0 {
				accLeaves = append(accLeaves, target{typ: "delegations-blob", desc: "delegation list blob of a delegator of the head state", key: hk, orig: blob, wrap: ident})
			}
		} else if nacc < 6 {
			nacc++
			leaf(&accLeaves, "account", "account record of the head state", v, 0)
		}
	})
	nstk := 0
	leaves(head.StakingRoot(), func(v []byte) {
		if nstk >= 6 {
			return
		}
		nstk++
		if bytes.HasPrefix(v, pfxPending) {
			leaf(&stkLeaves, "pending-relationship", "pending relationship record of the head state", v, len(pfxPending))
		} else {
			leaf(&stkLeaves, "staking-record", "staking record of the head state", v, 0)
		}
	})
	return
}

// restartsOnCorruptedDisk: the image of the builder's disk as of the last block but one, with
// ONE stored record corrupted, is opened by a real verifying node; the node is then read
// through the accessors the rest of the node uses, and finally offered the last block. A clean
// refusal anywhere (error, nil, logging.Crit) is fine; a panic is a violation.
func (w *world) restartsOnCorruptedDisk() {
	r, c := w.r, w.c
	if w.prevDisk == nil || len(w.h.Blocks) < 2 {
		return
	}
	last := w.h.Blocks[len(w.h.Blocks)-1]
	head := w.h.Blocks[len(w.h.Blocks)-2]
	rounds := 3
	if w.thorough() {
		rounds = 6
	}
	for k := 0; k < rounds; k++ {
		disk := w.prevDisk.Restart()
		chainRecs, valLeaves, accLeaves, stkLeaves := w.targets(disk, head)
		classes := [][]target{nil, valLeaves, chainRecs, accLeaves, stkLeaves}
		ci := c.Weighted("restart-record-class", []int{1, 6, 4, 3, 2})
		typ, desc, label := "none", "nothing corrupted (control)", "none"
		decoderAccepts, bytesInfo := true, ""
		if ci > 0 && len(classes[ci]) == 0 {
			ci = 0
		}
		if ci > 0 {
			t := classes[ci][c.Intn("restart-record", len(classes[ci]))]
			mut, l := mutate(c, t.orig)
			for try := 0; try < 4 && bytes.Equal(mut, t.orig); try++ {
				mut, l = mutate(c, t.orig)
			}
			typ, desc, label = t.typ, t.desc, l
			accepted := w.corrupt(t.typ, t.orig, mut, l)
			decoderAccepts = accepted
			bytesInfo = fmt.Sprintf(" | record %s | corrupted %s", clip(hex.EncodeToString(t.orig), 500), clip(hex.EncodeToString(mut), 500))
			if err := disk.Put(t.key, t.wrap(mut)); err != nil {
				panic(err)
			}
			r.Fault("restart-on-corrupted:" + t.typ)
			r.Logf("-- restart with the %s corrupted (%s), record decoder accepts=%v", desc, l, accepted)
		} else {
			r.Logf("-- restart control: image of block %d unmodified", head.NumberU64())
		}
		out := w.restartAndRead(disk, typ, desc, label, bytesInfo, decoderAccepts, head, last)
		r.Logf("  restart outcome: %s", out)
		r.FP("restart", typ, label, out)
		r.Count("restart."+strings.SplitN(out, ":", 2)[0], 1)
		if ci == 0 && out != "read-and-imported" {
			r.Report("restart-control-failed", "a verifying node opened on the UNMODIFIED image of the builder's disk (head %d) and offered block %d ends with: %s", head.NumberU64(), last.NumberU64(), out)
		}
	}
}

// restartAndRead opens the node and drives the read accessors and one import; it returns a
// short outcome. Each step runs on a helper goroutine (a logging.Crit ends the step).
func (w *world) restartAndRead(disk *simdisk.Disk, typ, desc, label, bytesInfo string, decoderAccepts bool, head, last *types.Block) string {
	what := fmt.Sprintf("node on the image with the %s corrupted (%s)", desc, label)
	im, refused := w.openNode(disk, typ, what)
	if im == nil {
		return refused
	}
	chain := im.Chain
	dead := ""
	step := func(name string, f func()) bool {
		if dead != "" {
			return false
		}
		ok, bp := w.h.Do(f)
		if bp != nil {
			dead = "panic:" + name
			// two families, one class per record type: the record's own decoder REFUSES the
			// corrupted bytes (the reader's error path is what lets the node crash, wherever the
			// half-read value is used later), or it ACCEPTS them (a well-formed record holding a
			// different value: the node computes on it). The panicking function is in the detail.
			w.tail = bytesInfo
			defer func() { w.tail = "" }()
			fam, verdict := "rejected-record-panic:", "its decoder refuses"
			if decoderAccepts {
				fam, verdict = "accepted-record-panic:", "its decoder accepts"
			}
			w.panicked(fam+typ, bp.Val, bp.Stack, "a verifying node restarted on a disk image in which the %s was corrupted (%s; %s the corrupted bytes) panics in %s, function %s", desc, label, verdict, name, repoFunc(bp.Stack))
			return false
		}
		if !ok {
			dead = "crit:" + name
			w.r.Logf("  %s: logging.Crit: %s", name, w.h.LastCrit())
			return false
		}
		return true
	}
	var cur *types.Block
	step("CurrentBlock", func() { cur = chain.CurrentBlock() })
	if cur != nil {
		w.r.Logf("  node opened: head %d %x (image head %d %x)", cur.NumberU64(), cur.Hash().Bytes()[:4], head.NumberU64(), head.Hash().Bytes()[:4])
	}
	step("GetBlockByNumber/GetReceiptsByHash/ReadTransaction over the chain", func() {
		for n := uint64(0); n <= head.NumberU64(); n++ {
			b := chain.GetBlockByNumber(n)
			if b == nil {
				continue
			}
			chain.GetHeaderByNumber(n)
			chain.GetReceiptsByHash(b.Hash())
			for _, tx := range b.Transactions() {
				rawdb.ReadTransaction(disk, tx.Hash())
				rawdb.ReadReceipt(disk, tx.Hash())
			}
		}
		for _, blk := range w.h.Blocks {
			for _, tx := range blk.Transactions() {
				rawdb.ReadTransaction(disk, tx.Hash())
			}
		}
	})
	var st *state.StateDB
	step("StateAt(head)", func() {
		s, err := chain.StateAt(head.Root(), head.ValRoot(), head.StakingRoot())
		if err != nil {
			w.r.Logf("  StateAt(head): %v", err)
			return
		}
		st = s
	})
	if st != nil {
		step("StateDB.GetValidators", func() {
			for _, v := range st.GetValidators().List() {
				v.MainAddress()
				v.Kind()
			}
		})
		step("StateDB.GetValidatorsStat", func() { st.GetValidatorsStat() })
		step("StateDB.GetWithdrawQueue", func() { st.GetWithdrawQueue().Len() })
		step("StateDB.GetValidatorByMainAddr", func() {
			for _, k := range w.h.Builder.Engine.Keys {
				st.GetValidatorByMainAddr(k.Addr)
			}
		})
		step("StateDB.GetBalance/GetNonce/GetDelegationsFrom of the clients", func() {
			for i := 0; i < w.h.NClients(); i++ {
				a := w.clientAddr(i)
				st.GetBalance(a)
				st.GetNonce(a)
				st.GetDelegationsFrom(a)
				st.GetCountOfDelegateTo(a)
			}
		})
		step("StateDB.ForEachStakingRecord", func() {
			st.ForEachStakingRecord(func(d, v common.Address, rec *state.Record) error { return nil })
		})
		step("StateDB.GetValidatorsForUpdate", func() { st.GetValidatorsForUpdate() })
		step("state.NewVldReader(head.ValRoot)", func() {
			if vr, err := chain.GetVldReader(head.ValRoot()); err == nil {
				vr.GetValidators()
				vr.GetValidatorsStat()
			}
		})
	}
	imported := false
	step("InsertChain(next block)", func() {
		// blocks travel between nodes as bytes
		var nb types.Block
		if err := rlp.DecodeBytes(mustEnc(last), &nb); err != nil {
			panic("c14chainworld: block round trip: " + err.Error())
		}
		err := chain.InsertChain(types.Blocks{&nb})
		kit.Wait()
		imported = err == nil && chain.CurrentBlock().Hash() == last.Hash()
		if err != nil {
			w.r.Logf("  InsertChain(block %d): %v", last.NumberU64(), errClass(err))
		}
	})
	w.closeNode(im, dead == "")
	switch {
	case dead != "":
		return dead
	case st == nil:
		return "state-refused"
	case imported:
		return "read-and-imported"
	}
	return "read-import-refused"
}

// errClass shortens an error to its stable part (hashes and numbers vary with the corruption).
func errClass(err error) string {
	s := err.Error()
	if i := strings.IndexAny(s, "(:"); i > 0 {
		s = s[:i]
	}
	return strings.TrimSpace(s)
}
