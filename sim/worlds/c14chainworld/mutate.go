package c14chainworld

import (
	"verifsim/kit"
	"verifsim/worlds/networld"

	"github.com/youchainhq/go-youchain/rlp"
)

// smallInts collects the offsets of the items of an RLP tree that are a small integer: a single
// byte below 0x80 (encoded as itself) or the empty string 0x80 (the integer zero). These are the
// flag-, status-, role-, action- and vote-type-like fields of the records.
func smallInts(b []byte, base int, depth int, out *[]int) bool {
	for len(b) > 0 {
		kind, content, rest, err := rlp.Split(b)
		if err != nil {
			return false
		}
		itemLen := len(b) - len(rest)
		hdr := itemLen - len(content)
		switch {
		case kind == rlp.List:
			if depth < 6 && !smallInts(content, base+hdr, depth+1, out) {
				return false
			}
		case kind == rlp.Byte, kind == rlp.String && len(content) == 0:
			*out = append(*out, base)
		case kind == rlp.String && depth <= 2 && len(content) > 8 && content[0] >= 0xc0:
			// an embedded payload (a message's typed payload, an evidence's data)
			var inner []int
			if smallInts(content, base+hdr, depth+1, &inner) {
				*out = append(*out, inner...)
			}
		}
		base += itemLen
		b = rest
	}
	return true
}

// mutate corrupts one real encoding: mostly with the shared corrupter of the NET part
// (networld.Mutate), and in one case of six with a value shift of a small-integer field — a
// CANONICAL encoding of a slightly different value (expelled flag 1 -> 2, status 0 -> 3, ...),
// which a decoder that folds such a field into a narrower Go type accepts and loses.
func mutate(c *kit.Chooser, data []byte) ([]byte, string) {
	if c.Chance("small-int-shift", 1, 6) {
		var offs []int
		if smallInts(data, 0, 0, &offs) && len(offs) > 0 {
			o := offs[c.Intn("small-int", len(offs))]
			vals := []byte{0x02, 0x03, 0x7f, 0x01, 0x80}
			v := vals[c.Intn("small-int-value", len(vals))]
			if v == data[o] {
				v = 0x05
			}
			out := append([]byte(nil), data...)
			out[o] = v
			return out, "small-int-shift"
		}
	}
	return networld.Mutate(c, data)
}
