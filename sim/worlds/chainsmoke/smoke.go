// Package chainsmoke is a smoke test of the CHAIN skeleton (not a property check; not in the manifest).
package chainsmoke

import (
	"math/big"
	"time"

	"verifsim/kit"
	"verifsim/simdisk"
	"verifsim/worlds/chainkit"
	. "verifsim/worlds/chainworld"

	"github.com/youchainhq/go-youchain/core/types"
)

func init() {
	kit.Register(&kit.Check{
		Prop: "X00", Name: "smoke", World: "CHAIN", Level: "exploration",
		Rule:        "smoke test of the CHAIN skeleton (not a property check)",
		QuickBudget: 20 * time.Second, ThoroughBudget: time.Minute,
		Exec: runSmoke,
	})
}

func runSmoke(r *kit.Run) {
	Run(r, DefaultSetup(r.C), func(w *World) {
		im, err := chainkit.NewImporter(simdisk.NewNoLog(), w.Genesis, kit.Wait)
		if err != nil {
			panic(err)
		}
		defer im.Stop(kit.Wait)
		n := 3 + r.C.Intn("blocks", 6)
		for i := 0; i < n; i++ {
			var txs []*types.Transaction
			for j := 0; j < r.C.Intn("ntx", 4); j++ {
				txs = append(txs, w.Transfer(r.C.Intn("from", chainkit.NClients), ClientAddr(r.C.Intn("to", chainkit.NClients)), big.NewInt(int64(1+r.C.Intn("amt", 1000))), 1))
			}
			for _, e := range w.Submit(txs...) {
				if e != nil {
					r.Logf("submit error: %v", e)
				}
			}
			blk, err := w.NextBlock()
			if err != nil {
				r.Report("build-failed", "%v", err)
				return
			}
			r.Logf("built %d txs=%d %s", blk.NumberU64(), len(blk.Transactions()), Commitments(blk.Header()))
			err = im.Chain.InsertChain(types.Blocks{blk})
			kit.Wait()
			r.Logf("import %d -> %v head=%d", blk.NumberU64(), err, im.Chain.CurrentBlock().NumberU64())
			if err != nil || im.Chain.CurrentBlock().Hash() != blk.Hash() {
				r.Report("import-failed", "block %d: err=%v head=%d", blk.NumberU64(), err, im.Chain.CurrentBlock().NumberU64())
				return
			}
		}
		r.Nontrivial()
	})
}
