package stakechainworld

import (
	"bytes"
	"crypto/sha256"
	"encoding/hex"
	"fmt"
	"math/big"
	"sort"
	"strings"

	"verifsim/kit"
	"verifsim/worlds/chainkit"

	"github.com/youchainhq/go-youchain/common"
	"github.com/youchainhq/go-youchain/consensus/ucon"
	"github.com/youchainhq/go-youchain/core"
	"github.com/youchainhq/go-youchain/core/types"
	"github.com/youchainhq/go-youchain/local"
	"github.com/youchainhq/go-youchain/params"
)

// blockRef is what the builder produced for one height: the reference every importer must
// reproduce.
type blockRef struct {
	detained           *big.Int // Σ value detained by this block's applied create/deposit/delegation-add transactions
	evidenceUnrecorded bool     // a genuine double-sign evidence for the parent round was handed to the builder, yet the block carries no slash data
	stakingApplied     bool     // the block contains a successfully applied staking-module transaction
	refundCap          *big.Int // Σ gasUsed*price/2 over applied calls that earn an EVM gas refund (upper bound of what refunds are worth)

	tainted  string // non-empty: executing this block sets a state database error (see sim.taintCheck)
	blk      *types.Block
	view     *headView // raw enumeration of the builder's own post-seal state
	rcDigest string    // digest of the builder's stored receipts
	rcText   []string
}

type voteRec struct {
	votes []*chainkit.SignedVote
	ctx   *chainkit.Ctx
	hash  common.Hash
}

// hooks are the oracle sets plugged into the shared generator.
type hooks struct {
	bias        int                        // 0 = balanced mix, 1 = biased towards value movement (C07)
	blocks      int                        // history length
	beforeBuild func(n int)                // before the builder builds block n
	onBuilt     func(n int, ref *blockRef) // after block n was built and enumerated
	atEnd       func()
	crowd       bool // C06: some blocks are scriptCrowd blocks
}

func commitments(h *types.Header) string {
	return fmt.Sprintf("root=%x val=%x staking=%x receipts=%x bloom=%x gas=%d rewards=%v subsidy=%v slash=%x",
		h.Root[:4], h.ValRoot[:4], h.StakingRoot[:4], h.ReceiptHash[:4], h.Bloom[:4], h.GasUsed, h.GasRewards, h.Subsidy, shortBytes(h.SlashData))
}

func shortBytes(b []byte) string {
	if len(b) <= 8 {
		return hex.EncodeToString(b)
	}
	d := sha256.Sum256(b)
	return fmt.Sprintf("len%d:%x", len(b), d[:4])
}

// receiptsText renders receipts (consensus fields plus tx hash, contract address, gas used and
// every log's address/topics/data) — the part of them C06 is about.
func receiptsText(rcs types.Receipts) (lines []string, digest string) {
	h := sha256.New()
	for i, rc := range rcs {
		var sb strings.Builder
		fmt.Fprintf(&sb, "rc%d status=%d cum=%d gas=%d tx=%x contract=%x bloom=%x", i, rc.Status, rc.CumulativeGasUsed, rc.GasUsed, rc.TxHash[:4], rc.ContractAddress[:4], sha256.Sum256(rc.Bloom[:]))
		for j, l := range rc.Logs {
			fmt.Fprintf(&sb, " log%d{%x", j, l.Address)
			for _, t := range l.Topics {
				fmt.Fprintf(&sb, " %x", t)
			}
			fmt.Fprintf(&sb, " data=%x}", l.Data)
		}
		lines = append(lines, sb.String())
		h.Write([]byte(sb.String()))
		h.Write([]byte{'\n'})
	}
	return lines, hex.EncodeToString(h.Sum(nil))[:24]
}

func topicName(t common.Hash) string {
	b := bytes.TrimLeft(t[:], "\x00")
	for _, c := range b {
		if c < 0x20 || c > 0x7e {
			return ""
		}
	}
	return string(b)
}

// runHistory generates the seeded history and calls the hooks.
func (s *sim) runHistory(h hooks) {
	r := s.r
	s.g = newGenState(s.c, s.act)
	r.Logf("scale %s", s.sc)
	var sb strings.Builder
	for _, v := range s.act.vals {
		fmt.Fprintf(&sb, " %s(role=%d stake=%d status=%d op=C%d genesis=%v)", v.name, v.role, v.stake, v.status, v.operator, v.genesis)
	}
	r.Logf("actors%s starve=%d", sb.String(), s.g.starve)
	var hist []voteRec
	tainted := false
	for n := 1; n <= h.blocks && !s.dead && !s.stopRun; n++ {
		r.Logf("-- block %d", n)
		if s.onlineAny() == 0 {
			// nobody is online in the head state any more (the look-back set would keep the
			// chain going for StakeLookBack blocks): a generator dead end, not a property matter
			r.Logf("no online validator left in the head state: stop")
			r.Probe("no-online-validator-left")
			break
		}
		if uint64(n)%s.sc.F == 0 {
			s.g.riskyPending = 0
		}
		if n == 1 {
			s.warmUp()
		}
		scripted := false
		if n > 1 {
			switch s.c.Weighted("script", []int{12, 1, 1}) {
			case 1:
				scripted = s.scriptFillSubAdd()
			case 2:
				scripted = s.scriptAddThenClose()
			}
		}
		if !scripted && h.crowd && n > 1 && s.c.Chance("crowd-script", 1, 10) {
			scripted = s.scriptCrowd()
		}
		if !scripted {
			ntx := []int{0, 1, 2, 3, 4, 6}[s.c.Weighted("ntx", []int{1, 3, 3, 2, 2, 1})]
			for i := 0; i < ntx; i++ {
				s.genTx(h.bias)
			}
		}
		if n > 1 && s.c.Chance("evidence", 1, 6) {
			if len(hist) >= 2 {
				p := hist[len(hist)-2]
				s.g.prevVotes, s.g.prevCtx, s.g.prevHash = p.votes, p.ctx, p.hash
			}
			s.postEvidence()
		}
		s.steerForge()
		if !s.dryRunEndBlock(n) {
			break
		}
		if h.beforeBuild != nil {
			h.beforeBuild(n)
		}
		if s.dead {
			break
		}
		blk, err := s.nextBlock()
		if err != nil {
			if s.dead {
				break // the builder died in logging.Crit (reported there)
			}
			if s.b.Engine.LastErr != nil {
				r.Logf("forge dead end at block %d: %v", n, s.b.Engine.LastErr)
				r.Probe("forge-dead-end")
				break
			}
			r.Report("builder-stuck", "the block-building path produced no block %d from the pool content: %v", n, err)
			break
		}
		hist = append(hist, voteRec{s.b.Engine.LastVotes, s.b.Engine.LastCtx, blk.Hash()})
		s.g.curVotes, s.g.curCtx = s.b.Engine.LastVotes, s.b.Engine.LastCtx
		ref := s.observeBuilt(n, blk)
		if ref == nil {
			break
		}
		if ref.tainted != "" {
			// from here on the chain's hashes depend on map iteration order
			r.Probe("stopped-at-order-dependent-block")
			tainted = true
			break
		}
		if h.onBuilt != nil {
			h.onBuilt(n, ref)
		}
	}
	if h.atEnd != nil && !s.dead && !tainted && !s.stopRun {
		h.atEnd()
	}
	r.Nontrivial()
}

// observeBuilt logs the block, updates the simulator's own ledger of applied transactions and
// enumerates the builder's post-seal state.
func (s *sim) observeBuilt(n int, blk *types.Block) *blockRef {
	r := s.r
	hdr := blk.Header()
	cd, _ := ucon.GetConsensusDataFromHeader(hdr)
	idx := uint32(0)
	if cd != nil {
		idx = cd.RoundIndex
	}
	tainted := s.taintCheck(n, blk)
	if s.dead {
		return nil
	}
	if tainted != "" {
		// what this block's staking root (hence its hash and everything after it) is depends
		// on map iteration order: nothing order-dependent may enter the trace
		// (the builder's own stored head state may even be unreadable: the root it sealed and
		// the root it committed come from two walks over the same map)
		r.Logf("built %d idx=%d proposer=%s txs=%d gas=%d rewards=%v (commitments withheld: %s)", n, idx, s.act.name(hdr.Coinbase), len(blk.Transactions()), hdr.GasUsed, hdr.GasRewards, tainted)
		return &blockRef{blk: blk, tainted: tainted}
	} else {
		r.Logf("built %d idx=%d proposer=%s txs=%d %s", n, idx, s.act.name(hdr.Coinbase), len(blk.Transactions()), commitments(hdr))
	}
	if s.act.valByAddr(hdr.Coinbase) != nil {
		r.FP("proposer", s.act.name(hdr.Coinbase))
	}
	rcs := s.b.Chain.GetReceiptsByHash(blk.Hash())
	if len(rcs) != len(blk.Transactions())+1 {
		r.Report("receipt-count", "block %d has %d transactions but the builder stored %d receipts (expected one per transaction plus the end-block receipt)", n, len(blk.Transactions()), len(rcs))
		return nil
	}
	F := s.sc.F
	periodEnd := (uint64(n)+1)%F == 0
	detained, refundCap := new(big.Int), new(big.Int)
	stakingApplied := false
	for i, tx := range blk.Transactions() {
		rc := rcs[i]
		it := s.intents[tx.Hash()]
		kind := "unknown"
		if it != nil {
			kind = it.kind
		}
		ok := rc.Status == types.ReceiptStatusSuccessful
		r.Logf("  tx%d %s from=C%d status=%d gas=%d logs=%d", i, kind, s.clientOf(mustSender(tx)), rc.Status, rc.GasUsed, len(rc.Logs))
		r.FP(kind, fmt.Sprint(rc.Status))
		if ok {
			r.Count("tx."+kind+".ok", 1)
		} else {
			r.Count("tx."+kind+".failed", 1)
		}
		if ok && tx.To() != nil && *tx.To() == stakingAddr {
			stakingApplied = true
		}
		if ok && it != nil && it.refund {
			fee := new(big.Int).Mul(new(big.Int).SetUint64(rc.GasUsed), tx.GasPrice())
			refundCap.Add(refundCap, fee.Rsh(fee, 1))
			r.Probe("gas-refund-earning-call-applied")
		}
		if ok && it.detains() {
			detained.Add(detained, it.value)
			s.escrow.Add(s.escrow, it.value)
			r.Logf("    escrow += %v (%s %s)", it.value, it.kind, s.act.name(it.val))
		}
		if ok && it != nil && it.cbChange {
			s.cbChanged[it.val] = n
		}
		if ok && it != nil && it.kind == "val-create" {
			if a := s.act.valByAddr(it.val); a != nil {
				a.created = true
			}
		}
	}
	end := rcs[len(rcs)-1]
	var topics []string
	for _, l := range end.Logs {
		if len(l.Topics) > 0 {
			if t := topicName(l.Topics[0]); t != "" {
				topics = append(topics, t)
				if t != "proposer_rewards" {
					r.Probe(t)
					r.FP("end", t)
				}
			}
		}
	}
	r.Logf("  end-block logs: %s", strings.Join(topics, ","))
	if len(hdr.SlashData) > 0 {
		r.Probe("slash-data-in-header")
	}
	if periodEnd {
		r.Logf("  period end: escrow %v resolved", s.escrow)
		r.FP("period-end")
		r.Probe("period-end")
		s.escrow = new(big.Int)
	}
	view, err := viewHead(s.b.Chain)
	if err != nil {
		r.Report("builder-state-unreadable", "block %d: %v", n, err)
		return nil
	}
	lines, dg := receiptsText(rcs)
	if tainted == "" {
		r.Logf("  state=%s receipts=%s accounts=%d validators=%d", view.digest, dg, len(view.accounts), len(view.rawVals))
	}
	return &blockRef{blk: blk, view: view, rcDigest: dg, rcText: lines, tainted: tainted, detained: detained, refundCap: refundCap, stakingApplied: stakingApplied,
		evidenceUnrecorded: s.g.evidenceFor != 0 && s.g.evidenceFor+1 == uint64(n) && len(hdr.SlashData) == 0}
}

func mustSender(tx *types.Transaction) common.Address {
	a, err := types.Sender(chainkit.Signer(), tx)
	if err != nil {
		panic(err)
	}
	return a
}

// historyLen draws the number of blocks of a run.
func historyLen(r *kit.Run, lo, hi int) int {
	if r.Tier == "thorough" {
		lo, hi = lo+10, hi+25
	}
	return r.C.Range("blocks", lo, hi)
}

var _ = core.DefaultTxPoolConfig

// reexec executes blk once more on a scratch state opened on its parent in the builder's
// database, the way insertChain does (core/blockchain.go:377-395: StakingRootForNewBlock,
// state.New, Processor.Process), computes the roots and returns them with the state's database
// error. Nothing is written. (Slash data is not replayed here — the chain's current header is
// the block itself, staking/slash.go:66 — so the roots are compared among re-executions only.)
func (s *sim) reexec(blk *types.Block) (roots string, dbErr error, err error) {
	chain := s.b.Chain
	parent := chain.GetBlock(blk.ParentHash(), blk.NumberU64()-1)
	if parent == nil {
		return "", nil, fmt.Errorf("parent of block %d unknown", blk.NumberU64())
	}
	yp, err := chain.VersionForRound(blk.NumberU64())
	if err != nil {
		return "", nil, err
	}
	st, err := chain.StateAt(parent.Root(), parent.ValRoot(), core.StakingRootForNewBlock(yp.StakingTrieFrequency, parent.Header()))
	if err != nil {
		return "", nil, err
	}
	ok := s.do(func() {
		_, err = chain.Processor().Process(yp, blk, st, *chain.GetVMConfig(), local.FakeRecorder())
	})
	if !ok {
		s.dead = true
		return "", nil, fmt.Errorf("died in logging.Crit or panicked")
	}
	if err != nil {
		return "", nil, err
	}
	r1, r2, r3 := st.IntermediateRoot(true)
	return fmt.Sprintf("root=%x val=%x staking=%x", r1[:4], r2[:4], r3[:4]), st.Error(), nil
}

// taintCheck is the deterministic detector for block executions whose result depends on map
// iteration order because a state database error occurs half-way: StateDB.updateStakingTrie
// (core/state/statedb_staking.go:184) walks the dirty staking records in MAP order and returns
// at the first record it cannot encode, so which records reach the staking trie — and thus
// header.StakingRoot — depends on the order. The error is sticky (StateDB.Error) and is set
// whatever the order, which makes the condition observable deterministically; how often
// executions actually disagree is then measured by re-executing the block several times.
func (s *sim) taintCheck(n int, blk *types.Block) string {
	r := s.r
	_, dbErr, err := s.reexec(blk)
	if s.dead {
		return ""
	}
	if err != nil {
		r.Report("built-block-not-executable", "block %d, just built by the block-building path, cannot be executed again on its parent state: %v", n, err)
		return ""
	}
	if dbErr == nil {
		return ""
	}
	freq := map[string]int{}
	const reps = 16
	for i := 0; i < reps && !s.dead; i++ {
		roots, _, e := s.reexec(blk)
		if e != nil {
			roots = "error: " + e.Error()
		}
		freq[roots]++
	}
	var parts []string
	for k, c := range freq {
		parts = append(parts, fmt.Sprintf("%dx %s", c, k))
	}
	sort.Strings(parts)
	if !s.reportTaint {
		// C07/C08 runs: builder/validator agreement is C06's subject; the run is cut here
		// because everything after this block depends on map iteration order
		r.Logf("block %d: execution sets the state database error %q: order-dependent from here on (C06)", n, dbErr.Error())
		r.Probe("block-execution-hits-db-error")
		return "state database error: " + dbErr.Error()
	}
	r.Report("block-execution-hits-db-error", "executing block %d sets the state database error %q (every execution does); which staking records reach the staking trie — and so the block's StakingRoot — then depends on map iteration order (core/state/statedb_staking.go:184-199)", n, dbErr.Error())
	// the measured disagreement is itself order-dependent: it goes into the violation's detail
	// but not into the trace (whose digest must be a function of the choices alone)
	s.amend("block-execution-hits-db-error", fmt.Sprintf(" | measured: %d executions of the block on fresh state objects over the same parent state gave %d different results [%s]; the builder sealed staking=%x",
		reps, len(freq), strings.Join(parts, " ; "), blk.Header().StakingRoot[:4]))
	return "state database error: " + dbErr.Error()
}

// amend appends to the detail of an already reported violation without touching the trace.
func (s *sim) amend(class, more string) {
	for i := range s.r.Violations {
		if s.r.Violations[i].Class == class && !strings.Contains(s.r.Violations[i].Detail, " | measured: ") {
			s.r.Violations[i].Detail += more
		}
	}
}

// dryRunEndBlock runs the end-of-block hook (staking.EndBlock, replay flavour: no side effects
// on the module's evidence list) for the NEXT block on a scratch state opened on the builder's
// head, with a header like the worker's (miner/worker.go:291-304) and the first proposer of the
// forge's order, on a helper goroutine. The worker runs the same code on its own goroutine,
// where a panic would kill the simulator process (harness trouble instead of a finding) and a
// Crit could not be told from a hang; here both become observable. It sees the state as of the
// head only (not the transactions of the block to come). Returns false if the run must end.
func (s *sim) dryRunEndBlock(n int) bool {
	chain := s.b.Chain
	parent := chain.CurrentBlock()
	yp, err := chain.VersionForRound(uint64(n))
	if err != nil {
		return true
	}
	st, err := chain.StateAt(parent.Root(), parent.ValRoot(), core.StakingRootForNewBlock(yp.StakingTrieFrequency, parent.Header()))
	if err != nil {
		return true
	}
	var proposer common.Address
	if ctx, err := chainkit.NewCtx(chain, uint64(n), 1); err == nil {
		for _, i := range s.b.Engine.ProposerOrder {
			k := s.b.Engine.Keys[i]
			if v := chainkit.StakeOf(ctx, k); v != nil && v.Status == params.ValidatorOnline && v.Kind() == params.KindChamber {
				proposer = k.Addr
				break
			}
		}
	}
	if proposer == (common.Address{}) {
		return true
	}
	hdr := &types.Header{ParentHash: parent.Hash(), Number: new(big.Int).SetUint64(uint64(n)), Time: parent.Time() + 1, Coinbase: proposer,
		GasLimit: core.CalcGasLimit(parent), GasRewards: new(big.Int), Subsidy: new(big.Int)}
	if err := core.ProcessYouVersionState(parent.Header(), hdr); err != nil {
		return true
	}
	before := s.panicked
	ok := s.do(func() {
		chain.Processor().EndBlock(chain, hdr, nil, st, false, local.FakeRecorder())
		st.IntermediateRoot(true)
	})
	if ok {
		return true
	}
	if s.panicked != nil && s.panicked != before {
		// re-raised at the end of the run: kit turns it into a violation (PanicInRepo)
		s.r.Logf("the end-of-block hook for block %d (proposer %s) panics on the head state: the builder is not asked to build it", n, s.act.name(proposer))
	}
	s.dead = true
	return false
}
