package stakechainworld

import (
	"fmt"
	"sort"
	"strings"
	"time"

	"verifsim/kit"
	"verifsim/simdisk"
	"verifsim/worlds/chainkit"

	"github.com/youchainhq/go-youchain/common"
	"github.com/youchainhq/go-youchain/core"
	"github.com/youchainhq/go-youchain/core/types"
	"github.com/youchainhq/go-youchain/local"
)

const (
	polOne = iota
	polBatch
	polRestart
	polCap
	polFork        // verifying node that first imports a competing fork
	polForkBuilder // the node that built the competing fork (a block-building node that must switch too)
)

var polNames = []string{"one-by-one", "batches", "restarts", "triedb-cap", "fork-first", "fork-builder"}

// impNode is one importer with its own history.
type impNode struct {
	pol   int
	chain func() *core.BlockChain
	im    *chainkit.Importer
	disk  *simdisk.Disk
	hold  []*blockRef // built, not yet delivered
	want  int         // batch size at which hold is delivered
	every int         // restart period
	since int
	capKB int
	out   bool // dead (Crit) or out of sync after a reported violation: not fed any more
}

func (nd *impNode) name() string { return polNames[nd.pol] }

// outcome is everything C06 compares between two executions of the same block.
type outcome struct {
	err    string
	headOK bool
	state  string
	rcs    string
}

func (o outcome) String() string {
	return fmt.Sprintf("err=%q head=%v state=%s receipts=%s", o.err, o.headOK, o.state, o.rcs)
}

type c06 struct {
	s     *sim
	refs  []*blockRef
	nodes []*impNode

	// competing fork
	b2      *chainkit.Builder
	b2up    bool // B2's miner has been started
	b2dead  bool // B2 died inside a stimulus (Crit or panic)
	forkOn  bool
	forkLen int
	held    []*blockRef // main blocks built while the fork is canonical on the fork nodes
	solo    bool
	nForks  int
}

func (o *c06) newImporter(disk *simdisk.Disk) *chainkit.Importer {
	var im *chainkit.Importer
	o.s.do(func() {
		x, err := chainkit.NewImporter(disk, o.s.gen, kit.Wait)
		if err != nil {
			panic("stakechainworld: importer: " + err.Error())
		}
		im = x
	})
	return im
}

func (o *c06) start() {
	s := o.s
	add := func(pol int) *impNode {
		nd := &impNode{pol: pol, disk: simdisk.NewNoLog()}
		nd.im = o.newImporter(nd.disk)
		nd.chain = func() *core.BlockChain { return nd.im.Chain }
		o.nodes = append(o.nodes, nd)
		return nd
	}
	add(polOne)
	switch nd := add(polBatch + s.c.Intn("second-importer", 3)); nd.pol {
	case polBatch:
		nd.want = 2 + s.c.Intn("batch", 4)
	case polRestart:
		nd.every = 1 + s.c.Intn("restart-every", 4)
	case polCap:
		nd.capKB = []int{0, 1, 16}[s.c.Intn("cap-kb", 3)]
	}
	if s.c.Chance("fork-nodes", 1, 2) {
		add(polFork)
		b2, err := chainkit.NewBuilder(simdisk.NewNoLog(), s.gen, s.act.allValKeys(), core.DefaultTxPoolConfig)
		if err != nil {
			panic("stakechainworld: second builder: " + err.Error())
		}
		kit.Wait()
		o.b2 = b2
		o.nodes = append(o.nodes, &impNode{pol: polForkBuilder, chain: func() *core.BlockChain { return b2.Chain }})
	}
	var names []string
	for _, nd := range o.nodes {
		names = append(names, nd.name())
	}
	s.r.Logf("importers: %s", strings.Join(names, ", "))
}

func (o *c06) stop() {
	for _, nd := range o.nodes {
		if nd.im != nil && !nd.out {
			nd.im.Stop(kit.Wait)
		}
	}
	if o.b2 != nil && !o.b2dead {
		o.b2.Stop(kit.Wait)
	}
}

func (o *c06) kill(nd *impNode) {
	nd.out = true
	if nd.pol == polForkBuilder && !o.b2dead {
		o.b2dead = true
		b2 := o.b2
		o.s.deadStops = append(o.s.deadStops, func() { b2.Stop(func() {}) })
	}
	if nd.im != nil {
		im := nd.im
		o.s.deadStops = append(o.s.deadStops, func() { im.Stop(func() {}) })
	}
}

// insert hands blocks to a node through BlockChain.InsertChain (what fetcher and downloader
// call); completed=false if the node died in logging.Crit.
func (o *c06) insert(nd *impNode, blocks types.Blocks) (err error, completed bool) {
	completed = o.s.do(func() {
		err = nd.chain().InsertChain(blocks)
		kit.Wait()
	})
	return
}

func heights(refs []*blockRef) string {
	if len(refs) == 1 {
		return fmt.Sprint(refs[0].blk.NumberU64())
	}
	return fmt.Sprintf("%d..%d", refs[0].blk.NumberU64(), refs[len(refs)-1].blk.NumberU64())
}

// observe reads what a node made of a block it has imported.
func observe(chain *core.BlockChain, blk *types.Block) (state, rcs string, v *headView, lines []string, err error) {
	v, err = viewAt(chain, blk.Header())
	if err != nil {
		return "", "", nil, nil, err
	}
	lines, rcs = receiptsText(chain.GetReceiptsByHash(blk.Hash()))
	return v.digest, rcs, v, lines, nil
}

// deliver imports main-chain blocks into a node and compares everything with the builder.
func (o *c06) deliver(nd *impNode, refs []*blockRef, how string) {
	s, r := o.s, o.s.r
	var blocks types.Blocks
	for _, rf := range refs {
		blocks = append(blocks, rf.blk)
	}
	err, ok := o.insert(nd, blocks)
	if !ok {
		r.Logf("  %s: node died importing %s", nd.name(), heights(refs))
		o.kill(nd)
		return
	}
	last := refs[len(refs)-1]
	head := nd.chain().CurrentBlock()
	r.Logf("  import %s %s%s -> err=%v head=%d", nd.name(), heights(refs), how, err, head.NumberU64())
	if (err != nil || head.Hash() != last.blk.Hash()) && !strings.Contains(how, "side") && o.diagnose(nd) {
		o.drop(nd)
		return
	}
	if err != nil {
		r.Report(o.rejectClass(refs, strings.Contains(how, "side")), "importer %q rejected honestly built block(s) %s%s (its head: %d): %v", nd.name(), heights(refs), how, head.NumberU64(), err)
		o.drop(nd)
		return
	}
	if head.Hash() != last.blk.Hash() {
		r.Report("import-head-not-advanced", "importer %q accepted block(s) %s%s without error but its head is block %d %x, not %x", nd.name(), heights(refs), how, head.NumberU64(), head.Hash().Bytes()[:4], last.blk.Hash().Bytes()[:4])
		o.drop(nd)
		return
	}
	for _, rf := range refs {
		o.compare(nd, rf)
	}
	_ = s
}

func (o *c06) drop(nd *impNode) {
	nd.out = true
	if nd.im != nil {
		nd.im.Stop(kit.Wait)
	}
}

func (o *c06) compare(nd *impNode, rf *blockRef) {
	r := o.s.r
	n := rf.blk.NumberU64()
	if cb := nd.chain().GetBlockByNumber(n); cb == nil || cb.Hash() != rf.blk.Hash() {
		r.Report("canonical-block-differs", "importer %q: canonical block %d is not the built one", nd.name(), n)
		return
	}
	st, rcs, v, lines, err := observe(nd.chain(), rf.blk)
	if err != nil {
		r.Report("imported-state-unreadable", "importer %q block %d: %v", nd.name(), n, err)
		return
	}
	if st != rf.view.digest {
		r.Report("state-differs-from-builder", "importer %q block %d: its post-state differs from the builder's own post-seal state although the roots were accepted:%s", nd.name(), n, diffDumps(rf.view.dump, v.dump))
	}
	if rcs != rf.rcDigest {
		r.Report("receipts-differ-from-builder", "importer %q block %d: %s", nd.name(), n, diffLines(rf.rcText, lines))
	}
	stored := nd.chain().GetReceiptsByHash(rf.blk.Hash())
	if h := types.DeriveSha(stored); h != rf.blk.ReceiptHash() {
		r.Report("receipts-ne-header", "importer %q block %d: stored receipts hash to %x, header says %x", nd.name(), n, h[:4], rf.blk.ReceiptHash().Bytes()[:4])
	}
	if b := types.CreateBloom(stored); b != rf.blk.Bloom() {
		r.Report("receipts-ne-header", "importer %q block %d: bloom of the stored receipts differs from the header's", nd.name(), n)
	}
}

func diffLines(a, b []string) string {
	for i := 0; i < len(a) || i < len(b); i++ {
		x, y := "<absent>", "<absent>"
		if i < len(a) {
			x = a[i]
		}
		if i < len(b) {
			y = b[i]
		}
		if x != y {
			return fmt.Sprintf("receipt %d: builder %s | importer %s", i, clip(x, 400), clip(y, 400))
		}
	}
	return "equal"
}

// repeat re-executes the import of one block R times on fresh importer objects over the same
// disk image (fresh state objects, fresh maps: Go randomises iteration per map instance) and
// compares the outcomes with the first execution.
func (o *c06) repeat(img *simdisk.Disk, rf *blockRef, first outcome) {
	s, r := o.s, o.s.r
	one := func() (outcome, bool) {
		d := img.Restart()
		im := o.newImporter(d)
		var err error
		ok := s.do(func() {
			err = im.Chain.InsertChain(types.Blocks{rf.blk})
			kit.Wait()
		})
		if !ok {
			s.deadStops = append(s.deadStops, func() { im.Stop(func() {}) })
			return outcome{err: "died in logging.Crit"}, false
		}
		out := outcome{headOK: im.Chain.CurrentBlock().Hash() == rf.blk.Hash()}
		if err != nil {
			out.err = err.Error()
		}
		if out.headOK {
			out.state, out.rcs, _, _, _ = observe(im.Chain, rf.blk)
		}
		im.Stop(kit.Wait)
		return out, true
	}
	R := 3
	for k := 0; k < R; k++ {
		out, ok := one()
		r.Count("repeated-imports", 1)
		if !ok {
			return
		}
		if out == first {
			continue
		}
		// a disagreement: measure how often the two (or more) outcomes occur
		fresh := map[outcome]int{out: 1}
		const more = 10
		for j := 0; j < more; j++ {
			x, ok := one()
			if !ok {
				break
			}
			fresh[x]++
		}
		var parts []string
		for oc, c := range fresh {
			parts = append(parts, fmt.Sprintf("%dx {%s}", c, oc))
		}
		sort.Strings(parts)
		if len(fresh) == 1 {
			// every fresh importer (cold caches, state read from disk) agrees with the others
			// and disagrees with the node that has been running all along: cache dependence
			r.Report("cold-import-disagrees-with-warm-import", "block %d: the importer that has been running since genesis got {%s}; %d fresh importers opened on a copy of its disk (as of the parent block) all got {%s}", rf.blk.NumberU64(), first, more+1, out)
			return
		}
		r.Report("execution-disagrees-with-builder", "executing one block several times on fresh state objects over the same parent state (import path without header verification and writes) does not always reproduce the commitments the builder sealed")
		s.amend("execution-disagrees-with-builder", fmt.Sprintf(" | measured at block %d, %d whole imports on fresh importer objects over the same disk image: %s ; first (long-running) importer {%s}", rf.blk.NumberU64(), more+1, strings.Join(parts, " ; "), first))
		s.stopRun = true
		return
	}
}

func (o *c06) onBuilt(n int, rf *blockRef) {
	s, r := o.s, o.s.r
	o.refs = append(o.refs, rf)
	if rf.tainted != "" {
		return // reported by taintCheck; what importers make of it depends on map order
	}
	periodEnd := (uint64(n)+1)%s.sc.F == 0
	for _, nd := range o.nodes {
		if nd.out || s.stopRun {
			continue
		}
		switch nd.pol {
		case polOne:
			var img *simdisk.Disk
			interesting := periodEnd || len(rf.blk.Header().SlashData) > 0
			k := 6
			if interesting || rf.stakingApplied {
				k = 16
			}
			o.scratch(nd, rf, k)
			if (interesting && s.c.Chance("repeat-interesting", 1, 4)) || (!interesting && s.c.Chance("repeat", 1, 20)) {
				img = nd.disk.Restart()
			}
			o.deliver(nd, []*blockRef{rf}, "")
			if img != nil && !nd.out {
				st, rcs, _, _, _ := observe(nd.chain(), rf.blk)
				r.Fault("repeat-import")
				o.repeat(img, rf, outcome{headOK: true, state: st, rcs: rcs})
			}
		case polBatch:
			nd.hold = append(nd.hold, rf)
			if len(nd.hold) >= nd.want {
				o.deliver(nd, nd.hold, " as one batch")
				nd.hold = nil
				nd.want = 1 + s.c.Intn("batch", 5)
				r.Fault("batch-import")
			}
		case polRestart:
			o.deliver(nd, []*blockRef{rf}, "")
			nd.since++
			if !nd.out && nd.since >= nd.every {
				nd.since = 0
				nd.im.Stop(kit.Wait)
				nd.disk = nd.disk.Restart()
				nd.im = o.newImporter(nd.disk)
				nd.every = 1 + s.c.Intn("restart-every", 4)
				r.Fault("restart")
				if h := nd.im.Chain.CurrentBlock(); h.Hash() != rf.blk.Hash() {
					r.Report("head-lost-after-restart", "importer %q reopened from disk after block %d has head %d", nd.name(), n, h.NumberU64())
					o.drop(nd)
				}
			}
		case polCap:
			o.deliver(nd, []*blockRef{rf}, "")
			if !nd.out {
				if st, err := nd.im.Chain.State(); err == nil {
					if err := st.Database().TrieDB().Cap(common.StorageSize(nd.capKB * 1024)); err != nil {
						r.Logf("  triedb cap: %v", err)
					}
					r.Fault("triedb-cap")
				}
			}
		case polFork, polForkBuilder:
			if !o.forkOn {
				o.deliver(nd, []*blockRef{rf}, "")
			}
		}
	}
	if o.forkOn && !s.stopRun {
		o.held = append(o.held, rf)
		o.forkStep()
	}
}

// forkNodes are the nodes on which the competing fork is canonical.
func (o *c06) forkNodes() (l []*impNode) {
	for _, nd := range o.nodes {
		if (nd.pol == polFork || nd.pol == polForkBuilder) && !nd.out {
			l = append(l, nd)
		}
	}
	return
}

// beforeBuild may start a competing fork at height n: the second builder (whose chain holds
// the common prefix) builds 1-3 blocks of its own from its own transactions; they become the
// canonical chain of the fork nodes. The main chain's blocks then reach those nodes through
// insertSidechain / verifyAllSideChainBlocks / reorg (core/blockchain.go:472,577,848): the
// canonical chain is the longest one, a side chain is executed on a scratch state as soon as
// it arrives and adopted once it is longer (getWriteState/CompareBlocks are never called).
func (o *c06) beforeBuild(n int) {
	s, r := o.s, o.s.r
	if o.b2 == nil || o.forkOn || n < 3 || len(o.forkNodes()) < 2 || !s.c.Chance("start-fork", 1, 5) {
		return
	}
	if o.b2.Chain.CurrentBlock().Hash() != s.b.Chain.CurrentBlock().Hash() {
		return
	}
	o.forkLen = 1 + s.c.Weighted("fork-length", []int{3, 1, 1})
	o.solo = s.c.Chance("deliver-first-main-block-alone", 2, 3)
	o.nForks++
	r.Logf("  fork of length %d starts at height %d", o.forkLen, n)
	// the second builder's own transactions (and possibly an evidence), generated against ITS head and pool
	main := s.b
	s.b, s.g.headSt = o.b2, nil
	for i := s.c.Intn("fork-ntx", 4); i > 0; i-- {
		s.genTx(1)
	}
	if s.c.Chance("fork-evidence", 1, 4) {
		s.postEvidence()
	}
	s.b, s.g.headSt = main, nil
	var fork types.Blocks
	for i := 0; i < o.forkLen && !s.dead; i++ {
		time.Sleep(time.Second + time.Duration(s.c.Intn("block-gap-ms", 1500))*time.Millisecond)
		o.b2.Engine.StartIndex = uint32(1 + s.c.Intn("fork-start-index", 2))
		o.b2.Engine.ProposerOrder = s.b.Engine.ProposerOrder
		var blk *types.Block
		var err error
		if !o.b2up {
			blk, err = o.b2.Start(kit.Wait)
			o.b2up = true
		} else {
			blk, err = o.b2.Build(kit.Wait)
		}
		if err != nil {
			r.Logf("  second builder could not build fork block %d: %v", n+i, err)
			break
		}
		r.Logf("  fork block %d txs=%d %s", blk.NumberU64(), len(blk.Transactions()), commitments(blk.Header()))
		fork = append(fork, blk)
	}
	if s.dead {
		return
	}
	if len(fork) == 0 {
		return
	}
	o.forkLen = len(fork)
	for _, nd := range o.forkNodes() {
		if nd.pol != polFork {
			continue
		}
		err, ok := o.insert(nd, fork)
		if !ok {
			o.kill(nd)
			return
		}
		head := nd.chain().CurrentBlock()
		r.Logf("  import fork-first fork blocks -> err=%v head=%d", err, head.NumberU64())
		if err != nil || head.Hash() != fork[len(fork)-1].Hash() {
			r.Report("import-rejected", "importer %q rejected the competing fork's honestly built blocks %d..%d (head %d): %v", nd.name(), fork[0].NumberU64(), fork[len(fork)-1].NumberU64(), head.NumberU64(), err)
			o.drop(nd)
			return
		}
	}
	o.forkOn, o.held = true, nil
	r.Fault("competing-fork")
}

// forkStep is called after every main block built while the fork is canonical on the fork nodes.
func (o *c06) forkStep() {
	r := o.s.r
	if len(o.held) == 1 && o.solo && o.forkLen >= 1 {
		// the first main block alone: a side chain that is not longer — executed on a scratch
		// state (verifyAllSideChainBlocks), stored without state, head unchanged
		for _, nd := range o.forkNodes() {
			err, ok := o.insert(nd, types.Blocks{o.held[0].blk})
			if !ok {
				o.kill(nd)
				continue
			}
			r.Logf("  import %s %d alone as a side block -> err=%v head=%d", nd.name(), o.held[0].blk.NumberU64(), err, nd.chain().CurrentBlock().NumberU64())
			if err != nil {
				r.Report(o.rejectClass(o.held[:1], true), "importer %q, whose canonical chain is a competing fork of length %d, rejected the honestly built block %d arriving as a side block: %v", nd.name(), o.forkLen, o.held[0].blk.NumberU64(), err)
				o.drop(nd)
			}
		}
		r.Fault("side-block-alone")
	}
	if len(o.held) < o.forkLen+1 {
		return
	}
	for _, nd := range o.forkNodes() {
		o.deliver(nd, o.held, fmt.Sprintf(" as a side chain replacing a fork of length %d", o.forkLen))
		if !nd.out {
			r.Probe("reorg-to-main-chain")
		}
	}
	o.forkOn, o.held = false, nil
}

func (o *c06) atEnd() {
	for _, nd := range o.nodes {
		if !nd.out && nd.pol == polBatch && len(nd.hold) > 0 {
			o.deliver(nd, nd.hold, " as one batch")
			nd.hold = nil
		}
	}
}

func runC06(r *kit.Run) {
	runSim(r, func(s *sim) {
		o := &c06{s: s}
		s.reportTaint = true
		o.start()
		defer o.stop()
		s.runHistory(hooks{bias: 0, crowd: true, blocks: historyLen(r, 20, 45), beforeBuild: o.beforeBuild, onBuilt: o.onBuilt, atEnd: o.atEnd})
	})
}

// rejectClass names a rejection by what the rejected delivery contains (judged from the blocks
// and the simulator's own record of what it posted, so that a known cause can be told from a
// new one): a block built after a genuine evidence was posted that carries no slash data; a side chain with slash data; a
// side chain in which a staking transaction applied in one block is still pending when a later
// block of the same delivery ends the staking period; anything else.
func (o *c06) rejectClass(refs []*blockRef, side bool) string {
	for _, rf := range refs {
		if rf.evidenceUnrecorded {
			// the builder was handed a genuine evidence for the parent round and sealed a block
			// without slash data
			return "block-built-with-unrecorded-evidence-rejected"
		}
	}
	if !side {
		return "import-rejected"
	}
	F := o.s.sc.F
	for _, rf := range refs {
		if len(rf.blk.Header().SlashData) > 0 {
			return "side-chain-with-slash-data-rejected"
		}
	}
	for j, rf := range refs {
		n := rf.blk.NumberU64()
		if (n+1)%F != 0 {
			continue
		}
		for _, e := range refs[:j] {
			if e.blk.NumberU64()/F == n/F && e.stakingApplied {
				return "side-chain-ending-a-period-with-pending-staking-tx-rejected"
			}
		}
	}
	return "import-rejected"
}

// scratch executes block rf k times on fresh scratch states opened on its parent in the
// importer's database, exactly the way insertChain does between header verification and
// WriteBlockWithState (core/blockchain.go:377-399: StakingRootForNewBlock, state.New,
// Processor.Process, Validator.ValidateState) — the importer's head is the parent, so slash
// data is replayed as in a real import. Nothing is written. Every execution must reproduce
// the builder's commitments and receipts. Fresh StateDB objects mean fresh maps: Go randomises
// iteration per map instance, so k executions sample k iteration orders; with a disagreement
// frequency f per execution an order dependence is missed with probability (1-f)^k.
func (o *c06) scratch(nd *impNode, rf *blockRef, k int) {
	freq, bad := o.scratchOutcomes(nd, rf, k)
	if bad > 0 && len(freq) >= 2 {
		o.orderDependent(rf, k, freq)
	}
	// (every execution failing the same way is a deterministic disagreement: the import
	// that follows reports it under its own class)
}

// orderDependent reports that executions of one block over one parent state disagree and ends
// the run: what importers make of this block (and so everything after it) is a matter of map
// iteration order from here on.
func (o *c06) orderDependent(rf *blockRef, k int, freq map[string]int) {
	s, r := o.s, o.s.r
	var parts []string
	for m, c := range freq {
		parts = append(parts, fmt.Sprintf("%dx {%s}", c, clip(m, 260)))
	}
	sort.Strings(parts)
	r.Report("execution-disagrees-with-builder", "executing one block several times on fresh state objects over the same parent state (import path without header verification and writes) does not always reproduce the commitments the builder sealed")
	s.amend("execution-disagrees-with-builder", fmt.Sprintf(" | measured at block %d, %d executions: %s", rf.blk.NumberU64(), k, strings.Join(parts, " ; ")))
	s.stopRun = true
}

// diagnose is called when a node failed to adopt main-chain blocks: if re-executing the first
// block it did not adopt gives different results from execution to execution, the failure is
// one face of an order dependence (reported as such, run ended); otherwise it is deterministic
// and reported under its own class by the caller.
func (o *c06) diagnose(nd *impNode) bool {
	head := nd.chain().CurrentBlock()
	next := int(head.NumberU64()) + 1
	if next > len(o.refs) {
		return false
	}
	rf := o.refs[next-1]
	if rf.blk.ParentHash() != head.Hash() {
		return false
	}
	const k = 32
	freq, _ := o.scratchOutcomes(nd, rf, k)
	if len(freq) >= 2 {
		o.orderDependent(rf, k, freq)
		return true
	}
	return false
}

func (o *c06) scratchOutcomes(nd *impNode, rf *blockRef, k int) (freq map[string]int, bad int) {
	s, r := o.s, o.s.r
	freq = map[string]int{}
	chain := nd.chain()
	blk := rf.blk
	parent := chain.GetBlock(blk.ParentHash(), blk.NumberU64()-1)
	if parent == nil || chain.CurrentBlock().Hash() != parent.Hash() {
		return
	}
	yp, err := chain.VersionForRound(blk.NumberU64())
	if err != nil {
		return
	}
	for i := 0; i < k; i++ {
		st, err := chain.StateAt(parent.Root(), parent.ValRoot(), core.StakingRootForNewBlock(yp.StakingTrieFrequency, parent.Header()))
		if err != nil {
			r.Report("imported-state-unreadable", "importer %q: state of block %d: %v", nd.name(), parent.NumberU64(), err)
			return
		}
		out := "ok"
		ok := s.do(func() {
			res, e := chain.Processor().Process(yp, blk, st, *chain.GetVMConfig(), local.FakeRecorder())
			if e == nil {
				e = chain.Validator().ValidateState(blk, parent, st, res.Recs, res.UsedGas)
			}
			if e != nil {
				out = e.Error()
			} else if _, dg := receiptsText(res.Recs); dg != rf.rcDigest {
				out = "receipts differ from the builder's although their hash and bloom match"
			}
		})
		if !ok {
			o.kill(nd)
			return
		}
		r.Count("scratch-executions", 1)
		if out != "ok" {
			bad++
		}
		freq[out]++
	}
	return
}
