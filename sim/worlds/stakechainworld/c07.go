package stakechainworld

import (
	"fmt"
	"math/big"
	"sort"

	"verifsim/kit"
	"verifsim/simdisk"
	"verifsim/worlds/chainkit"

	"github.com/youchainhq/go-youchain/common"
	"github.com/youchainhq/go-youchain/core/state"
	"github.com/youchainhq/go-youchain/core/types"
	"github.com/youchainhq/go-youchain/params"
)

// The accounting identity of C07, worked out from the code under test (YouV5):
//
//   - Gas: buyGas debits gas*price from the sender, refundGas credits the unused part
//     (core/message_context.go:72,98). Nothing is credited to the coinbase account. The fee
//     price*gasUsed is added to header.GasRewards (state_processor.go:146) and enters the reward
//     flow at the end of the block.
//   - End of every block, rewardsToPool (staking/endblock.go:142): blockRewards = GasRewards +
//     previous global residue + Subsidy, where Subsidy is taken OUT of the RewardsPoolAddress
//     account (endblock.go:575) and written to header.Subsidy. blockRewards is split by
//     RewardsDistRatio among the roles that have online validators; the chamber roles' share goes
//     to the proposer's RewardsDistributable, the House share to the House role pool
//     (rewardsDistributable of the role statistics); the division remainder becomes the new
//     global residue (KindValidator.rewardsResidue).
//   - Staking transactions (handler.go, delegation_handler.go): create / deposit / delegation-add
//     SubBalance the value from the sender at submission and only write a staking record
//     (running FINAL value). Validator.Token does NOT change before the end of the period: the
//     detained tokens sit nowhere in the state (ESCROW). Withdraw / delegation-sub / update /
//     status / settle move nothing at submission. Failed transactions only cost gas.
//   - End of a staking period ((number+1)%StakingTrieFrequency==0, endblock.go:223), in order:
//     inactivity penalties (Token and unfinished withdraw records -> PenaltyTo); role pools ->
//     validators' RewardsDistributable (division remainder stays in the pool); settlements
//     (RewardsDistributable -> coinbase and delegators' balances; remainder stays, or goes to the
//     coinbase of an offline validator); matured withdraw records -> recipient's balance, marked
//     Finished; pending transactions take effect: create/deposit/delegation-add move the escrowed
//     value into Token (or, on failure, back to the sender's balance: YouV5 refund),
//     withdraw/delegation-sub move Token into a new withdraw record (FinalBalance).
//   - Evidence (slash.go:346): Token and unfinished withdraw records -> PenaltyTo account.
//
//	Σ balances + Σ validator.Token + Σ unfinished withdraw FinalBalance
//	  + Σ validator.RewardsDistributable + Σ role pools + global residue + ESCROW  ==  genesis total
//
// ESCROW = Σ value of the successfully applied create/deposit/delegation-add transactions of the
// current, not yet ended period — from the simulator's own ledger (receipt status + the payload
// it signed), not from the staking records.

type wrState struct {
	rec      *state.WithdrawRecord
	finished bool
	gone     bool
}

type c07 struct {
	s      *sim
	total0 *big.Int
	prev   *headView
	prevM  *measure
	wr     map[common.Hash]*wrState // withdraw records by the hash of the transaction that created them
	im     *chainkit.Importer       // observed node with restarts (nil when it fell out of sync)
	imDisk *simdisk.Disk
}

func (o *c07) name(a common.Address) string { return o.s.act.name(a) }

func (o *c07) start() {
	s := o.s
	v, err := viewHead(s.b.Chain)
	if err != nil {
		panic("stakechainworld: genesis state: " + err.Error())
	}
	m, err := v.measure()
	if err != nil {
		panic("stakechainworld: genesis measure: " + err.Error())
	}
	o.total0, o.prev, o.prevM = m.total(), v, m
	o.wr = map[common.Hash]*wrState{}
	s.r.Logf("genesis total=%v (%s)", o.total0, m)
	o.imDisk = simdisk.NewNoLog()
	s.do(func() {
		im, err := chainkit.NewImporter(o.imDisk, s.gen, kit.Wait)
		if err != nil {
			panic("stakechainworld: importer: " + err.Error())
		}
		o.im = im
	})
}

func (o *c07) stop() {
	if o.im != nil {
		o.im.Stop(kit.Wait)
	}
}

func (o *c07) onBuilt(n int, ref *blockRef) {
	s, r := o.s, o.s.r
	v := ref.view
	hdr := ref.blk.Header()
	yp := curParams()
	m, err := v.measure()
	if err != nil {
		r.Report("state-unreadable", "block %d: %v", n, err)
		return
	}
	periodEnd := (uint64(n)+1)%s.sc.F == 0
	// (1) the conservation identity
	total := new(big.Int).Add(m.total(), s.escrow)
	r.Logf("  measure %s escrow=%v", m, s.escrow)
	if total.Cmp(o.total0) != 0 {
		d := new(big.Int).Sub(total, o.total0)
		what := "created"
		if d.Sign() < 0 {
			what = "destroyed"
		}
		// The class says where the difference shows, judged from independent observations only
		// (so that a known cause can be told from a new one):
		//  - tokens created in a block with refund-earning calls, within what the refunds are worth;
		//  - dust (< 10^12 LU) destroyed at a period end in which a validator record was deleted;
		//  - an amount destroyed at a period end that the House role pool can have held (at most
		//    its content before the block plus the block's reward inflow) while House validators
		//    are online;
		//  - anything else.
		class := "tokens-not-conserved"
		abs := new(big.Int).Abs(d)
		deleted, onlineHouse := 0, 0
		for _, b := range o.prev.rawVals {
			if findVal(v.rawVals, b.MainAddress()) == nil {
				deleted++
			}
			if b.Role == params.RoleHouse && b.IsOnline() {
				onlineHouse++
			}
		}
		housePool := new(big.Int)
		if st, e := o.prev.st.GetValidatorsStat(); e == nil {
			housePool = st.GetByRole(params.RoleHouse).GetRewardsDistributable()
		}
		inflow := new(big.Int).Add(hdr.GasRewards, hdr.Subsidy)
		inflow.Add(inflow, o.prevM.residue)
		switch {
		case d.Sign() > 0 && ref.refundCap.Sign() > 0 && abs.Cmp(ref.refundCap) <= 0:
			// tokens appeared in a block that contains calls earning an EVM gas refund, and no
			// more than those refunds can be worth (a refund is capped at half the gas used)
			class = "gas-refund-minted"
		case d.Sign() < 0 && periodEnd && deleted > 0 && abs.Cmp(big.NewInt(1e12)) < 0:
			class = "dust-destroyed-when-validator-deleted"
		case d.Sign() < 0 && periodEnd && onlineHouse > 0 && abs.Cmp(new(big.Int).Add(housePool, inflow)) <= 0:
			class = "house-pool-rewards-destroyed"
		}
		r.Report(class, "after block %d (periodEnd=%v) %v LU were %s: total=%v genesis=%v | validators deleted in this block=%d, online House validators before=%d, House pool before=%v, reward inflow of the block=%v | now %s escrow=%v | before %s",
			n, periodEnd, abs, what, total, o.total0, deleted, onlineHouse, housePool, inflow, m, s.escrow, o.prevM)
		// re-base, so that one leak is reported once and later leaks are still seen
		o.total0 = total
	}
	if m.other.Sign() != 0 {
		r.Logf("  note: reward fields the code is not known to write are non-zero: %v", m.other)
	}
	// (2) the subsidy comes out of the rewards pool account
	poolBefore, poolAfter := o.prev.balance(yp.RewardsPoolAddress), v.balance(yp.RewardsPoolAddress)
	if dec := new(big.Int).Sub(poolBefore, poolAfter); dec.Cmp(hdr.Subsidy) != 0 {
		r.Report("subsidy-ne-pool-decrease", "block %d: header.Subsidy=%v but the rewards pool account went from %v to %v (decrease %v)", n, hdr.Subsidy, poolBefore, poolAfter, dec)
	}
	if hdr.Subsidy.Sign() > 0 {
		r.Probe("subsidy-paid")
	}
	// (3) penalties arrive in PenaltyTo: outside period ends only slashing moves Token and
	// unfinished withdraw records, and everything it takes must arrive there
	penBefore, penAfter := o.prev.balance(yp.PenaltyTo), v.balance(yp.PenaltyTo)
	penInc := new(big.Int).Sub(penAfter, penBefore)
	if penInc.Sign() < 0 {
		r.Report("penalty-account-decreased", "block %d: PenaltyTo went from %v to %v", n, penBefore, penAfter)
	}
	if penInc.Sign() > 0 {
		r.Probe("penalty-paid")
		if periodEnd && len(hdr.SlashData) == 0 {
			r.Probe("inactivity-penalty-paid")
		}
	}
	if !periodEnd {
		// (3b) fees: outside period ends nothing but gas, the subsidy, detained stakes and
		// penalties moves account balances in total, so what all accounts together lost to
		// gas is measurable from the raw balances, and it must be what the header declares
		debited := new(big.Int).Sub(o.prevM.balances, m.balances) // total decrease of balances
		debited.Sub(debited, hdr.Subsidy).Sub(debited, ref.detained).Add(debited, penInc)
		if debited.Cmp(hdr.GasRewards) != 0 {
			r.Report("fees-debited-ne-gas-rewards", "block %d: all accounts together paid %v LU for gas (Σ balances went %v -> %v, subsidy %v, detained stakes %v, penalties %v) but header.GasRewards=%v enters the reward flow (difference %v; refund-earning calls in the block are worth at most %v)",
				n, debited, o.prevM.balances, m.balances, hdr.Subsidy, ref.detained, penInc, hdr.GasRewards, new(big.Int).Sub(hdr.GasRewards, debited), ref.refundCap)
		}
		staked := new(big.Int).Add(o.prevM.tokens, o.prevM.unfinished)
		staked.Sub(staked, m.tokens).Sub(staked, m.unfinished)
		if staked.Cmp(penInc) != 0 {
			r.Report("penalty-ne-stake-decrease", "block %d (not a period end): Σ Token + Σ unfinished withdrawals decreased by %v but PenaltyTo grew by %v", n, staked, penInc)
		}
	}
	// (4) withdraw records: paid exactly once
	o.withdrawLedger(n, v, periodEnd, penInc)
	// (5) settlements: for a chamber validator that is not this block's proposer, has no
	// delegations and a reward address nobody else uses, RewardsDistributable can only move to
	// that address: RewardsDistributable + balance(coinbase) is constant (also when the
	// validator is deleted in this block).
	o.settlements(n, v, hdr)
	o.prev, o.prevM = v, m

	// the same identity on a verifying node that is reopened from disk every few blocks
	if o.im != nil && ref.tainted == "" {
		o.follow(n, ref)
	}
}

func (o *c07) withdrawLedger(n int, v *headView, periodEnd bool, penInc *big.Int) {
	s, r := o.s, o.s.r
	seen := map[common.Hash]bool{}
	credit := map[common.Address]*big.Int{} // expected credit of this block per recipient
	addCredit := func(a common.Address, x *big.Int) {
		if credit[a] == nil {
			credit[a] = new(big.Int)
		}
		credit[a].Add(credit[a], x)
	}
	for _, rec := range v.st.GetWithdrawQueue().Records {
		id := rec.TxHash
		if seen[id] {
			r.Report("withdraw-record-duplicated", "block %d: two withdraw records for the same transaction %x (validator %s)", n, id[:4], o.name(rec.Validator))
			continue
		}
		seen[id] = true
		w := o.wr[id]
		fin := rec.Finished != 0
		if w == nil {
			if !periodEnd {
				r.Report("withdraw-record-outside-period-end", "block %d: new withdraw record of %s outside a period end", n, o.name(rec.Validator))
			}
			if it := s.intents[id]; it == nil || (it.kind != "val-withdraw" && it.kind != "dlg-sub") {
				r.Report("withdraw-record-without-request", "block %d: withdraw record of %s created by transaction %x, which the simulator did not submit as a withdrawal", n, o.name(rec.Validator), id[:4])
			}
			o.wr[id] = &wrState{rec: rec.DeepCopy(), finished: fin}
			r.Probe("withdraw-record-created")
			if rec.Delegator != (common.Address{}) {
				r.Probe("withdraw-record-delegator")
			}
			r.Logf("  withdraw record %x: %s -> %s initial=%v completes=%d finished=%d", id[:4], o.name(rec.Validator), o.name(rec.Recipient), rec.InitialBalance, rec.CompletionHeight, rec.Finished)
			if fin && rec.FinalBalance.Sign() > 0 {
				r.Report("withdraw-record-born-finished", "block %d: new withdraw record %x is already finished with FinalBalance=%v", n, id[:4], rec.FinalBalance)
			}
			continue
		}
		if w.gone {
			r.Report("withdraw-record-reappeared", "block %d: withdraw record %x is back after it was removed", n, id[:4])
			w.gone = false
		}
		if rec.FinalBalance.Cmp(w.rec.FinalBalance) > 0 {
			r.Report("withdraw-final-balance-grew", "block %d: withdraw record %x FinalBalance %v -> %v", n, id[:4], w.rec.FinalBalance, rec.FinalBalance)
		}
		if rec.FinalBalance.Cmp(w.rec.FinalBalance) < 0 {
			r.Probe("withdraw-record-penalised")
			if w.finished {
				r.Report("withdraw-finished-record-changed", "block %d: finished withdraw record %x FinalBalance %v -> %v", n, id[:4], w.rec.FinalBalance, rec.FinalBalance)
			}
		}
		if w.finished && !fin {
			r.Report("withdraw-record-unfinished-again", "block %d: withdraw record %x went from finished back to unfinished (it would be paid twice)", n, id[:4])
		}
		if !w.finished && fin {
			if !periodEnd || !(rec.CompletionHeight < uint64(n)) {
				if rec.FinalBalance.Sign() > 0 {
					r.Report("withdraw-paid-early", "block %d: withdraw record %x (completes at %d) finished with FinalBalance=%v before maturity / outside a period end", n, id[:4], rec.CompletionHeight, rec.FinalBalance)
				}
			}
			addCredit(rec.Recipient, rec.FinalBalance)
			r.Probe("withdraw-paid")
			r.Logf("  withdraw record %x paid %v to %s", id[:4], rec.FinalBalance, o.name(rec.Recipient))
		}
		w.rec, w.finished = rec.DeepCopy(), fin
	}
	var ids []common.Hash
	for id := range o.wr {
		ids = append(ids, id)
	}
	sort.Slice(ids, func(i, j int) bool { return string(ids[i][:]) < string(ids[j][:]) })
	for _, id := range ids {
		w := o.wr[id]
		if w.gone {
			continue
		}
		if !seen[id] {
			w.gone = true
			r.Probe("withdraw-record-discarded")
			// An unfinished record may legitimately vanish in one block only when a penalty of
			// this very block emptied it (then it is finished and — number-CompletionHeight
			// wrapping around, endblock.go:533 — discarded at once): its value must have
			// arrived in PenaltyTo. Paid-and-discarded in one block is excluded by
			// retention >= period (drawScale).
			if !w.finished && w.rec.FinalBalance.Sign() > 0 && penInc.Cmp(w.rec.FinalBalance) < 0 {
				r.Report("withdraw-record-lost", "block %d: unfinished withdraw record %x (FinalBalance=%v to %s) disappeared from the queue", n, id[:4], w.rec.FinalBalance, o.name(w.rec.Recipient))
			}
			continue
		}
		if periodEnd && !w.finished && w.rec.CompletionHeight < uint64(n) && w.rec.FinalBalance.Sign() > 0 {
			r.Report("withdraw-matured-not-finished", "block %d (period end): withdraw record %x matured at %d with FinalBalance=%v but is still unfinished", n, id[:4], w.rec.CompletionHeight, w.rec.FinalBalance)
		}
	}
	// quiet recipients receive exactly the records that finished in this block
	for _, q := range s.act.quiet {
		inc := new(big.Int).Sub(v.balance(q), o.prev.balance(q))
		want := credit[q]
		if want == nil {
			want = new(big.Int)
		}
		if inc.Cmp(want) != 0 {
			r.Report("withdraw-recipient-credit", "block %d: recipient %s received %v but the withdraw records that finished in this block say %v", n, o.name(q), inc, want)
		}
	}
}

func (o *c07) settlements(n int, v *headView, hdr *types.Header) {
	r := o.s.r
	after := map[common.Address]*state.Validator{}
	for _, x := range v.rawVals {
		after[x.MainAddress()] = x
	}
	cbUse := map[common.Address]int{}
	for _, x := range o.prev.rawVals {
		cbUse[x.Coinbase]++
	}
	for _, x := range v.rawVals {
		if b := findVal(o.prev.rawVals, x.MainAddress()); b == nil || b.Coinbase != x.Coinbase {
			cbUse[x.Coinbase]++
		}
	}
	for _, b := range o.prev.rawVals {
		addr := b.MainAddress()
		a := after[addr]
		rdAfter := new(big.Int)
		if a != nil {
			rdAfter = a.RewardsDistributable
			if a.RewardsDistributable.Cmp(b.RewardsDistributable) < 0 {
				r.Probe("rewards-settled")
			}
		} else {
			r.Probe("validator-deleted")
		}
		if b.Kind() != params.KindChamber || addr == hdr.Coinbase || len(b.Delegations) > 0 || cbUse[b.Coinbase] != 1 || o.s.clientOf(b.Coinbase) >= 0 {
			continue
		}
		if a != nil && (a.Coinbase != b.Coinbase || len(a.Delegations) > 0) {
			continue
		}
		if cb, ok := o.s.cbChanged[addr]; ok && a == nil && n-cb < int(o.s.sc.F) {
			continue // deleted in the period in which its reward address was changed: paid to the new one
		}
		sumBefore := new(big.Int).Add(b.RewardsDistributable, o.prev.balance(b.Coinbase))
		sumAfter := new(big.Int).Add(rdAfter, v.balance(b.Coinbase))
		if sumBefore.Cmp(sumAfter) != 0 {
			what, class := "settled", "rewards-lost-in-settlement"
			diff := new(big.Int).Sub(sumAfter, sumBefore)
			if a == nil {
				what = "deleted"
				if diff.Sign() < 0 && diff.CmpAbs(big.NewInt(1e12)) < 0 {
					class = "residue-lost-when-validator-deleted"
				}
			}
			r.Report(class, "block %d: validator %s (no delegations, not the proposer) was %s: RewardsDistributable %v -> %v but its reward address %s went %v -> %v (difference %v)",
				n, o.name(addr), what, b.RewardsDistributable, rdAfter, o.name(b.Coinbase), o.prev.balance(b.Coinbase), v.balance(b.Coinbase), new(big.Int).Sub(sumAfter, sumBefore))
		}
	}
}

func findVal(l []*state.Validator, a common.Address) *state.Validator {
	for _, x := range l {
		if x.MainAddress() == a {
			return x
		}
	}
	return nil
}

// follow feeds the block to the verifying node, reopens it from disk every few blocks and
// evaluates the identity on the reopened state.
func (o *c07) follow(n int, ref *blockRef) {
	s, r := o.s, o.s.r
	var err error
	ok := s.do(func() {
		err = o.im.Chain.InsertChain(types.Blocks{ref.blk})
		kit.Wait()
	})
	if !ok {
		s.deadStops = append(s.deadStops, func() { o.im.Stop(func() {}) })
		o.im = nil
		return
	}
	if err != nil || o.im.Chain.CurrentBlock().Hash() != ref.blk.Hash() {
		// builder/validator disagreement is C06's subject; here the observed node is simply dropped
		r.Logf("  observed node fell out of sync at block %d: %v", n, err)
		r.Probe("observed-node-out-of-sync")
		o.im.Stop(kit.Wait)
		o.im = nil
		return
	}
	if !s.c.Chance("restart-observed", 1, 4) {
		return
	}
	o.im.Stop(kit.Wait)
	o.imDisk = o.imDisk.Restart()
	s.do(func() {
		im, e := chainkit.NewImporter(o.imDisk, s.gen, kit.Wait)
		if e != nil {
			panic("stakechainworld: reopen importer: " + e.Error())
		}
		o.im = im
	})
	r.Fault("restart")
	v, e := viewHead(o.im.Chain)
	if e != nil {
		r.Report("state-unreadable-after-restart", "block %d: %v", n, e)
		return
	}
	m, e := v.measure()
	if e != nil {
		r.Report("state-unreadable-after-restart", "block %d: %v", n, e)
		return
	}
	if v.hdr.Hash() != ref.blk.Hash() {
		r.Report("head-lost-after-restart", "after a restart at block %d the node's head is block %d", n, v.hdr.Number)
		return
	}
	total := new(big.Int).Add(m.total(), s.escrow)
	if total.Cmp(o.total0) != 0 {
		r.Report("tokens-not-conserved-after-restart", "block %d, state reopened from disk: total=%v expected=%v | %s escrow=%v", n, total, o.total0, m, s.escrow)
	}
}

func runC07(r *kit.Run) {
	runSim(r, func(s *sim) {
		o := &c07{s: s}
		o.start()
		defer o.stop()
		s.runHistory(hooks{bias: 1, blocks: historyLen(r, 30, 60), onBuilt: o.onBuilt})
	})
}

var _ = fmt.Sprint
