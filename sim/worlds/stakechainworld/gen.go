package stakechainworld

import (
	"fmt"
	"math"
	"math/big"
	"sort"

	"verifsim/kit"
	"verifsim/worlds/chainkit"

	"github.com/youchainhq/go-youchain/common"
	"github.com/youchainhq/go-youchain/consensus/ucon"
	"github.com/youchainhq/go-youchain/core"
	"github.com/youchainhq/go-youchain/core/state"
	"github.com/youchainhq/go-youchain/core/types"
	"github.com/youchainhq/go-youchain/crypto"
	"github.com/youchainhq/go-youchain/params"
	"github.com/youchainhq/go-youchain/rlp"
	"github.com/youchainhq/go-youchain/staking"
)

// intent is what the simulator asked for with one transaction (its own ledger entry: the
// payload it signed). Whether it was applied is read from the receipt status.
type intent struct {
	kind     string
	from     int
	val      common.Address // target validator (zero if none)
	value    *big.Int       // tokens detained from the sender on success (create/deposit/dlg-add); nil otherwise
	refund   bool           // a contract call that earns an EVM gas refund when it succeeds (storage clear, self-destruct)
	cbChange bool           // a validator update that names a new reward address
}

func (it *intent) detains() bool { return it != nil && it.value != nil && it.value.Sign() > 0 }

type contract struct {
	addr common.Address
	kind int // 0 storage writer, 1 reverter, 2 value forwarder, 3 self-destructor
	name string
}

type genState struct {
	prices         []*big.Int // gas price per client: pairwise distinct, so that the worker's price heap never sees a tie (ties are broken by map order, types/transaction.go:333)
	contracts      []*contract
	created        int
	slashes        int
	starve         int // index into act.vals of a validator that is never put first in the proposer order (-1 none)
	curVotes       []*chainkit.SignedVote
	curCtx         *chainkit.Ctx
	prevVotes      []*chainkit.SignedVote
	prevCtx        *chainkit.Ctx
	prevHash       common.Hash
	headSt         *state.StateDB
	headNum        uint64
	altCB          int
	evmFocus       bool // see genTx
	evmFocusDrawn  bool
	evidenceFor    uint64         // round for which a genuine double-sign evidence was last posted to the main builder
	evidenceTarget common.Address // the validator that evidence is against
	riskyPending   int            // risky actions submitted in the running period (see sim.risky)
}

func newGenState(c *kit.Chooser, a *actors) *genState {
	g := &genState{starve: -1, headNum: math.MaxUint64}
	mult := []*big.Int{big.NewInt(1), big.NewInt(1e9), big.NewInt(1e12), big.NewInt(4e13)}[c.Intn("gas-price-mult", 4)]
	perm := c.Perm("gas-price-order", nClients)
	for i := 0; i < nClients; i++ {
		g.prices = append(g.prices, new(big.Int).Mul(big.NewInt(int64(1+perm[i])), mult))
	}
	if c.Chance("starve-a-validator", 1, 3) {
		g.starve = 1 + c.Intn("starved", a.nGen-1)
	}
	return g
}

// head returns a StateDB opened on the builder's head (read-only use; cached per height).
func (s *sim) head() *state.StateDB {
	n := s.b.Chain.CurrentBlock().NumberU64()
	if s.g.headSt == nil || s.g.headNum != n {
		st, err := s.b.Chain.State()
		if err != nil {
			panic("stakechainworld: builder head state: " + err.Error())
		}
		s.g.headSt, s.g.headNum = st, n
	}
	return s.g.headSt
}

// ---- hand-assembled contracts ----

var (
	// SSTORE(key=calldata[32:64], value=calldata[0:32]); LOG1(topic=calldata[0:32]); STOP
	codeStore = common.FromHex("6000356020355560003560006000a100")
	// SSTORE(0,1); REVERT(0,0)
	codeRevert = common.FromHex("600160005560006000fd")
	// CALL(gas, calldata[0:32], callvalue, 0,0,0,0); STOP
	codeForward = common.FromHex("600060006000600034600035" + "5af100")
	// SELFDESTRUCT(calldata[0:32])
	codeSuicide = common.FromHex("600035ff")
	codeKinds   = [][]byte{codeStore, codeRevert, codeForward, codeSuicide}
	codeNames   = []string{"store", "reverter", "forwarder", "suicider"}
)

// initCode wraps runtime code into init code: CODECOPY(0, 11, len); RETURN(0, len).
func initCode(runtime []byte) []byte {
	return append([]byte{0x60, byte(len(runtime)), 0x80, 0x60, 0x0b, 0x60, 0x00, 0x39, 0x60, 0x00, 0xf3}, runtime...)
}

func word(b []byte) []byte { return common.LeftPadBytes(b, 32) }

// ---- submission ----

// submit signs and hands one transaction to the builder's pool (as a remote transaction, the
// way the protocol manager does) and records the simulator's intent.
func (s *sim) submit(from int, to *common.Address, value *big.Int, gas uint64, data []byte, it *intent, desc string) *types.Transaction {
	key := s.act.clients[from]
	nonce := s.b.Pool.Nonce(key.addr)
	var tx *types.Transaction
	if value == nil {
		value = new(big.Int)
	}
	if to == nil {
		tx = types.NewContractCreation(nonce, value, gas, s.g.prices[from], data)
	} else {
		tx = types.NewTransaction(nonce, *to, value, gas, s.g.prices[from], data)
	}
	stx, err := types.SignTx(tx, chainkit.Signer(), key.priv)
	if err != nil {
		panic(err)
	}
	errs := s.b.Pool.AddRemotesSync([]*types.Transaction{stx})
	s.b.Settle(kit.Wait)
	if errs[0] != nil {
		s.r.Logf("  submit C%d n=%d %s -> pool rejected: %v", from, nonce, desc, errs[0])
		return nil
	}
	it.from = from
	s.intents[stx.Hash()] = it
	s.r.Logf("  submit C%d n=%d gas=%d %s", from, nonce, gas, desc)
	return stx
}

func (s *sim) nextNonce(from int) uint64 { return s.b.Pool.Nonce(s.act.clients[from].addr) }

var stakingAddr = params.StakingModuleAddress

func encodeMsg(action staking.ActionType, payload interface{}) []byte {
	bs, err := rlp.EncodeToBytes(payload)
	if err != nil {
		panic(err)
	}
	out, err := rlp.EncodeToBytes(&staking.Message{Action: action, Payload: bs})
	if err != nil {
		panic(err)
	}
	return out
}

func (s *sim) stakingTx(from int, action staking.ActionType, payload interface{}, gas uint64, it *intent, desc string) *types.Transaction {
	return s.submit(from, &stakingAddr, nil, gas, encodeMsg(action, payload), it, desc)
}

// clientOf returns the client index holding addr (-1 if none).
func (s *sim) clientOf(addr common.Address) int {
	for i, c := range s.act.clients {
		if c.addr == addr {
			return i
		}
	}
	return -1
}

// liveVals lists the validators of the head state the simulator has an actor for.
func (s *sim) liveVals() (acts []*valActor, recs []*state.Validator) {
	st := s.head()
	for _, a := range s.act.vals {
		if v := st.GetValidatorByMainAddr(a.key.Addr); v != nil {
			acts = append(acts, a)
			recs = append(recs, v)
		}
	}
	return
}

// masterSign signs a staking message with the master key when the validator's role requires it
// (fault 0 = correct; 1 = nonce in the signed message off by one; 2 = signed by the sender's
// own key; 3 = no signature).
func (s *sim) masterSign(role params.ValidatorRole, msg staking.Msg, from int, setSign func([]byte), bumpNonce func()) string {
	if !curParams().SignatureRequired[role] {
		return ""
	}
	f := s.c.Weighted("master-sig-fault", []int{8, 1, 1, 1})
	key := masterKey.priv
	switch f {
	case 1:
		bumpNonce()
	case 2:
		key = s.act.clients[from].priv
	case 3:
		return " sig=none"
	}
	sig, err := staking.MakeSign(msg, key)
	if err != nil {
		panic(err)
	}
	setSign(sig)
	return []string{" sig=master", " sig=master,wrong-nonce", " sig=own-key", ""}[f]
}

const (
	gasStaking = 400000
	gasCreate  = 1600000
)

var unset16 = uint16(math.MaxUint16)

func oddLU(c *kit.Chooser) *big.Int { return big.NewInt(int64(1 + c.Intn("odd-lu", 999999))) }

// ---- the actions ----

func (s *sim) genTransfer() {
	from := s.c.Intn("from", nClients)
	var to common.Address
	refund := false
	switch s.c.Weighted("to-kind", []int{6, 2, 1}) {
	case 0:
		to = s.act.clients[s.c.Intn("to", nClients)].addr
	case 1:
		to = common.BytesToAddress([]byte{0xab, byte(s.c.Intn("fresh", 6))})
	case 2:
		if len(s.g.contracts) > 0 {
			ct := s.g.contracts[s.c.Intn("to-contract", len(s.g.contracts))]
			to = ct.addr
			// empty calldata: the store contract clears slot 0, the self-destructor dies towards address zero
			refund = ct.kind == 0 || ct.kind == 3
		} else {
			to = s.act.clients[0].addr
		}
	}
	amt := new(big.Int).Add(yous(uint64(s.c.Intn("amount-you", 50))), oddLU(s.c))
	s.submit(from, &to, amt, 21000+uint64(s.c.Intn("extra-gas", 2))*30000, nil, &intent{kind: "transfer", refund: refund}, fmt.Sprintf("transfer %v -> %s", amt, s.act.name(to)))
}

func (s *sim) genContractCreate() {
	from := s.c.Intn("from", nClients)
	kind := s.c.Intn("code", len(codeKinds))
	data := initCode(codeKinds[kind])
	desc := "create " + codeNames[kind]
	if s.c.Chance("reverting-constructor", 1, 8) {
		data = common.FromHex("60006000fd")
		desc = "create with reverting constructor"
		kind = -1
	}
	value := new(big.Int)
	if s.c.Chance("endowment", 1, 3) {
		value = yous(uint64(1 + s.c.Intn("endow", 5)))
	}
	gas := uint64(200000)
	if s.c.Chance("low-gas", 1, 8) {
		gas = 54000
	}
	nonce := s.nextNonce(from)
	if tx := s.submit(from, nil, value, gas, data, &intent{kind: "contract-create"}, fmt.Sprintf("%s value=%v", desc, value)); tx != nil && kind >= 0 {
		addr := crypto.CreateAddress(s.act.clients[from].addr, nonce)
		ct := &contract{addr: addr, kind: kind, name: fmt.Sprintf("K%d%s", len(s.g.contracts)+1, codeNames[kind][:2])}
		s.g.contracts = append(s.g.contracts, ct)
		s.act.names[addr] = ct.name
	}
}

func (s *sim) genContractCall() {
	if len(s.g.contracts) == 0 {
		s.genContractCreate()
		return
	}
	from := s.c.Intn("from", nClients)
	ct := s.g.contracts[s.c.Intn("contract", len(s.g.contracts))]
	var data []byte
	value := new(big.Int)
	desc := ""
	refund := false
	switch ct.kind {
	case 0:
		v, k := byte(s.c.Intn("store-value", 3)*3), byte(s.c.Intn("store-key", 3))
		if s.g.evmFocus {
			// one slot, two values: set / clear / set again
			k = 0
			if v == 6 {
				v = 3
			}
		}
		refund = v == 0
		data = append(word([]byte{v}), word([]byte{k})...)
		desc = fmt.Sprintf("sstore(%d)=%d", k, v)
	case 1:
		desc = "revert"
		if s.c.Chance("with-value", 1, 2) {
			value = yous(1)
		}
	case 2:
		var to common.Address
		if s.c.Chance("forward-to-contract", 1, 3) {
			tc := s.g.contracts[s.c.Intn("forward-target", len(s.g.contracts))]
			to = tc.addr
			refund = tc.kind == 0 || tc.kind == 3 // inner call with empty calldata: storage clear / self-destruct
		} else {
			to = s.act.clients[s.c.Intn("forward-client", nClients)].addr
		}
		data = word(to.Bytes())
		value = new(big.Int).Add(yous(uint64(s.c.Intn("forward-you", 4))), oddLU(s.c))
		desc = fmt.Sprintf("forward %v -> %s", value, s.act.name(to))
	case 3:
		// beneficiary is never the contract itself (SELFDESTRUCT to self burns the balance: EVM semantics, not a staking defect)
		to := s.act.clients[s.c.Intn("beneficiary", nClients)].addr
		data = word(to.Bytes())
		if s.c.Chance("with-value", 1, 2) {
			value = yous(2)
		}
		desc = fmt.Sprintf("selfdestruct -> %s value=%v", s.act.name(to), value)
		refund = true
	}
	gas := uint64(150000)
	if s.c.Chance("low-gas", 1, 10) {
		gas = 23000
	}
	s.submit(from, &ct.addr, value, gas, data, &intent{kind: "contract-call", refund: refund}, fmt.Sprintf("call %s %s", ct.name, desc))
}

func (s *sim) genValCreate() {
	// first candidate that neither exists nor is pending
	st := s.head()
	var cand *valActor
	for _, a := range s.act.vals[s.act.nGen:] {
		if st.GetValidatorByMainAddr(a.key.Addr) == nil && !a.created {
			cand = a
			break
		}
	}
	fault := 0
	if cand == nil {
		// every candidate was created: a duplicate creation (must fail)
		cand = s.act.vals[s.act.nGen+s.c.Intn("dup-candidate", nCandidates)]
		fault = 5
	} else {
		fault = s.c.Weighted("create-fault", []int{10, 1, 1, 1, 1})
	}
	from := cand.operator
	yp := curParams()
	value := yous(cand.stake)
	gas := uint64(gasCreate)
	op := s.act.clients[from].addr
	switch fault {
	case 1: // below the minimum self stake (chamber) / a zero-stake House validator
		if cand.role == params.RoleHouse {
			value = big.NewInt(12345)
		} else {
			value = yous(yp.MinSelfStakes[cand.role] - 1)
		}
	case 2: // above the maximum
		value = yous(yp.MaxStakes[cand.role] + 1)
	case 3: // sender is not the declared operator
		op = s.act.clients[(from+1)%nClients].addr
	case 4: // not enough gas for the creation surcharge
		gas = 600000
	}
	msg := &staking.TxCreateValidator{
		Name: cand.name, OperatorAddress: op, Coinbase: cand.coinbase,
		MainPubKey: cand.key.MainPub, BlsPubKey: cand.key.BlsPub, Value: value, Nonce: s.nextNonce(from),
		CommissionRate:   []uint16{0, 1000, 3333, 5000, 10000}[s.c.Intn("commission", 5)],
		RiskObligation:   []uint16{0, 2500, 777, 10000}[s.c.Intn("risk", 4)],
		AcceptDelegation: []uint16{1, 1, 0}[s.c.Intn("accept", 3)], Role: cand.role,
	}
	sig := s.masterSign(cand.role, msg, from, func(b []byte) { msg.Sign = b }, func() { msg.Nonce++ })
	it := &intent{kind: "val-create", val: cand.key.Addr, value: new(big.Int).Set(value)}
	s.stakingTx(from, staking.ValidatorCreate, msg, gas, it,
		fmt.Sprintf("val-create %s role=%d value=%v accept=%d commission=%d risk=%d fault=%d%s", cand.name, cand.role, value, msg.AcceptDelegation, msg.CommissionRate, msg.RiskObligation, fault, sig))
}

// pickVal picks a live validator; ok=false if there is none.
func (s *sim) pickVal(label string) (*valActor, *state.Validator, bool) {
	acts, recs := s.liveVals()
	if len(acts) == 0 {
		return nil, nil, false
	}
	i := s.c.Intn(label, len(acts))
	return acts[i], recs[i], true
}

// operatorOf returns the client that operates rec (wrong=true picks another client).
func (s *sim) operatorOf(rec *state.Validator, wrong bool) int {
	op := s.clientOf(rec.OperatorAddress)
	if op < 0 {
		op = 0
	}
	if wrong {
		return (op + 1 + s.c.Intn("wrong-sender", nClients-1)) % nClients
	}
	return op
}

func (s *sim) genValUpdate() {
	a, rec, ok := s.pickVal("update-val")
	if !ok {
		return
	}
	from := s.operatorOf(rec, s.c.Chance("wrong-operator", 1, 10))
	msg := &staking.TxUpdateValidator{
		Nonce: s.nextNonce(from), MainAddress: a.key.Addr,
		AcceptDelegation: []uint16{1, 0, unset16}[s.c.Weighted("accept", []int{5, 2, 2})],
		CommissionRate:   []uint16{unset16, 0, 1500, 10000, 4999}[s.c.Intn("commission", 5)],
		RiskObligation:   []uint16{unset16, 0, 3000, 10000}[s.c.Intn("risk", 4)],
	}
	switch s.c.Weighted("update-extra", []int{6, 1, 1, 1}) {
	case 1:
		msg.Name = fmt.Sprintf("%s-r%d", a.name, len(s.blocks))
	case 2:
		s.g.altCB++
		cb := common.BytesToAddress([]byte{0xcb, 0xcb, byte(s.g.altCB)})
		s.act.names[cb] = fmt.Sprintf("CB%s'%d", a.name[1:], s.g.altCB)
		msg.Coinbase = cb
	case 3:
		msg.OperatorAddress = s.act.clients[s.c.Intn("new-operator", nClients)].addr
	}
	sig := s.masterSign(rec.Role, msg, from, func(b []byte) { msg.Sign = b }, func() { msg.Nonce++ })
	s.stakingTx(from, staking.ValidatorUpdate, msg, gasStaking, &intent{kind: "val-update", val: a.key.Addr, cbChange: msg.Coinbase != (common.Address{})},
		fmt.Sprintf("val-update %s accept=%d commission=%d risk=%d name=%q coinbase=%s operator=%s%s", a.name, msg.AcceptDelegation, msg.CommissionRate, msg.RiskObligation, msg.Name, s.act.name(msg.Coinbase), s.act.name(msg.OperatorAddress), sig))
}

func (s *sim) genValDeposit() {
	a, rec, ok := s.pickVal("deposit-val")
	if !ok {
		return
	}
	from := s.operatorOf(rec, s.c.Chance("wrong-operator", 1, 12))
	yp := curParams()
	var value *big.Int
	switch s.c.Weighted("deposit-amount", []int{4, 2, 2, 2, 1}) {
	case 0:
		value = yous(uint64(1 + s.c.Intn("deposit-you", 3000)))
	case 1:
		value = new(big.Int).Add(yous(uint64(s.c.Intn("deposit-you", 100))), oddLU(s.c))
	case 2: // exactly up to the maximum (as far as the pending total says)
		value = s.roomOf(rec, yp)
	case 3: // one stake unit over the maximum
		value = new(big.Int).Add(s.roomOf(rec, yp), yous(1))
	case 4:
		value = yous(10000)
	}
	if value.Sign() <= 0 {
		value = yous(1)
	}
	msg := &staking.TxValidatorDeposit{MainAddress: a.key.Addr, Value: value, Nonce: s.nextNonce(from)}
	sig := s.masterSign(rec.Role, msg, from, func(b []byte) { msg.Sign = b }, func() { msg.Nonce++ })
	s.stakingTx(from, staking.ValidatorDeposit, msg, gasStaking, &intent{kind: "val-deposit", val: a.key.Addr, value: new(big.Int).Set(value)},
		fmt.Sprintf("val-deposit %s value=%v%s", a.name, value, sig))
}

// roomOf is how many tokens the validator can still take before MaxStakes, judged the way the
// handlers judge it (pending total if there is one, else the current total).
func (s *sim) roomOf(rec *state.Validator, yp params.YouParams) *big.Int {
	cur := s.head().GetStakingRecordValue(common.Address{}, rec.MainAddress())
	if cur.Sign() == 0 {
		cur = new(big.Int).Set(rec.Token)
	}
	max := yous(yp.MaxStakes[rec.Role])
	// tokens below one full stake unit do not count towards the stake
	max.Add(max, new(big.Int).Sub(params.StakeUint, big.NewInt(1)))
	return max.Sub(max, cur)
}

func (s *sim) genValWithdraw() {
	a, rec, ok := s.pickVal("withdraw-val")
	if !ok {
		return
	}
	from := s.operatorOf(rec, s.c.Chance("wrong-operator", 1, 12))
	yp := curParams()
	self := new(big.Int).Set(rec.SelfToken)
	var value *big.Int
	ww := []int{4, 2, 2, 1, 2, 1}
	if !s.risky(rec) {
		ww[1], ww[2], ww[4] = 0, 0, 0 // would force the validator offline
	}
	switch s.c.Weighted("withdraw-amount", ww) {
	case 0:
		value = yous(uint64(1 + s.c.Intn("withdraw-you", 2000)))
	case 1:
		value = new(big.Int).Rsh(self, 1)
	case 2: // everything
		value = self
	case 3: // more than it holds
		value = new(big.Int).Add(self, big.NewInt(1))
	case 4: // leaves less than the minimum self stake: forced full withdrawal at activation (YouV5)
		keep := yous(yp.MinSelfStakes[rec.Role])
		keep.Sub(keep, big.NewInt(1))
		value = new(big.Int).Sub(self, keep)
	case 5:
		value = new(big.Int).Add(yous(uint64(s.c.Intn("withdraw-you", 50))), oddLU(s.c))
	}
	if value.Sign() <= 0 {
		value = big.NewInt(1)
	}
	rcp := s.act.quiet[s.c.Intn("recipient", nQuiet)]
	msg := &staking.TxValidatorWithdraw{MainAddress: a.key.Addr, Recipient: rcp, Value: value, Nonce: s.nextNonce(from)}
	sig := s.masterSign(rec.Role, msg, from, func(b []byte) { msg.Sign = b }, func() { msg.Nonce++ })
	s.stakingTx(from, staking.ValidatorWithDraw, msg, gasStaking, &intent{kind: "val-withdraw", val: a.key.Addr},
		fmt.Sprintf("val-withdraw %s value=%v (self=%v) -> %s%s", a.name, value, self, s.act.name(rcp), sig))
}

func (s *sim) genValStatus() {
	// prefer validators that are offline (candidates after creation, expelled ones after recovery)
	acts, recs := s.liveVals()
	if len(acts) == 0 {
		return
	}
	var off []int
	for i, r := range recs {
		if r.IsOffline() {
			off = append(off, i)
		}
	}
	i := s.c.Intn("status-val", len(acts))
	if len(off) > 0 && s.c.Chance("status-prefer-offline", 2, 3) {
		i = off[s.c.Intn("status-offline-val", len(off))]
	}
	a, rec := acts[i], recs[i]
	// keep at least three online chamber validators so that the chain keeps going
	want := params.ValidatorOnline
	if rec.IsOnline() {
		want = params.ValidatorOffline
		if !s.risky(rec) {
			return
		}
	}
	if s.c.Chance("status-same", 1, 10) {
		want = rec.Status
	}
	from := s.operatorOf(rec, s.c.Chance("wrong-operator", 1, 12))
	msg := &staking.TxValidatorChangeStatus{MainAddress: a.key.Addr, Status: want, Nonce: s.nextNonce(from)}
	sig := s.masterSign(rec.Role, msg, from, func(b []byte) { msg.Sign = b }, func() { msg.Nonce++ })
	s.stakingTx(from, staking.ValidatorChangeStatus, msg, gasStaking, &intent{kind: "val-status", val: a.key.Addr},
		fmt.Sprintf("val-status %s %d->%d%s", a.name, rec.Status, want, sig))
}

func (s *sim) onlineChamber() int {
	_, recs := s.liveVals()
	n := 0
	for _, r := range recs {
		if r.IsOnline() && r.Kind() == params.KindChamber && !r.Expelled {
			n++
		}
	}
	return n
}

func (s *sim) genValSettle() {
	a, rec, ok := s.pickVal("settle-val")
	if !ok {
		return
	}
	from := s.operatorOf(rec, s.c.Chance("wrong-operator", 1, 8))
	s.stakingTx(from, staking.ValidatorSettle, &staking.TxValidatorSettle{MainAddress: a.key.Addr}, gasStaking, &intent{kind: "val-settle", val: a.key.Addr}, "val-settle "+a.name)
}

func (s *sim) genDlgAdd() {
	acts, recs := s.liveVals()
	if len(acts) == 0 {
		return
	}
	// prefer validators that accept delegations
	var acc []int
	for i, r := range recs {
		if r.AcceptDelegation == params.AcceptDelegation && !r.Expelled {
			acc = append(acc, i)
		}
	}
	i := s.c.Intn("dlg-val", len(acts))
	if len(acc) > 0 && s.c.Chance("dlg-prefer-accepting", 5, 6) {
		i = acc[s.c.Intn("dlg-accepting-val", len(acc))]
	}
	a, rec := acts[i], recs[i]
	from := s.c.Intn("delegator", nClients)
	yp := curParams()
	var value *big.Int
	switch s.c.Weighted("dlg-amount", []int{4, 2, 2, 2, 1, 1}) {
	case 0:
		value = yous(uint64(10 + s.c.Intn("dlg-you", 5000)))
	case 1:
		value = new(big.Int).Set(yp.MinDelegationTokens)
	case 2: // fill the validator up to its maximum
		value = s.roomOf(rec, yp)
	case 3:
		value = new(big.Int).Add(yous(uint64(10+s.c.Intn("dlg-you", 200))), oddLU(s.c))
	case 4: // below the minimum
		value = new(big.Int).Sub(yp.MinDelegationTokens, big.NewInt(1))
	case 5: // one unit over the maximum
		value = new(big.Int).Add(s.roomOf(rec, yp), yous(1))
	}
	if value.Sign() <= 0 {
		value = new(big.Int).Set(yp.MinDelegationTokens)
	}
	s.stakingTx(from, staking.DelegationAdd, &staking.TxDelegation{Validator: a.key.Addr, Value: value}, gasStaking,
		&intent{kind: "dlg-add", val: a.key.Addr, value: new(big.Int).Set(value)}, fmt.Sprintf("dlg-add C%d -> %s value=%v", from, a.name, value))
}

// delegations lists (client, validator actor, current or pending token) links of the head state.
type dlgLink struct {
	from int
	a    *valActor
	tok  *big.Int
}

func (s *sim) delegations() []dlgLink {
	var out []dlgLink
	acts, recs := s.liveVals()
	st := s.head()
	for i, r := range recs {
		for ci, c := range s.act.clients {
			tok := st.GetStakingRecordValue(c.addr, r.MainAddress())
			if tok.Sign() == 0 {
				if d := r.GetDelegationFrom(c.addr); d != nil {
					tok = d.Token
				}
			}
			if tok.Sign() > 0 {
				out = append(out, dlgLink{ci, acts[i], tok})
			}
		}
	}
	return out
}

func (s *sim) genDlgSub() {
	links := s.delegations()
	if len(links) == 0 || s.c.Chance("dlg-sub-nonexistent", 1, 12) {
		a, _, ok := s.pickVal("dlg-val")
		if !ok {
			return
		}
		from := s.c.Intn("delegator", nClients)
		s.stakingTx(from, staking.DelegationSub, &staking.TxDelegation{Validator: a.key.Addr, Value: yous(10)}, gasStaking,
			&intent{kind: "dlg-sub", val: a.key.Addr}, fmt.Sprintf("dlg-sub C%d -> %s value=10 YOU (any)", from, a.name))
		return
	}
	l := links[s.c.Intn("dlg-link", len(links))]
	yp := curParams()
	var value *big.Int
	switch s.c.Weighted("dlg-sub-amount", []int{3, 2, 3, 1, 2}) {
	case 0:
		value = yous(uint64(1 + s.c.Intn("dlg-sub-you", 10)))
	case 1:
		value = new(big.Int).Rsh(l.tok, 1)
	case 2: // all
		value = new(big.Int).Set(l.tok)
	case 3: // more than delegated
		value = new(big.Int).Add(l.tok, big.NewInt(1))
	case 4: // leaves less than the minimum delegation: forced full withdrawal at activation
		keep := new(big.Int).Sub(yp.MinDelegationTokens, big.NewInt(1))
		value = new(big.Int).Sub(l.tok, keep)
	}
	if value.Sign() <= 0 {
		value = big.NewInt(1)
	}
	s.stakingTx(l.from, staking.DelegationSub, &staking.TxDelegation{Validator: l.a.key.Addr, Value: value}, gasStaking,
		&intent{kind: "dlg-sub", val: l.a.key.Addr}, fmt.Sprintf("dlg-sub C%d -> %s value=%v (has %v)", l.from, l.a.name, value, l.tok))
}

func (s *sim) genDlgSettle() {
	links := s.delegations()
	if len(links) == 0 {
		return
	}
	l := links[s.c.Intn("dlg-link", len(links))]
	s.stakingTx(l.from, staking.DelegationSettle, &staking.TxDelegationSettle{Validator: l.a.key.Addr}, gasStaking,
		&intent{kind: "dlg-settle", val: l.a.key.Addr}, fmt.Sprintf("dlg-settle C%d -> %s", l.from, l.a.name))
}

func (s *sim) genGarbage() {
	from := s.c.Intn("from", nClients)
	var data []byte
	desc := ""
	switch s.c.Intn("garbage-kind", 5) {
	case 0:
		data, desc = []byte{0xde, 0xad, 0xbe, 0xef}, "undecodable message"
	case 1:
		data, desc = encodeMsg(staking.ActionType(0x7f), []byte{1, 2, 3}), "unsupported action"
	case 2:
		data, desc = encodeMsg(staking.ValidatorDeposit, &staking.TxDelegationSettle{Validator: s.act.vals[0].key.Addr}), "deposit action with a foreign payload"
	case 3:
		data, desc = nil, "empty data"
	case 4:
		data, desc = encodeMsg(staking.DelegationAdd, &staking.TxDelegation{Validator: common.BytesToAddress([]byte{0x77}), Value: yous(100)}), "delegation to an unknown validator"
	}
	value := new(big.Int)
	if s.c.Chance("garbage-with-value", 1, 3) {
		value = yous(3) // the module ignores the transaction value; it must stay with the sender
	}
	s.submit(from, &stakingAddr, value, gasStaking, data, &intent{kind: "garbage"}, "staking-garbage: "+desc+fmt.Sprintf(" txvalue=%v", value))
}

// genTx submits one transaction of a weighted random kind (index 0 = plain transfer).
func (s *sim) genTx(bias int) {
	w := []int{6, 2, 4, 2, 3, 4, 4, 3, 1, 6, 4, 1, 2}
	if bias == 1 { // C07: value movement through staking
		w = []int{3, 1, 3, 2, 3, 6, 6, 3, 2, 8, 6, 2, 1}
	}
	if !s.g.evmFocusDrawn {
		// swarm: a quarter of the C06 runs concentrate on contract storage (one slot of a few
		// store contracts is set, cleared and set again in consecutive blocks, also inside a fork
		// and the side chain that replaces it)
		s.g.evmFocusDrawn = true
		s.g.evmFocus = bias == 0 && s.c.Chance("evm-focus", 1, 3)
		if s.g.evmFocus {
			s.r.Probe("evm-focus-run")
		}
	}
	if s.g.evmFocus {
		w[1] *= 2
		w[2] *= 8
	}
	switch s.c.Weighted("action", w) {
	case 0:
		s.genTransfer()
	case 1:
		s.genContractCreate()
	case 2:
		s.genContractCall()
	case 3:
		s.genValCreate()
	case 4:
		s.genValUpdate()
	case 5:
		s.genValDeposit()
	case 6:
		s.genValWithdraw()
	case 7:
		s.genValStatus()
	case 8:
		s.genValSettle()
	case 9:
		s.genDlgAdd()
	case 10:
		s.genDlgSub()
	case 11:
		s.genDlgSettle()
	case 12:
		s.genGarbage()
	}
}

// warmUp (first block): the genesis validators start with AcceptDelegation 0 and zero rates
// (core/genesis.go:269); their operators open them up, and candidates are created, so that
// delegation traffic can start after the first period end.
func (s *sim) warmUp() {
	for i, a := range s.act.vals[:s.act.nGen] {
		if !s.c.Chance("warmup-update", 3, 4) {
			continue
		}
		from := a.operator
		msg := &staking.TxUpdateValidator{
			Nonce: s.nextNonce(from), MainAddress: a.key.Addr, AcceptDelegation: 1,
			CommissionRate: []uint16{0, 1500, 3333, 10000}[s.c.Intn("commission", 4)],
			RiskObligation: []uint16{0, 3000, 10000, 777}[s.c.Intn("risk", 4)],
		}
		sig := s.masterSign(a.role, msg, from, func(b []byte) { msg.Sign = b }, func() { msg.Nonce++ })
		s.stakingTx(from, staking.ValidatorUpdate, msg, gasStaking, &intent{kind: "val-update", val: a.key.Addr},
			fmt.Sprintf("val-update %s accept=1 commission=%d risk=%d (warm-up %d)%s", a.name, msg.CommissionRate, msg.RiskObligation, i, sig))
	}
	for range s.act.vals[s.act.nGen:] {
		if s.c.Chance("warmup-create", 2, 3) {
			s.genValCreate()
		}
	}
}

// ---- scripts: short sequences that need a particular order to reach a rare branch ----

// scriptFillSubAdd: A fills validator X up to its maximum, A takes b back, B adds b. At the
// period end the records are taken in trie order: if B's record comes first, A's add overflows
// MaxStakes at activation and must be refunded (take_effect_handler.go:246).
func (s *sim) scriptFillSubAdd() bool {
	acts, recs := s.liveVals()
	var cand []int
	yp := curParams()
	for i, r := range recs {
		if r.AcceptDelegation == params.AcceptDelegation && !r.Expelled {
			room := s.roomOf(r, yp)
			if room.Cmp(yous(50)) >= 0 && room.Cmp(yous(40000)) <= 0 {
				cand = append(cand, i)
			}
		}
	}
	if len(cand) == 0 {
		return false
	}
	i := cand[s.c.Intn("script-val", len(cand))]
	a, r := acts[i], recs[i]
	A := s.c.Intn("script-A", nClients)
	B := (A + 1 + s.c.Intn("script-B", nClients-1)) % nClients
	room := s.roomOf(r, yp)
	b := yous(uint64(12 + s.c.Intn("script-b", 20)))
	s.r.Logf("  script fill-sub-add on %s room=%v", a.name, room)
	s.stakingTx(A, staking.DelegationAdd, &staking.TxDelegation{Validator: a.key.Addr, Value: room}, gasStaking,
		&intent{kind: "dlg-add", val: a.key.Addr, value: new(big.Int).Set(room)}, fmt.Sprintf("dlg-add C%d -> %s value=%v (fill)", A, a.name, room))
	s.stakingTx(A, staking.DelegationSub, &staking.TxDelegation{Validator: a.key.Addr, Value: b}, gasStaking,
		&intent{kind: "dlg-sub", val: a.key.Addr}, fmt.Sprintf("dlg-sub C%d -> %s value=%v", A, a.name, b))
	s.stakingTx(B, staking.DelegationAdd, &staking.TxDelegation{Validator: a.key.Addr, Value: b}, gasStaking,
		&intent{kind: "dlg-add", val: a.key.Addr, value: new(big.Int).Set(b)}, fmt.Sprintf("dlg-add C%d -> %s value=%v (refill)", B, a.name, b))
	return true
}

// scriptAddThenClose: a delegation is submitted and, in the same period, the validator stops
// accepting delegations; if the validator's own record is taken first at the period end the
// delegation fails at activation and must be refunded (take_effect_handler.go:228).
func (s *sim) scriptAddThenClose() bool {
	acts, recs := s.liveVals()
	var cand []int
	for i, r := range recs {
		if r.AcceptDelegation == params.AcceptDelegation && !r.Expelled && s.clientOf(r.OperatorAddress) >= 0 && !curParams().SignatureRequired[r.Role] {
			cand = append(cand, i)
		}
	}
	if len(cand) == 0 {
		return false
	}
	i := cand[s.c.Intn("script-val", len(cand))]
	a, r := acts[i], recs[i]
	D := s.c.Intn("script-delegator", nClients)
	v := yous(uint64(20 + s.c.Intn("script-you", 300)))
	s.r.Logf("  script add-then-close on %s", a.name)
	s.stakingTx(D, staking.DelegationAdd, &staking.TxDelegation{Validator: a.key.Addr, Value: v}, gasStaking,
		&intent{kind: "dlg-add", val: a.key.Addr, value: new(big.Int).Set(v)}, fmt.Sprintf("dlg-add C%d -> %s value=%v", D, a.name, v))
	op := s.operatorOf(r, false)
	msg := &staking.TxUpdateValidator{Nonce: s.nextNonce(op), MainAddress: a.key.Addr, AcceptDelegation: 0, CommissionRate: unset16, RiskObligation: unset16}
	s.stakingTx(op, staking.ValidatorUpdate, msg, gasStaking, &intent{kind: "val-update", val: a.key.Addr}, fmt.Sprintf("val-update %s accept=0", a.name))
	return true
}

// scriptCrowd (C06 only): a block that is nearly full by gas LIMITS and contains a transfer the
// builder has to refuse for lack of value. X (highest gas price, so the worker takes its
// transactions first) sends half of its balance away and, with the next nonce, a transfer of
// more than what is then left after buying gas: admitted by the pool (each transaction alone is
// affordable), executable, but refused and reverted by the builder (miner/worker.go:403). P and
// Q (next prices) send plain transfers whose gas limits almost equal the block's: after X's
// first transaction and P, Q no longer fits (worker.go:391) and must wait for the next block.
// A builder whose gas pool is off after the refused transaction packs Q, and every importer
// refuses the block.
func (s *sim) scriptCrowd() bool {
	order := make([]int, nClients)
	for i := range order {
		order[i] = i
	}
	sort.Slice(order, func(i, j int) bool { return s.g.prices[order[i]].Cmp(s.g.prices[order[j]]) > 0 })
	X, P, Q := order[0], order[1], order[2]
	st := s.head()
	for _, c := range []int{X, P, Q} {
		if a := s.act.clients[c].addr; s.b.Pool.Nonce(a) != st.GetNonce(a) {
			return false // something of theirs is still waiting in the pool
		}
	}
	hb := s.b.Chain.CurrentBlock()
	L := core.CalcGasLimit(hb)
	if hb.GasLimit() < L {
		L = hb.GasLimit()
	}
	if L < 1_000_000 {
		return false
	}
	price := s.g.prices[X]
	bal := st.GetBalance(s.act.clients[X].addr)
	gBad := []uint64{3_000_000, 60_000, L - 100_000}[s.c.Intn("crowd-refused-gas", 3)]
	need := new(big.Int).Mul(new(big.Int).SetUint64(2*(gBad+21000)), price)
	half := new(big.Int).Rsh(bal, 1)
	if half.Cmp(need) <= 0 {
		return false
	}
	s.r.Logf("  script crowd: X=C%d P=C%d Q=C%d block gas limit %d", X, P, Q, L)
	to := s.act.clients[P].addr
	if s.submit(X, &to, half, 21000, nil, &intent{kind: "transfer"}, fmt.Sprintf("transfer %v -> %s (half of the balance)", half, s.act.name(to))) == nil {
		return true
	}
	// left after the first: bal - half - 21000*price; after buying gBad gas: that - gBad*price
	left := new(big.Int).Sub(bal, half)
	left.Sub(left, new(big.Int).Mul(big.NewInt(21000), price))
	left.Sub(left, new(big.Int).Mul(new(big.Int).SetUint64(gBad), price))
	over := new(big.Int).Add(left, big.NewInt(1+int64(s.c.Intn("crowd-over", 3))*1_000_000))
	s.submit(X, &to, over, gBad, nil, &intent{kind: "transfer"}, fmt.Sprintf("transfer %v -> %s (more than what is left after buying gas: the builder must refuse it)", over, s.act.name(to)))
	toQ, toP := s.act.clients[Q].addr, s.act.clients[X].addr
	s.submit(P, &toQ, yous(1), L-30000, nil, &intent{kind: "transfer"}, fmt.Sprintf("transfer 1 YOU -> %s (gas limit = block limit - 30000)", s.act.name(toQ)))
	s.submit(Q, &toP, yous(1), L-41999, nil, &intent{kind: "transfer"}, fmt.Sprintf("transfer 1 YOU -> %s (gas limit = block limit - 41999: does not fit after two transfers)", s.act.name(toP)))
	s.r.Probe("crowd-script")
	return true
}

// ---- evidences ----

// postEvidence builds an evidence of REAL double signing by a validator the simulator holds
// keys for — its genuine precommit for the block just built plus a second precommit for a
// different hash in the same (round, index), the way the detector assembles one
// (consensus/ucon/voter.go:590-615) — or a faulty variant, and posts it on the builder's mux
// like the detector and dev_api do. The next block (whose parent is the voted round) carries it.
func (s *sim) postEvidence() {
	votes, ctx := s.g.curVotes, s.g.curCtx // votes packed into the last MAIN-chain block
	if len(votes) == 0 || ctx == nil {
		return
	}
	variant := s.c.Weighted("evidence-variant", []int{6, 1, 1, 1, 1, 1, 2})
	if variant == 6 && (len(votes) < 2 || s.g.slashes >= 1 || !s.risky(nil)) {
		variant = 0
	}
	if variant == 0 || variant == 4 || variant == 6 {
		// a real slash takes a validator out: keep the chain alive
		if s.g.slashes >= 2 || !s.risky(nil) {
			return
		}
	}
	sv := votes[s.c.Intn("evidence-signer", len(votes))]
	round, index := ctx.Round, ctx.Index
	blockHash := s.blocks[len(s.blocks)-1].Hash()
	other := crypto.Keccak256Hash([]byte("equivocation"), blockHash.Bytes())
	mk := func(v *chainkit.SignedVote, round uint64, index uint32, h1, h2 common.Hash, sig1 []byte) staking.EvidenceDoubleSignV5 {
		sig2 := v.Key.BlsSk.Sign(chainkit.VotePayload(h2, round, index)).Compress().Bytes()
		return staking.EvidenceDoubleSignV5{Round: round, RoundIndex: index, SignerIdx: v.Vote.VoterIdx, VoteType: uint8(ucon.Precommit),
			Signs: []*staking.SignInfo{{Hash: h1, Sign: sig1}, {Hash: h2, Sign: sig2}}}
	}
	ev := mk(sv, round, index, blockHash, other, sv.SigRaw)
	desc := "genuine"
	switch variant {
	case 1: // for the previous round: too late, must do nothing
		if s.g.prevCtx == nil || len(s.g.prevVotes) == 0 {
			return
		}
		pv := s.g.prevVotes[s.c.Intn("evidence-prev-signer", len(s.g.prevVotes))]
		sv = pv
		ev = mk(pv, s.g.prevCtx.Round, s.g.prevCtx.Index, s.g.prevHash, other, pv.SigRaw)
		desc = "late (previous round)"
	case 2: // second signature made by another validator's key
		o := votes[(s.c.Intn("evidence-other", len(votes)))]
		if o.Key == sv.Key {
			return
		}
		ev.Signs[1].Sign = o.Key.BlsSk.Sign(chainkit.VotePayload(other, round, index)).Compress().Bytes()
		desc = "forged second signature"
	case 3: // signer index of somebody else
		ev.SignerIdx = (ev.SignerIdx + 1) % uint32(ctx.Vals.Len())
		desc = "wrong signer index"
	case 4: // the same validator twice in one block: slashed once
		desc = "genuine, posted twice"
	case 5: // a future round
		ev.Round += 3
		desc = "future round"
	case 6:
		desc = "genuine (first of two validators)"
	}
	s.r.Logf("  evidence %s against %s round=%d index=%d", desc, sv.Key.Name(), ev.Round, ev.RoundIndex)
	s.b.PostEvidence(staking.NewEvidence(ev), kit.Wait)
	if variant == 4 {
		third := crypto.Keccak256Hash([]byte("equivocation-2"), blockHash.Bytes())
		s.b.PostEvidence(staking.NewEvidence(mk(sv, round, index, blockHash, third, sv.SigRaw)), kit.Wait)
	}
	if variant == 6 {
		// a second validator equivocated in the same round: two confirmed evidences in one block
		var o *chainkit.SignedVote
		for _, x := range votes {
			if x.Key != sv.Key {
				o = x
				break
			}
		}
		if o != nil {
			s.r.Logf("  evidence genuine against %s round=%d index=%d (second validator)", o.Key.Name(), round, index)
			s.b.PostEvidence(staking.NewEvidence(mk(o, round, index, blockHash, other, o.SigRaw)), kit.Wait)
			s.g.slashes++
		}
	}
	if variant == 0 || variant == 4 || variant == 6 {
		s.g.slashes++
		if s.b == s.mainB {
			s.g.evidenceFor = round
			s.g.evidenceTarget = sv.Key.Addr
		}
	}
	s.r.Fault("evidence-" + []string{"genuine", "late", "forged", "wrong-index", "twice", "future", "two-validators"}[variant])
}

// steerForge picks round index and proposer order of the next block. Validators that are not
// online chamber members of the CURRENT head state (deleted, offline, expelled) go last unless
// the chooser lets one of them propose although it is only in the look-back set any more.
func (s *sim) steerForge() {
	e := s.b.Engine
	e.StartIndex = uint32([]int{1, 1, 2, 3}[s.c.Weighted("start-index", []int{6, 0, 1, 1})])
	perm := s.c.Perm("proposer-order", len(e.Keys))
	st := s.head()
	next := s.b.Chain.CurrentBlock().NumberU64() + 1
	// a validator that is only in the look-back set any more may still propose: one that is
	// offline/expelled now (1/6), or one whose record was deleted (1/40: the builder then dies in
	// logging.Crit "proposer not in the current validators set", endblock.go:183)
	ghostOK, deletedOK := s.c.Chance("ghost-proposer", 1, 6), s.c.Chance("deleted-proposer", 1, 40)
	wait := curParams().InactivityPenaltyWaitRounds
	var urgent, first, last []int
	for _, i := range perm {
		v := st.GetValidatorByMainAddr(e.Keys[i].Addr)
		current := v != nil && v.IsOnline() && v.Kind() == params.KindChamber
		switch {
		case i == s.g.starve:
			last = append(last, i)
		case current && next-v.LastActive()+uint64(len(e.Keys))+1 >= wait:
			// an online chamber validator is penalised for inactivity when it has not
			// proposed for InactivityPenaltyWaitRounds (slash_youv5.go:82): an honest,
			// live network gives everybody a turn; only the starved validator goes without
			urgent = append(urgent, i)
		case (v == nil && !deletedOK) || (v != nil && !current && !ghostOK):
			last = append(last, i)
		default:
			first = append(first, i)
		}
	}
	sort.SliceStable(urgent, func(a, b int) bool {
		return st.GetValidatorByMainAddr(e.Keys[urgent[a]].Addr).LastActive() < st.GetValidatorByMainAddr(e.Keys[urgent[b]].Addr).LastActive()
	})
	e.ProposerOrder = append(append(urgent, first...), last...)
}

// onlineAny counts the online validators of the head state (any role).
func (s *sim) onlineAny() int {
	n := 0
	for _, v := range s.head().GetValidatorsForUpdate() {
		if v.IsOnline() {
			n++
		}
	}
	return n
}

// risky reports whether one more action that can take an online chamber validator out of the
// set (status offline, full or forced-full withdrawal, slash) may be generated in this period
// without endangering the chain's liveness (at least three online chamber validators stay).
func (s *sim) risky(rec *state.Validator) bool {
	if rec != nil && !(rec.IsOnline() && rec.Kind() == params.KindChamber) {
		return true
	}
	if s.onlineChamber()-s.g.riskyPending <= 3 {
		return false
	}
	s.g.riskyPending++
	return true
}
