package stakechainworld

import (
	"crypto/ecdsa"
	"fmt"
	"math/big"

	"verifsim/kit"
	"verifsim/worlds/chainkit"

	"github.com/youchainhq/go-youchain/common"
	"github.com/youchainhq/go-youchain/core"
	"github.com/youchainhq/go-youchain/crypto"
	"github.com/youchainhq/go-youchain/params"
)

type ecdsaKey struct {
	priv *ecdsa.PrivateKey
	addr common.Address
}

// valActor is one validator the simulator holds keys for: a genesis validator or a candidate
// that is created through a staking transaction during the run.
type valActor struct {
	key      *chainkit.ValKey
	name     string
	genesis  bool
	role     params.ValidatorRole
	stake    uint64         // genesis stake / creation value in stake units
	status   uint8          // genesis status
	operator int            // client index of the operator account
	created  bool           // candidate: a create transaction was applied successfully
	coinbase common.Address // reward address: nobody holds its key, nothing else is ever sent to it
}

const (
	nClients    = chainkit.NClients
	nQuiet      = 4
	nCandidates = 3
)

type actors struct {
	clients []*ecdsaKey
	vals    []*valActor // genesis validators first, then candidates
	nGen    int
	quiet   []common.Address // recipients that never send and receive nothing but withdrawals
	names   map[common.Address]string
}

func yous(n uint64) *big.Int { return new(big.Int).Mul(new(big.Int).SetUint64(n), params.StakeUint) }

func newActors(c *kit.Chooser) *actors {
	a := &actors{names: map[common.Address]string{}}
	for i := 0; i < nClients; i++ {
		k := chainkit.ClientKey(i)
		a.clients = append(a.clients, &ecdsaKey{k, crypto.PubkeyToAddress(k.PublicKey)})
		a.names[a.clients[i].addr] = fmt.Sprintf("C%d", i)
	}
	for i := 0; i < nQuiet; i++ {
		q := common.BytesToAddress([]byte{0xee, 0xee, byte(i + 1)})
		a.quiet = append(a.quiet, q)
		a.names[q] = fmt.Sprintf("Q%d", i)
	}
	yp := curParams()
	keys := chainkit.Keys()
	a.nGen = 4 + c.Intn("nvals", 3)
	maxSen, maxHouse := yp.MaxStakes[params.RoleSenator], yp.MaxStakes[params.RoleHouse]
	for i := 0; i < a.nGen+nCandidates; i++ {
		v := &valActor{key: keys[i], name: fmt.Sprintf("V%d", i+1), genesis: i < a.nGen, status: params.ValidatorOnline}
		switch {
		case i == 0:
			v.role = params.RoleChancellor
			v.stake = uint64(100000 + 20000*c.Intn("stake-chancellor", 5))
		case i < 4:
			v.role = params.RoleSenator
			v.stake = []uint64{50000, 70000, 85000, maxSen - 3000, maxSen - 500}[c.Intn("stake-senator", 5)]
		default:
			// the 5th/6th genesis validator and the candidates: House or Senator
			if c.Chance("house", 1, 2) {
				v.role = params.RoleHouse
				v.stake = []uint64{20000, 40000, maxHouse - 1000}[c.Intn("stake-house", 3)]
			} else {
				v.role = params.RoleSenator
				v.stake = []uint64{30000, 60000, maxSen - 2000}[c.Intn("stake-senator", 3)]
			}
			if v.genesis && c.Chance("offline", 1, 4) {
				v.status = params.ValidatorOffline
			}
		}
		if v.genesis {
			v.operator = i % 4
		} else {
			v.operator = 4 + (i-a.nGen)%3
		}
		// (in the test data the coinbase equals the main address; a separate address keeps the
		// reward flow apart from everything else)
		v.coinbase = common.BytesToAddress([]byte{0xcb, 0x00, byte(i + 1)})
		a.vals = append(a.vals, v)
		a.names[v.key.Addr] = v.name
		a.names[v.coinbase] = "CB" + v.name[1:]
	}
	a.names[yp.RewardsPoolAddress] = "POOL"
	a.names[yp.PenaltyTo] = "PENALTY"
	a.names[params.StakingModuleAddress] = "STAKING"
	a.names[common.Address{}] = "ZERO"
	return a
}

func (a *actors) allValKeys() []*chainkit.ValKey {
	var ks []*chainkit.ValKey
	for _, v := range a.vals {
		ks = append(ks, v.key)
	}
	return ks
}

func (a *actors) name(x common.Address) string {
	if n, ok := a.names[x]; ok {
		return n
	}
	return x.Hex()[2:10]
}

func (a *actors) valByAddr(x common.Address) *valActor {
	for _, v := range a.vals {
		if v.key.Addr == x {
			return v
		}
	}
	return nil
}

// genesis builds the genesis block description: the repository's consensus-test template
// (network id 99 = params.protocolsForTestCase, rewards pool funded), protocol YouV5, the
// genesis validators with CLIENT accounts as operators (so that the simulator can sign their
// staking transactions; chainkit.MakeGenesis uses the test data's coinbase addresses, for
// which nobody holds a key) and the test data's coinbase addresses as reward receivers.
func (a *actors) genesis() *core.Genesis {
	g := chainkit.MakeGenesis(nil, params.YouV5) // template + funded clients
	for _, v := range a.vals[:a.nGen] {
		g.Validators[v.key.Addr] = core.GenesisValidator{
			Name: v.name, OperatorAddress: a.clients[v.operator].addr, Coinbase: v.coinbase,
			Token: yous(v.stake), MainPubKey: v.key.MainPub, BlsPubKey: v.key.BlsPub,
			Role: v.role, Status: v.status,
		}
	}
	return g
}
