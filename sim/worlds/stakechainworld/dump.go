package stakechainworld

import (
	"bytes"
	"crypto/sha256"
	"encoding/hex"
	"fmt"
	"math/big"
	"sort"
	"strings"

	"github.com/youchainhq/go-youchain/common"
	"github.com/youchainhq/go-youchain/core"
	"github.com/youchainhq/go-youchain/core/state"
	"github.com/youchainhq/go-youchain/core/types"
	"github.com/youchainhq/go-youchain/crypto"
	"github.com/youchainhq/go-youchain/params"
	"github.com/youchainhq/go-youchain/rlp"
	"github.com/youchainhq/go-youchain/trie"
)

var (
	emptyRoot     = common.HexToHash("56e81f171bcc55a6ff8345e692c0f86e5b48e01b996cadc001622fb5e363b421")
	emptyCodeHash = crypto.Keccak256Hash(nil)

	// value prefixes of the validator trie (core/state/statedb_val.go:42-45)
	pfxVal   = []byte("valinfo-")
	pfxIndex = []byte("valindex")
	pfxStat  = []byte("valstat")
	pfxQueue = []byte("valubds")
)

// rawAccount is one leaf of the account trie.
type rawAccount struct {
	hkey common.Hash // keccak(address)
	acc  state.Account
	dlgs []common.Address // decoded delegation list blob (nil if none)
}

// headView is a full raw enumeration of one block's post-state, read through
// state.Database by root (no StateDB caches involved) plus a StateDB opened on the same roots
// for the exported readers (stat, queue, validators for update).
type headView struct {
	hdr      *types.Header
	st       *state.StateDB
	dump     map[string]string // every leaf of the three tries, storage tries, code and delegation blobs
	digest   string
	accounts []*rawAccount
	byHKey   map[common.Hash]*rawAccount
	rawVals  []*state.Validator // decoded from the raw leaves of the validator trie
	rawIndex []common.Address   // decoded "valindex" leaf
	problems []string           // open/iteration/decoding errors
}

// viewHead enumerates the head state of chain.
func viewHead(chain *core.BlockChain) (*headView, error) {
	hdr := chain.CurrentBlock().Header()
	return viewAt(chain, hdr)
}

func viewAt(chain *core.BlockChain, hdr *types.Header) (*headView, error) {
	st, err := chain.StateAt(hdr.Root, hdr.ValRoot, hdr.StakingRoot)
	if err != nil {
		return nil, fmt.Errorf("open state of block %d: %v", hdr.Number, err)
	}
	v := &headView{hdr: hdr, st: st, dump: map[string]string{}, byHKey: map[common.Hash]*rawAccount{}}
	db := st.Database()
	names := []string{"state", "val", "staking"}
	for i, root := range []common.Hash{hdr.Root, hdr.ValRoot, hdr.StakingRoot} {
		t, err := db.OpenTrie(root)
		if err != nil {
			v.problems = append(v.problems, fmt.Sprintf("open %s trie %x: %v", names[i], root[:4], err))
			continue
		}
		it := trie.NewIterator(t.NodeIterator(nil))
		for it.Next() {
			v.dump[fmt.Sprintf("%s/%x", names[i], it.Key)] = hex.EncodeToString(it.Value)
			switch i {
			case 0:
				v.account(db, it.Key, it.Value)
			case 1:
				v.valLeaf(it.Value)
			}
		}
		if it.Err != nil {
			v.problems = append(v.problems, fmt.Sprintf("iterate %s trie: %v", names[i], it.Err))
		}
	}
	keys := make([]string, 0, len(v.dump))
	for k := range v.dump {
		keys = append(keys, k)
	}
	sort.Strings(keys)
	h := sha256.New()
	for _, k := range keys {
		h.Write([]byte(k))
		h.Write([]byte{'='})
		h.Write([]byte(v.dump[k]))
		h.Write([]byte{'\n'})
	}
	v.digest = hex.EncodeToString(h.Sum(nil))[:24]
	sort.Slice(v.rawVals, func(i, j int) bool {
		return bytes.Compare(v.rawVals[i].MainAddress().Bytes(), v.rawVals[j].MainAddress().Bytes()) < 0
	})
	return v, nil
}

func (v *headView) account(db state.Database, hkey, val []byte) {
	ra := &rawAccount{hkey: common.BytesToHash(hkey)}
	if err := rlp.DecodeBytes(val, &ra.acc); err != nil {
		v.problems = append(v.problems, fmt.Sprintf("account %x: %v", hkey[:4], err))
		return
	}
	if ra.acc.Balance == nil {
		ra.acc.Balance = new(big.Int)
	}
	if ra.acc.DelegationBalance == nil {
		ra.acc.DelegationBalance = new(big.Int)
	}
	v.accounts = append(v.accounts, ra)
	v.byHKey[ra.hkey] = ra
	if ra.acc.Root != emptyRoot && ra.acc.Root != (common.Hash{}) {
		stt, err := db.OpenStorageTrie(ra.hkey, ra.acc.Root)
		if err != nil {
			v.problems = append(v.problems, fmt.Sprintf("storage of %x: %v", hkey[:4], err))
		} else {
			sit := trie.NewIterator(stt.NodeIterator(nil))
			for sit.Next() {
				v.dump[fmt.Sprintf("storage/%x/%x", hkey, sit.Key)] = hex.EncodeToString(sit.Value)
			}
			if sit.Err != nil {
				v.problems = append(v.problems, fmt.Sprintf("storage of %x: %v", hkey[:4], sit.Err))
			}
		}
	}
	if len(ra.acc.CodeHash) > 0 && common.BytesToHash(ra.acc.CodeHash) != emptyCodeHash {
		code, err := db.ContractCode(ra.hkey, common.BytesToHash(ra.acc.CodeHash))
		if err != nil || len(code) == 0 {
			v.problems = append(v.problems, fmt.Sprintf("code of %x: len=%d err=%v", hkey[:4], len(code), err))
		}
		cs := sha256.Sum256(code)
		v.dump[fmt.Sprintf("code/%x", hkey)] = fmt.Sprintf("len=%d sha=%x", len(code), cs[:8])
	}
	if len(ra.acc.DelegationsHash) > 0 {
		blob, err := db.DelegationBytes(common.BytesToHash(ra.acc.DelegationsHash))
		if err != nil {
			v.problems = append(v.problems, fmt.Sprintf("delegation blob of %x: %v", hkey[:4], err))
		} else {
			var l common.SortedAddresses
			if err := rlp.DecodeBytes(blob, &l); err != nil {
				v.problems = append(v.problems, fmt.Sprintf("delegation blob of %x: %v", hkey[:4], err))
			}
			ra.dlgs = l
		}
		v.dump[fmt.Sprintf("delegations/%x", hkey)] = hex.EncodeToString(blob)
	}
}

func (v *headView) valLeaf(val []byte) {
	switch {
	case bytes.HasPrefix(val, pfxVal):
		var x state.Validator
		if err := rlp.DecodeBytes(val[len(pfxVal):], &x); err != nil {
			v.problems = append(v.problems, fmt.Sprintf("validator leaf: %v", err))
			return
		}
		v.rawVals = append(v.rawVals, &x)
	case bytes.HasPrefix(val, pfxIndex):
		var l []common.Address
		if err := rlp.DecodeBytes(val[len(pfxIndex):], &l); err != nil {
			v.problems = append(v.problems, fmt.Sprintf("validator index leaf: %v", err))
		}
		v.rawIndex = l
	}
}

func hkeyOf(a common.Address) common.Hash { return crypto.Keccak256Hash(a.Bytes()) }

func (v *headView) balance(a common.Address) *big.Int {
	if ra := v.byHKey[hkeyOf(a)]; ra != nil {
		return new(big.Int).Set(ra.acc.Balance)
	}
	return new(big.Int)
}

// diffDumps lists (a few of) the keys on which two raw dumps differ.
func diffDumps(a, b map[string]string) string {
	var ks []string
	for k, x := range a {
		if y, ok := b[k]; !ok || x != y {
			ks = append(ks, k)
		}
	}
	for k := range b {
		if _, ok := a[k]; !ok {
			ks = append(ks, k)
		}
	}
	sort.Strings(ks)
	var sb strings.Builder
	for i, k := range ks {
		if i >= 4 {
			fmt.Fprintf(&sb, " …(+%d more)", len(ks)-i)
			break
		}
		fmt.Fprintf(&sb, " [%s: %s -> %s]", clip(k, 40), clip(a[k], 90), clip(b[k], 90))
	}
	return sb.String()
}

func clip(s string, n int) string {
	if len(s) > n {
		return s[:n] + "…"
	}
	if s == "" {
		return "<absent>"
	}
	return s
}

// ---- C07: the measure ----

// measure is the decomposition of the native-token total of one state.
type measure struct {
	balances   *big.Int // Σ account balances (every leaf of the account trie)
	tokens     *big.Int // Σ validator Token
	unfinished *big.Int // Σ FinalBalance of withdraw records with Finished == 0
	valRD      *big.Int // Σ validator RewardsDistributable
	poolRD     *big.Int // Σ per-role pool rewardsDistributable
	residue    *big.Int // global rounding residue (KindValidator.rewardsResidue)
	other      *big.Int // reward fields the code never writes (kind pools, role residues); expected 0
}

func (m *measure) total() *big.Int {
	t := new(big.Int)
	for _, x := range []*big.Int{m.balances, m.tokens, m.unfinished, m.valRD, m.poolRD, m.residue, m.other} {
		t.Add(t, x)
	}
	return t
}

func (m *measure) String() string {
	return fmt.Sprintf("balances=%v tokens=%v unfinishedWithdraw=%v valRewards=%v poolRewards=%v residue=%v other=%v",
		m.balances, m.tokens, m.unfinished, m.valRD, m.poolRD, m.residue, m.other)
}

func bigOf(s string) *big.Int {
	b, ok := new(big.Int).SetString(s, 10)
	if !ok {
		return new(big.Int)
	}
	return b
}

func (v *headView) measure() (*measure, error) {
	m := &measure{balances: new(big.Int), tokens: new(big.Int), unfinished: new(big.Int), valRD: new(big.Int), poolRD: new(big.Int), residue: new(big.Int), other: new(big.Int)}
	for _, a := range v.accounts {
		m.balances.Add(m.balances, a.acc.Balance)
	}
	for _, x := range v.rawVals {
		m.tokens.Add(m.tokens, x.Token)
		m.valRD.Add(m.valRD, x.RewardsDistributable)
	}
	for _, rec := range v.st.GetWithdrawQueue().Records {
		if rec.Finished == 0 {
			m.unfinished.Add(m.unfinished, rec.FinalBalance)
		}
	}
	stat, err := v.st.GetValidatorsStat()
	if err != nil || stat == nil {
		return nil, fmt.Errorf("GetValidatorsStat: %v", err)
	}
	d := stat.Dump()
	for _, role := range []params.ValidatorRole{params.RoleChancellor, params.RoleSenator, params.RoleHouse} {
		m.poolRD.Add(m.poolRD, bigOf(d.Roles[role].RewardsDistributable))
		m.other.Add(m.other, bigOf(d.Roles[role].RewardsResidue))
	}
	for _, kind := range []params.ValidatorKind{params.KindValidator, params.KindChamber, params.KindHouse} {
		m.other.Add(m.other, bigOf(d.Kinds[kind].RewardsDistributable))
		if kind == params.KindValidator {
			m.residue.Add(m.residue, bigOf(d.Kinds[kind].RewardsResidue))
		} else {
			m.other.Add(m.other, bigOf(d.Kinds[kind].RewardsResidue))
		}
	}
	return m, nil
}

// ---- C08: consistency of totals, indexes and delegation links ----

type finding struct{ class, detail string }

type kindSum struct {
	onStake, onToken, offStake, offToken *big.Int
	on, off                              uint64
}

func newKindSum() *kindSum {
	return &kindSum{new(big.Int), new(big.Int), new(big.Int), new(big.Int), 0, 0}
}

func (k *kindSum) add(x *state.Validator) {
	if x.Status == params.ValidatorOnline {
		k.onStake.Add(k.onStake, x.Stake)
		k.onToken.Add(k.onToken, x.Token)
		k.on++
	} else {
		k.offStake.Add(k.offStake, x.Stake)
		k.offToken.Add(k.offToken, x.Token)
		k.off++
	}
}

func (k *kindSum) String() string {
	return fmt.Sprintf("online(stake=%v token=%v n=%d) offline(stake=%v token=%v n=%d)", k.onStake, k.onToken, k.on, k.offStake, k.offToken, k.off)
}

func itemStr(it state.DumpValidatorsStatItem) string {
	return fmt.Sprintf("online(stake=%v token=%v n=%d) offline(stake=%v token=%v n=%d)", it.OnlineStake, it.OnlineToken, it.OnlineCount, it.OfflineStake, it.OfflineToken, it.OfflineCount)
}

// consistency evaluates the C08 clauses on one state. name gives short names for addresses.
func (v *headView) consistency(name func(common.Address) string) (out []finding) {
	add := func(class, f string, a ...interface{}) {
		out = append(out, finding{class, fmt.Sprintf("block %d: ", v.hdr.Number) + fmt.Sprintf(f, a...)})
	}
	for _, p := range v.problems {
		add("state-unreadable", "%s", p)
	}
	// (1) the index lists exactly the loadable validators
	var loaded []*state.Validator
	func() {
		defer func() {
			if e := recover(); e != nil {
				add("index-lists-unloadable-validator", "GetValidatorsForUpdate panicked: %v", e)
			}
		}()
		loaded = v.st.GetValidatorsForUpdate()
	}()
	rawSet := map[common.Address]*state.Validator{}
	for _, x := range v.rawVals {
		rawSet[x.MainAddress()] = x
	}
	idxSet := map[common.Address]bool{}
	for _, a := range v.rawIndex {
		if idxSet[a] {
			add("index-duplicate", "validator index lists %s twice", name(a))
		}
		idxSet[a] = true
		if rawSet[a] == nil {
			add("index-lists-missing-validator", "validator index lists %s but the validator trie has no record of it", name(a))
		}
	}
	for _, x := range v.rawVals {
		if !idxSet[x.MainAddress()] {
			add("validator-not-in-index", "validator %s has a record in the validator trie but is not in the index", name(x.MainAddress()))
		}
	}
	if loaded != nil && len(loaded) != len(v.rawVals) {
		add("index-vs-loadable", "GetValidatorsForUpdate returns %d validators, the validator trie holds %d records", len(loaded), len(v.rawVals))
	}
	// (2) per validator sums and stake = token / StakeUint
	dlgOf := map[common.Address]map[common.Address]*big.Int{} // delegator -> validator -> token
	for _, x := range v.rawVals {
		n := name(x.MainAddress())
		tok, stk := new(big.Int).Set(x.SelfToken), new(big.Int).Set(x.SelfStake)
		if params.YOUToStake(x.SelfToken).Cmp(x.SelfStake) != 0 {
			add("stake-ne-token-div-unit", "%s: SelfStake=%v but SelfToken/StakeUint=%v (SelfToken=%v)", n, x.SelfStake, params.YOUToStake(x.SelfToken), x.SelfToken)
		}
		var prev common.Address
		for i, d := range x.Delegations {
			tok.Add(tok, d.Token)
			stk.Add(stk, d.Stake)
			if params.YOUToStake(d.Token).Cmp(d.Stake) != 0 {
				add("stake-ne-token-div-unit", "%s: delegation from %s has Stake=%v but Token/StakeUint=%v (Token=%v)", n, name(d.Delegator), d.Stake, params.YOUToStake(d.Token), d.Token)
			}
			if i > 0 && bytes.Compare(prev.Bytes(), d.Delegator.Bytes()) >= 0 {
				add("delegations-unsorted", "%s: delegation list not strictly sorted at %d (%s after %s)", n, i, name(d.Delegator), name(prev))
			}
			prev = d.Delegator
			if dlgOf[d.Delegator] == nil {
				dlgOf[d.Delegator] = map[common.Address]*big.Int{}
			}
			dlgOf[d.Delegator][x.MainAddress()] = d.Token
		}
		if tok.Cmp(x.Token) != 0 {
			add("token-ne-self-plus-delegations", "%s: Token=%v but SelfToken+ΣDelegations.Token=%v", n, x.Token, tok)
		}
		if stk.Cmp(x.Stake) != 0 {
			add("stake-ne-self-plus-delegations", "%s: Stake=%v but SelfStake+ΣDelegations.Stake=%v (SelfStake=%v, %d delegations)", n, x.Stake, stk, x.SelfStake, len(x.Delegations))
		}
	}
	// (3) statistics == recomputation from the records
	stat, err := v.st.GetValidatorsStat()
	if err != nil || stat == nil {
		add("state-unreadable", "GetValidatorsStat: %v", err)
	} else {
		roles := map[params.ValidatorRole]*kindSum{params.RoleChancellor: newKindSum(), params.RoleSenator: newKindSum(), params.RoleHouse: newKindSum()}
		kinds := map[params.ValidatorKind]*kindSum{params.KindValidator: newKindSum(), params.KindChamber: newKindSum(), params.KindHouse: newKindSum()}
		for _, x := range v.rawVals {
			if r := roles[x.Role]; r != nil {
				r.add(x)
			}
			kinds[params.KindValidator].add(x)
			if k, ok := params.KindOfRole(x.Role); ok {
				kinds[k].add(x)
			}
		}
		d := stat.Dump()
		for _, role := range []params.ValidatorRole{params.RoleChancellor, params.RoleSenator, params.RoleHouse} {
			if got, want := itemStr(d.Roles[role]), roles[role].String(); got != want {
				add("stat-ne-records", "role %d: GetValidatorsStat says %s, the records sum to %s", role, got, want)
			}
		}
		for _, kind := range []params.ValidatorKind{params.KindValidator, params.KindChamber, params.KindHouse} {
			if got, want := itemStr(d.Kinds[kind]), kinds[kind].String(); got != want {
				add("stat-ne-records", "kind %d: GetValidatorsStat says %s, the records sum to %s", kind, got, want)
			}
		}
	}
	// (4) delegator accounts and validators agree on who delegates to whom
	hk2addr := map[common.Hash]common.Address{}
	for d := range dlgOf {
		hk2addr[hkeyOf(d)] = d
	}
	for _, ra := range v.accounts {
		d, known := hk2addr[ra.hkey]
		if !known {
			if len(ra.dlgs) > 0 {
				add("delegator-lists-unknown-link", "account %x lists %d delegations but no validator has a delegation from it", ra.hkey[:4], len(ra.dlgs))
			}
			if ra.acc.DelegationBalance.Sign() != 0 {
				add("delegation-balance-ne-records", "account %x has DelegationBalance=%v but no validator has a delegation from it", ra.hkey[:4], ra.acc.DelegationBalance)
			}
			continue
		}
		var want []common.Address
		sum := new(big.Int)
		for va, tok := range dlgOf[d] {
			want = append(want, va)
			sum.Add(sum, tok)
		}
		sort.Slice(want, func(i, j int) bool { return bytes.Compare(want[i].Bytes(), want[j].Bytes()) < 0 })
		if !sameAddrs(want, ra.dlgs) {
			add("delegator-list-ne-validators", "delegator %s lists %s, validators' records say %s", name(d), nameList(ra.dlgs, name), nameList(want, name))
		}
		if sum.Cmp(ra.acc.DelegationBalance) != 0 {
			add("delegation-balance-ne-records", "delegator %s has DelegationBalance=%v, validators' records sum to %v", name(d), ra.acc.DelegationBalance, sum)
		}
		delete(hk2addr, ra.hkey)
	}
	var missing []common.Address
	for _, d := range hk2addr {
		missing = append(missing, d)
	}
	sort.Slice(missing, func(i, j int) bool { return bytes.Compare(missing[i].Bytes(), missing[j].Bytes()) < 0 })
	for _, d := range missing {
		add("delegator-list-ne-validators", "validators have delegations from %s but that account does not exist", name(d))
	}
	return out
}

func sameAddrs(a, b []common.Address) bool {
	if len(a) != len(b) {
		return false
	}
	for i := range a {
		if a[i] != b[i] {
			return false
		}
	}
	return true
}

func nameList(l []common.Address, name func(common.Address) string) string {
	var s []string
	for _, a := range l {
		s = append(s, name(a))
	}
	return "[" + strings.Join(s, ",") + "]"
}
