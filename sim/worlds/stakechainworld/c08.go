package stakechainworld

import (
	"verifsim/kit"
	"verifsim/simdisk"
	"verifsim/worlds/chainkit"

	"github.com/youchainhq/go-youchain/core/types"
)

// c08 evaluates the consistency clauses (dump.go: headView.consistency) after every block on
// the builder's head state — states produced by the REAL staking handlers, take-effect
// handlers, reward settlement, slashing and zero-token deletion — and again on a verifying
// node whose state is reopened from disk (fresh state.Database) every few blocks.
type c08 struct {
	s      *sim
	im     *chainkit.Importer
	imDisk *simdisk.Disk
}

func (o *c08) report(where string, v *headView) {
	for _, f := range v.consistency(o.s.act.name) {
		if f.class == "delegation-balance-ne-records" {
			// diagnostic only: the property speaks of who delegates to whom, not of the
			// DelegationBalance field of the delegator account (read by the state dump only;
			// takePenalty lowers Delegations[].Token without it). Counted, not a violation.
			o.s.r.Probe("diag.delegation-balance-ne-records")
			o.s.r.Logf("  note (outside C08's statement): %s%s", where, f.detail)
			continue
		}
		o.s.r.Report(f.class, "%s%s", where, f.detail)
	}
}

func (o *c08) onBuilt(n int, ref *blockRef) {
	s, r := o.s, o.s.r
	o.report("", ref.view)
	for _, x := range ref.view.rawVals {
		if len(x.Delegations) > 0 {
			r.Probe("validator-with-delegations")
			break
		}
	}
	if o.im == nil || ref.tainted != "" {
		return
	}
	var err error
	ok := s.do(func() {
		err = o.im.Chain.InsertChain(types.Blocks{ref.blk})
		kit.Wait()
	})
	if !ok {
		s.deadStops = append(s.deadStops, func() { o.im.Stop(func() {}) })
		o.im = nil
		return
	}
	if err != nil || o.im.Chain.CurrentBlock().Hash() != ref.blk.Hash() {
		r.Logf("  observed node fell out of sync at block %d: %v", n, err)
		r.Probe("observed-node-out-of-sync")
		o.im.Stop(kit.Wait)
		o.im = nil
		return
	}
	if !s.c.Chance("restart-observed", 1, 4) {
		return
	}
	o.im.Stop(kit.Wait)
	o.imDisk = o.imDisk.Restart()
	s.do(func() {
		im, e := chainkit.NewImporter(o.imDisk, s.gen, kit.Wait)
		if e != nil {
			panic("stakechainworld: reopen importer: " + e.Error())
		}
		o.im = im
	})
	r.Fault("restart")
	v, e := viewHead(o.im.Chain)
	if e != nil {
		r.Report("state-unreadable-after-restart", "block %d: %v", n, e)
		return
	}
	o.report("reopened from disk: ", v)
}

func runC08(r *kit.Run) {
	runSim(r, func(s *sim) {
		o := &c08{s: s, imDisk: simdisk.NewNoLog()}
		s.do(func() {
			im, err := chainkit.NewImporter(o.imDisk, s.gen, kit.Wait)
			if err != nil {
				panic("stakechainworld: importer: " + err.Error())
			}
			o.im = im
		})
		defer func() {
			if o.im != nil {
				o.im.Stop(kit.Wait)
			}
		}()
		s.runHistory(hooks{bias: 1, blocks: historyLen(r, 30, 60), onBuilt: o.onBuilt})
	})
}
