package stakechainworld

import (
	"math/big"
	"time"

	"verifsim/kit"

	"github.com/youchainhq/go-youchain/common"
	"github.com/youchainhq/go-youchain/core/rawdb"
	"github.com/youchainhq/go-youchain/core/state"
	"github.com/youchainhq/go-youchain/params"
	"github.com/youchainhq/go-youchain/rlp"
	"github.com/youchainhq/go-youchain/staking"
)

// c05h is the third part of C05: the "penalised once, never more than the configured
// fraction of its stake and pending withdrawals" clause on validator / delegation /
// withdraw-queue states that only real staking histories produce (partial withdrawals of
// validators and delegators waiting in the queue, delegations of every size, emptied
// validators). The generator is C07/chain's (evidences genuine / late / forged / twice /
// two validators against validators with delegations and queued withdrawals); the oracle
// looks at one validator at a time, block by block, outside period ends (where nothing but
// slashing may move staked tokens or unfinished withdraw records).
type c05h struct {
	s    *sim
	prev *headView
}

func init() {
	kit.Register(&kit.Check{
		Prop: "C05", Name: "staking-history", World: "CHAIN", Level: "exploration",
		Rule: "one run = a seeded staking history of 30-60 blocks (generator of C07/chain: validators with delegations of every size, partial/full/forced withdrawals of validators and delegators waiting in the withdraw queue, double-sign evidences genuine / late / forged / wrong index / twice / for two validators); " +
			"oracle per validator and block outside period ends, from raw enumerations of the state before and after: what a validator loses (its Token plus the unfinished withdraw records that name it) is zero unless the block's end-of-block receipt carries exactly one slashing record for it; then the loss is > 0, equals the record's Total, and is at most PenaltyFractionForDoubleSign % of (Token + unfinished withdrawals) before the block; finished withdraw records never change; a genuine, timely evidence against a validator that still has a record reaches the block's slash data",
		Real: realParts, Stub: stubParts, FaultsNotInjected: notInjected, Assumptions: assumptions,
		QuickBudget: 35 * time.Second, ThoroughBudget: 10 * time.Minute, MinRuns: 16, Share: 1,
		Exec: runC05h, PanicClass: kit.PanicInRepo("panic-in-block-processing"),
		ExpectedProbes: []string{"slashed-validator-with-pending-withdrawals", "slashed-validator-with-delegations", "slashed-validator", "pending-record-smaller-than-its-share"},
	})
}

func runC05h(r *kit.Run) {
	runSim(r, func(s *sim) {
		o := &c05h{s: s}
		v, err := viewHead(s.b.Chain)
		if err != nil {
			panic("stakechainworld: genesis state: " + err.Error())
		}
		o.prev = v
		s.quietCrit = true // builder deaths are C06/C07's subject
		s.runHistory(hooks{bias: 1, blocks: historyLen(r, 30, 60), onBuilt: o.onBuilt})
	})
}

// pendingOf sums the unfinished withdraw records naming validator a and reports the smallest.
func pendingOf(st *state.StateDB, a common.Address) (sum, smallest *big.Int) {
	sum = new(big.Int)
	if q := st.GetWithdrawQueue(); q != nil {
		for _, rec := range q.Records {
			if rec.Validator == a && rec.Finished == 0 {
				sum.Add(sum, rec.FinalBalance)
				if rec.FinalBalance.Sign() > 0 && (smallest == nil || rec.FinalBalance.Cmp(smallest) < 0) {
					smallest = new(big.Int).Set(rec.FinalBalance)
				}
			}
		}
	}
	return
}

func (o *c05h) onBuilt(n int, ref *blockRef) {
	s, r := o.s, o.s.r
	pre, post := o.prev, ref.view
	o.prev = post
	// a genuine, timely evidence (two precommits of one validator for different blocks in the
	// parent round, handed to the builder before it built this block) must reach the block's
	// slash data as long as the validator still has a record
	if ref.evidenceUnrecorded {
		if tv := findVal(pre.rawVals, s.g.evidenceTarget); tv != nil {
			r.Report("genuine-timely-evidence-not-recorded", "block %d: a genuine double-sign evidence against %s (Token %v, status %d, expelled %v) for round %d was handed to the builder, yet the block carries no slash data",
				n, s.act.name(s.g.evidenceTarget), tv.Token, tv.Status, tv.Expelled, s.g.evidenceFor)
		} else {
			r.Probe("evidence-against-deleted-validator")
		}
	}
	if (uint64(n)+1)%s.sc.F == 0 {
		return // period end: transactions take effect, withdrawals are released, inactivity is judged
	}
	yp := curParams()
	// the slashing records of this block (end-of-block receipt, topic LogTopicSlashing)
	recs := map[common.Address][]*staking.SlashDataV5{}
	topic := common.StringToHash(staking.LogTopicSlashing)
	for _, rc := range rawdb.ReadReceipts(s.b.Disk, ref.blk.Hash(), ref.blk.NumberU64()) {
		for _, l := range rc.Logs {
			if l.Address != params.StakingModuleAddress || len(l.Topics) == 0 || l.Topics[0] != topic {
				continue
			}
			var sd staking.SlashDataV5
			if err := rlp.DecodeBytes(l.Data, &sd); err != nil {
				r.Report("slash-record-undecodable", "block %d: slashing log does not decode: %v", n, err)
				continue
			}
			recs[sd.MainAddress] = append(recs[sd.MainAddress], &sd)
		}
	}
	for _, b := range pre.rawVals {
		a := b.MainAddress()
		pendPre, smallest := pendingOf(pre.st, a)
		pendPost, _ := pendingOf(post.st, a)
		tokPost := new(big.Int)
		if av := findVal(post.rawVals, a); av != nil {
			tokPost.Set(av.Token)
		}
		before := new(big.Int).Add(b.Token, pendPre)
		after := new(big.Int).Add(tokPost, pendPost)
		loss := new(big.Int).Sub(before, after)
		rs := recs[a]
		if len(rs) == 0 {
			if loss.Sign() != 0 {
				r.Report("stake-moved-without-slash-record", "block %d (not a period end): validator %s Token+unfinished withdrawals went %v -> %v (Token %v -> %v, withdrawals %v -> %v) and the block carries no slashing record for it",
					n, s.act.name(a), before, after, b.Token, tokPost, pendPre, pendPost)
			}
			continue
		}
		r.Probe("slashed-validator")
		if len(b.Delegations) > 0 {
			r.Probe("slashed-validator-with-delegations")
		}
		if pendPre.Sign() > 0 {
			r.Probe("slashed-validator-with-pending-withdrawals")
		}
		if len(rs) > 1 {
			r.Report("punished-twice-in-one-block", "block %d: %d slashing records for validator %s", n, len(rs), s.act.name(a))
		}
		total := new(big.Int)
		for _, sd := range rs {
			total.Add(total, sd.Total)
		}
		// the bound of the property: the configured fraction of stake and pending withdrawals
		bound := new(big.Int).Mul(before, new(big.Int).SetUint64(yp.PenaltyFractionForDoubleSign))
		bound.Div(bound, big.NewInt(100))
		if smallest != nil {
			// a pending record smaller than the penalty's share of its owner (the boundary at which
			// "take from the withdrawal first, the rest from the deposit" changes sides)
			share := new(big.Int).Mul(b.Token, new(big.Int).SetUint64(yp.PenaltyFractionForDoubleSign))
			share.Div(share, big.NewInt(100))
			if smallest.Cmp(share) <= 0 {
				r.Probe("pending-record-smaller-than-its-share")
			}
		}
		if loss.Cmp(total) != 0 {
			r.Report("loss-ne-slash-record", "block %d: validator %s lost %v (Token %v -> %v, unfinished withdrawals %v -> %v) but its slashing record says Total=%v",
				n, s.act.name(a), loss, b.Token, tokPost, pendPre, pendPost, total)
		}
		if loss.Cmp(bound) > 0 {
			r.Report("penalty-exceeds-fraction", "block %d: validator %s lost %v, more than %d%% of its Token+unfinished withdrawals before the block (%v, bound %v)",
				n, s.act.name(a), loss, yp.PenaltyFractionForDoubleSign, before, bound)
		}
		if loss.Sign() < 0 {
			r.Report("slashed-validator-gained", "block %d: validator %s has a slashing record but its Token+unfinished withdrawals grew by %v", n, s.act.name(a), new(big.Int).Neg(loss))
		}
	}
	// finished records are history: a penalty never touches them
	if qa, qb := pre.st.GetWithdrawQueue(), post.st.GetWithdrawQueue(); qa != nil && qb != nil {
		fin := map[string]*big.Int{}
		key := func(rec *state.WithdrawRecord) string {
			return string(rec.TxHash.Bytes()) + string(rec.Validator.Bytes()) + string(rec.Delegator.Bytes())
		}
		for _, rec := range qa.Records {
			if rec.Finished != 0 {
				fin[key(rec)] = rec.FinalBalance
			}
		}
		for _, rec := range qb.Records {
			if old, ok := fin[key(rec)]; ok && old.Cmp(rec.FinalBalance) != 0 {
				r.Report("finished-withdraw-record-changed", "block %d: finished withdraw record of validator %s changed %v -> %v", n, s.act.name(rec.Validator), old, rec.FinalBalance)
			}
		}
	}
}
