package stakechainworld

import (
	"time"

	"verifsim/kit"
)

var (
	realParts = []string{
		"core.BlockChain (InsertChain, insertSidechain, verifyAllSideChainBlocks, reorg, WriteBlockWithState)",
		"core.StateProcessor + BlockValidator.ValidateState", "core.TxPool", "miner.Miner/worker (commitNewWork, commitTransactions, EndBlock(isSeal=true), FinalizeAndAssemble, postSeal)",
		"staking module (handlers, take-effect handlers, EndBlock: slashing/replaySlashing, rewardsToPool, endStakingPeriod, distributeRewards, settleValidatorRewards, processWithdrawQueue)",
		"core/state (StateDB, validators, statistics, withdraw queue, staking records) over state.Database/trie.Database on simdisk",
		"core/vm (EVM, interpreter)", "ucon.Server as header verifier (VerifyHeaders/VerifySeal/VerifySideChainHeader)", "real VRF/BLS/secp256k1",
	}
	stubParts = []string{
		"consensus rounds: forge engine (embeds the un-started *ucon.Server; GetValMainAddress/Prepare/Seal supply proposer credential and an honest precommit quorum from validator keys the simulator holds)",
		"p2p/fetcher/downloader: the simulator calls BlockChain.InsertChain directly (single blocks, batches, side chains from the fork point)",
		"quic-go replaced by an API stub in harness builds (never run)",
		"params.Versions[YouV5] scaled down per run (StakingTrieFrequency 4-8, MaxRewardsPeriod 1-3, WithdrawDelay, WithdrawRecordRetention, StakeLookBack 16/8, InactivityPenaltyWaitRounds, expel rounds, MaxStakes of Senator/House, optional master signature for House)",
	}
	notInjected = []string{
		"crash in the middle of an import: C11's subject (restarts here are at quiescent points: cold caches, state reopened from disk)",
		"Byzantine proposer tampering with a sealed block: C01/C05",
		"network faults: no network in the CHAIN world",
		"certificate/ACoCHT blocks (height multiple of 32768): params.ACoCHTFrequency is a constant, unreachable",
	}
	assumptions = []string{
		"protocol version YouV5 from genesis on, parameter set params.protocolsForTestCase (network id 99) with the scaled fields listed under stub components",
		"import batches are shorter than StakeLookBack-2 (ucon.VerifyHeaders runs ahead by MinStakeLookBack()-2 headers, an unexported package variable that cannot be scaled with the table)",
		"every sender uses its own distinct gas price: the worker's price heap breaks ties by map order (types.NewTransactionsByPriceAndNonce), which would make block CONTENT, not execution, differ between replays",
		"the forge models an honest network: every online chamber validator of the look-back set precommits",
	}
)

func init() {
	kit.Register(&kit.Check{
		Prop: "C06", Name: "chain", World: "CHAIN", Level: "exploration",
		Rule: "one run = a seeded history of 20-45 blocks (thorough: 30-70) built by the real worker from seeded mixes of transfers, contract creations/calls (storage writer with clears, reverter, value forwarder, self-destructor), every staking action valid and invalid, double-sign evidences (genuine, late, forged, wrong index, twice, future), about one block in ten nearly full by gas limits with an executable transfer the builder must refuse for lack of value, with varied round index/proposer, crossing 3-15 scaled staking periods; " +
			"2-4 importers with different histories receive the same blocks (one by one + repeated imports of the same block on fresh objects over the same disk image; seeded batches / restart from disk every 1-4 blocks / TrieDB.Cap between blocks; in half of the runs a verifying node and the second builder first adopt a competing fork of length 1-3 built by a second real builder, then get the main chain as a side chain); " +
			"oracle: every importer accepts every built block (main and fork), its canonical block, full raw state dump (all leaves of the three tries, storage tries, code, delegation blobs), stored receipts/logs equal the builder's and hash to the header's ReceiptHash/Bloom; repetitions agree; a run is non-trivial always (counts: faults fired = repeat/batch/restart/cap/fork/evidence kinds)",
		Real: realParts, Stub: stubParts, FaultsNotInjected: notInjected, Assumptions: assumptions,
		QuickBudget: 45 * time.Second, ThoroughBudget: 15 * time.Minute, MinRuns: 16,
		Exec: runC06, PanicClass: kit.PanicInRepo("panic-in-block-processing"),
		// reach probes every batch is expected to hit (listed in the evidence as probes_never_hit otherwise)
		ExpectedProbes: []string{"crowd-script", "delegation_add_failed", "delegation_sub_effect", "delegation_sub_failed", "deposit_failed", "gas-refund-earning-call-applied", "period-end", "recover_from_expired_expelling", "reorg-to-main-chain", "slash-data-in-header", "slashing", "withdraw_effect", "withdraw_result"},
	})
	kit.Register(&kit.Check{
		Prop: "C07", Name: "chain", World: "CHAIN", Level: "exploration",
		Rule: "same generator as C06/chain biased towards value movement (deposits up to and over MaxStakes, fill/sub/add and add-then-close scripts that reach the activation-time refund paths, withdrawals partial/full/over/forced-full, delegation add/sub with forced full, evidences hitting delegations and queued withdrawals, commission/risk over the full range, inactivity penalties through a starved validator), 30-60 blocks (thorough 40-85); " +
			"oracle after EVERY block from a full raw enumeration of the head state: Σ account balances + Σ validator Token + Σ unfinished withdraw FinalBalance + Σ validator RewardsDistributable + Σ role pools + global residue + ESCROW (simulator's own ledger: receipt status + signed payload of create/deposit/delegation-add of the running period) == genesis total; header.Subsidy == decrease of the rewards-pool account; outside period ends Δ(Token+unfinished withdrawals) == ΔPenaltyTo; withdraw-record ledger by creating tx (created only at period ends by a submitted withdrawal, FinalBalance never grows, finished once, never lost unfinished, matured => finished, quiet recipients receive exactly the records that finished); RewardsDistributable+balance(reward address) constant for non-proposer chamber validators without delegations (settlement and deletion lose nothing); logging.Crit = violation; the identity again on a verifying node reopened from disk",
		Real: realParts, Stub: stubParts, FaultsNotInjected: notInjected, Assumptions: append([]string{"contracts never SELFDESTRUCT to themselves (EVM burns that balance by design)", "nobody sends to the rewards-pool or penalty accounts"}, assumptions...),
		QuickBudget: 45 * time.Second, ThoroughBudget: 15 * time.Minute, MinRuns: 16,
		Exec: runC07, PanicClass: kit.PanicInRepo("panic-in-block-processing"),
		// reach probes every batch is expected to hit (listed in the evidence as probes_never_hit otherwise)
		ExpectedProbes: []string{"change_status_failed", "delegation_add_failed", "delegation_sub_effect", "delegation_sub_failed", "deposit_failed", "gas-refund-earning-call-applied", "inactivity-penalty-paid", "penalty-paid", "period-end", "recover_from_expired_expelling", "rewards-settled", "slash-data-in-header", "slashing", "subsidy-paid", "validator-deleted", "withdraw-paid", "withdraw-record-created", "withdraw-record-delegator", "withdraw-record-discarded", "withdraw-record-penalised", "withdraw_effect", "withdraw_result"},
	})
	kit.Register(&kit.Check{
		Prop: "C08", Name: "chain", World: "CHAIN", Level: "exploration",
		Rule: "same generator as C07/chain; oracle after EVERY block on the builder's head state (produced by the real staking handlers, take-effect, settlement, slashing, zero-token deletion) and on a verifying node reopened from disk: GetValidatorsStat per role and kind == recomputation from the raw validator records; per validator Token == SelfToken+ΣDelegations.Token, Stake == SelfStake+ΣDelegations.Stake, each stake == token/StakeUint, delegation lists strictly sorted; raw 'valindex' leaf == exactly the validator records of the trie == GetValidatorsForUpdate; every account's delegation list == the validators that list it; DelegationBalance == Σ of those delegations' tokens (own class)",
		Real: realParts, Stub: stubParts, FaultsNotInjected: notInjected, Assumptions: assumptions,
		QuickBudget: 45 * time.Second, ThoroughBudget: 15 * time.Minute, MinRuns: 16, Share: 1,
		Exec: runC08, PanicClass: kit.PanicInRepo("panic-in-block-processing"),
		// reach probes every batch is expected to hit (listed in the evidence as probes_never_hit otherwise)
		ExpectedProbes: []string{"change_status_failed", "delegation_add_failed", "delegation_sub_effect", "delegation_sub_failed", "deposit_failed", "gas-refund-earning-call-applied", "period-end", "recover_from_expired_expelling", "slash-data-in-header", "slashing", "validator-with-delegations", "withdraw_effect", "withdraw_result"},
	})
}
