package stakechainworld

import (
	"crypto/ecdsa"
	"math/big"

	"verifsim/kit"
	"verifsim/worlds/chainkit"

	"github.com/youchainhq/go-youchain/common"
	"github.com/youchainhq/go-youchain/core"
	"github.com/youchainhq/go-youchain/core/types"
)

// History is what RunHistory hands to its caller: the builder node (real chain, pool, staking
// module, worker over the forge engine; its simulated disk is Builder.Disk), the genesis every
// node of the run is opened with, and the blocks built so far. It is only valid inside the
// callbacks (the bubble is open, the builder is running).
type History struct {
	R       *kit.Run
	Builder *chainkit.Builder
	Genesis *core.Genesis
	Blocks  []*types.Block
	Scale   string // the scaled parameter set of the run (already written to params.Versions[YouV5])
	s       *sim
}

// Do runs f on a helper goroutine so that a simulated logging.Crit (runtime.Goexit, hook H2)
// or a panic of the code under test ends the helper, not the simulator. It reports whether f
// ran to completion; a panic is returned with the stack it happened on.
func (h *History) Do(f func()) (completed bool, panicked *kit.BubblePanic) {
	before := h.s.panicked
	h.s.panicked = nil
	ok := h.s.do(f)
	p := h.s.panicked
	h.s.panicked = before
	return ok, p
}

// Crits returns the number of logging.Crit calls seen so far in the run (each ended the
// goroutine that made it; with RunHistory none of them is reported by the generator).
func (h *History) Crits() int { return len(h.s.crits) }

// LastCrit returns the text of the last logging.Crit ("" if none).
func (h *History) LastCrit() string {
	if len(h.s.crits) == 0 {
		return ""
	}
	return h.s.crits[len(h.s.crits)-1]
}

// Abandon registers the Stop call of a node that died inside a stimulus (Crit or panic; its
// locks may be held for ever, so Stop may never return): it is run on its own goroutine when
// the run ends, and goroutines left blocked in the bubble are tolerated.
func (h *History) Abandon(stop func()) {
	h.s.leftoverOK = true
	if stop != nil {
		h.s.deadStops = append(h.s.deadStops, stop)
	}
}

// Name is the short stable name of an address of the run (clients, validators, reward addresses).
func (h *History) Name(a common.Address) string { return h.s.act.name(a) }

// ClientKey returns the key of funded client i (0..NClients-1).
func (h *History) ClientKey(i int) *ecdsa.PrivateKey { return h.s.act.clients[i].priv }

// NClients is the number of funded client accounts.
func (h *History) NClients() int { return len(h.s.act.clients) }

// Dead reports whether the builder died (logging.Crit or a panic inside a stimulus).
func (h *History) Dead() bool { return h.s.dead }

// RunHistory runs the generator of C06/chain (bias 0) or C07/chain (bias 1) for a history of
// lo..hi blocks (drawn like historyLen) without any of their oracles: onBuilt is called after
// every block the builder built and wrote, atEnd once after the last block — also when the
// history ended early in a generator dead end — unless the builder died. A logging.Crit of
// the builder ends the history without a violation (builder deaths are C06/C07's subject).
func RunHistory(r *kit.Run, bias, lo, hi int, onBuilt func(h *History, n int, blk *types.Block), atEnd func(h *History)) {
	runSim(r, func(s *sim) {
		s.quietCrit = true
		h := &History{R: r, Builder: s.b, Genesis: s.gen, Scale: s.sc.String(), s: s}
		s.runHistory(hooks{bias: bias, blocks: historyLen(r, lo, hi), onBuilt: func(n int, ref *blockRef) {
			h.Blocks = s.blocks
			if onBuilt != nil {
				onBuilt(h, n, ref.blk)
			}
		}})
		h.Blocks = s.blocks
		if s.dead {
			r.Probe("history-ended-with-dead-builder")
			return
		}
		if atEnd != nil {
			atEnd(h)
		}
	})
}

// Submit signs a transaction of client `from` with the pool's next nonce for that account and
// hands it to the builder's pool the way the generator does (AddRemotesSync); it returns the
// signed transaction, or nil if the pool refused it.
func (h *History) Submit(from int, to *common.Address, value uint64, gas uint64, data []byte, desc string) *types.Transaction {
	var v *big.Int
	if value > 0 {
		v = new(big.Int).SetUint64(value)
	}
	return h.s.submit(from, to, v, gas, data, &intent{kind: "extra"}, desc)
}

// NextBlock lets the builder build one more block from its pool content, the way the
// generator's main loop does (seeded round index and proposer order, the end-of-block hook
// dry-run on a helper goroutine first, simulated time advanced), without any oracle.
// It returns nil when no block was built (forge dead end, dead builder).
func (h *History) NextBlock() *types.Block {
	s := h.s
	if s.dead || s.onlineAny() == 0 {
		return nil
	}
	n := len(s.blocks) + 1
	if uint64(n)%s.sc.F == 0 {
		s.g.riskyPending = 0
	}
	s.steerForge()
	if !s.dryRunEndBlock(n) {
		return nil
	}
	blk, err := s.nextBlock()
	if err != nil {
		s.r.Logf("no block %d: %v", n, err)
		return nil
	}
	s.g.curVotes, s.g.curCtx = s.b.Engine.LastVotes, s.b.Engine.LastCtx
	h.Blocks = s.blocks
	return blk
}

// PeriodLength is the scaled staking period (StakingTrieFrequency) of the run.
func (h *History) PeriodLength() uint64 { return h.s.sc.F }
