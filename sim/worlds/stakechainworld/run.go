// Package stakechainworld holds the CHAIN-world checks of C06 (block execution is deterministic;
// builder and validator always agree), C07 (native tokens are conserved) and the CHAIN part of
// C08 (validator-set totals, indexes and delegation links match the records).
//
// One generator, three oracle sets: a seeded history of blocks is built by the REAL
// block-building path (chainkit.Builder: miner.worker over TxPool/BlockChain/staking with the
// forge engine) from seeded transaction mixes (transfers, contract creations and calls, every
// staking action valid and invalid, evidences of real double signing), with the staking
// periods scaled down so that reward settlement, take-effect, withdraw maturity, inactivity
// handling and expiry recovery all happen within a few dozen blocks.
package stakechainworld

import (
	crand "crypto/rand"
	"fmt"
	"math/big"
	"runtime"
	"runtime/debug"
	"strings"
	"time"

	"verifsim/kit"
	"verifsim/simdisk"
	"verifsim/worlds/chainkit"

	"github.com/youchainhq/go-youchain/common"
	"github.com/youchainhq/go-youchain/core"
	"github.com/youchainhq/go-youchain/core/types"
	"github.com/youchainhq/go-youchain/crypto"
	"github.com/youchainhq/go-youchain/logging"
	"github.com/youchainhq/go-youchain/params"
)

func init() {
	logging.Root().SetHandler(logging.DiscardHandler())
}

// scale is the per-run scaled-down parameter set written into params.Versions[YouV5].
type scale struct {
	F            uint64 // StakingTrieFrequency (staking period length)
	MaxRewards   uint64 // MaxRewardsPeriod (force-settle gap in periods)
	WithdrawDly  uint64
	Retention    uint64
	LookBack     uint64 // StakeLookBack
	InactiveWait uint64
	ExpelDS      uint64
	ExpelInact   uint64
	SigHouse     bool // House role requires the master signature (master = masterKey)
	MaxSenator   uint64
	MaxHouse     uint64
	PenaltyInact uint64
}

func (s scale) String() string {
	return fmt.Sprintf("F=%d maxRewardsPeriod=%d withdrawDelay=%d retention=%d stakeLookBack=%d inactWait=%d expelDS=%d expelInact=%d sigHouse=%v maxSenator=%d maxHouse=%d penInact=%d",
		s.F, s.MaxRewards, s.WithdrawDly, s.Retention, s.LookBack, s.InactiveWait, s.ExpelDS, s.ExpelInact, s.SigHouse, s.MaxSenator, s.MaxHouse, s.PenaltyInact)
}

// drawScale picks the scaled parameters. Index 0 everywhere = the mildest scaling.
// Constraints kept (read from the code under test):
//   - WithdrawDelay > StakeLookBack (params/config.go:132, endblock.go:180).
//   - WithdrawRecordRetention >= F, so that a record paid at a period end is still visible
//     (Finished=1) in the state after that block (endblock.go:533 discards when
//     number-CompletionHeight > retention; records are only looked at every F blocks).
//   - StakeLookBack >= 8 and import batches <= 5: ucon.VerifyHeaders lets the header
//     goroutine run ahead of block processing by MinStakeLookBack()-2 headers (consensus.go:554)
//     and MinStakeLookBack (an unexported variable fixed at package init, 16 for this
//     network id) cannot be scaled with the table; with batches shorter than StakeLookBack-2
//     every look-back state a header needs is already written.
func drawScale(c *kit.Chooser) scale {
	s := scale{}
	s.F = []uint64{4, 5, 6, 8}[c.Intn("period", 4)]
	s.MaxRewards = uint64(1 + c.Intn("max-rewards-period", 3))
	s.LookBack = []uint64{16, 8}[c.Intn("stake-lookback", 2)]
	s.WithdrawDly = s.LookBack + 1 + uint64(c.Intn("withdraw-delay", int(s.F)))
	s.Retention = s.F + uint64(c.Intn("retention", int(s.F)+1))
	s.InactiveWait = 2*s.F + uint64(c.Intn("inactive-wait", 12))
	s.ExpelDS = s.F + uint64(c.Intn("expel-ds", int(3*s.F)))
	s.ExpelInact = s.F/2 + uint64(c.Intn("expel-inact", int(2*s.F)))
	s.SigHouse = c.Chance("sig-house", 1, 4)
	s.MaxSenator = []uint64{180000, 120000, 90000}[c.Intn("max-senator", 3)]
	s.MaxHouse = []uint64{150000, 60000}[c.Intn("max-house", 2)]
	s.PenaltyInact = uint64(1 + c.Intn("penalty-inact", 3))
	return s
}

var origV5 = func() params.YouParams {
	params.InitNetworkId(params.NetworkIdForTestCase)
	return params.Versions[params.YouV5].DeepCopy()
}()

// masterKey signs the "master" signature of staking messages in runs where the House role
// requires one (handler.go:50, 333).
var masterKey = func() *ecdsaKey {
	d := make([]byte, 32)
	d[0], d[31] = 0x44, 0x01
	k, err := crypto.ToECDSA(d)
	if err != nil {
		panic(err)
	}
	return &ecdsaKey{k, crypto.PubkeyToAddress(k.PublicKey)}
}()

// applyScale writes the scaled values into the process-global parameter table and returns
// the function that restores the original entry. Every node of the process shares the table
// (one run at a time per worker process).
func applyScale(s scale) (restore func()) {
	yp := origV5.DeepCopy()
	yp.StakingTrieFrequency = s.F
	yp.MaxRewardsPeriod = s.MaxRewards
	yp.WithdrawDelay = s.WithdrawDly
	yp.WithdrawRecordRetention = s.Retention
	yp.StakeLookBack = s.LookBack
	yp.InactivityPenaltyWaitRounds = s.InactiveWait
	yp.ExpelledRoundForDoubleSign = s.ExpelDS
	yp.ExpelledRoundForInactive = s.ExpelInact
	yp.PenaltyFractionForInactive = s.PenaltyInact
	yp.MaxStakes[params.RoleSenator] = s.MaxSenator
	yp.MaxStakes[params.RoleHouse] = s.MaxHouse
	if s.SigHouse {
		yp.SignatureRequired[params.RoleHouse] = true
		yp.MasterAddress = masterKey.addr
	}
	params.Versions[params.YouV5] = yp
	return func() { params.Versions[params.YouV5] = origV5.DeepCopy() }
}

// yp returns the parameters in force (the scaled YouV5 entry).
func curParams() params.YouParams { return params.Versions[params.YouV5] }

// sim is one simulation: the builder node, the recorded history and the simulator's own
// ledgers.
type sim struct {
	r     *kit.Run
	c     *kit.Chooser
	sc    scale
	act   *actors
	gen   *core.Genesis
	b     *chainkit.Builder
	mainB *chainkit.Builder // the main builder (s.b is swapped to the second builder while a fork is generated)

	blocks      []*types.Block
	crits       []string
	dead        bool // a node died in logging.Crit: stop generating
	stopRun     bool // an oracle ended the run (what follows would depend on map iteration order)
	reportTaint bool // C06: report executions that hit a state database error (see taintCheck)

	panicked  *kit.BubblePanic // a panic of the code under test inside a stimulus (re-raised after clean-up)
	deadStops []func()         // Stop calls of nodes that died inside a stimulus (may block forever)

	quietCrit  bool // RunHistory (export.go): a logging.Crit ends the stimulus but is not reported by runSim
	leftoverOK bool // RunHistory (export.go): a node died in a panic the caller has reported; blocked goroutines may remain

	intents   map[common.Hash]*intent // what each submitted transaction asked for
	cbChanged map[common.Address]int  // validator -> block in which an update naming a new reward address was applied
	escrow    *big.Int                // Σ value detained by applied create/deposit/delegation-add transactions of the running period
	g         *genState
}

// do runs a stimulus on a helper goroutine, so that a simulated logging.Crit (which ends the
// calling goroutine with runtime.Goexit, hook H2) ends the helper, not the simulator.
// It reports whether f ran to completion. The caller must not be inside kit.Wait (f may call it).
func (s *sim) do(f func()) bool {
	type res struct {
		ok bool
		bp *kit.BubblePanic
	}
	done := make(chan res, 1)
	go func() {
		ok := false
		defer func() {
			// a genuine panic of the code under test travels to the simulator goroutine with
			// the stack it happened on (kit classifies panics by their first frame);
			// runtime.Goexit (simulated Crit) makes recover return nil
			if v := recover(); v != nil {
				done <- res{false, &kit.BubblePanic{Val: v, Stack: panicStack(string(debug.Stack()))}}
				return
			}
			done <- res{ok, nil}
		}()
		f()
		ok = true
	}()
	x := <-done
	if x.bp != nil {
		// the node the stimulus ran in is dead like after a Crit (its locks may be held): the
		// caller stops feeding it; the panic is re-raised at the end of the run
		if s.panicked == nil {
			s.panicked = x.bp
		}
		s.r.Logf("PANIC in a stimulus: %v", x.bp.Val)
		return false
	}
	return x.ok
}

// runSim executes body inside a bubble with a started builder. It is this package's variant of
// chainworld.Run: own genesis (validator operators are client accounts the simulator can sign
// for), scaled parameter table, logging.Crit ends the calling goroutine (Goexit) instead of
// panicking, and a bubble that ends with goroutines blocked inside a node that died in Crit is
// tolerated (the Crit itself is the reported violation).
func runSim(r *kit.Run, body func(s *sim)) {
	oldRand := crand.Reader
	crand.Reader = kit.NewStream(r.Seed, r.Index)
	sc := drawScale(r.C)
	restore := applyScale(sc)
	s := &sim{r: r, c: r.C, sc: sc, intents: map[common.Hash]*intent{}, escrow: new(big.Int), cbChanged: map[common.Address]int{}}
	defer func() {
		crand.Reader = oldRand
		logging.SimCrit = nil
		restore()
	}()
	err := kit.Bubble(func() {
		logging.SimCrit = func(msg string, ctx []interface{}) {
			line := fmt.Sprintf("%s %v", msg, fmtCtx(ctx))
			s.crits = append(s.crits, line)
			s.dead = true
			r.Logf("CRIT %s", line)
			if !s.quietCrit {
				r.Report("logging-crit", "the code under test called logging.Crit (process exit) at block %d: %s", len(s.blocks)+1, line)
			}
			runtime.Goexit()
		}
		s.act = newActors(r.C)
		s.gen = s.act.genesis()
		b, err := chainkit.NewBuilder(simdisk.NewNoLog(), s.gen, s.act.allValKeys(), core.DefaultTxPoolConfig)
		if err != nil {
			panic("stakechainworld: builder: " + err.Error())
		}
		s.b, s.mainB = b, b
		kit.Wait()
		defer func() {
			b.Stop(kit.Wait)
			for _, st := range s.deadStops {
				go st()
			}
			time.Sleep(10 * time.Second) // let tickers observe their quit channels
			kit.Wait()
		}()
		body(s)
		if s.panicked != nil {
			panic(s.panicked)
		}
	})
	if err != nil {
		if (len(s.crits) > 0 || s.leftoverOK) && strings.Contains(err.Error(), "deadlock") {
			return // goroutines of a node that died in Crit stay blocked on its locks
		}
		panic(fmt.Sprintf("stakechainworld: %v", err))
	}
}

func fmtCtx(ctx []interface{}) string {
	var sb strings.Builder
	for i := 0; i+1 < len(ctx); i += 2 {
		v := ctx[i+1]
		switch x := v.(type) {
		case *big.Int:
			v = x.String()
		case common.Address:
			v = x.Hex()
		}
		fmt.Fprintf(&sb, "%v=%v ", ctx[i], v)
	}
	return strings.TrimSpace(sb.String())
}

// nextBlock advances simulated time by at least a second (else importers file the block as a
// future block) and lets the builder's worker build, seal and write the next block from
// whatever its pool holds. A forge dead end (no proposer wins a seat: every chamber validator
// the simulator holds keys for is offline in the look-back state) is not a violation.
func (s *sim) nextBlock() (*types.Block, error) {
	time.Sleep(time.Second + time.Duration(s.c.Intn("block-gap-ms", 3000))*time.Millisecond)
	var blk *types.Block
	var err error
	if len(s.blocks) == 0 && !s.b.Miner.Mining() {
		blk, err = s.b.Start(kit.Wait)
	} else {
		blk, err = s.b.Build(kit.Wait)
	}
	if err != nil {
		return nil, err
	}
	s.blocks = append(s.blocks, blk)
	s.r.SimTime += time.Second
	s.r.Steps++
	return blk, nil
}

// panicStack cuts a stack taken inside a deferred recover down to the frames of the panicking
// code (everything below the runtime's panic frame), so that kit.PanicInRepo sees the frame in
// which the panic happened first, not this package's deferred function.
func panicStack(st string) string {
	if i := strings.Index(st, "\npanic("); i >= 0 {
		rest := st[i+1:]
		// drop the "panic(...)" line and its file line
		for k := 0; k < 2; k++ {
			if j := strings.IndexByte(rest, '\n'); j >= 0 {
				rest = rest[j+1:]
			}
		}
		return rest
	}
	return st
}
